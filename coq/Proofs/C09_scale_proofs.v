(* C09 -- the similarity side does not depend on the MAGNITUDE of the ratings: multiplying every rating by a
   non-zero constant changes no squared cosine, no threshold decision and no truncation (so the neighbours
   stored for an item, or found for a user, are those of the unscaled data). *)
From Coq Require Import ZArith QArith Qabs List Bool Arith Lia Lqa Setoid Morphisms.
From LK Require Import Lib.QLib Lib.SortPerm Model.C09_knn Proofs.C09_sim_proofs.
Import ListNotations.
Open Scope Q_scope.

Definition vscale (c : Q) (v : list Q) : list Q := map (Qmult c) v.
Definition veq (a b : list Q) : Prop := Forall2 Qeq a b.

Lemma dot_veq a a' b b' : veq a a' -> veq b b' -> dot a b == dot a' b'.
Proof.
  intros Ha. revert b b'. induction Ha as [|x x' a a' Hx Ha IH]; intros b b' Hb; [reflexivity|].
  destruct Hb as [|y y' b b' Hy Hb]; [reflexivity|]. cbn [dot]. rewrite Hx, Hy, (IH _ _ Hb). reflexivity.
Qed.

Lemma dot_vscale c a b : dot (vscale c a) (vscale c b) == c * c * dot a b.
Proof.
  revert b; induction a as [|x a IH]; intros [|y b]; cbn [vscale map dot]; try ring.
  fold (vscale c a) (vscale c b). rewrite IH. ring.
Qed.

Lemma present_scale c r : ser_present (map (option_map (Qmult c)) r) = map (Qmult c) (ser_present r).
Proof.
  unfold ser_present. induction r as [|[x|] r IH]; cbn [map flat_map option_map app]; [reflexivity| |exact IH].
  rewrite IH. reflexivity.
Qed.

Lemma Qsum_scale c l : Qsum (map (Qmult c) l) == c * Qsum l.
Proof. induction l as [|x l IH]; cbn [map Qsum]; [ring|rewrite IH; ring]. Qed.

Lemma row_mean_scale c r : row_mean (map (option_map (Qmult c)) r) == c * row_mean r.
Proof.
  unfold row_mean. rewrite present_scale. destruct (ser_present r) as [|x l]; cbn [map]; [ring|].
  change (c * x :: map (Qmult c) l) with (map (Qmult c) (x :: l)). rewrite Qsum_scale, map_length.
  assert (H : 0 < Qofnat (length (x :: l))) by (apply Qofnat_pos; cbn; lia).
  field. intro E. rewrite E in H. lra.
Qed.

Lemma centre_scale c r : veq (centre (map (option_map (Qmult c)) r)) (vscale c (centre r)).
Proof.
  unfold centre, vscale. pose proof (row_mean_scale c r) as Hm.
  set (m' := row_mean (map (option_map (Qmult c)) r)) in *. set (m := row_mean r) in *. clearbody m m'.
  induction r as [|[x|] r IH]; cbn [map option_map]; constructor; try exact IH.
  - rewrite Hm. ring.
  - ring.
Qed.

Lemma ones_scale c r : ones (map (option_map (Qmult c)) r) = ones r.
Proof. unfold ones. rewrite map_map. apply map_ext. intros [x|]; reflexivity. Qed.

Lemma prep_false_scale c R : prep false (rscale c R) = prep false R.
Proof. unfold prep, rscale. rewrite map_map. apply map_ext. intro r. apply ones_scale. Qed.

Lemma vrow_prep_scale c R i :
  veq (vrow (prep true (rscale c R)) i) (vscale c (vrow (prep true R) i)).
Proof.
  unfold vrow, prep, rscale. rewrite map_map.
  replace (nth i (map (fun r => centre (map (option_map (Qmult c)) r)) R) [])
    with (centre (map (option_map (Qmult c)) (nth i R [])))
    by (symmetry; exact (map_nth (fun r => centre (map (option_map (Qmult c)) r)) R [] i)).
  replace (nth i (map centre R) []) with (centre (nth i R [])) by (symmetry; exact (map_nth centre R [] i)).
  apply centre_scale.
Qed.

Lemma sdot_scale c R i j : sdot (prep true (rscale c R)) i j == c * c * sdot (prep true R) i j.
Proof.
  unfold sdot. rewrite (dot_veq _ _ _ _ (vrow_prep_scale c R i) (vrow_prep_scale c R j)). apply dot_vscale.
Qed.

Lemma sq_pos c : ~ c == 0 -> 0 < c * c.
Proof. intro H. destruct (Q_dec c 0) as [[L|G]|E]; [| |contradiction]; nra. Qed.

Lemma Qle_bool_scale k a b : 0 < k -> Qle_bool (k * a) (k * b) = Qle_bool a b.
Proof.
  intro Hk. apply eq_true_iff_eq. rewrite !Qle_bool_iff. apply Qmult_le_l. exact Hk.
Qed.

Lemma qualifies_scale c R min2 i j : ~ c == 0 ->
  qualifies (prep true (rscale c R)) min2 i j = qualifies (prep true R) min2 i j.
Proof.
  intro Hc. pose proof (sq_pos c Hc) as Hk. unfold qualifies, n2.
  set (k := c * c) in *.
  assert (Hkk : 0 < k * k) by nra.
  f_equal; [f_equal|].
  - rewrite (Qltb_compat 0 0 _ (k * sdot (prep true R) i j) (Qeq_refl 0) (sdot_scale c R i j)).
    unfold Qltb. f_equal. transitivity (Qle_bool (k * sdot (prep true R) i j) (k * 0)).
    + apply Qleb_compat; ring.
    + apply Qle_bool_scale, Hk.
  - rewrite (Qleb_compat _ (k * k * (min2 * (sdot (prep true R) i i * sdot (prep true R) j j)))
                         _ (k * k * (sdot (prep true R) i j * sdot (prep true R) i j))).
    + apply (Qle_bool_scale (k * k) _ _ Hkk).
    + rewrite !sdot_scale. fold k. ring.
    + rewrite !sdot_scale. fold k. ring.
Qed.

Lemma sq_scale c R i j : ~ c == 0 -> sq (prep true (rscale c R)) i j == sq (prep true R) i j.
Proof.
  intro Hc. unfold sq, n2. rewrite !sdot_scale.
  set (d := sdot (prep true R) i j). set (a := sdot (prep true R) i i). set (b := sdot (prep true R) j j).
  destruct (Qeq_dec (a * b) 0) as [Z|NZ].
  - unfold Qdiv. assert (Z' : c * c * a * (c * c * b) == 0) by (transitivity (c * c * (c * c) * (a * b)); [ring|rewrite Z; ring]).
    rewrite Z, Z'. change (/ 0) with 0. ring.
  - assert (~ a == 0) by (intro E; apply NZ; rewrite E; ring).
    assert (~ b == 0) by (intro E; apply NZ; rewrite E; ring).
    field. auto.
Qed.

Lemma insert_by_ext {A} (f g : A -> A -> bool) x l : (forall a b, f a b = g a b) -> insert_by f x l = insert_by g x l.
Proof. intro H. induction l as [|y l IH]; cbn [insert_by]; [reflexivity|]. rewrite H, IH. reflexivity. Qed.
Lemma isort_ext {A} (f g : A -> A -> bool) l : (forall a b, f a b = g a b) -> isort f l = isort g l.
Proof.
  intro H. unfold isort. induction l as [|x l IH]; cbn [fold_right]; [reflexivity|]. rewrite IH. apply insert_by_ext, H.
Qed.

Lemma similarity_scale_invariant_l : forall c R explicit min2 save i, ~ c == 0 ->
  sim_cols (prep explicit (rscale c R)) min2 save i = sim_cols (prep explicit R) min2 save i /\
  forall j, sq (prep explicit (rscale c R)) i j == sq (prep explicit R) i j.
Proof.
  intros c R [|] min2 save i Hc; [|rewrite prep_false_scale; split; [reflexivity|intro; reflexivity]].
  assert (Hc' : cands (prep true (rscale c R)) min2 i = cands (prep true R) min2 i).
  { unfold cands. replace (length (prep true (rscale c R))) with (length (prep true R))
      by (unfold prep, rscale; rewrite !map_length; reflexivity).
    apply filter_ext. intro j. apply qualifies_scale, Hc. }
  assert (Hd : forall a b, desc_sq (prep true (rscale c R)) i a b = desc_sq (prep true R) i a b).
  { intros a b. unfold desc_sq. apply Qleb_compat; apply sq_scale, Hc. }
  split; [|intro j; apply sq_scale, Hc].
  unfold sim_cols. rewrite Hc'. destruct save as [m|]; [|reflexivity].
  rewrite (isort_ext _ _ _ Hd). reflexivity.
Qed.
