(* C13 -- the compact JSON printer of the model is injective: a printed document determines its
   tree (token level: bracket structure; character level: lexical unambiguity for strings without
   double quotes and scalar tokens without structural characters). *)
From Coq Require Import String Ascii List Bool Arith Lia.
From LK Require Import Lib.StrDict Model.C13_json.
Import ListNotations.
Open Scope list_scope.

(* ---- induction principle for the nested type ---- *)
Section JsonInd.
  Variable P : json -> Prop.
  Hypothesis Htok : forall t, P (JTok t).
  Hypothesis Hstr : forall s, P (JStr s).
  Hypothesis Harr : forall l, Forall P l -> P (JArr l).
  Hypothesis Hobj : forall kv, Forall (fun p => P (snd p)) kv -> P (JObj kv).
  Fixpoint json_ind' (j : json) : P j :=
    match j with
    | JTok t => Htok t
    | JStr s => Hstr s
    | JArr l => Harr l ((fix go (l : list json) : Forall P l :=
                           match l with [] => Forall_nil _ | x :: r => Forall_cons _ (json_ind' x) (go r) end) l)
    | JObj kv => Hobj kv ((fix go (l : list (string * json)) : Forall (fun p => P (snd p)) l :=
                             match l with [] => Forall_nil _ | x :: r => Forall_cons _ (json_ind' (snd x)) (go r) end) kv)
    end.
End JsonInd.

(* ---- token level ---- *)
Definition opening (t : tok) : Prop :=
  match t with TLB | TLK | TS _ | TA _ => True | _ => False end.

Lemma ptoks_head j : exists t rest, ptoks j = t :: rest /\ opening t.
Proof. destruct j; cbn; eexists; eexists; split; try reflexivity; exact I. Qed.

Definition prefix_free {X} (pe : X -> list tok) (x : X) : Prop :=
  forall x' r r', pe x ++ r = pe x' ++ r' -> x = x' /\ r = r'.

Section Seq.
  Context {X : Type} (pe : X -> list tok) (closer : tok).
  Hypothesis closer_not_opening : ~ opening closer.
  Hypothesis closer_not_comma : closer <> TComma.
  Hypothesis heads : forall x, exists t rest, pe x = t :: rest /\ opening t.

  Lemma tail_inj : forall l l' r r', Forall (prefix_free pe) l ->
    flat_map (fun x => TComma :: pe x) l ++ closer :: r = flat_map (fun x => TComma :: pe x) l' ++ closer :: r' ->
    l = l' /\ r = r'.
  Proof.
    induction l as [|x l IH]; intros [|x' l'] r r' F E; cbn [flat_map app] in E.
    - injection E as <-. auto.
    - injection E as E _. congruence.
    - injection E as E _. congruence.
    - injection E as E. rewrite <- !app_assoc in E. inversion F as [|? ? Px Fl]; subst.
      destruct (Px _ _ _ E) as [<- E2]. destruct (IH _ _ _ Fl E2) as [<- <-]. auto.
  Qed.

  Lemma join_inj l l' r r' : Forall (prefix_free pe) l ->
    sep_join (map pe l) ++ closer :: r = sep_join (map pe l') ++ closer :: r' -> l = l' /\ r = r'.
  Proof.
    assert (FM : forall m, flat_map (fun q => TComma :: q) (map pe m) = flat_map (fun x => TComma :: pe x) m).
    { induction m as [|y m IHm]; cbn; [reflexivity|rewrite IHm; reflexivity]. }
    intros F E. destruct l as [|x l], l' as [|x' l']; cbn [map sep_join] in E.
    - cbn in E. injection E as <-. auto.
    - exfalso. destruct (heads x') as [t [rest [Ex Ot]]]. rewrite Ex in E. cbn in E. injection E as E _. subst t. tauto.
    - exfalso. destruct (heads x) as [t [rest [Ex Ot]]]. rewrite Ex in E. cbn in E. injection E as E _. subst t. tauto.
    - rewrite !FM, <- !app_assoc in E. inversion F as [|? ? Px Fl]; subst.
      destruct (Px _ _ _ E) as [<- E2]. destruct (tail_inj _ _ _ _ Fl E2) as [<- <-]. auto.
  Qed.
End Seq.

Theorem ptoks_prefix_free : forall j, prefix_free ptoks j.
Proof.
  induction j as [t|s|l IH|kv IH] using json_ind'; intros j' r r' E.
  - destruct j' as [t'|s'|l'|kv']; cbn in E; try discriminate. injection E as <- <-. auto.
  - destruct j' as [t'|s'|l'|kv']; cbn in E; try discriminate. injection E as <- <-. auto.
  - destruct j' as [t'|s'|l'|kv']; cbn [ptoks app] in E; try discriminate. injection E as E.
    rewrite <- !app_assoc in E. cbn [app] in E.
    destruct (join_inj ptoks TRK (fun f => f) ltac:(discriminate) ptoks_head l l' r r' IH E) as [<- <-]. auto.
  - destruct j' as [t'|s'|l'|kv']; cbn [ptoks app] in E; try discriminate. injection E as E.
    rewrite <- !app_assoc in E. cbn [app] in E.
    assert (Hh : forall p : string * json, exists t rest, (TS (fst p) :: TColon :: ptoks (snd p)) = t :: rest /\ opening t)
      by (intro p; eexists; eexists; split; [reflexivity|exact I]).
    assert (F : Forall (prefix_free (fun p : string * json => TS (fst p) :: TColon :: ptoks (snd p))) kv).
    { rewrite Forall_forall in *. intros [k v] Hin [k' v'] q q' Eq. cbn [fst snd app] in Eq.
      injection Eq as <- Eq. destruct (IH _ Hin _ _ _ Eq) as [Ev <-]. cbn in Ev. subst. auto. }
    destruct (join_inj _ TRB (fun f => f) ltac:(discriminate) Hh kv kv' r r' F E) as [<- <-]. auto.
Qed.

Corollary ptoks_inj j j' : ptoks j = ptoks j' -> j = j'.
Proof.
  intro E. apply (f_equal (fun l => l ++ [])) in E. destruct (ptoks_prefix_free j j' [] [] E). assumption.
Qed.

(* ---- character level ---- *)
Open Scope string_scope.
Definition dqc : ascii := ascii_of_nat 34.
Definition is_struct (c : ascii) : bool :=
  Ascii.eqb c "{" || Ascii.eqb c "}" || Ascii.eqb c "[" || Ascii.eqb c "]" || Ascii.eqb c "," || Ascii.eqb c ":" || Ascii.eqb c dqc.
Fixpoint all_plain (s : string) : bool :=
  match s with EmptyString => true | String c r => negb (is_struct c) && all_plain r end.
Fixpoint no_dq (s : string) : bool :=
  match s with EmptyString => true | String c r => negb (Ascii.eqb c dqc) && no_dq r end.

Definition tok_wf (t : tok) : bool :=
  match t with
  | TS s => no_dq s
  | TA a => all_plain a && negb (String.eqb a "")
  | _ => true
  end.
Definition is_atom (t : tok) : bool := match t with TA _ => true | _ => false end.
Fixpoint adj_ok (l : list tok) : bool :=
  match l with
  | [] => true
  | t :: r => negb (is_atom t && match r with t2 :: _ => is_atom t2 | [] => false end) && adj_ok r
  end.

(* a rendered continuation starts with a non-plain character or is empty, unless its first token is an atom *)
Definition stops (s : string) : Prop := match s with EmptyString => True | String c _ => is_struct c = true end.

Lemma append_assoc a b c : ((a ++ b) ++ c = a ++ (b ++ c))%string.
Proof. induction a as [|x a IH]; cbn; [reflexivity|rewrite IH; reflexivity]. Qed.

Lemma render_stops l : match l with t :: _ => is_atom t = false | [] => True end -> stops (render l).
Proof.
  destruct l as [|t r]; [intros _; exact I|]. intro Ht. destruct t; try discriminate; cbn; reflexivity.
Qed.

Lemma plain_prefix_unique : forall a a' rest rest',
  all_plain a = true -> all_plain a' = true -> stops rest -> stops rest' ->
  (a ++ rest = a' ++ rest')%string -> a = a' /\ rest = rest'.
Proof.
  induction a as [|c a IH]; intros [|c' a'] rest rest' Pa Pa' S S' E; cbn in E.
  - auto.
  - subst rest. cbn in S, Pa'. apply andb_true_iff in Pa'. destruct Pa' as [Pc _]. rewrite S in Pc. discriminate.
  - subst rest'. cbn in S', Pa. apply andb_true_iff in Pa. destruct Pa as [Pc _]. rewrite S' in Pc. discriminate.
  - injection E as <- E. cbn in Pa, Pa'. apply andb_true_iff in Pa, Pa'.
    destruct (IH a' rest rest' (proj2 Pa) (proj2 Pa') S S' E) as [<- <-]. auto.
Qed.

Lemma quoted_unique : forall s s' rest rest',
  no_dq s = true -> no_dq s' = true ->
  (s ++ String dqc rest = s' ++ String dqc rest')%string -> s = s' /\ rest = rest'.
Proof.
  induction s as [|c s IH]; intros [|c' s'] rest rest' N N' E; cbn in E.
  - injection E as <-. auto.
  - injection E as <- _. cbn in N'. try rewrite Ascii.eqb_refl in N'. discriminate.
  - injection E as -> _. cbn in N. try rewrite Ascii.eqb_refl in N. discriminate.
  - injection E as <- E. cbn in N, N'. apply andb_true_iff in N, N'.
    destruct (IH s' rest rest' (proj2 N) (proj2 N') E) as [<- <-]. auto.
Qed.

Lemma first_char_plain a : all_plain a = true -> a <> "" -> exists c r, a = String c r /\ is_struct c = false.
Proof.
  destruct a as [|c r]; [congruence|]. cbn. intros P _. apply andb_true_iff in P. exists c, r. split; [reflexivity|].
  destruct (is_struct c); [destruct P; discriminate|reflexivity].
Qed.

Theorem render_inj : forall l l',
  forallb tok_wf l = true -> forallb tok_wf l' = true -> adj_ok l = true -> adj_ok l' = true ->
  render l = render l' -> l = l'.
Proof.
  induction l as [|t l IH]; intros [|t' l'] W W' A A' E.
  - reflexivity.
  - exfalso. cbn in E, W'. apply andb_true_iff in W'. destruct W' as [Wt _].
    destruct t'; cbn in E; try discriminate.
    cbn in Wt. apply andb_true_iff in Wt. destruct Wt as [_ Wn]. destruct t; [discriminate|]. discriminate.
  - exfalso. cbn in E, W. apply andb_true_iff in W. destruct W as [Wt _].
    destruct t; cbn in E; try discriminate.
    cbn in Wt. apply andb_true_iff in Wt. destruct Wt as [_ Wn]. destruct t; [discriminate|]. discriminate.
  - cbn [forallb] in W, W'. apply andb_true_iff in W, W'. destruct W as [Wt Wl], W' as [Wt' Wl'].
    cbn [adj_ok] in A, A'. apply andb_true_iff in A, A'. destruct A as [At Al], A' as [At' Al'].
    cbn [render] in E.
    assert (Hplain_first : forall a, tok_wf (TA a) = true -> exists c r, a = String c r /\ is_struct c = false).
    { intros a Wa. cbn in Wa. apply andb_true_iff in Wa. destruct Wa as [P Ne]. apply first_char_plain; [exact P|].
      intro X. subst. discriminate. }
    assert (Hstop : forall (t0 : tok) (r0 : list tok),
               negb (is_atom t0 && match r0 with t2 :: _ => is_atom t2 | [] => false end) = true ->
               is_atom t0 = true -> stops (render r0)).
    { intros t0 r0 Ha Hi. rewrite Hi in Ha. cbn in Ha. apply render_stops. destruct r0 as [|t2 r2]; [exact I|].
      destruct (is_atom t2); [discriminate|reflexivity]. }
    destruct t, t'; cbn [render_tok] in E; cbn in E;
      try discriminate;
      try (injection E as E; f_equal; apply IH; assumption);
      try (exfalso; destruct (Hplain_first _ Wt') as [c [r [-> Hc]]]; cbn in E; injection E as <- _; cbn in Hc; discriminate);
      try (exfalso; destruct (Hplain_first _ Wt) as [c [r [-> Hc]]]; cbn in E; injection E as -> _; cbn in Hc; discriminate).
    + (* two string literals *)
      injection E as E. rewrite !append_assoc in E. cbn in E.
      destruct (quoted_unique _ _ _ _ Wt Wt' E) as [<- E2]. f_equal. apply IH; assumption.
    + (* two scalar tokens *)
      cbn in Wt, Wt'. apply andb_true_iff in Wt, Wt'.
      destruct (plain_prefix_unique _ _ _ _ (proj1 Wt) (proj1 Wt') (Hstop _ _ At eq_refl) (Hstop _ _ At' eq_refl) E) as [<- E2].
      f_equal. apply IH; assumption.
Qed.

(* ---- printed trees are lexically well-formed ---- *)
Open Scope list_scope.
Fixpoint jwf (j : json) : bool :=
  match j with
  | JTok t => all_plain t && negb (String.eqb t "")
  | JStr s => no_dq s
  | JArr l => forallb jwf l
  | JObj kv => forallb (fun p => no_dq (fst p) && jwf (snd p)) kv
  end.

Lemma forallb_app' {X} (f : X -> bool) a b : forallb f (a ++ b) = forallb f a && forallb f b.
Proof. induction a as [|x a IH]; cbn; [reflexivity|rewrite IH, andb_assoc; reflexivity]. Qed.

Lemma adj_ok_cons_nonatom t l : is_atom t = false -> adj_ok (t :: l) = adj_ok l.
Proof. intro Ht. cbn. rewrite Ht. reflexivity. Qed.
Lemma adj_ok_app_sep a t b : adj_ok a = true -> is_atom t = false -> adj_ok (t :: b) = true -> adj_ok (a ++ t :: b) = true.
Proof.
  intros Aa Ht Ab. induction a as [|x a IH]; [exact Ab|].
  cbn [app adj_ok] in *. apply andb_true_iff in Aa. destruct Aa as [A1 A2]. rewrite (IH A2), andb_true_r.
  destruct a as [|y a]; cbn [app]; [rewrite Ht, andb_false_r; reflexivity|exact A1].
Qed.

Lemma ptoks_wf : forall j, jwf j = true -> forallb tok_wf (ptoks j) = true /\ adj_ok (ptoks j) = true.
Proof.
  induction j as [t|s|l IH|kv IH] using json_ind'; intro W; cbn [ptoks jwf] in *.
  - cbn. rewrite W. auto.
  - cbn. rewrite W. auto.
  - assert (Hgen : forall m, Forall (fun j => jwf j = true -> forallb tok_wf (ptoks j) = true /\ adj_ok (ptoks j) = true) m ->
                    forallb jwf m = true ->
                    forallb tok_wf (flat_map (fun x => TComma :: ptoks x) m ++ [TRK]) = true /\
                    adj_ok (flat_map (fun x => TComma :: ptoks x) m ++ [TRK]) = true).
    { induction m as [|x m IHm]; intros F Wm; [cbn; auto|].
      cbn [forallb] in Wm. apply andb_true_iff in Wm. destruct Wm as [Wx Wm]. inversion F as [|? ? Fx Fm]; subst.
      destruct (Fx Wx) as [T1 A1]. destruct (IHm Fm Wm) as [T2 A2].
      cbn [flat_map app]. rewrite <- app_assoc. split.
      - cbn [forallb tok_wf]. rewrite forallb_app', T1, T2. reflexivity.
      - rewrite adj_ok_cons_nonatom by reflexivity.
        destruct (flat_map (fun x0 => TComma :: ptoks x0) m ++ [TRK]) as [|t2 r2] eqn:Er.
        + destruct m; discriminate.
        + assert (Ht2 : is_atom t2 = false) by (destruct m; cbn in Er; injection Er as <- _; reflexivity).
          apply adj_ok_app_sep; assumption. }
    destruct l as [|x l]; [cbn; auto|].
    cbn [forallb] in W. apply andb_true_iff in W. destruct W as [Wx Wl]. inversion IH as [|? ? Fx Fl]; subst.
    destruct (Fx Wx) as [T1 A1]. destruct (Hgen l Fl Wl) as [T2 A2].
    assert (FM : flat_map (fun q => TComma :: q) (map ptoks l) = flat_map (fun x => TComma :: ptoks x) l).
    { clear. induction l as [|y m IHm]; cbn; [reflexivity|rewrite IHm; reflexivity]. }
    cbn [map sep_join]. rewrite FM, <- app_assoc. split.
    + cbn [forallb tok_wf]. rewrite forallb_app', T1, T2. reflexivity.
    + rewrite adj_ok_cons_nonatom by reflexivity.
      destruct (flat_map (fun x0 => TComma :: ptoks x0) l ++ [TRK]) as [|t2 r2] eqn:Er.
      * destruct l; discriminate.
      * assert (Ht2 : is_atom t2 = false) by (destruct l; cbn in Er; injection Er as <- _; reflexivity).
        apply adj_ok_app_sep; assumption.
  - set (pe := fun p : string * json => TS (fst p) :: TColon :: ptoks (snd p)).
    assert (Hone : forall p, (jwf (snd p) = true -> forallb tok_wf (ptoks (snd p)) = true /\ adj_ok (ptoks (snd p)) = true) ->
                    no_dq (fst p) && jwf (snd p) = true ->
                    forall t2 r2, is_atom t2 = false -> forallb tok_wf (t2 :: r2) = true -> adj_ok (t2 :: r2) = true ->
                    forallb tok_wf (pe p ++ t2 :: r2) = true /\ adj_ok (pe p ++ t2 :: r2) = true).
    { intros [k v] Fp Wp t2 r2 Ht2 T2 A2. cbn [fst snd] in *. apply andb_true_iff in Wp. destruct Wp as [Wk Wv].
      destruct (Fp Wv) as [T1 A1]. unfold pe. cbn [fst snd app]. split.
      - cbn [forallb tok_wf]. rewrite Wk, forallb_app', T1, T2. reflexivity.
      - rewrite !adj_ok_cons_nonatom by reflexivity. apply adj_ok_app_sep; assumption. }
    assert (Hgen : forall m, Forall (fun p => jwf (snd p) = true -> forallb tok_wf (ptoks (snd p)) = true /\ adj_ok (ptoks (snd p)) = true) m ->
                    forallb (fun p => no_dq (fst p) && jwf (snd p)) m = true ->
                    forallb tok_wf (flat_map (fun x => TComma :: pe x) m ++ [TRB]) = true /\
                    adj_ok (flat_map (fun x => TComma :: pe x) m ++ [TRB]) = true).
    { induction m as [|x m IHm]; intros F Wm; [cbn; auto|].
      cbn [forallb] in Wm. apply andb_true_iff in Wm. destruct Wm as [Wx Wm]. inversion F as [|? ? Fx Fm]; subst.
      destruct (IHm Fm Wm) as [T2 A2]. cbn [flat_map app]. rewrite <- app_assoc.
      destruct (flat_map (fun x0 => TComma :: pe x0) m ++ [TRB]) as [|t2 r2] eqn:Er; [destruct m; discriminate|].
      assert (Ht2 : is_atom t2 = false) by (destruct m; cbn in Er; injection Er as <- _; reflexivity).
      destruct (Hone x Fx Wx t2 r2 Ht2 T2 A2) as [T A]. split.
      - cbn [forallb tok_wf]. exact T.
      - rewrite adj_ok_cons_nonatom by reflexivity. exact A. }
    destruct kv as [|x kv]; [cbn; auto|].
    cbn [forallb] in W. apply andb_true_iff in W. destruct W as [Wx Wl]. inversion IH as [|? ? Fx Fl]; subst.
    destruct (Hgen kv Fl Wl) as [T2 A2].
    assert (FM : flat_map (fun q => TComma :: q) (map pe kv) = flat_map (fun x => TComma :: pe x) kv).
    { clear. induction kv as [|y m IHm]; cbn; [reflexivity|rewrite IHm; reflexivity]. }
    cbn [map sep_join]. fold pe. rewrite FM, <- app_assoc.
    destruct (flat_map (fun x0 => TComma :: pe x0) kv ++ [TRB]) as [|t2 r2] eqn:Er; [destruct kv; discriminate|].
    assert (Ht2 : is_atom t2 = false) by (destruct kv; cbn in Er; injection Er as <- _; reflexivity).
    destruct (Hone x Fx Wx t2 r2 Ht2 T2 A2) as [T A]. split.
    + cbn [forallb tok_wf]. exact T.
    + rewrite adj_ok_cons_nonatom by reflexivity. exact A.
Qed.

Theorem print_json_inj j j' : jwf j = true -> jwf j' = true -> print_json j = print_json j' -> j = j'.
Proof.
  intros W W' E. apply ptoks_inj. destruct (ptoks_wf j W) as [T A]. destruct (ptoks_wf j' W') as [T' A'].
  apply render_inj; assumption.
Qed.
