(* C12 -- the abstract pool hands back f(x) for every task in task order, for every interleaving. *)
From Coq Require Import ZArith List Bool Arith Lia Permutation.
From LK Require Import Model.C12_shapes Gen.C12_shape Model.C12_pool.
Import ListNotations.

Section PoolProofs.
Context {A R : Type}.
Variable f : A -> res R.

Notation pst := (@pst A R).

Definition run_idx (l : list (nat * (nat * A))) : list nat := map (fun e => fst (snd e)) l.
Definition indices (s : pst) : list nat := map fst (p_queue s) ++ run_idx (p_run s) ++ map fst (p_done s).

(* every task is in exactly one place, under its own number, and a stored outcome is f of that task *)
Record inv (xs : list A) (s : pst) : Prop := {
  inv_q : forall i x, In (i, x) (p_queue s) -> nth_error xs i = Some x;
  inv_r : forall w i x, In (w, (i, x)) (p_run s) -> nth_error xs i = Some x;
  inv_d : forall i r, In (i, r) (p_done s) -> exists x, nth_error xs i = Some x /\ r = f x;
  inv_p : Permutation (indices s) (seq 0 (List.length xs))
}.

Lemma number_from_fst k (xs : list A) : map fst (number_from k xs) = seq k (List.length xs).
Proof. revert k. induction xs as [|x xs IH]; intro k; simpl; [reflexivity|]. rewrite IH. reflexivity. Qed.

Lemma number_from_in k (xs : list A) i x : In (i, x) (number_from k xs) -> k <= i /\ nth_error xs (i - k) = Some x.
Proof.
  revert k. induction xs as [|y xs IH]; intros k H; simpl in H; [contradiction|].
  destruct H as [H|H].
  - inversion H; subst. split; [lia|]. replace (i - i) with 0 by lia. reflexivity.
  - apply IH in H. destruct H as [L N]. split; [lia|].
    replace (i - k) with (S (i - S k)) by lia. exact N.
Qed.

Lemma inv_init xs : inv xs (pinit xs).
Proof.
  constructor; simpl.
  - intros i x H. apply number_from_in in H. destruct H as [_ H]. rewrite Nat.sub_0_r in H. exact H.
  - intros w i x [].
  - intros i r [].
  - unfold indices. simpl. rewrite app_nil_r, number_from_fst. apply Permutation_refl.
Qed.

Lemma wfind_in w (l : list (nat * (nat * A))) t : wfind w l = Some t -> In (w, t) l.
Proof.
  induction l as [|[v u] l IH]; simpl; intro H; [discriminate|].
  destruct (Nat.eqb v w) eqn:E.
  - apply Nat.eqb_eq in E. inversion H; subst. left. reflexivity.
  - right. apply IH, H.
Qed.

Lemma wremove_in w (l : list (nat * (nat * A))) e : In e (wremove w l) -> In e l.
Proof.
  induction l as [|[v u] l IH]; simpl; intro H; [contradiction|].
  destruct (Nat.eqb v w); [right; exact H|].
  destruct H as [H|H]; [left; exact H|right; apply IH, H].
Qed.

Lemma wremove_perm w (l : list (nat * (nat * A))) t : wfind w l = Some t -> Permutation (run_idx l) (fst t :: run_idx (wremove w l)).
Proof.
  induction l as [|[v u] l IH]; simpl; intro H; [discriminate|].
  destruct (Nat.eqb v w) eqn:E.
  - inversion H; subst. apply Permutation_refl.
  - simpl. eapply Permutation_trans; [apply perm_skip, IH, H|apply perm_swap].
Qed.

Lemma inv_step xs s e : inv xs s -> inv xs (pstep f s e).
Proof.
  intros [Q Rn D P]. destruct e as [w|w]; simpl.
  - destruct (wfind w (p_run s)) eqn:E; [constructor; assumption|].
    destruct (p_queue s) as [|[i x] q] eqn:Eq; [constructor; rewrite ?Eq; assumption|].
    constructor; simpl.
    + intros j y H. apply Q. right. exact H.
    + intros v j y [H|H]; [inversion H; subst; apply Q; left; reflexivity|apply (Rn v), H].
    + exact D.
    + unfold indices in *. simpl in *. rewrite ?Eq in P. simpl in P. eapply Permutation_trans; [|exact P].
      apply Permutation_sym, Permutation_middle.
  - destruct (wfind w (p_run s)) as [[i x]|] eqn:E; [|constructor; assumption].
    pose proof (wfind_in _ _ _ E) as Hin.
    constructor; simpl.
    + exact Q.
    + intros v j y H. apply (Rn v). apply (wremove_in w), H.
    + intros j r [H|H]; [inversion H; subst; exists x; split; [apply (Rn w), Hin|reflexivity]|apply D, H].
    + unfold indices in *. simpl. eapply Permutation_trans; [|exact P].
      apply Permutation_app_head.
      eapply Permutation_trans; [apply Permutation_sym, Permutation_middle|].
      rewrite app_comm_cons. apply Permutation_app_tail. apply Permutation_sym. apply (wremove_perm w _ (i, x) E).
Qed.

Lemma inv_run xs sched : inv xs (prun f xs sched).
Proof.
  unfold prun. assert (G : forall s, inv xs s -> inv xs (fold_left (pstep f) sched s)).
  { induction sched as [|e sched IH]; intros s H; simpl; [exact H|]. apply IH, inv_step, H. }
  apply G, inv_init.
Qed.

Lemma dfind_in i (l : list (nat * res R)) r : dfind i l = Some r -> In (i, r) l.
Proof.
  induction l as [|[j q] l IH]; simpl; intro H; [discriminate|].
  destruct (Nat.eqb j i) eqn:E; [apply Nat.eqb_eq in E; inversion H; subst; left; reflexivity|right; apply IH, H].
Qed.
Lemma dfind_some i (l : list (nat * res R)) : In i (map fst l) -> exists r, dfind i l = Some r.
Proof.
  induction l as [|[j q] l IH]; simpl; intro H; [contradiction|].
  destruct (Nat.eqb j i) eqn:E; [eexists; reflexivity|].
  destruct H as [H|H]; [subst; rewrite Nat.eqb_refl in E; discriminate|apply IH, H].
Qed.

(* a stored outcome is never that of another task *)
Lemma stored_is_f xs sched i r :
  dfind i (p_done (prun f xs sched)) = Some r -> exists x, nth_error xs i = Some x /\ r = f x.
Proof. intro H. apply (inv_d xs _ (inv_run xs sched)). apply dfind_in, H. Qed.

(* no task is stored, run or pending twice *)
Lemma no_duplicates xs sched : NoDup (indices (prun f xs sched)).
Proof.
  apply (Permutation_NoDup (l := seq 0 (List.length xs))); [apply Permutation_sym, (inv_p xs _ (inv_run xs sched))|apply seq_NoDup].
Qed.

(* what has been handed over is always f of a prefix of the tasks *)
Lemma available_prefix (g : nat -> option (res R)) : forall (xs : list A) k,
  (forall i x r, nth_error xs i = Some x -> g (k + i) = Some r -> r = f x) ->
  exists m, available (map g (seq k (List.length xs))) = map f (firstn m xs).
Proof.
  induction xs as [|x xs IH]; intros k H; simpl.
  - exists 0. reflexivity.
  - destruct (g k) as [r|] eqn:E.
    + destruct (IH (S k)) as [m Hm].
      { intros i y q Hy Hq. apply (H (S i) y q Hy). rewrite <- Hq. f_equal. lia. }
      exists (S m). simpl. rewrite Hm. f_equal. apply (H 0 x r eq_refl). rewrite Nat.add_0_r. exact E.
    + exists 0. reflexivity.
Qed.

Lemma pool_map_prefix xs sched : exists m, pool_map f xs sched = map f (firstn m xs).
Proof.
  unfold pool_map, by_number. apply available_prefix.
  intros i x r Hx Hr. simpl in Hr. destruct (stored_is_f xs sched i r Hr) as [y [Hy ->]]. congruence.
Qed.

Lemma available_all (l : list (res R)) : available (map Some l) = l.
Proof. induction l as [|x l IH]; simpl; [reflexivity|rewrite IH; reflexivity]. Qed.

(* when every task has been claimed and finished, the caller has received map f xs *)
Lemma scheduler_order_l xs sched : complete (prun f xs sched) = true -> pool_map f xs sched = map f xs.
Proof.
  intro C. pose proof (inv_run xs sched) as I. set (s := prun f xs sched) in *.
  unfold complete in C. destruct (p_queue s) eqn:Eq; [|discriminate]. destruct (p_run s) eqn:Er; [|discriminate].
  pose proof (inv_p xs s I) as P. unfold indices in P. rewrite Eq, Er in P. simpl in P.
  unfold pool_map, by_number. fold s.
  assert (G : map (fun i => dfind i (p_done s)) (seq 0 (List.length xs)) = map Some (map f xs)).
  { rewrite map_map.
    assert (H : forall k (ys : list A), (forall i y, nth_error ys i = Some y -> nth_error xs (k + i) = Some y) ->
                  map (fun i => dfind i (p_done s)) (seq k (List.length ys)) = map (fun y => Some (f y)) ys).
    { intros k ys. revert k. induction ys as [|y ys IH]; intros k H; simpl; [reflexivity|]. f_equal.
      - assert (Hin : In k (map fst (p_done s))).
        { apply (Permutation_in (l := seq 0 (List.length xs))); [apply Permutation_sym, P|].
          apply in_seq. split; [lia|]. simpl. apply nth_error_Some. rewrite <- (Nat.add_0_r k), (H 0 y eq_refl). discriminate. }
        destruct (dfind_some k _ Hin) as [r Hr]. rewrite Hr.
        destruct (inv_d xs s I k r (dfind_in _ _ _ Hr)) as [x [Hx ->]].
        rewrite <- (Nat.add_0_r k), (H 0 y eq_refl) in Hx. inversion Hx; subst. reflexivity.
      - apply IH. intros i z Hz. replace (S k + i) with (k + S i) by lia. apply H. exact Hz. }
    apply (H 0 xs). intros i y Hy. exact Hy. }
  rewrite G. apply available_all.
Qed.

(* every schedule that lets each of n workers run a task to its end and claim the next is complete;
   the simplest such schedule, used to show the hypothesis is satisfiable: one worker does everything *)
Fixpoint serial (n : nat) : list ev := match n with 0 => [] | S m => Claim 0 :: Finish 0 :: serial m end.

Lemma serial_complete xs : complete (prun f xs (serial (List.length xs))) = true.
Proof.
  unfold prun, pinit.
  assert (G : forall (q : list (nat * A)) d, complete (fold_left (pstep f) (serial (List.length q)) (mkP q [] d)) = true).
  { induction q as [|[i x] q IH]; intro d; simpl; [reflexivity|]. apply IH. }
  replace (List.length xs) with (List.length (number_from 0 xs)); [apply G|].
  rewrite <- (map_length fst), number_from_fst, seq_length. reflexivity.
Qed.

(* the invoker's map, for both shapes *)
Lemma invoker_map_l n_jobs xs sched :
  (n_jobs <> 1 -> complete (prun f xs sched) = true) -> invoker_map f n_jobs xs sched = map f xs.
Proof.
  intro H. unfold invoker_map. destruct (Nat.eqb n_jobs 1) eqn:E.
  - reflexivity.
  - apply Nat.eqb_neq in E. simpl. apply scheduler_order_l, H, E.
Qed.

End PoolProofs.

(* ---- failures ----------------------------------------------------------------------------------------- *)

Definition ok_value {R} (d : R) (r : res R) : R := match r with Ok v => v | Err _ => d end.
Definition is_ok {R} (r : res R) : bool := match r with Ok _ => true | Err _ => false end.

Lemma consume_all_ok {A R} (f : A -> res R) (d : R) xs :
  (forall x, In x xs -> is_ok (f x) = true) -> consume (map f xs) = (map (fun x => ok_value d (f x)) xs, None).
Proof.
  induction xs as [|x xs IH]; intro H; simpl; [reflexivity|].
  pose proof (H x (or_introl eq_refl)) as Hx. destruct (f x) as [v|e] eqn:E; [|discriminate].
  rewrite IH by (intros y Hy; apply H; right; exact Hy). reflexivity.
Qed.

(* the first failing task's error reaches the caller, after exactly the results of the tasks before it *)
Lemma consume_first_error {A R} (f : A -> res R) (d : R) pre x post e :
  (forall y, In y pre -> is_ok (f y) = true) -> f x = Err e ->
  consume (map f (pre ++ x :: post)) = (map (fun y => ok_value d (f y)) pre, Some e).
Proof.
  intros H E. induction pre as [|y pre IH]; simpl.
  - rewrite E. reflexivity.
  - pose proof (H y (or_introl eq_refl)) as Hy. destruct (f y) as [v|e'] eqn:Ey; [|discriminate].
    rewrite IH by (intros z Hz; apply H; right; exact Hz). reflexivity.
Qed.

Lemma consume_none_all_ok {R} (l : list (res R)) vs : consume l = (vs, None) -> l = map Ok vs.
Proof.
  revert vs. induction l as [|[v|e] l IH]; intros vs H; simpl in H.
  - inversion H. reflexivity.
  - destruct (consume l) as [ws e] eqn:E. inversion H; subst. simpl. f_equal. apply IH. reflexivity.
  - discriminate.
Qed.
