(* C04 -- whatever representation a list has and whatever round trips it went through, a scorer resolves the
   numbers of its IDENTIFIERS in the scorer's own vocabulary (proofs for Model/C04_repr.v). *)
From Coq Require Import ZArith List Bool Lia.
From LK Require Import Lib.QLib Model.C04_scatter Model.C04_repr.
Import ListNotations.

(* a list as the public constructors make it: it identifies its items; numbers stored next to a vocabulary are the
   numbers of the identifiers in THAT vocabulary (and in range when there are no identifiers); numbers stored without
   a vocabulary are unconstrained -- nothing says what they number *)
Definition wf (il : ilist) : Prop :=
  match il_vocab il with
  | Some v => NoDup (v_keys v) /\
      match il_ids il, il_nums il with
      | Some ids, Some ns => ns = map (number (v_keys v)) ids
      | None, Some ns => exists ids, vocab_ids v ns = Some ids
      | Some _, None => True
      | None, None => False
      end
  | None => il_ids il <> None
  end.
(* tags name objects: a vocabulary with the scorer's tag IS the scorer's vocabulary *)
Definition tags_name_objects (v : vocabulary) (il : ilist) : Prop :=
  forall w, il_vocab il = Some w -> v_tag w = v_tag v -> w = v.

Lemma number_from_nth keys : forall n k i, NoDup keys -> nth_error keys k = Some i -> number_from n keys i = Some (n + k)%nat.
Proof.
  induction keys as [|j r IH]; intros n k i ND E; [destruct k; discriminate|].
  destruct k as [|k]; cbn [nth_error] in E; cbn [number_from].
  - injection E as ->. rewrite Z.eqb_refl. f_equal. lia.
  - inversion ND as [|? ? NI ND']; subst.
    destruct (Z.eqb_spec i j) as [->|Ne]; [exfalso; apply NI; eapply nth_error_In; exact E|].
    rewrite (IH (S n) k i ND' E). f_equal. lia.
Qed.

Lemma vocab_ids_numbers v : NoDup (v_keys v) -> forall ns ids, vocab_ids v ns = Some ids -> map (number (v_keys v)) ids = ns.
Proof.
  intros ND. unfold vocab_ids. induction ns as [|o r IH]; intros ids E; cbn [map opt_all] in E.
  - injection E as <-. reflexivity.
  - destruct o as [k|]; [|discriminate].
    destruct (nth_error (v_keys v) k) as [i|] eqn:N; [|discriminate].
    destruct (opt_all _) as [xs|] eqn:R; [|discriminate]. injection E as <-.
    cbn [map]. rewrite (IH xs eq_refl). unfold number. rewrite (number_from_nth _ 0 k i ND N). reflexivity.
Qed.

Definition good (v : vocabulary) (ids : list Z) (il : ilist) : Prop :=
  wf il /\ tags_name_objects v il /\ ids_of il = Some ids.

Lemma own_numbers_good v ids il : wf il -> ids_of il = Some ids -> il_vocab il = Some v ->
  own_numbers il = Some (map (number (v_keys v)) ids).
Proof.
  unfold wf, ids_of, own_numbers. destruct il as [oi on ov]; cbn. intros W I ->. destruct W as [ND W].
  destruct oi as [l|], on as [ns|]; try tauto.
  - injection I as ->. rewrite W. reflexivity.
  - injection I as ->. reflexivity.
  - rewrite (vocab_ids_numbers v ND ns ids I). reflexivity.
Qed.

Lemma numbers_in_good v ids il : good v ids il -> numbers_in ThroughIds v il = Some (map (number (v_keys v)) ids).
Proof.
  intros (W & T & I). unfold numbers_in.
  destruct (same_vocab v (il_vocab il)) eqn:S.
  - unfold same_vocab in S. destruct (il_vocab il) as [w|] eqn:V; [|discriminate].
    apply Nat.eqb_eq in S. assert (w = v) as -> by (apply T; [exact V|symmetry; exact S]).
    apply own_numbers_good; assumption.
  - rewrite I. reflexivity.
Qed.

Lemma good_novocab v ids on : good v ids {| il_ids := Some ids; il_nums := on; il_vocab := None |}.
Proof. unfold good, wf, tags_name_objects, ids_of. cbn. split; [discriminate|split; [discriminate|reflexivity]]. Qed.

Lemma step_good v ids s il : good v ids il -> good v ids (step1 s il).
Proof.
  intros (W & T & I). destruct s as [[|]|t].
  - (* ids() *) unfold good, step1, warm1, wf, tags_name_objects, ids_of in *. destruct il as [oi on ov]; cbn in *.
    rewrite I. cbn. split; [|split; [exact T|reflexivity]].
    destruct ov as [w|]; [|discriminate]. destruct W as [ND W]. split; [exact ND|].
    destruct oi as [l|], on as [ns|]; try tauto.
    + injection I as ->. exact W.
    + symmetry. apply vocab_ids_numbers; assumption.
  - (* numbers() *) unfold good, step1, warm1, wf, tags_name_objects, ids_of, own_numbers in *. destruct il as [oi on ov]; cbn in *.
    destruct ov as [w|], oi as [l|], on as [ns|]; cbn; try tauto; try (split; [exact W|split; [exact T|exact I]]).
  - destruct t; cbn [step1 transport1]; try (split; [exact W|split; [exact T|exact I]]);
      rewrite I; apply good_novocab.
Qed.

Lemma travelled_good v ids steps : forall il, good v ids il -> good v ids (travelled steps il).
Proof.
  unfold travelled. induction steps as [|s r IH]; intros il G; cbn [fold_left]; [exact G|].
  apply IH. apply step_good. exact G.
Qed.

(* the statement: the numbers a scorer obtains are those of the list's identifiers in the scorer's vocabulary *)
Theorem any_representation_resolves_ids_l v il ids steps :
  wf il -> tags_name_objects v il -> ids_of il = Some ids ->
  numbers_in ThroughIds v (travelled steps il) = Some (map (number (v_keys v)) ids) /\
  ids_of (travelled steps il) = Some ids.
Proof.
  intros W T I. assert (G : good v ids (travelled steps il)) by (apply travelled_good; repeat split; assumption).
  split; [apply numbers_in_good; exact G|apply G].
Qed.

(* ... which is what the mask/scatter mechanism of Model/C04_scatter.v starts from *)
Corollary scorer_numbers_are_entry_numbers_l {F} v il steps (items : list (entry F)) :
  wf il -> tags_name_objects v il -> ids_of il = Some (map fst items) ->
  numbers_in ThroughIds v (travelled steps il) = Some (numbers (v_keys v) items).
Proof.
  intros W T I. destruct (any_representation_resolves_ids_l v il _ steps W T I) as [E _]. rewrite E.
  unfold numbers. rewrite map_map. reflexivity.
Qed.

Lemma nums_eqb_refl l : nums_eqb l l = true.
Proof.
  unfold nums_eqb. induction l as [|[k|] l IH]; cbn [all2]; [reflexivity| |exact IH].
  rewrite Nat.eqb_refl. exact IH.
Qed.

Lemma nums_eqb_eq a : forall b, nums_eqb a b = true -> a = b.
Proof.
  unfold nums_eqb. induction a as [|x a IH]; intros [|y b] H; cbn [all2] in H; try discriminate; [reflexivity|].
  apply andb_true_iff in H. destruct H as [H1 H2]. rewrite (IH b H2).
  destruct x as [p|], y as [q|]; try discriminate; [|reflexivity]. apply Nat.eqb_eq in H1. subst. reflexivity.
Qed.

(* the check of the correspondence runs: inhabited by the model, and sound *)
Theorem resolves_ok_spec_l v il ids steps observed :
  wf il -> tags_name_objects v il -> ids_of il = Some ids ->
  (resolves_ok ThroughIds v il steps observed = true <-> observed = map (number (v_keys v)) ids).
Proof.
  intros W T I. unfold resolves_ok. destruct (any_representation_resolves_ids_l v il ids steps W T I) as [E _]. rewrite E.
  split; [intro H; symmetry; apply nums_eqb_eq; exact H|intros ->; apply nums_eqb_refl].
Qed.
