(* C07 -- lemmas.  The generated definitions (Gen/C07_agg.v) are reasoned about here, so these
   proofs are re-checked against whatever the source says on every run. *)
From Coq Require Import ZArith QArith Qabs List Bool Lia Lqa Setoid.
From LK Require Import Lib.QLib Gen.C07_agg Model.C07_metrics.
Import ListNotations.
Open Scope Q_scope.

(* pairs of an aligned join that have both values *)
Definition both_of (j : list (option Q * option Q)) : list (Q * Q) :=
  flat_map (fun pt => match pt with (Some p, Some t) => [(p, t)] | _ => [] end) j.
Definition aligned_of (j : list (option Q * option Q)) : series * series := (map fst j, map snd j).

Lemma both_of_app a b : both_of (a ++ b) = both_of a ++ both_of b.
Proof. unfold both_of. apply flat_map_app. Qed.

Lemma both_join preds truth : both_of (join preds truth) = both preds truth.
Proof.
  unfold join. rewrite both_of_app.
  assert (E : forall l : ilist, both_of (map (fun t => (@None Q, snd t)) l) = []).
  { induction l as [|x l IH]; simpl; auto. }
  rewrite E, app_nil_r. unfold both.
  induction preds as [|[i s] preds IH]; simpl; [reflexivity|].
  rewrite IH. destruct s as [s|]; [destruct (value_of i truth)|]; reflexivity.
Qed.

Lemma present_sub j :
  ser_present (ser_sub (map fst j) (map snd j)) = map (fun pr => fst pr - snd pr) (both_of j).
Proof.
  induction j as [|[[p|] [t|]] j IH]; simpl; auto.
  unfold ser_sub in *. simpl. f_equal. exact IH.
Qed.
Lemma present_mul_self e : ser_present (ser_mul e e) = map (fun x => x * x) (ser_present e).
Proof.
  unfold ser_mul. induction e as [|[x|] e IH]; simpl; auto. f_equal. exact IH.
Qed.
Lemma present_abs e : ser_present (ser_abs e) = map Qabs (ser_present e).
Proof.
  unfold ser_abs. induction e as [|[x|] e IH]; simpl; auto. f_equal. exact IH.
Qed.

Lemma map_sqerr l : map (fun x => x * x) (map (fun pr : Q * Q => fst pr - snd pr) l) = map sqerr l.
Proof. rewrite map_map. reflexivity. Qed.
Lemma map_abserr l : map Qabs (map (fun pr : Q * Q => fst pr - snd pr) l) = map abserr l.
Proof. rewrite map_map. reflexivity. Qed.

Lemma Qltb_0_ofnat n : Qltb (0 # 1) (Qofnat n) = match n with O => false | S _ => true end.
Proof.
  destruct n.
  - reflexivity.
  - apply Qltb_lt. apply (Qofnat_pos (S n)). lia.
Qed.

(* ---- the four generated functions, against the definition over both-present pairs ---- *)
Lemma rmse_measure_list_def j : rmse_measure_list (aligned_of j) = rmse_def (both_of j).
Proof.
  unfold rmse_measure_list, aligned_of, rmse_def, res_sqrt_opt, ser_mean.
  rewrite present_mul_self, present_sub, map_sqerr.
  destruct (both_of j) as [|x l]; simpl; [reflexivity|].
  rewrite map_length. reflexivity.
Qed.
Lemma mae_measure_list_def j : mae_measure_list (aligned_of j) = mae_def (both_of j).
Proof.
  unfold mae_measure_list, aligned_of, mae_def, res_of_opt, ser_mean.
  rewrite present_abs, present_sub, map_abserr.
  destruct (both_of j) as [|x l]; simpl; [reflexivity|].
  rewrite map_length. reflexivity.
Qed.
Lemma rmse_list_data_def j :
  rmse_compute_list_data (aligned_of j) = (Qsum (map sqerr (both_of j)), Qofnat (length (both_of j))).
Proof.
  unfold rmse_compute_list_data, aligned_of, ser_sum, ser_count.
  rewrite present_mul_self, present_sub, map_sqerr, map_length. reflexivity.
Qed.
Lemma mae_list_data_def j :
  mae_compute_list_data (aligned_of j) = (Qsum (map abserr (both_of j)), Qofnat (length (both_of j))).
Proof.
  unfold mae_compute_list_data, aligned_of, ser_sum, ser_count.
  rewrite present_abs, !present_sub, map_abserr, map_length. reflexivity.
Qed.
Lemma rmse_extract_def j :
  rmse_extract_list_metric (rmse_compute_list_data (aligned_of j)) = rmse_measure_list (aligned_of j).
Proof.
  rewrite rmse_list_data_def, rmse_measure_list_def. unfold rmse_extract_list_metric, rmse_def.
  rewrite Qltb_0_ofnat. destruct (both_of j); reflexivity.
Qed.
Lemma mae_extract_def j :
  mae_extract_list_metric (mae_compute_list_data (aligned_of j)) = mae_measure_list (aligned_of j).
Proof.
  rewrite mae_list_data_def, mae_measure_list_def. unfold mae_extract_list_metric, mae_def.
  rewrite Qltb_0_ofnat. destruct (both_of j); reflexivity.
Qed.

(* ---- pooled value ---- *)
Definition add2 (st el : Q * Q) : Q * Q := (fst st + fst el, snd st + snd el).
Lemma fold_add2 (vs : list (Q * Q)) (a b : Q) :
  let r := fold_left (fun st el => let '(x, y) := st in let '(t, n) := el in
                                   let x := Qplus x t in let y := Qplus y n in (x, y)) vs (a, b) in
  fst r == a + Qsum (map fst vs) /\ snd r == b + Qsum (map snd vs).
Proof.
  revert a b. induction vs as [|[t n] vs IH]; intros a b; simpl.
  - split; ring.
  - destruct (IH (a + t) (b + n)) as [H1 H2]. simpl in H1, H2. split.
    + rewrite H1. ring.
    + rewrite H2. ring.
Qed.

Lemma Qsum_concat_sq (js : list (list (option Q * option Q))) (f : Q * Q -> Q) :
  Qsum (map (fun j => Qsum (map f (both_of j))) js) == Qsum (map f (concat (map both_of js))).
Proof.
  induction js as [|j js IH]; simpl; [reflexivity|].
  rewrite map_app, Qsum_app, IH. reflexivity.
Qed.
Lemma Qsum_concat_len (js : list (list (option Q * option Q))) :
  Qsum (map (fun j => Qofnat (length (both_of j))) js) == Qofnat (length (concat (map both_of js))).
Proof.
  induction js as [|j js IH]; simpl; [reflexivity|].
  rewrite app_length, Qofnat_add, IH. reflexivity.
Qed.

Lemma Qltb_comp a b c d : a == c -> b == d -> Qltb a b = Qltb c d.
Proof.
  intros H1 H2. unfold Qltb. f_equal.
  destruct (Qle_bool b a) eqn:E1, (Qle_bool d c) eqn:E2; auto.
  - apply Qle_bool_iff in E1. assert (d <= c) by (rewrite <- H1, <- H2; exact E1).
    apply Qle_bool_iff in H. congruence.
  - apply Qle_bool_iff in E2. assert (b <= a) by (rewrite H1, H2; exact E2).
    apply Qle_bool_iff in H. congruence.
Qed.

Lemma rmse_global_pooled (js : list (list (option Q * option Q))) :
  res_eq (rmse_global_aggregate (map (fun j => rmse_compute_list_data (aligned_of j)) js))
         (rmse_def (concat (map both_of js))).
Proof.
  unfold rmse_global_aggregate.
  pose proof (fold_add2 (map (fun j => rmse_compute_list_data (aligned_of j)) js) (0 # 1) (0 # 1)) as H.
  cbv zeta in H. destruct H as [H1 H2].
  match goal with |- context [fold_left ?f ?l ?i] => destruct (fold_left f l i) as [tot n] end.
  cbn [fst snd] in H1, H2.
  rewrite map_map in H1, H2.
  assert (E1 : tot == Qsum (map sqerr (concat (map both_of js)))).
  { rewrite H1, <- Qsum_concat_sq. rewrite Qplus_0_l. apply eq_subrelation; [typeclasses eauto|].
    f_equal. apply map_ext. intro j. rewrite rmse_list_data_def. reflexivity. }
  assert (E2 : n == Qofnat (length (concat (map both_of js)))).
  { rewrite H2, <- Qsum_concat_len. rewrite Qplus_0_l. apply eq_subrelation; [typeclasses eauto|].
    f_equal. apply map_ext. intro j. rewrite rmse_list_data_def. reflexivity. }
  rewrite (Qltb_comp (0 # 1) n (0 # 1) _ (Qeq_refl _) E2), Qltb_0_ofnat.
  unfold rmse_def. destruct (concat (map both_of js)) as [|x l] eqn:E; simpl; [exact I|].
  rewrite E1, E2. reflexivity.
Qed.

Lemma mae_global_pooled (js : list (list (option Q * option Q))) :
  res_eq (mae_global_aggregate (map (fun j => mae_compute_list_data (aligned_of j)) js))
         (mae_def (concat (map both_of js))).
Proof.
  unfold mae_global_aggregate.
  pose proof (fold_add2 (map (fun j => mae_compute_list_data (aligned_of j)) js) (0 # 1) (0 # 1)) as H.
  cbv zeta in H. destruct H as [H1 H2].
  match goal with |- context [fold_left ?f ?l ?i] => destruct (fold_left f l i) as [tot n] end.
  cbn [fst snd] in H1, H2.
  rewrite map_map in H1, H2.
  assert (E1 : tot == Qsum (map abserr (concat (map both_of js)))).
  { rewrite H1, <- Qsum_concat_sq. rewrite Qplus_0_l. apply eq_subrelation; [typeclasses eauto|].
    f_equal. apply map_ext. intro j. rewrite mae_list_data_def. reflexivity. }
  assert (E2 : n == Qofnat (length (concat (map both_of js)))).
  { rewrite H2, <- Qsum_concat_len. rewrite Qplus_0_l. apply eq_subrelation; [typeclasses eauto|].
    f_equal. apply map_ext. intro j. rewrite mae_list_data_def. reflexivity. }
  rewrite (Qltb_comp (0 # 1) n (0 # 1) _ (Qeq_refl _) E2), Qltb_0_ofnat.
  unfold mae_def. destruct (concat (map both_of js)) as [|x l] eqn:E; simpl; [exact I|].
  rewrite E1, E2. reflexivity.
Qed.

(* ---- the measurement loop ---- *)
Definition opt_res_eq (a b : option res) : Prop :=
  match a, b with Some x, Some y => res_eq x y | None, None => True | _, _ => False end.

(* a listwise metric is coherent when the value the loop stores is the metric's own value *)
Definition coherent (m : metric) : Prop :=
  forall o t, m_listwise m = true -> opt_res_eq (option_map fst (cell m o t)) (m_measure_list m o t).

Lemma align_some ms mt p t al : align ms mt p t = Some al -> al = aligned_of (join p t).
Proof.
  unfold align. destruct (_ || _); [discriminate|]. intro H. injection H as <-. reflexivity.
Qed.

Lemma coherent_pred ml cd ex ga ms mt d :
  (forall j, ex (cd (aligned_of j)) = ml (aligned_of j)) ->
  coherent (pred_metric ml cd ex ga ms mt d).
Proof.
  intros E o t _. unfold cell, pred_metric. cbn [m_decomposed m_compute m_extract m_listwise m_measure_list].
  destruct (align ms mt o t) as [al|] eqn:A; cbn [option_map fst]; [|exact I].
  apply align_some in A. subst al. rewrite E. apply res_eq_refl.
Qed.
Lemma coherent_rmse ms mt d : coherent (rmse_metric ms mt d).
Proof. apply coherent_pred. exact rmse_extract_def. Qed.
Lemma coherent_mae ms mt d : coherent (mae_metric ms mt d).
Proof. apply coherent_pred. exact mae_extract_def. Qed.
Lemma coherent_not_decomposed m : m_decomposed m = false -> coherent m.
Proof.
  intros D o t _. unfold cell. rewrite D. destruct (m_measure_list m o t); cbn; [apply res_eq_refl|exact I].
Qed.

Lemma sequence_length {A} (l : list (option A)) l' : sequence l = Some l' -> length l' = length l.
Proof.
  revert l'. induction l as [|[x|] l IH]; intros l' H; simpl in H; try discriminate.
  - injection H as <-. reflexivity.
  - destruct (sequence l) as [r|]; [|discriminate]. injection H as <-. simpl. f_equal. apply IH. reflexivity.
Qed.
Lemma sequence_nth {A} (l : list (option A)) l' i x :
  sequence l = Some l' -> nth_error l i = Some x -> exists y, x = Some y /\ nth_error l' i = Some y.
Proof.
  revert l' i. induction l as [|[a|] l IH]; intros l' i H N; simpl in H; try discriminate.
  - destruct i; discriminate.
  - destruct (sequence l) as [r|] eqn:E; [|discriminate]. injection H as <-.
    destruct i as [|i]; simpl in *.
    + injection N as <-. eauto.
    + eapply IH; eauto.
Qed.
Lemma combine_nth_error {A B} (a : list A) (b : list B) i x y :
  nth_error a i = Some x -> nth_error b i = Some y -> nth_error (combine a b) i = Some (x, y).
Proof.
  revert b i. induction a as [|a0 a IH]; intros b i Ha Hb; destruct i, b; simpl in *; try discriminate.
  - congruence.
  - apply IH; assumption.
Qed.

Lemma measure_table ofs tfs ms outputs test a :
  measure ofs tfs ms outputs test = OK a ->
  length (a_table a) = length outputs /\
  a_defaults a = map m_default (filter in_table ms) /\
  forall i key o, nth_error outputs i = Some (key, o) ->
    exists row, nth_error (a_table a) i = Some row /\
      match lookup_projected ofs tfs key test with
      | None => False
      | Some None => row = map (fun _ => RNone) (filter in_table ms)
      | Some (Some t) =>
          length row = length (filter in_table ms) /\
          forall k m, nth_error (filter in_table ms) k = Some m ->
            exists v, nth_error row k = Some v /\ option_map fst (cell m o t) = Some v
      end.
Proof.
  unfold measure.
  destruct (sequence (map (fun e => lookup_projected ofs tfs (fst e) test) outputs)) as [ts|] eqn:E1; [|discriminate].
  destruct (sequence (map (fun ot => row ms (snd (fst ot)) (snd ot)) (combine outputs ts))) as [rows|] eqn:E2; [|discriminate].
  intro H. injection H as <-. cbn [a_table a_defaults].
  pose proof (sequence_length _ _ E1) as L1. rewrite map_length in L1.
  pose proof (sequence_length _ _ E2) as L2. rewrite map_length, combine_length, L1, Nat.min_id in L2.
  split; [rewrite map_length; exact L2|]. split; [reflexivity|].
  intros i key o N.
  assert (N1 : nth_error (map (fun e => lookup_projected ofs tfs (fst e) test) outputs) i
               = Some (lookup_projected ofs tfs key test)).
  { erewrite map_nth_error; [|exact N]. reflexivity. }
  destruct (sequence_nth _ _ _ _ E1 N1) as [tl [Htl Nts]].
  pose proof (combine_nth_error _ _ _ _ _ N Nts) as Nc.
  assert (N2 : nth_error (map (fun ot => row ms (snd (fst ot)) (snd ot)) (combine outputs ts)) i
               = Some (row ms o tl)).
  { erewrite map_nth_error; [|exact Nc]. reflexivity. }
  destruct (sequence_nth _ _ _ _ E2 N2) as [r [Hr Nr]].
  exists (map fst r). split; [erewrite map_nth_error; [reflexivity|exact Nr]|].
  rewrite Htl. destruct tl as [t|]; unfold row in Hr.
  - pose proof (sequence_length _ _ Hr) as L3. rewrite map_length in L3.
    split; [rewrite map_length; exact L3|].
    intros k m Nk.
    assert (N3 : nth_error (map (fun m => cell m o t) (filter in_table ms)) k = Some (cell m o t)).
    { erewrite map_nth_error; [|exact Nk]. reflexivity. }
    destruct (sequence_nth _ _ _ _ Hr N3) as [c [Hc Ncell]].
    exists (fst c). split; [erewrite map_nth_error; [reflexivity|exact Ncell]|].
    rewrite Hc. reflexivity.
  - injection Hr as <-. rewrite map_map. reflexivity.
Qed.

(* failure of the loop is exactly failure of some lookup or some metric on some list *)
Lemma sequence_none {A} (l : list (option A)) : sequence l = None <-> In None l.
Proof.
  induction l as [|[x|] l IH]; simpl.
  - split; [discriminate|tauto].
  - destruct (sequence l); simpl; split; intro H; try discriminate.
    + destruct H as [H|H]; [discriminate|]. apply IH in H. discriminate.
    + right. apply IH. reflexivity.
    + reflexivity.
  - split; auto.
Qed.

(* ---- defaults ---- *)
Lemma list_metrics_raw a : list_metrics_of a false = a_table a.
Proof. reflexivity. Qed.
Lemma list_metrics_filled a : list_metrics_of a true = fill_table (a_table a) (a_defaults a).
Proof. reflexivity. Qed.
Lemma fill_cell_spec v d :
  fill_cell v d = match v with RNone => match d with Some q => RVal q | None => RNone end | _ => v end.
Proof. destruct v, d; reflexivity. Qed.
Lemma summary_shape : list_summary_fill = true /\ list_summary_stats = [SMean; SMedian; SStd].
Proof. split; reflexivity. Qed.

(* ---- align: when it raises ---- *)
Lemma align_none ms mt p t :
  align ms mt p t = None <->
  (ms = DError /\ exists pt, In pt (join p t) /\ missing_score pt = true) \/
  (mt = DError /\ exists pt, In pt (join p t) /\ missing_truth pt = true).
Proof.
  unfold align.
  destruct (is_error ms && existsb missing_score (join p t)) eqn:A;
  destruct (is_error mt && existsb missing_truth (join p t)) eqn:B; simpl; split; intro H; try discriminate; auto.
  all: try (apply andb_true_iff in A; destruct A as [A1 A2]; apply existsb_exists in A2; destruct ms; try discriminate).
  all: try (apply andb_true_iff in B; destruct B as [B1 B2]; apply existsb_exists in B2; destruct mt; try discriminate).
  all: auto.
  exfalso. destruct H as [[-> [pt [I M]]]|[-> [pt [I M]]]].
  - simpl in A. assert (existsb missing_score (join p t) = true) by (apply existsb_exists; eauto). congruence.
  - simpl in B. assert (existsb missing_truth (join p t) = true) by (apply existsb_exists; eauto). congruence.
Qed.
