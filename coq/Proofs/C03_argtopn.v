(* The branch taken by stats.argtopn, proved about the GENERATED argtopn_plan (Gen/C03_len.v).
   Separate file: it is shared by C03 (top-n ranking) and C19 (top-n of random keys) and depends
   on nothing else of either property. *)
From Coq Require Import ZArith Bool Lia.
From LK Require Import Lib.PyInt Gen.C03_len.
Open Scope Z_scope.

Lemma argtopn_plan_cases k N :
  argtopn_plan k N = Some (if k =? 0 then PEmpty else if (0 <=? k) && (k <? N) then PPart else PFull).
Proof.
  unfold argtopn_plan. cbn. destruct (k =? 0); cbn; [reflexivity|].
  rewrite Z.geb_leb. destruct ((0 <=? k) && (k <? N)) eqn:E.
  - apply andb_true_iff in E. destruct E as [E1 E2]. rewrite E1. cbn. rewrite E2. reflexivity.
  - destruct (0 <=? k); cbn; [|reflexivity]. cbn in E. rewrite E. reflexivity.
Qed.

