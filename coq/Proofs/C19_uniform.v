(* C19 -- uniform selection is symmetric: over all permutations of the item positions, the number
   that place position i among the first n is the same for every i.  (RandomSelector returns the
   first n of a uniformly drawn arrangement; with an ideal generator every permutation is equally
   likely, so every eligible item is equally likely to be selected.)  Axiom-free counting. *)
From Coq Require Import Arith List Bool Lia Permutation FinFun.
Import ListNotations.

(* ---- all permutations of a list ---- *)
Fixpoint inserts (x : nat) (l : list nat) : list (list nat) :=
  match l with
  | [] => [[x]]
  | y :: r => (x :: y :: r) :: map (cons y) (inserts x r)
  end.
Fixpoint perms (l : list nat) : list (list nat) :=
  match l with
  | [] => [[]]
  | x :: r => flat_map (inserts x) (perms r)
  end.

Definition in_first (n i : nat) (p : list nat) : bool := existsb (Nat.eqb i) (firstn n p).
Definition count_first (n i : nat) (l : list nat) : nat := length (filter (in_first n i) (perms l)).

Lemma inserts_perm x l q : In q (inserts x l) -> Permutation (x :: l) q.
Proof.
  revert q. induction l as [|y r IH]; simpl; intros q H.
  - destruct H as [<-|[]]. reflexivity.
  - destruct H as [<-|H]; [reflexivity|].
    apply in_map_iff in H. destruct H as [q' [<- H]]. rewrite perm_swap. constructor. auto.
Qed.
Lemma inserts_mid x p1 p2 : In (p1 ++ x :: p2) (inserts x (p1 ++ p2)).
Proof.
  induction p1 as [|y p1 IH]; simpl.
  - destruct p2; simpl; auto.
  - right. apply in_map. exact IH.
Qed.

Lemma perms_sound l p : In p (perms l) -> Permutation l p.
Proof.
  revert p. induction l as [|x r IH]; simpl; intros p H.
  - destruct H as [<-|[]]. constructor.
  - apply in_flat_map in H. destruct H as [q [Hq H]]. apply inserts_perm in H.
    rewrite <- H. constructor. auto.
Qed.
Lemma perms_complete l p : Permutation l p -> In p (perms l).
Proof.
  revert p. induction l as [|x r IH]; intros p H.
  - apply Permutation_nil in H. subst. simpl. auto.
  - assert (Hx : In x p) by (eapply Permutation_in; [exact H|left; reflexivity]).
    apply in_split in Hx. destruct Hx as [p1 [p2 ->]].
    apply Permutation_cons_app_inv in H. simpl. apply in_flat_map.
    exists (p1 ++ p2). split; [auto|apply inserts_mid].
Qed.

(* ---- perms of a duplicate-free list has no repeated entry ---- *)
Lemma NoDup_app_intro {A} (a b : list A) :
  NoDup a -> NoDup b -> (forall x, In x a -> In x b -> False) -> NoDup (a ++ b).
Proof.
  induction a as [|x a IH]; simpl; intros Ha Hb Hd; [exact Hb|].
  inversion Ha as [|? ? Hn Ha']; subst. constructor.
  - intro Hi. apply in_app_or in Hi. destruct Hi as [Hi|Hi]; [contradiction|]. eapply Hd; eauto.
  - apply IH; auto. intros y Hy. apply Hd. right. exact Hy.
Qed.
Lemma NoDup_flat_map_intro {A B} (f : A -> list B) (l : list A) :
  NoDup l -> (forall a, In a l -> NoDup (f a)) ->
  (forall a a' b, In a l -> In a' l -> In b (f a) -> In b (f a') -> a = a') ->
  NoDup (flat_map f l).
Proof.
  induction l as [|a l IH]; simpl; intros Hl Hf Hd; [constructor|].
  inversion Hl as [|? ? Hn Hl']; subst. apply NoDup_app_intro.
  - apply Hf. left. reflexivity.
  - apply IH; auto. intros a1 a2 b H1 H2. apply Hd; right; assumption.
  - intros b Hb Hb'. apply in_flat_map in Hb'. destruct Hb' as [a' [Ha' Hb']].
    assert (a = a') by (apply (Hd a a' b); [left; reflexivity|right; exact Ha'|exact Hb|exact Hb']). subst. contradiction.
Qed.

Lemma inserts_remove x l q : ~ In x l -> In q (inserts x l) -> remove Nat.eq_dec x q = l.
Proof.
  revert q. induction l as [|y r IH]; simpl; intros q Hn H.
  - destruct H as [<-|[]]. simpl. destruct (Nat.eq_dec x x); [reflexivity|congruence].
  - assert (Hy : x <> y) by (intro; subst; tauto). assert (Hr : ~ In x r) by tauto.
    destruct H as [<-|H].
    + simpl. destruct (Nat.eq_dec x x); [|congruence]. destruct (Nat.eq_dec x y); [congruence|].
      f_equal. apply notin_remove. exact Hr.
    + apply in_map_iff in H. destruct H as [q' [<- H]]. simpl.
      destruct (Nat.eq_dec x y); [congruence|]. f_equal. apply IH; assumption.
Qed.
Lemma NoDup_inserts x l : ~ In x l -> NoDup (inserts x l).
Proof.
  induction l as [|y r IH]; simpl; intro Hn.
  - constructor; [intros []|constructor].
  - constructor.
    + intro H. apply in_map_iff in H. destruct H as [q [E _]]. inversion E. tauto.
    + apply Injective_map_NoDup; [intros a b E; inversion E; reflexivity|]. apply IH. tauto.
Qed.
Lemma NoDup_perms l : NoDup l -> NoDup (perms l).
Proof.
  induction l as [|x r IH]; simpl; intro H.
  - constructor; [intros []|constructor].
  - inversion H as [|? ? Hn Hr]; subst.
    assert (Hx : forall p, In p (perms r) -> ~ In x p).
    { intros p Hp Hi. apply Hn. eapply Permutation_in; [symmetry; apply perms_sound; exact Hp|exact Hi]. }
    apply NoDup_flat_map_intro; [auto| |].
    + intros p Hp. apply NoDup_inserts. auto.
    + intros p p' q Hp Hp' Hq Hq'.
      rewrite <- (inserts_remove x p q (Hx p Hp) Hq). apply inserts_remove; auto.
Qed.

(* ---- exchanging two positions maps the permutations onto themselves ---- *)
Definition swap (i j x : nat) : nat := if x =? i then j else if x =? j then i else x.
Lemma swap_invol i j x : swap i j (swap i j x) = x.
Proof.
  unfold swap. destruct (x =? i) eqn:E1.
  - apply Nat.eqb_eq in E1. subst. destruct (j =? i) eqn:E2; [apply Nat.eqb_eq in E2; congruence|].
    rewrite Nat.eqb_refl. reflexivity.
  - destruct (x =? j) eqn:E2.
    + apply Nat.eqb_eq in E2. subst. rewrite Nat.eqb_refl. reflexivity.
    + rewrite E1, E2. reflexivity.
Qed.
Lemma swap_inj i j : Injective (swap i j).
Proof. intros a b E. rewrite <- (swap_invol i j a), E. apply swap_invol. Qed.
Lemma swap_hits i j x : swap i j x = j <-> x = i.
Proof.
  split; [|intros ->; unfold swap; rewrite Nat.eqb_refl; reflexivity].
  intro E. rewrite <- (swap_invol i j x), E. unfold swap.
  destruct (j =? i) eqn:E1; [apply Nat.eqb_eq in E1; congruence|]. rewrite Nat.eqb_refl. reflexivity.
Qed.

Lemma swap_perm i j l : NoDup l -> In i l -> In j l -> Permutation (map (swap i j) l) l.
Proof.
  intros Hl Hi Hj. apply NoDup_Permutation; [apply Injective_map_NoDup; [apply swap_inj|exact Hl]|exact Hl|].
  intro x. rewrite in_map_iff. split.
  - intros [y [<- Hy]]. unfold swap. destruct (y =? i); [exact Hj|]. destruct (y =? j); [exact Hi|exact Hy].
  - intro Hx. exists (swap i j x). split; [apply swap_invol|].
    unfold swap. destruct (x =? i); [exact Hj|]. destruct (x =? j); [exact Hi|exact Hx].
Qed.

Lemma perms_swap i j l : NoDup l -> In i l -> In j l ->
  Permutation (map (map (swap i j)) (perms l)) (perms l).
Proof.
  intros Hl Hi Hj. apply NoDup_Permutation.
  - apply Injective_map_NoDup; [|apply NoDup_perms; exact Hl].
    intros a b E. rewrite <- (map_id a), <- (map_id b).
    rewrite <- (map_ext _ _ (swap_invol i j) a), <- (map_ext _ _ (swap_invol i j) b).
    rewrite <- !(map_map (swap i j) (swap i j)). rewrite E. reflexivity.
  - apply NoDup_perms. exact Hl.
  - intro p. rewrite in_map_iff. split.
    + intros [q [<- Hq]]. apply perms_complete. apply perms_sound in Hq.
      rewrite <- (swap_perm i j l Hl Hi Hj) at 1. apply Permutation_map. exact Hq.
    + intro Hp. exists (map (swap i j) p). split.
      * rewrite map_map. rewrite (map_ext _ _ (swap_invol i j)). apply map_id.
      * apply perms_complete. apply perms_sound in Hp.
        rewrite <- (swap_perm i j l Hl Hi Hj) at 1. apply Permutation_map. exact Hp.
Qed.

Lemma filter_length_perm {A} (f : A -> bool) a b : Permutation a b -> length (filter f a) = length (filter f b).
Proof.
  induction 1 as [|x a b _ IH|x y a|a b c _ IH1 _ IH2]; simpl.
  - reflexivity.
  - destruct (f x); simpl; congruence.
  - destruct (f x), (f y); reflexivity.
  - congruence.
Qed.
Lemma filter_map_length {A B} (f : B -> bool) (g : A -> B) l :
  length (filter f (map g l)) = length (filter (fun x => f (g x)) l).
Proof. induction l as [|x l IH]; simpl; [reflexivity|]. destruct (f (g x)); simpl; congruence. Qed.

Lemma in_first_swap n i j p : in_first n j (map (swap i j) p) = in_first n i p.
Proof.
  unfold in_first. rewrite firstn_map.
  induction (firstn n p) as [|x r IH]; simpl; [reflexivity|]. rewrite IH. f_equal.
  destruct (i =? x) eqn:E.
  - apply Nat.eqb_eq in E. subst. apply Nat.eqb_eq. symmetry. apply swap_hits. reflexivity.
  - apply Nat.eqb_neq. intro E'. apply Nat.eqb_neq in E. apply E. symmetry. apply (swap_hits i j). auto.
Qed.

Lemma uniform_symmetric_l l n i j :
  NoDup l -> In i l -> In j l -> count_first n i l = count_first n j l.
Proof.
  intros Hl Hi Hj. unfold count_first.
  rewrite <- (filter_length_perm (in_first n j) _ _ (perms_swap i j l Hl Hi Hj)).
  rewrite filter_map_length. f_equal. apply filter_ext. intro p. symmetry. apply in_first_swap.
Qed.

(* every arrangement is counted, and there are (length l)! of them *)
Lemma inserts_length x l : length (inserts x l) = S (length l).
Proof. induction l as [|y r IH]; simpl; [reflexivity|]. rewrite map_length, IH. reflexivity. Qed.
Lemma perms_length l : length (perms l) = fact (length l).
Proof.
  induction l as [|x r IH]; [reflexivity|]. cbn [perms length fact].
  assert (G : forall P, (forall p, In p P -> length p = length r) ->
              length (flat_map (inserts x) P) = (S (length r) * length P)%nat).
  { induction P as [|p P IHP]; intro H; simpl; [lia|].
    rewrite app_length, inserts_length, IHP by (intros; apply H; right; assumption).
    rewrite (H p) by (left; reflexivity). lia. }
  rewrite G.
  - rewrite IH. lia.
  - intros p Hp. symmetry. apply Permutation_length. apply perms_sound. exact Hp.
Qed.

Lemma uniform_symmetric_full (l : list nat) (n i j : nat) :
  NoDup l -> In i l -> In j l ->
  count_first n i l = count_first n j l /\ length (perms l) = fact (length l) /\
  (forall p, In p (perms l) <-> Permutation l p) /\ NoDup (perms l).
Proof.
  intros Hl Hi Hj. split; [apply uniform_symmetric_l; assumption|]. split; [apply perms_length|].
  split; [|apply NoDup_perms; exact Hl]. intro p. split; [apply perms_sound|apply perms_complete].
Qed.
