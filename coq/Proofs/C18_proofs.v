(* C18 -- lemmas about the training model (Model/C18_retrain.v).  Nothing here depends on the
   generated frame table; Proofs/C18_frames_ok.v instantiates these with it. *)
From Coq Require Import ZArith List Bool Lia.
From Coq Require String.
Import String.StringSyntax.
From LK Require Import Model.C18_retrain.
Import ListNotations.
Local Open Scope string_scope.

(* ---- attributes, look-ups ------------------------------------------------------------- *)
Lemma mem_In : forall a l, mem a l = true <-> In a l.
Proof.
  intros a l. unfold mem. rewrite existsb_exists. split.
  - intros [x [Hin Heq]]. apply String.eqb_eq in Heq. subst. exact Hin.
  - intros Hin. exists a. split; [exact Hin|apply String.eqb_refl].
Qed.

Lemma mem_app : forall a l1 l2, mem a (l1 ++ l2) = mem a l1 || mem a l2.
Proof. intros. unfold mem. apply existsb_app. Qed.

Lemma subset_spec : forall l1 l2, subset l1 l2 = true <-> (forall a, mem a l1 = true -> mem a l2 = true).
Proof.
  intros l1 l2. unfold subset. rewrite forallb_forall. split.
  - intros H a Ha. apply H. apply mem_In. exact Ha.
  - intros H a Ha. apply H. apply mem_In. exact Ha.
Qed.

Definition same (c1 c2 : store) : Prop := forall a, lookup a c1 = lookup a c2.

Lemma same_refl : forall c, same c c. Proof. intros c a. reflexivity. Qed.
Lemma same_sym : forall c1 c2, same c1 c2 -> same c2 c1. Proof. intros c1 c2 H a. symmetry. apply H. Qed.
Lemma same_trans : forall c1 c2 c3, same c1 c2 -> same c2 c3 -> same c1 c3.
Proof. intros c1 c2 c3 H1 H2 a. rewrite H1. apply H2. Qed.

Lemma lookup_assign_in : forall l f c a, mem a l = true -> lookup a (assign_all l f c) = Some (f a).
Proof.
  induction l as [|b l IH]; intros f c a Hm; cbn in *.
  - discriminate.
  - destruct (String.eqb a b) eqn:E.
    + apply String.eqb_eq in E. subst. reflexivity.
    + cbn in Hm. apply IH. exact Hm.
Qed.

Lemma lookup_assign_out : forall l f c a, mem a l = false -> lookup a (assign_all l f c) = lookup a c.
Proof.
  induction l as [|b l IH]; intros f c a Hm; cbn in *.
  - reflexivity.
  - destruct (String.eqb a b) eqn:E; cbn in Hm; [discriminate|]. apply IH. exact Hm.
Qed.

Lemma guard_ext : forall g c1 c2, same c1 c2 -> guard_holds g c1 = guard_holds g c2.
Proof. intros g c1 c2 H. destruct g; cbn; rewrite (H a); reflexivity. Qed.

Lemma view_nil : forall c, view [] c = [].
Proof. induction c as [|[a v] c IH]; cbn; [reflexivity|exact IH]. Qed.

(* ---- what frame_ok gives ------------------------------------------------------------------ *)
Record closed (fr : frame) : Prop := mkClosed {
  cl_reads : forall a, mem a (fr_reads fr) = true -> mem a (fr_wmust fr) = true \/ mem a (fr_static fr) = true;
  cl_may : forall a, mem a (fr_wmay fr) = true -> mem a (fr_wmust fr) = true;
  cl_exposed : fr_exposed fr = [];
  cl_callwrites : fr_callwrites fr = [];
  cl_guard : fr_wmust fr = [] \/ mem (guard_attr (fr_guard fr)) (fr_wmust fr) = true;
  cl_static : forall a, mem a (fr_static fr) = true -> mem a (fr_wmust fr) = false
}.

Lemma is_nil_spec : forall A (l : list A), is_nil l = true <-> l = [].
Proof. intros A [|x l]; cbn; split; intro H; try reflexivity; discriminate. Qed.

Lemma frame_ok_closed : forall fr, frame_ok fr = true <-> closed fr.
Proof.
  intro fr. unfold frame_ok. split.
  - intro H. repeat (apply andb_true_iff in H; destruct H as [H ?]).
    rename H into Hr, H0 into Hst, H1 into Hg, H2 into Hc, H3 into He, H4 into Hm.
    constructor.
    + intros a Ha. rewrite subset_spec in Hr. specialize (Hr a Ha). rewrite mem_app in Hr.
      apply orb_true_iff in Hr. exact Hr.
    + rewrite subset_spec in Hm. exact Hm.
    + apply is_nil_spec. exact He.
    + apply is_nil_spec. exact Hc.
    + apply orb_true_iff in Hg. destruct Hg as [Hg|Hg]; [left; apply is_nil_spec; exact Hg|right; exact Hg].
    + intros a Ha. apply negb_true_iff in Hst.
      destruct (mem a (fr_wmust fr)) eqn:E; [|reflexivity]. exfalso.
      assert (existsb (fun a0 => mem a0 (fr_wmust fr)) (fr_static fr) = true) as X.
      { apply existsb_exists. exists a. split; [apply mem_In; exact Ha|exact E]. }
      rewrite X in Hst. discriminate.
  - intros [Hr Hm He Hc Hg Hst].
    repeat (apply andb_true_iff; split).
    + apply subset_spec. intros a Ha. rewrite mem_app. apply orb_true_iff. apply Hr. exact Ha.
    + apply subset_spec. exact Hm.
    + apply is_nil_spec. exact He.
    + apply is_nil_spec. exact Hc.
    + apply orb_true_iff. destruct Hg as [Hg|Hg]; [left; apply is_nil_spec; exact Hg|right; exact Hg].
    + apply negb_true_iff. destruct (existsb (fun a => mem a (fr_wmust fr)) (fr_static fr)) eqn:E; [|reflexivity].
      apply existsb_exists in E. destruct E as [a [Ha Hw]]. apply mem_In in Ha. rewrite (Hst a Ha) in Hw. discriminate.
Qed.

Lemma written_closed : forall fr r, closed fr -> written fr r = fr_wmust fr.
Proof.
  intros fr r Hc. unfold written.
  assert (forall l, (forall a, mem a l = true -> mem a (fr_wmust fr) = true) ->
                    filter (fun a => fopt r a && negb (mem a (fr_wmust fr))) l = []) as X.
  { induction l as [|b l IH]; intro H; cbn; [reflexivity|].
    assert (mem b (fr_wmust fr) = true) as Hb.
    { apply H. apply mem_In. left. reflexivity. }
    rewrite Hb. rewrite andb_false_r. apply IH. intros a Ha. apply H. apply mem_In. right. apply mem_In. exact Ha. }
  rewrite X; [apply app_nil_r|]. exact (cl_may fr Hc).
Qed.

Section Train.
  Context {D S : Type}.
  Variable fit : D -> S -> store -> fitres.
  Variable fr : frame.

  Notation train := (train fit fr).
  Notation run := (run fit fr).

  (* what a completed (not skipped) training of a closed frame leaves *)
  Definition learned (d : D) (o : opts S) : attr -> value := fv (fit d (o_seed o) []).

  Lemma train_skip : forall d o c,
    guard_holds (fr_guard fr) c = true -> o_retrain o = false -> train d o c = c.
  Proof. intros d o c Hg Hr. unfold C18_retrain.train. rewrite Hg, Hr. reflexivity. Qed.

  Lemma train_effective : forall d o c, closed fr ->
    guard_holds (fr_guard fr) c && negb (o_retrain o) = false ->
    train d o c = assign_all (fr_wmust fr) (learned d o) c.
  Proof.
    intros d o c Hc Hg. unfold C18_retrain.train. rewrite Hg. cbv zeta.
    rewrite (cl_exposed fr Hc), view_nil, (written_closed fr _ Hc). reflexivity.
  Qed.

  Lemma train_fresh : forall d o, closed fr -> train d o [] = assign_all (fr_wmust fr) (learned d o) [].
  Proof. intros d o Hc. apply train_effective; [exact Hc|]. destruct (fr_guard fr); reflexivity. Qed.

  Lemma run_app : forall h1 h2 c, run (h1 ++ h2) c = run h2 (run h1 c).
  Proof. induction h1 as [|[d o] h1 IH]; intros h2 c; cbn; [reflexivity|apply IH]. Qed.

  (* the learned attributes after a retraining do not depend on what was there before *)
  Lemma retrain_from_any : forall d o c a, closed fr -> o_retrain o = true ->
    mem a (fr_wmust fr) = true -> lookup a (train d o c) = lookup a (train d o []).
  Proof.
    intros d o c a Hc Hr Ha.
    rewrite (train_effective d o c Hc) by (rewrite Hr; apply andb_false_r).
    rewrite (train_fresh d o Hc).
    rewrite !lookup_assign_in by exact Ha. reflexivity.
  Qed.

  Lemma state_dom : forall cur a, closed fr -> mem a (fr_wmust fr) = false -> lookup a (state_of fit fr cur) = None.
  Proof.
    intros [[d o]|] a Hc Ha; cbn; [|reflexivity].
    rewrite (train_fresh d o Hc). rewrite lookup_assign_out by exact Ha. reflexivity.
  Qed.

  Lemma trained_flag : forall cur,
    match cur with None => false | Some x => marks fit fr x end = guard_holds (fr_guard fr) (state_of fit fr cur).
  Proof. intros [[d o]|]; cbn; [reflexivity|]. destruct (fr_guard fr); reflexivity. Qed.

  (* induction over training histories: the state is always that of a fresh component trained
     once, by the call `effective` designates *)
  Lemma run_characterised_gen : closed fr -> forall h cur c,
    same c (state_of fit fr cur) -> same (run h c) (state_of fit fr (effective fit fr cur h)).
  Proof.
    intro Hc. induction h as [|[d o] h IH]; intros cur c Hs; cbn [C18_retrain.run effective].
    - exact Hs.
    - rewrite trained_flag. rewrite <- (guard_ext (fr_guard fr) c _ Hs).
      destruct (guard_holds (fr_guard fr) c && negb (o_retrain o)) eqn:G.
      + apply andb_true_iff in G. destruct G as [G1 G2]. apply negb_true_iff in G2.
        rewrite (train_skip d o c G1 G2). apply IH. exact Hs.
      + apply IH. cbn [state_of]. rewrite (train_effective d o c Hc G), (train_fresh d o Hc).
        intro a. destruct (mem a (fr_wmust fr)) eqn:Ha.
        * rewrite !lookup_assign_in by exact Ha. reflexivity.
        * rewrite !lookup_assign_out by exact Ha. rewrite (Hs a). cbn.
          apply state_dom; assumption.
  Qed.

  Lemma effective_last : forall h cur d o, o_retrain o = true ->
    effective fit fr cur (h ++ [(d, o)]) = Some (d, o).
  Proof.
    induction h as [|[d0 o0] h IH]; intros cur d o Hr; cbn.
    - rewrite Hr. rewrite andb_false_r. reflexivity.
    - destruct (_ && _); apply IH; exact Hr.
  Qed.

  (* skipped calls at the end of a history change nothing at all (literal equality) *)
  Lemma skipped_suffix : forall h2 c, guard_holds (fr_guard fr) c = true ->
    Forall (fun x => o_retrain (snd x) = false) h2 -> run h2 c = c.
  Proof.
    induction h2 as [|[d o] h2 IH]; intros c Hg Hall; cbn; [reflexivity|].
    inversion Hall as [|x l Hx Hl]; subst. cbn in Hx.
    rewrite (train_skip d o c Hg Hx). apply IH; assumption.
  Qed.

  (* after a completed training of a closed frame the guard is set (for the epoch counter:
     provided at least one epoch ran) *)
  Lemma training_sets_guard : forall d o c, closed fr -> fr_wmust fr <> [] ->
    match fr_guard fr with GHasAttr _ => True | GPositive a => (0 < learned d o a)%Z end ->
    guard_holds (fr_guard fr) (train d o c) = true.
  Proof.
    intros d o c Hc Hne Hpos.
    destruct (guard_holds (fr_guard fr) c && negb (o_retrain o)) eqn:G.
    - apply andb_true_iff in G. destruct G as [G1 G2]. apply negb_true_iff in G2.
      rewrite (train_skip d o c G1 G2). exact G1.
    - rewrite (train_effective d o c Hc G).
      destruct (cl_guard fr Hc) as [E|Hm]; [contradiction|].
      destruct (fr_guard fr) as [a|a]; cbn in *; rewrite lookup_assign_in by exact Hm.
      + reflexivity.
      + apply Z.ltb_lt. exact Hpos.
  Qed.
End Train.

(* scoring is a function of the attributes it reads *)
Definition reads_only {Q A} (R : list attr) (score : store -> Q -> A) : Prop :=
  forall c1 c2, (forall a, mem a R = true -> lookup a c1 = lookup a c2) -> forall q, score c1 q = score c2 q.

(* ---- the obligation is needed: a frame with an attribute assigned on some paths only ------ *)
Definition leaky : frame :=
  mkFrame "Leaky" "" (GHasAttr "items_") ["items_"] ["items_"; "extra_"] ["items_"; "extra_"] [] [] [].

(* data = (value of items_, whether the optional attribute is assigned and to what) *)
Definition leaky_fit (d : Z * option Z) (_ : unit) (_ : store) : fitres :=
  mkFit (fun a => if String.eqb a "items_" then fst d else match snd d with Some v => v | None => 0%Z end)
        (fun a => match snd d with Some _ => true | None => false end).

Lemma leaky_not_ok : frame_ok leaky = false.
Proof. reflexivity. Qed.

Lemma leaky_keeps_stale_state :
  let o := mkOpts true tt in
  lookup "extra_" (run leaky_fit leaky [((1, Some 7), o); ((2, None), o)]%Z []) = Some 7%Z /\
  lookup "extra_" (train leaky_fit leaky (2, None)%Z o []) = None.
Proof. split; reflexivity. Qed.

(* ---- pipelines ------------------------------------------------------------------------- *)
Lemma ptrain_calls_names : forall plan w r ns i,
  map pc_name (ptrain_calls plan w r i ns) = map pn_name (filter pn_trainable ns).
Proof.
  induction ns as [|n ns IH]; intro i; cbn; [reflexivity|].
  destruct (pn_trainable n); [|apply IH].
  destruct plan; cbn; f_equal; apply IH.
Qed.

Lemma ptrain_calls_retrain : forall plan w r ns i, Forall (fun c => pc_retrain c = r) (ptrain_calls plan w r i ns).
Proof.
  induction ns as [|n ns IH]; intro i; cbn; [constructor|].
  destruct (pn_trainable n); [|apply IH].
  destruct plan; constructor; try reflexivity; apply IH.
Qed.

Lemma NoDup_map_filter : forall A B (f : A -> B) p l, NoDup (map f l) -> NoDup (map f (filter p l)).
Proof.
  induction l as [|x l IH]; intro H; cbn; [constructor|].
  inversion H as [|y ys Hnin Hnd]; subst.
  destruct (p x); cbn; [|apply IH; exact Hnd].
  constructor; [|apply IH; exact Hnd].
  intro Hin. apply Hnin. apply in_map_iff in Hin. destruct Hin as [z [Hz Hin]].
  apply filter_In in Hin. apply in_map_iff. exists z. split; [exact Hz|apply Hin].
Qed.

Definition spawn_index (c : pcall) : option nat := match pc_rng c with CSpawn i => Some i | CSame => None end.

Lemma ptrain_calls_indices : forall plan w r ns i, plan <> PlanNoSeed ->
  Forall (fun c => exists j, pc_rng c = CSpawn j /\ i <= j) (ptrain_calls plan w r i ns).
Proof.
  induction ns as [|n ns IH]; intros i Hp; cbn; [constructor|].
  destruct (pn_trainable n); [|apply IH; exact Hp].
  destruct plan; try contradiction.
  - constructor; [exists i; split; [reflexivity|lia]|].
    eapply Forall_impl; [|apply (IH (i + w) Hp)]. cbn. intros c [j [Hj Hle]]. exists j. split; [exact Hj|lia].
  - constructor; [exists i; split; [reflexivity|lia]|].
    eapply Forall_impl; [|apply (IH (i + w) Hp)]. cbn. intros c [j [Hj Hle]]. exists j. split; [exact Hj|lia].
Qed.

Lemma ptrain_calls_rng_nodup : forall plan w r ns i, plan <> PlanNoSeed -> 0 < w ->
  NoDup (map pc_rng (ptrain_calls plan w r i ns)).
Proof.
  induction ns as [|n ns IH]; intros i Hp Hw; cbn; [constructor|].
  destruct (pn_trainable n); [|apply IH; assumption].
  assert (NoDup (CSpawn i :: map pc_rng (ptrain_calls plan w r (i + w) ns))) as X.
  { constructor; [|apply IH; assumption].
    intro Hin. apply in_map_iff in Hin. destruct Hin as [c [Hc Hin]].
    pose proof (ptrain_calls_indices plan w r ns (i + w) Hp) as F.
    rewrite Forall_forall in F. destruct (F c Hin) as [j [Hj Hle]]. rewrite Hj in Hc. inversion Hc. lia. }
  destruct plan; try contradiction; exact X.
Qed.

Lemma NoDup_map_injective : forall A B (f : A -> B) l,
  (forall x y, In x l -> In y l -> f x = f y -> x = y) -> NoDup l -> NoDup (map f l).
Proof.
  induction l as [|x l IH]; intros Hinj Hnd; cbn; [constructor|].
  inversion Hnd as [|y ys Hnin Hnd']; subst. constructor.
  - intro Hin. apply in_map_iff in Hin. destruct Hin as [z [Hz Hin]].
    assert (z = x) by (apply Hinj; [right; exact Hin|left; reflexivity|exact Hz]). subst. contradiction.
  - apply IH; [|exact Hnd']. intros a b Ha Hb. apply Hinj; right; assumption.
Qed.

(* ---- the state of a whole pipeline across repeated Pipeline.train calls ------------------- *)
Section PipelineState.
  Context {D B : Type}.
  Variable fit : D -> B * child_rng -> store -> fitres.
  Variables (plan : seed_plan) (w : nat).

  Fixpoint prun_from (i : nat) (h : list (D * opts B)) (cs : list pcomp) : list pcomp :=
    match h with
    | [] => cs
    | (d, o) :: t => prun_from i t (ptrain fit plan w d o i cs)
    end.

  Lemma prun_is_from0 : forall h cs, prun fit plan w h cs = prun_from 0 h cs.
  Proof. induction h as [|[d o] h IH]; intro cs; cbn; [reflexivity|apply IH]. Qed.

  Definition comp_hist (i : nat) (h : list (D * opts B)) : list (D * opts (B * child_rng)) :=
    map (fun x => (fst x, mkOpts (o_retrain (snd x)) (o_seed (snd x), child_of plan i))) h.

  Lemma comp_hist_app : forall i h1 h2, comp_hist i (h1 ++ h2) = comp_hist i h1 ++ comp_hist i h2.
  Proof. intros. unfold comp_hist. apply map_app. Qed.

  (* the pipeline is a product: component k sees its own history, with its own child index *)
  Lemma prun_from_cons : forall h i c t,
    prun_from i h (c :: t) =
    match cp_frame c with
    | None => c :: prun_from i h t
    | Some fr => mkComp (cp_name c) (cp_frame c) (run fit fr (comp_hist i h) (cp_store c))
                 :: prun_from (next_index plan w i) h t
    end.
  Proof.
    induction h as [|[d o] h IH]; intros i [n f s] t.
    - cbn. destruct f; reflexivity.
    - cbn [prun_from ptrain cp_frame cp_name cp_store]. destruct f as [fr|].
      + rewrite IH. cbn [cp_frame cp_name cp_store C18_retrain.run comp_hist map fst snd]. reflexivity.
      + rewrite IH. cbn [cp_frame]. reflexivity.
  Qed.

  Definition comp_same (a b : pcomp) : Prop :=
    cp_name a = cp_name b /\ cp_frame a = cp_frame b /\ same (cp_store a) (cp_store b).

  Lemma pipeline_retrain_fresh_from : forall cs h d o i,
    (forall c fr, In c cs -> cp_frame c = Some fr -> closed fr) ->
    (forall c, In c cs -> cp_store c = []) ->
    o_retrain o = true ->
    Forall2 comp_same (prun_from i (h ++ [(d, o)]) cs) (ptrain fit plan w d o i cs).
  Proof.
    induction cs as [|c cs IH]; intros h d o i Hok Hempty Hr.
    - assert (forall h', prun_from i h' [] = []) as X.
      { induction h' as [|[d' o'] h' IH']; cbn; [reflexivity|exact IH']. }
      rewrite X. cbn. constructor.
    - rewrite prun_from_cons. cbn [ptrain].
      destruct (cp_frame c) as [fr|] eqn:E.
      + constructor.
        * unfold comp_same. cbn. split; [reflexivity|]. split; [reflexivity|].
          assert (closed fr) as Hc by (apply (Hok c fr); [left; reflexivity|exact E]).
          rewrite (Hempty c) by (left; reflexivity).
          rewrite comp_hist_app. cbn [comp_hist map fst snd].
          eapply same_trans.
          { apply (run_characterised_gen fit fr Hc _ None []). apply same_refl. }
          rewrite effective_last by (cbn; exact Hr).
          cbn [state_of]. apply same_refl.
        * apply IH; [|intros c' Hin; apply Hempty; right; exact Hin|exact Hr].
          intros c' fr' Hin. apply Hok. right. exact Hin.
      + constructor.
        * unfold comp_same. split; [reflexivity|]. split; [reflexivity|apply same_refl].
        * apply IH; [|intros c' Hin; apply Hempty; right; exact Hin|exact Hr].
          intros c' fr' Hin. apply Hok. right. exact Hin.
  Qed.
End PipelineState.
