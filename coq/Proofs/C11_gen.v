(* C11 -- statements about the GENERATED seed-forwarding graph and shapes (Gen/C11_rng.v). *)
From Coq Require Import ZArith List Bool Lia.
From Coq Require String.
Import String.StringSyntax.
From LK Require Import Model.C11_seeds Gen.C11_rng Proofs.C11_proofs Proofs.C11_main.
Import ListNotations.
Local Open Scope string_scope.

Definition has_fn (name : String.string) : bool := existsb (fun f => String.eqb (fn_name f) name) rng_graph.

Lemma forwarding_closed_l :
  graph_closed rng_graph = true /\
  (* the graph covers the cross-fold fallbacks, the hold-outs, negative sampling, the rankers,
     the trainings and Pipeline.train's per-component spawn *)
  forallb has_fn ["sample_users"; "sample_records"; "crossfold_users"; "crossfold_records"; "SampleN.__init__";
                  "SampleN.__call__"; "SampleFrac.__init__"; "SampleFrac.__call__";
                  "MatrixRelationshipSet.sample_negatives"; "RandomSelector.__call__"; "SoftmaxRanker.__call__";
                  "StochasticTopNRanker.__call__"; "ALSBase.training_loop"; "FunkSVDScorer.train";
                  "FlexMFScorerBase.prepare_context"; "FlexMFModel.__init__"; "BiasedSVDScorer.train"; "Pipeline.train"] = true /\
  random_generator_shape_ok = true /\ deriving_shape_ok = true /\
  stateless_rankers = ["RandomSelector"; "SoftmaxRanker"; "StochasticTopNRanker"] /\
  fanout_loops = [("_train_update_fanout", JScatter); ("_train_implicit_cholesky_fanout", JScatter); ("_sim_blocks", JConcat)].
Proof. repeat split; vm_compute; reflexivity. Qed.

Lemma generated_function_of_seed_l :
  forall (G E : Type) (draw : G -> Z * G) (opaque : String.string -> G -> list Z * G)
         (fresh : E -> G * E) (ambient : E -> Z * E) (disp : String.string -> nat) fuel f,
    In f rng_graph -> fn_primitive f = false ->
    forall g e1 e2,
      fst (run draw opaque fresh ambient (resolve_in rng_graph families disp) fuel (fn_body f) g e1)
      = fst (run draw opaque fresh ambient (resolve_in rng_graph families disp) fuel (fn_body f) g e2).
Proof.
  intros G E draw opaque fresh ambient disp fuel f Hin Hp g e1 e2.
  destruct forwarding_closed_l as [Hg _].
  apply run_closed_indep.
  - intros c f0 Hr. apply (resolve_in_closed rng_graph families disp c f0 Hg Hr).
  - unfold graph_closed in Hg. rewrite forallb_forall in Hg. specialize (Hg f Hin). rewrite Hp in Hg. exact Hg.
Qed.

Lemma explicit_seed_ignores_global_l :
  (forall global_set, random_generator_plan true global_set = FromArgument) /\
  random_generator_plan false true = UseGlobal /\ random_generator_plan false false = FromArgument.
Proof. split; [intros []; reflexivity|split; reflexivity]. Qed.

Lemma deriving_plan_user : deriving_plan true = DeriveFromUser.
Proof. reflexivity. Qed.
