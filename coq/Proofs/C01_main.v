(* C01 -- operation lists, the built dataset, and the property-level statements. *)
From Coq Require Import ZArith List Bool Arith Lia Sorting.Sorted Sorting.Permutation.
From LK Require Import Model.C01_dataset Proofs.C01_vocab Proofs.C01_sort Proofs.C01_rowptr Proofs.C01_refine1
  Proofs.C01_refine2 Proofs.C01_views.
Import ListNotations.
Open Scope Z_scope.

Lemma run_cons s st o r :
  run s st (o :: r) =
  (fst (run s (fst (step s st o)) r),
   (snd (step s st o), (opt_vocab (b_users (fst (step s st o))), opt_vocab (b_items (fst (step s st o))))) :: snd (run s (fst (step s st o)) r)).
Proof.
  cbn [run]. destruct (step s st o) as [st1 e]. cbn [fst snd]. destruct (run s st1 r) as [st2 log]. reflexivity.
Qed.

Lemma run_fst_app s : forall a b st, fst (run s st (a ++ b)) = fst (run s (fst (run s st a)) b).
Proof.
  induction a as [|o a IH]; intros b st; [reflexivity|].
  rewrite <- app_comm_cons, !run_cons. cbn [fst]. apply IH.
Qed.

(* per-operation errors of the specification *)
Fixpoint s_errs (s : schema) (k : sstate) (ops : list op) : list (option err) :=
  match ops with [] => [] | o :: r => snd (s_step s k o) :: s_errs s (fst (s_step s k o)) r end.

Lemma run_refines s : forall ops st k, inv st -> Rel st k ->
  inv (fst (run s st ops)) /\ Rel (fst (run s st ops)) (s_run s k ops) /\
  prefix (U st) (U (fst (run s st ops))) /\ prefix (I st) (I (fst (run s st ops))) /\
  map fst (snd (run s st ops)) = s_errs s k ops.
Proof.
  induction ops as [|o r IH]; intros st k Hi Hr.
  - cbn. split; [exact Hi|split; [exact Hr|split; [apply prefix_refl|split; [apply prefix_refl|reflexivity]]]].
  - rewrite run_cons. cbn [fst snd s_run s_errs map].
    destruct (step_refines s st k o Hi Hr) as [E [Hi1 [Hr1 [Pu Pi]]]].
    destruct (IH _ _ Hi1 Hr1) as [Hi2 [Hr2 [Pu2 [Pi2 El]]]].
    split; [exact Hi2|]. split; [exact Hr2|]. split; [eapply prefix_trans; eassumption|]. split; [eapply prefix_trans; eassumption|].
    rewrite E, El. reflexivity.
Qed.

Lemma init_inv ar : inv (init_state ar) /\ Rel (init_state ar) (s_init ar).
Proof.
  split; constructor; cbn; try constructor; try reflexivity; try apply same_set_refl.
Qed.

Lemma final_refines s ar ops :
  inv (final s ar ops) /\ Rel (final s ar ops) (s_run s (s_init ar) ops) /\
  map fst (snd (run s (init_state ar) ops)) = s_errs s (s_init ar) ops.
Proof.
  destruct (init_inv ar) as [Hi Hr]. destruct (run_refines s ops _ _ Hi Hr) as [A [B [_ [_ E]]]]. auto.
Qed.

(* ---- vocabularies ---- *)
Lemma vocab_nodup_l s ar ops : NoDup (U (final s ar ops)) /\ NoDup (I (final s ar ops)).
Proof. destruct (final_refines s ar ops) as [[Nu Ni _] _]. auto. Qed.

Lemma numbers_stable_l s ar ops1 ops2 :
  prefix (U (final s ar ops1)) (U (final s ar (ops1 ++ ops2))) /\
  prefix (I (final s ar ops1)) (I (final s ar (ops1 ++ ops2))).
Proof.
  unfold final. rewrite run_fst_app.
  destruct (final_refines s ar ops1) as [Hi [Hr _]]. unfold final in Hi, Hr.
  destruct (run_refines s ops2 _ _ Hi Hr) as [_ [_ [Pu [Pi _]]]]. auto.
Qed.

Lemma link_one_shot ids v nums : link_class None ids MInsert = Ok (Some v, nums) -> ascending v.
Proof.
  rewrite link_class_unfold. cbv zeta.
  destruct (add_entities None (dedup_z ids) DupUpdate) as [w|e] eqn:E.
  - destruct w as [t|]; [|discriminate]. intro H. apply one_shot_ascending_l in E.
    destruct (all_some (map (resolve t) ids)); inversion H; subst; exact E.
  - discriminate.
Qed.

(* ---- no repeated pair survives while repeats are not "present" ---- *)
Lemma has_dup_pair_false l : has_dup_pair l = false <-> NoDup l.
Proof.
  induction l as [|x r IH]; cbn; [split; [constructor|reflexivity]|].
  rewrite orb_false_iff, IH. split.
  - intros [A B]. constructor; [|exact B]. intro Hin.
    assert (existsb (nat_pair_eqb x) r = true) as C; [|congruence].
    apply existsb_exists. exists x. split; [exact Hin|]. unfold nat_pair_eqb. rewrite !Nat.eqb_refl. reflexivity.
  - intro H. inversion H; subst. split; [|assumption]. apply not_true_is_false. intro C.
    apply existsb_exists in C. destruct C as [y [Hy E]]. unfold nat_pair_eqb in E. apply andb_true_iff in E.
    destruct E as [E1 E2]. apply Nat.eqb_eq in E1, E2. destruct x, y; cbn in *; subst. contradiction.
Qed.

Lemma NoDup_map_filter {A B} (g : A -> B) (f : A -> bool) l : NoDup (map g l) -> NoDup (map g (filter f l)).
Proof.
  induction l as [|x r IH]; cbn; intro H; [constructor|]. inversion H; subst. destruct (f x); cbn; [|auto].
  constructor; [|auto]. intro C. apply H2. apply in_map_iff in C. destruct C as [y [E Hy]]. apply filter_In in Hy.
  apply in_map_iff. exists y. tauto.
Qed.

Definition norep (st : bstate) : Prop := b_repeats st <> RPresent -> NoDup (map fst (b_table st)).

Lemma step_norep s st o : norep st -> norep (fst (step s st o)).
Proof.
  unfold norep. intro H. destruct o as [c ids p|rows cols p|lo hi rem|]; cbn [step].
  - destruct c; [destruct (add_entities (b_users st) ids p)|destruct (add_entities (b_items st) ids p)]; cbn; exact H.
  - destruct (link_class (b_users st) (map uid_of rows) p) as [[us unums]|e]; [|exact H].
    destruct (link_class (b_items st) (map iid_of rows) p) as [[is_ inums]|e]; [|exact H].
    destruct (b_repeats st) eqn:R.
    + destruct (has_dup_pair (map fst (b_table st ++ zip_recs unums inums rows))) eqn:D; cbn; [congruence|].
      intros _. apply has_dup_pair_false. exact D.
    + destruct (has_dup_pair (map fst (b_table st ++ zip_recs unums inums rows))) eqn:D; cbn; [exact H|].
      intros _. apply has_dup_pair_false. exact D.
    + cbn. congruence.
  - destruct (_ && _); [exact H|]. destruct (needs_table _ _ _); [exact H|]. cbn. intro R. apply NoDup_map_filter. exact (H R).
  - cbn. intros _. constructor.
Qed.

Lemma run_norep s : forall ops st, norep st -> norep (fst (run s st ops)).
Proof.
  induction ops as [|o r IH]; intros st H; [exact H|]. rewrite run_cons. cbn [fst]. apply IH, step_norep, H.
Qed.

(* repeats are rejected: under "forbidden" a batch that would repeat a pair raises and leaves the table alone *)
Lemma repeats_rejected_step s st rows cols p us unums is_ inums :
  b_repeats st = RForbidden ->
  link_class (b_users st) (map uid_of rows) p = Ok (us, unums) ->
  link_class (b_items st) (map iid_of rows) p = Ok (is_, inums) ->
  ~ NoDup (map fst (b_table st ++ zip_recs unums inums rows)) ->
  snd (step s st (AddInteractions rows cols p)) = Some EData /\
  b_table (fst (step s st (AddInteractions rows cols p))) = b_table st.
Proof.
  intros R Lu Li Hd. cbn [step]. rewrite Lu, Li, R.
  destruct (has_dup_pair (map fst (b_table st ++ zip_recs unums inums rows))) eqn:D; [split; reflexivity|].
  apply has_dup_pair_false in D. contradiction.
Qed.

(* ---- the built dataset ---- *)
Lemma build_wfd st d : inv st -> build st = Ok d -> wfd d /\ d_users d = U st /\ d_items d = I st /\ Permutation (b_table st) (d_tbl d).
Proof.
  intros [Nu Ni Vt] H. unfold build in H. destruct (b_repeats st); inversion H; subst; clear H; cbn;
    (split; [constructor; cbn; try assumption; try reflexivity;
             [apply sort_recs_sorted|rewrite Forall_forall in *; intros r Hr; apply Vt, sort_recs_In; exact Hr]
            |split; [reflexivity|split; [reflexivity|apply sort_recs_perm]]]).
Qed.

Lemma build_norep st d : norep st -> build st = Ok d -> NoDup (map fst (d_tbl d)).
Proof.
  intros Hn H. unfold build in H. destruct (b_repeats st) eqn:R; inversion H; subst; cbn;
    (eapply Permutation_NoDup; [apply Permutation_map, sort_recs_perm|apply Hn; congruence]).
Qed.

(* every view denotes the surviving input records *)
Lemma views_denote_input_l s ar ops d :
  build (final s ar ops) = Ok d ->
  let spec := k_recs (s_run s (s_init ar) ops) in
  Permutation spec (map (dec_with d r_a) (d_tbl d)) /\
  view_table_ids d = map (dec_with d r_a) (d_tbl d) /\
  den_table d (view_table d) = map (dec_with d r_a) (d_tbl d) /\
  den_user_rows d = map (dec_with d r_a) (d_tbl d) /\
  (forall f, let '(p, c, x) := view_csr d f in den_csr d p c x = map (dec_with d (value_of f)) (d_tbl d)) /\
  (forall f, let '(r, c, x) := view_coo d f in den_coo d r c x = map (dec_with d (value_of f)) (d_tbl d)) /\
  den_csr d (d_ptrs d) (map r_i (d_tbl d)) (map r_a (d_tbl d)) = map (dec_with d r_a) (d_tbl d) /\
  view_nnz d = length spec.
Proof.
  intro H. cbv zeta. destruct (final_refines s ar ops) as [Hi [Hr _]].
  destruct (build_wfd _ _ Hi H) as [W [Eu [Ei P]]].
  assert (Permutation (k_recs (s_run s (s_init ar) ops)) (map (dec_with d r_a) (d_tbl d))) as PP.
  { rewrite (R_t _ _ Hr). replace (map (dec_with d r_a) (d_tbl d)) with (map (dec (U (final s ar ops)) (I (final s ar ops))) (d_tbl d)).
    - apply Permutation_map. exact P.
    - apply map_ext. intro r. unfold dec, dec_with. rewrite Eu, Ei. reflexivity. }
  split; [exact PP|]. split; [reflexivity|]. split.
  { unfold view_table, den_table. apply map_ext. intros [[u i] a]. reflexivity. }
  split; [apply den_user_rows_table; exact W|]. split.
  { intro f. unfold view_csr. apply den_csr_table. exact W. } split.
  { intro f. unfold view_coo. apply den_coo_table. } split.
  { apply den_csr_table. exact W. }
  unfold view_nnz. rewrite (Permutation_length PP), map_length. reflexivity.
Qed.

(* entities without surviving records: empty row / column and zero counts *)
Lemma inactive_user_l s ar ops d u :
  build (final s ar ops) = Ok d -> In u (d_users d) ->
  (forall r, In r (k_recs (s_run s (s_init ar) ops)) -> uid_of r <> u) ->
  view_user_row d u = Some [] /\
  exists n, index_of u (d_users d) = Some n /\ st_records (stats_of s User d n) = 0%nat /\ st_other (stats_of s User d n) = 0%nat /\
            nth n (d_ptrs d) 0%nat = nth (S n) (d_ptrs d) 0%nat.
Proof.
  intros H Hu Hno. destruct (views_denote_input_l s ar ops d H) as [PP _]. cbv zeta in PP.
  destruct (final_refines s ar ops) as [Hi [Hr _]]. destruct (build_wfd _ _ Hi H) as [W _].
  destruct (index_of_In _ _ Hu) as [n En]. destruct (index_of_Some _ _ _ En) as [Ln Nn].
  assert (filter (fun x => Nat.eqb (r_u x) n) (d_tbl d) = []) as F.
  { destruct (filter (fun x => Nat.eqb (r_u x) n) (d_tbl d)) as [|r rest] eqn:E; [reflexivity|]. exfalso.
    assert (In r (filter (fun x => Nat.eqb (r_u x) n) (d_tbl d))) as Hr' by (rewrite E; left; reflexivity).
    apply filter_In in Hr'. destruct Hr' as [Hin Er]. apply Nat.eqb_eq in Er.
    apply (Hno (dec_with d r_a r)).
    - eapply Permutation_in; [symmetry; exact PP|]. apply in_map. exact Hin.
    - unfold dec_with, uid_of, term. cbn [fst]. rewrite Er. exact Nn. }
  split.
  - unfold view_user_row. rewrite En. rewrite (row_of_filter d W n Ln), F. reflexivity.
  - exists n. split; [exact En|]. unfold stats_of. cbn [st_records st_other]. rewrite F. split; [reflexivity|]. split; [reflexivity|].
    rewrite (w_ptrs d W).
    destruct (row_ptrs_correct_l (length (d_users d)) (d_tbl d) (sorted_by_user _ (w_sorted d W)) (tbl_rows_lt d W)) as [_ [_ [Hlast [Hmono _]]]].
    specialize (Hmono n Ln).
    destruct (row_ptrs_below (length (d_users d)) (d_tbl d) (tbl_rows_lt d W)) as [_ Pb].
    rewrite (Pb n) by lia. rewrite (Pb (S n)) by lia. rewrite below_S.
    unfold cnt. assert (length (filter (Nat.eqb n) (map r_u (d_tbl d))) = length (filter (fun x => Nat.eqb (r_u x) n) (d_tbl d))) as C.
    { clear. induction (d_tbl d) as [|x t IH]; [reflexivity|]. cbn [map filter]. rewrite (Nat.eqb_sym n (r_u x)).
      destruct (Nat.eqb (r_u x) n); cbn [length]; rewrite IH; reflexivity. }
    rewrite C, F. cbn. lia.
Qed.

Lemma inactive_item_l s ar ops d i :
  build (final s ar ops) = Ok d -> In i (d_items d) ->
  (forall r, In r (k_recs (s_run s (s_init ar) ops)) -> iid_of r <> i) ->
  exists n, index_of i (d_items d) = Some n /\ st_records (stats_of s Item d n) = 0%nat /\ st_other (stats_of s Item d n) = 0%nat /\
            ~ In n (map r_i (d_tbl d)).
Proof.
  intros H Hi' Hno. destruct (views_denote_input_l s ar ops d H) as [PP _]. cbv zeta in PP.
  destruct (index_of_In _ _ Hi') as [n En]. destruct (index_of_Some _ _ _ En) as [Ln Nn].
  assert (forall r, In r (d_tbl d) -> r_i r <> n) as Hnone.
  { intros r Hin Er. apply (Hno (dec_with d r_a r)).
    - eapply Permutation_in; [symmetry; exact PP|]. apply in_map. exact Hin.
    - unfold dec_with, iid_of, term. cbn [fst snd]. rewrite Er. exact Nn. }
  assert (filter (fun x => Nat.eqb (r_i x) n) (d_tbl d) = []) as F.
  { destruct (filter (fun x => Nat.eqb (r_i x) n) (d_tbl d)) as [|r rest] eqn:E; [reflexivity|]. exfalso.
    assert (In r (filter (fun x => Nat.eqb (r_i x) n) (d_tbl d))) as Hr' by (rewrite E; left; reflexivity).
    apply filter_In in Hr'. destruct Hr' as [Hin Er]. apply Nat.eqb_eq in Er. exact (Hnone r Hin Er). }
  exists n. split; [exact En|]. unfold stats_of. cbn [st_records st_other]. rewrite F. split; [reflexivity|]. split; [reflexivity|].
  intro C. apply in_map_iff in C. destruct C as [r [Er Hin]]. exact (Hnone r Hin Er).
Qed.

(* unknown identifiers are reported as unknown *)
Lemma unknown_reported_l :
  (forall v x, resolve v x = None <-> ~ In x v) /\
  (forall d u, view_user_row d u = None <-> ~ In u (d_users d)) /\
  (forall t ids, (exists e, link_class (Some t) ids MError = Err e) <-> exists x, In x ids /\ ~ In x t) /\
  (forall t ids v nums, link_class (Some t) ids MFilter = Ok (v, nums) ->
     v = Some t /\ nums = map (resolve t) ids).
Proof.
  split; [intros v x; apply index_of_None|]. split.
  { intros d u. unfold view_user_row. destruct (index_of u (d_users d)) eqn:E.
    - split; [discriminate|]. intro H. exfalso. apply H. destruct (index_of_Some _ _ _ E) as [L <-]. apply nth_In. exact L.
    - split; [intros _; apply index_of_None; exact E|reflexivity]. }
  split.
  { intros t ids. rewrite link_class_unfold. cbv beta iota zeta. rewrite resolve_all_some.
    destruct (forallb (known t) ids) eqn:F.
    - split; [intros [e He]; discriminate|]. intros [x [Hx Hn]]. rewrite forallb_forall in F. specialize (F x Hx).
      apply known_In in F. contradiction.
    - split; [intros _|intros _; eauto]. 
      assert (~ (forall x, In x ids -> known t x = true)) as NF by (intro C; apply forallb_forall in C; congruence).
      clear F. induction ids as [|y r IH]; [exfalso; apply NF; intros x []|].
      destruct (known t y) eqn:K.
      + destruct IH as [x [Hx Hn]]; [intro C; apply NF; intros x [->|Hx]; [exact K|apply C; exact Hx]|].
        exists x. split; [right; exact Hx|exact Hn].
      + exists y. split; [left; reflexivity|]. intro C. apply known_In in C. congruence. }
  intros t ids v nums. rewrite link_class_unfold. cbv beta iota zeta.
  destruct (all_some (map (resolve t) ids)); intro H; inversion H; split; reflexivity.
Qed.

(* ---- statements exactly as they appear in Props/C01.v ---- *)
Lemma vocab_bijection_main : forall s ar ops,
  let st := final s ar ops in
  NoDup (U st) /\ NoDup (I st) /\
  forall v, (v = U st \/ v = I st) ->
    (forall x, In x v -> exists n, index_of x v = Some n /\ (n < length v)%nat /\ term v n = x) /\
    (forall n, (n < length v)%nat -> In (term v n) v /\ index_of (term v n) v = Some n) /\
    (forall x, ~ In x v -> index_of x v = None).
Proof.
  intros s ar ops st. destruct (vocab_nodup_l s ar ops) as [A B]. split; [exact A|]. split; [exact B|].
  intros v [E | E]; subst v; apply vocab_bijection; assumption.
Qed.

Lemma numbers_stable_main : forall s ar ops1 ops2,
  prefix (U (final s ar ops1)) (U (final s ar (ops1 ++ ops2))) /\
  prefix (I (final s ar ops1)) (I (final s ar (ops1 ++ ops2))) /\
  (forall a b x n, prefix a b -> index_of x a = Some n -> index_of x b = Some n).
Proof.
  intros s ar ops1 ops2. destruct (numbers_stable_l s ar ops1 ops2) as [A B]. split; [exact A|]. split; [exact B|].
  intros a b x n. apply prefix_index_of.
Qed.

Lemma no_repeated_pair_built_l : forall s ar ops d,
  build (final s ar ops) = Ok d -> NoDup (map fst (d_tbl d)).
Proof.
  intros s ar ops d H. eapply build_norep; [|exact H]. unfold final. apply run_norep.
  unfold norep. intros _. constructor.
Qed.

Lemma outcomes_match_reading_l : forall s ar ops,
  map fst (snd (run s (init_state ar) ops)) = s_errs s (s_init ar) ops.
Proof. intros s ar ops. destruct (final_refines s ar ops) as [_ [_ E]]. exact E. Qed.

Lemma inactive_empty_l : forall s ar ops d,
  build (final s ar ops) = Ok d ->
  (forall u, In u (d_users d) -> (forall r, In r (k_recs (s_run s (s_init ar) ops)) -> uid_of r <> u) ->
     view_user_row d u = Some [] /\
     exists n, index_of u (d_users d) = Some n /\ st_records (stats_of s User d n) = 0%nat /\
               st_other (stats_of s User d n) = 0%nat /\ nth n (d_ptrs d) 0%nat = nth (S n) (d_ptrs d) 0%nat) /\
  (forall i, In i (d_items d) -> (forall r, In r (k_recs (s_run s (s_init ar) ops)) -> iid_of r <> i) ->
     exists n, index_of i (d_items d) = Some n /\ st_records (stats_of s Item d n) = 0%nat /\
               st_other (stats_of s Item d n) = 0%nat /\ ~ In n (map r_i (d_tbl d))).
Proof.
  intros s ar ops d H. split; [intros u; apply inactive_user_l; exact H|intros i; apply inactive_item_l; exact H].
Qed.

Lemma repeats_rejected_l :
  (forall s st rows cols p us unums is_ inums,
     b_repeats st = RForbidden ->
     link_class (b_users st) (map uid_of rows) p = Ok (us, unums) ->
     link_class (b_items st) (map iid_of rows) p = Ok (is_, inums) ->
     ~ NoDup (map fst (b_table st ++ zip_recs unums inums rows)) ->
     snd (step s st (AddInteractions rows cols p)) = Some EData /\
     b_table (fst (step s st (AddInteractions rows cols p))) = b_table st) /\
  (forall st, b_repeats st = RPresent -> build st = Err ENotImpl).
Proof.
  split; [exact repeats_rejected_step|]. intros st H. unfold build. rewrite H. reflexivity.
Qed.

Lemma sort_contract_l : forall l, StronglySorted rle (sort_recs l) /\ Permutation l (sort_recs l).
Proof. intro l. split; [apply sort_recs_sorted|apply sort_recs_perm]. Qed.
