(* C02 -- the shape of the source that the model relies on, compared with what the extractor
   (harness/translate/c02.py) regenerates from runner.py and _impl.py on every run. *)
From Coq Require Import List String Bool.
From LK Require Import Gen.C02_shape.
Import ListNotations.
Open Scope string_scope.

(* PipelineRunner.run: tests of the status word in order, and what each branch does *)
Definition expected_dispatch : list (string * string) :=
  [("finished", "return state if required or present else None");
   ("in-progress", "raise PipelineError"); ("failed", "raise RuntimeError")].
(* the status words run() writes, in order *)
Definition expected_writes : list string := ["in-progress"; "finished"; "failed"].
(* the members of the pipeline the runner reads *)
Definition expected_members : list string := ["name"; "node"; "node_input_connections"; "nodes"].

(* PipelineBuilder.connect(obj, k=n, ...): a Node is wired by its name; anything else -- whatever its type, a str
   that happens to spell the name of a node included -- becomes a new literal node (the model's BLiteral / EAddLit);
   default_connection likewise *)
Definition expected_connect : list (string * string) :=
  [("isinstance(n, Node)", "cast(Node[Any], n).name"); ("else", "self.literal(n).name")].
Definition expected_default_connection : list string :=
  ["if not isinstance(node, Node): node = self.literal(node)"; "self._default_connections[name] = node.name"].

Lemma shape_l :
  runner_fresh_per_run = true /\ init_all_pending = true /\ init_state_empty = true /\
  pipeline_methods_assigning_self = [] /\ handler_reraises_same_exception = true /\
  status_dispatch = expected_dispatch /\ status_writes = expected_writes /\
  pipeline_members_used = expected_members /\
  connect_wiring = expected_connect /\ default_connection_body = expected_default_connection.
Proof. repeat split; reflexivity. Qed.
