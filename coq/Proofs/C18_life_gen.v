(* C18 -- object lifetimes, for the generated scan (Gen/C18_frames.v: outside_state, train_keeps_outside) and the generated
   frame table: re-checked against the source on every run. *)
From Coq Require Import ZArith List Bool Lia.
From Coq Require String.
Import String.StringSyntax.
From LK Require Import Model.C18_retrain Gen.C18_frames Proofs.C18_proofs Proofs.C18_main Proofs.C18_frames_ok Proofs.C18_life.
Import ListNotations.
Local Open Scope string_scope.

Lemma dropped_datasets_leave_nothing_behind_l : forall (D S : Type) (fit : D -> S -> store -> fitres) fr
    (h : list (dobj D * opts S)) c (m : memo D),
  run_life fit train_keeps_outside fr h (c, m) = (run fit fr (contents h) c, m).
Proof. intros D S fit fr h c m. rewrite keeps_nothing_outside_l. apply run_life_nokeep. Qed.

Lemma lifetimes_retrain_equals_fresh_l : forall fr, In fr frames ->
  forall (D S : Type) (fit : D -> S -> store -> fitres) (h : list (dobj D * opts S)) x o (m : memo D), o_retrain o = true ->
  forall a, lookup a (fst (run_life fit train_keeps_outside fr (h ++ [(x, o)]) ([], m))) = lookup a (train fit fr (ob_data x) o []).
Proof.
  intros fr Hin D S fit h x o m Hr a. rewrite keeps_nothing_outside_l.
  apply life_retrain_fresh_nokeep; [|exact Hr].
  pose proof frames_closed_l as H. rewrite forallb_forall in H. apply H. exact Hin.
Qed.
