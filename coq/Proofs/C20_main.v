(* C20 -- the property-level statements (in terms of `observed`, not of the boolean key test). *)
From Coq Require Import ZArith List Bool Lia.
From LK Require Import Gen.C20_shape Model.C20_sampling Proofs.C20_key Proofs.C20_resample Proofs.C20_sample
  Proofs.C20_history Proofs.C20_reach.
Import ListNotations.
Open Scope Z_scope.

Lemma In_firstn {A} (x : A) k : forall l, In x (firstn k l) -> In x l.
Proof. induction k as [|k IH]; intros l H; [destruct H|]. destruct l; [destruct H|]. cbn in H. destruct H; [left; exact H|right; auto]. Qed.

Definition in_cols (m : mat) (c : Z) : Prop := 0 <= c < m_ncols m.

Lemma hit_observed m r c : wf m -> 0 <= r < B32 -> in_cols m c -> (hit m r c = true <-> observed m r c).
Proof. intros Hwf Hr Hc. destruct Hwf as [Hn Hp]. apply mem_observed; [split; assumption|exact Hr|unfold in_cols in Hc; lia]. Qed.

Lemma draws_in_cols m w ds : wf m -> draws_ok m w ds -> Forall (fun d => in_cols m (col_of m w d)) ds.
Proof. intros Hwf Hd. eapply Forall_impl; [|exact Hd]. intros d H. apply col_of_range; assumption. Qed.

Lemma shape_and_range_l m w verify att n rows ds out warns rest :
  wf m -> draws_ok m w ds ->
  sample m w verify att n rows ds = Ok (out, warns, rest) ->
  length out = ncolumns n /\ Forall (fun col => length col = length rows) out /\
  Forall (Forall (in_cols m)) out.
Proof.
  intros Hwf Hd H. destruct (sample_shape _ _ _ _ _ _ _ _ _ _ H) as [L F]. split; [exact L|]. split; [exact F|].
  apply (sample_Forall _ _ _ _ _ _ _ _ _ _ _ H). apply draws_in_cols; assumption.
Qed.

Lemma popular_draws_occur_l m verify att n rows ds out warns rest :
  draws_ok m Popular ds ->
  sample m Popular verify att n rows ds = Ok (out, warns, rest) -> Forall (Forall (occurs m)) out.
Proof.
  intros Hd H. apply (sample_Forall _ _ _ _ _ _ _ _ _ _ _ H).
  eapply Forall_impl; [|exact Hd]. intros d. apply col_of_popular_occurs.
Qed.

(* the number of observed cells among the returned ones, counted at the level of the property *)
Lemma warning_counts_exact_l m w att n rows ds out warns rest :
  sample m w true att n rows ds = Ok (out, warns, rest) ->
  observed_cells m rows out = zsum warns /\ Forall (fun x => 0 < x) warns /\ (length warns <= ncolumns n)%nat.
Proof. apply sample_account. Qed.

Lemma check_negatives_spec_l m rows col i r c :
  wf m -> 0 <= r < B32 -> in_cols m c ->
  nth_error rows i = Some r -> nth_error col i = Some c ->
  exists b, nth_error (check_negatives m rows col) i = Some b /\ (b = true <-> observed m r c).
Proof.
  intros Hwf Hr Hc Hri Hci. exists (hit m r c). split; [apply check_nth; assumption|apply hit_observed; assumption].
Qed.

Definition history_ok (m : mat) (att : Z) (r : Z) (h : list Z) : Prop :=
  (1 <= length h <= 1 + Z.to_nat att)%nat /\
  Forall (observed m r) (tl h) /\
  (observed m r (hd0 h) -> length h = (1 + Z.to_nat att)%nat).

Lemma failure_needs_all_hits_l m w fuel att rows cols ds hs warns rest :
  wf m -> rows_ok rows -> draws_ok m w ds -> length cols = length rows -> Forall (in_cols m) cols ->
  resample_h m w fuel att rows (map (fun c => [c]) cols) ds = Ok (hs, warns, rest) ->
  resample m w fuel att rows cols ds = Ok (map hd0 hs, warns, rest) /\
  Forall2 (history_ok m att) rows hs.
Proof.
  intros Hwf Hrows Hd L Hc H. split.
  - replace cols with (map hd0 (map (fun c => [c]) cols)) at 1 by (rewrite map_map; cbn; apply map_id).
    rewrite resample_h_erase by (rewrite map_length; exact L). rewrite H. reflexivity.
  - assert (Forall2 (fun r h => pre m (in_cols m) 1 r h /\ 0 <= r < B32) rows (map (fun c => [c]) cols)) as Hpre.
    { clear H. revert cols L Hc. induction rows as [|r rows IH]; intros cols L Hc; destruct cols as [|c cols]; try discriminate; [constructor|].
      inversion Hrows; subst. inversion Hc; subst. injection L as L. cbn [map]. constructor; [|apply IH; assumption].
      split; [|assumption]. unfold pre. cbn. repeat split; [constructor|constructor; [assumption|constructor]]. }
    assert (Forall2 (pre m (in_cols m) 1) rows (map (fun c => [c]) cols)) as Hpre1
      by (eapply Forall2_imp; [|exact Hpre]; intros a b [X _]; exact X).
    pose proof (resample_h_post m w (in_cols m) _ _ _ _ _ _ _ _ 1%nat ltac:(lia) H Hpre1 (draws_in_cols _ _ _ Hwf Hd)) as Hpost.
    assert (Forall2 (fun r h => post m (in_cols m) 1 att r h /\ 0 <= r < B32) rows hs) as Hpost'.
    { clear -Hpost Hrows. induction Hpost; [constructor|]. inversion Hrows; subst. constructor; [split; assumption|auto]. }
    eapply Forall2_imp; [|exact Hpost']. intros r h [[Hl [Ht [Hh Hp]]] Hr]. unfold history_ok.
    split; [lia|]. split.
    + destruct h as [|c0 t]; [constructor|]. cbn [tl] in *. inversion Hp; subst.
      rewrite Forall_forall in *. intros c Hin. apply hit_observed; auto.
    + intro Ho. apply Hh. destruct h as [|c0 t]; [cbn in Hl; lia|]. inversion Hp; subst. cbn [hd0 hd] in *.
      apply hit_observed; assumption.
Qed.

(* one requested row, one column: exactly when does the call fail? *)
Lemma single_row_failure_iff_l m w att r ds out warns rest :
  wf m -> 0 <= r < B32 -> draws_ok m w ds ->
  sample m w true att None [r] ds = Ok (out, warns, rest) ->
  (warns <> [] <-> Forall (fun d => observed m r (col_of m w d)) (firstn (1 + Z.to_nat att) ds)).
Proof.
  intros Hwf Hr Hd H. unfold sample in H. cbn [length Nat.mul Nat.add] in H.
  destruct (draw_columns m w 1 ds) as [[d ds1]| |] eqn:Ed; try discriminate.
  destruct (draw_columns_spec _ _ _ _ _ _ Ed) as [d0 [-> [Ld ->]]].
  destruct d0 as [|x [|? ?]]; try discriminate. cbn [map seq column_of Nat.mul Nat.add nth resample_cols] in H.
  destruct (resample m w _ att [r] [col_of m w x] ds1) as [[[c' w1] ds2]| |] eqn:Er; try discriminate.
  inversion H; subst. rewrite app_nil_r. rewrite (single_row_failure _ _ _ _ _ _ _ _ _ _ Er).
  cbn [app firstn Nat.add]. pose proof (draws_in_cols _ _ _ Hwf Hd) as Hc. inversion Hc as [|? ? Hx Hrest]; subst.
  assert (Forall (fun d => in_cols m (col_of m w d)) (firstn (Z.to_nat att) ds1)) as Hf.
  { rewrite Forall_forall in *. intros y Hy. apply Hrest. eapply In_firstn. exact Hy. }
  split.
  - intros [A B]. constructor; [apply hit_observed; assumption|].
    rewrite Forall_forall in *. intros y Hy. apply hit_observed; auto.
  - intro F. inversion F; subst. split; [apply hit_observed; assumption|].
    rewrite Forall_forall in *. intros y Hy. apply hit_observed; auto.
Qed.

Lemma eligible_in_cols m w c : wf m -> eligible m w c -> in_cols m c.
Proof.
  intros [Hn Hp] He. destruct w; [exact He|]. destruct He as [r Hin]. rewrite Forall_forall in Hp.
  specialize (Hp _ Hin). cbn in Hp. unfold in_cols. lia.
Qed.

Lemma every_eligible_reachable_main m w att n rows i j r c :
  wf m -> rows_ok rows ->
  nth_error rows i = Some r -> (j < ncolumns n)%nat ->
  eligible m w c -> ~ observed m r c ->
  exists ds, draws_ok m w ds /\
    exists out warns rest col, sample m w true att n rows ds = Ok (out, warns, rest) /\
      nth_error out j = Some col /\ nth_error col i = Some c.
Proof.
  intros Hwf Hrows Hr Hj He Hn. apply every_eligible_reachable_l with (r := r); try assumption.
  destruct (hit m r c) eqn:Hh; [|reflexivity]. exfalso. apply Hn.
  unfold rows_ok in Hrows. rewrite Forall_forall in Hrows.
  apply hit_observed; [assumption|apply Hrows; eapply nth_error_In; exact Hr|eapply eligible_in_cols; eassumption|exact Hh].
Qed.
