(* C06 -- the generated metric bodies (Gen/C06_metrics.v, regenerated from the source on every run)
   equal the reference model of Model/C06_ranking.v, up to equality of rationals.  These lemmas are
   what ties every theorem of Props/C06.v to the current source text. *)
From Coq Require Import ZArith QArith Qabs List Bool Lia Lqa Setoid Morphisms.
From LK Require Import Lib.QLib Lib.RankLib Model.C06_ranking Gen.C06_metrics.
Import ListNotations.
Open Scope Q_scope.

(* ---- exc_eq is an equivalence; np_div respects == ---- *)
Lemma exc_eq_refl a : exc_eq a a.
Proof. destruct a; cbn; [reflexivity|apply res_eq_refl]. Qed.
Lemma exc_eq_sym a b : exc_eq a b -> exc_eq b a.
Proof. destruct a, b; cbn; try tauto; [intro; congruence|apply res_eq_sym]. Qed.
Lemma exc_eq_trans a b c : exc_eq a b -> exc_eq b c -> exc_eq a c.
Proof. destruct a, b, c; cbn; try tauto; [intros; congruence|apply res_eq_trans]. Qed.
Lemma exc_eq_of_eq a b : a = b -> exc_eq a b.
Proof. intros ->. apply exc_eq_refl. Qed.

Lemma np_div_compat a a' b b' : a == a' -> b == b' -> res_eq (np_div a b) (np_div a' b').
Proof.
  intros Ha Hb. unfold np_div.
  destruct (Qeq_bool b 0) eqn:E; destruct (Qeq_bool b' 0) eqn:E'; cbn; auto.
  - apply Qeq_bool_iff in E. apply Qeq_bool_neq in E'. apply E'. rewrite <- Hb. exact E.
  - apply Qeq_bool_iff in E'. apply Qeq_bool_neq in E. apply E. rewrite Hb. exact E'.
  - rewrite Ha, Hb. reflexivity.
Qed.

(* ---- truncation ---- *)
Lemma truncate_nf k recs :
  truncate k recs = if trunc_ok k recs then Ret (trunc_il k recs) else Raise EValue.
Proof.
  unfold truncate, trunc_ok, trunc_il, il_slice_to, il_len. destruct recs as [o ids].
  destruct k as [n|]; cbn [il_ordered il_ids topk]; [|reflexivity]. destruct o; [|reflexivity].
  destruct (Nat.ltb n (length ids)) eqn:E; [reflexivity|].
  apply Nat.ltb_ge in E. rewrite firstn_all2 by lia. reflexivity.
Qed.

Lemma with_topk_nf k recs f :
  with_topk k recs f = if trunc_ok k recs then f (topk k (il_ids recs)) else Raise EValue.
Proof. unfold with_topk, trunc_ok, topk. destruct k; reflexivity. Qed.

(* ---- masks ---- *)
Lemma np_isin_rel L t : np_isin L (tl_ids t) = map (rel t) L.
Proof. reflexivity. Qed.

Lemma np_any_map {A} (f : A -> bool) L : np_any (map f L) = existsb f L.
Proof. unfold np_any. induction L as [|x L IH]; cbn; [reflexivity|]. rewrite IH. reflexivity. Qed.

Lemma mask_count_map {A} (f : A -> bool) L : mask_count (map f L) = length (filter f L).
Proof.
  unfold mask_count. induction L as [|x L IH]; cbn; [reflexivity|].
  destruct (f x); cbn; rewrite IH; reflexivity.
Qed.

Lemma mask_set_zeros {A} (f : A -> bool) L : mask_set (np_zeros (length L)) (map f L) 1 = map (fun x => b2q (f x)) L.
Proof.
  unfold np_zeros. induction L as [|x L IH]; cbn; [reflexivity|]. rewrite IH. destruct (f x); reflexivity.
Qed.

(* ---- rank sums ---- *)
Lemma ranksum_wsum w a : ranksum w a == wsum w 1 a.
Proof. unfold ranksum. symmetry. apply wsum_bigsum. Qed.

Lemma array_dcg_nf scores disc : array_dcg scores disc == dcg_of disc scores.
Proof.
  unfold array_dcg, dcg_of, np_arange, np_maximum, np_reciprocal.
  rewrite ranksum_wsum.
  replace (length scores + 1 - 1)%nat with (length scores) by lia.
  rewrite !map_map. rewrite dot_wsum. apply wsum_ext. intros i _. reflexivity.
Qed.

Lemma Qsum_map_seq (f : nat -> Q) r n : Qsum (map f (seq r n)) = bigsum r n f.
Proof. reflexivity. Qed.

Lemma fixed_dcg_nf n disc : fixed_dcg n disc = bigsum 1 n (dweight disc).
Proof.
  unfold fixed_dcg, np_arange, np_maximum, np_reciprocal.
  replace (n + 1 - 1)%nat with n by lia. rewrite !map_map. reflexivity.
Qed.

Lemma mask_select_powers (f : nat -> Q) m s :
  Qsum (mask_select (map f (seq s (length m))) m) == wsum (fun r => f (r - 1)%nat) (S s) (map b2q m).
Proof.
  revert s. induction m as [|b m IH]; intro s; [reflexivity|].
  cbn [length seq map mask_select wsum]. destruct b; cbn [Qsum b2q]; rewrite IH.
  - replace (S s - 1)%nat with s by lia. ring.
  - ring.
Qed.

Lemma firstn_map_seq (f : nat -> Q) n m : (n <= m)%nat -> firstn n (map f (seq 0 m)) = map f (seq 0 n).
Proof.
  intro L. rewrite firstn_map. f_equal.
  replace m with (n + (m - n))%nat by lia. rewrite seq_app, firstn_app, seq_length.
  rewrite Nat.sub_diag. cbn [firstn]. rewrite app_nil_r. apply firstn_all2. rewrite seq_length. lia.
Qed.

Lemma bigsum_shift (f : nat -> Q) n : bigsum 0 n f == bigsum 1 n (fun r => f (r - 1)%nat).
Proof.
  unfold bigsum. rewrite <- seq_shift, map_map.
  apply Qsum_map_ext. intros x _. replace (S x - 1)%nat with x by lia. reflexivity.
Qed.

(* ---- each generated measure_list against the model ---- *)
Lemma hit_gen k recs t : hit_measure_list k recs t = hit_model k recs t.
Proof.
  unfold hit_measure_list, hit_model. destruct (Nat.eqb (tl_len t) 0); [reflexivity|].
  rewrite truncate_nf, with_topk_nf. destruct (trunc_ok k recs); [|reflexivity].
  cbn [trunc_il il_ids]. rewrite np_isin_rel, np_any_map. reflexivity.
Qed.

Lemma precision_gen k recs t : precision_measure_list k recs t = precision_model k recs t.
Proof.
  unfold precision_measure_list, precision_model.
  rewrite truncate_nf, with_topk_nf. destruct (trunc_ok k recs); [|reflexivity].
  unfold il_len. cbn [trunc_il il_ids]. destruct (Nat.eqb (length (topk k (il_ids recs))) 0); [reflexivity|].
  rewrite np_isin_rel, mask_count_map. reflexivity.
Qed.

Lemma recall_gen k recs t : recall_measure_list k recs t = recall_model k recs t.
Proof.
  unfold recall_measure_list, recall_model.
  rewrite truncate_nf, with_topk_nf. destruct (trunc_ok k recs); [|reflexivity].
  cbn [trunc_il il_ids]. rewrite np_isin_rel, mask_count_map. unfold ngood, recall_denom.
  destruct k as [n|]; [|reflexivity].
  destruct (Nat.ltb_spec n (tl_len t)) as [L|L].
  - rewrite Nat.min_l by lia. reflexivity.
  - rewrite Nat.min_r by lia. reflexivity.
Qed.

Lemma nonzero_rr t L r :
  match nonzero_from r (map (rel t) L) with
  | [] => rr_from (S r) t L = 0
  | i :: _ => rr_from (S r) t L = 1 / Qofnat (S i)
  end.
Proof.
  revert r. induction L as [|x L IH]; intro r; cbn; [reflexivity|].
  destruct (rel t x); [reflexivity|]. apply IH.
Qed.

Lemma recip_gen k recs t : exc_eq (recip_measure_list k recs t) (recip_model k recs t).
Proof.
  unfold recip_measure_list, recip_model. destruct (Nat.eqb (tl_len t) 0); [apply exc_eq_refl|].
  rewrite truncate_nf, with_topk_nf. destruct (trunc_ok k recs); [|apply exc_eq_refl].
  cbn [trunc_il il_ids]. rewrite np_isin_rel. unfold np_nonzero.
  pose proof (nonzero_rr t (topk k (il_ids recs)) 0) as H.
  destruct (nonzero_from 0 (map (rel t) (topk k (il_ids recs)))) as [|i l].
  - cbn. rewrite H. reflexivity.
  - cbn [length Nat.eqb nth]. rewrite H. cbn [exc_eq].
    unfold np_div.
    assert (P : 0 < Qofnat i + 1) by (pose proof (Qofnat_nonneg i); lra).
    destruct (Qeq_bool (Qofnat i + 1) 0) eqn:E.
    + apply Qeq_bool_iff in E. lra.
    + cbn. rewrite Qofnat_S. apply Qdiv_comp; [reflexivity|ring].
Qed.

Lemma rbp_gen g nrm k recs t : exc_eq (rbp_measure_list k g nrm recs t) (rbp_model g nrm k recs t).
Proof.
  unfold rbp_measure_list, rbp_model.
  rewrite truncate_nf, with_topk_nf. destruct (trunc_ok k recs); [|apply exc_eq_refl].
  unfold il_len. cbn [trunc_il il_ids]. set (L := topk k (il_ids recs)).
  destruct (Nat.eqb (tl_len t) 0); [apply exc_eq_refl|].
  rewrite np_isin_rel. unfold np_power, np_arange. rewrite Nat.sub_0_r.
  assert (S1 : Qsum (mask_select (map (fun i : nat => g ^ Z.of_nat i) (seq 0 (length L))) (map (rel t) L))
               == rbp_sum g t L).
  { rewrite <- (map_length (rel t) L) at 1. rewrite mask_select_powers.
    unfold rbp_sum. rewrite ranksum_wsum. unfold relq. rewrite map_map. apply wsum_ext. intros i _. reflexivity. }
  destruct nrm; cbn [exc_eq].
  - apply np_div_compat; [exact S1|].
    rewrite firstn_map_seq by apply Nat.le_min_r. rewrite Qsum_map_seq. unfold rbp_max.
    apply bigsum_shift.
  - cbn. rewrite S1. reflexivity.
Qed.

Lemma dcg_gen disc graded k recs t : exc_eq (dcg_measure_list k disc graded recs t) (dcg_model disc graded k recs t).
Proof.
  unfold dcg_measure_list, dcg_model.
  rewrite truncate_nf, with_topk_nf. destruct (trunc_ok k recs); [|apply exc_eq_refl].
  cbn [trunc_il il_ids]. set (L := topk k (il_ids recs)).
  destruct graded.
  - unfold tl_field. destruct (tl_has_gain t); [|apply exc_eq_refl].
    cbn. apply array_dcg_nf.
  - rewrite np_isin_rel, mask_set_zeros. cbn. apply array_dcg_nf.
Qed.

Lemma ser_values_sorted s : ser_values (ser_sort_desc s) = sort_desc (map snd s).
Proof. unfold ser_values, ser_sort_desc. apply sort_desc_by_map. Qed.
Lemma ser_values_nlargest n s : ser_values (ser_nlargest n s) = firstn n (sort_desc (map snd s)).
Proof. unfold ser_nlargest, ser_values. rewrite <- firstn_map. fold (ser_values (ser_sort_desc s)). rewrite ser_values_sorted. reflexivity. Qed.

Lemma ndcg_gen disc graded k recs t : exc_eq (ndcg_measure_list k disc graded recs t) (ndcg_model disc graded k recs t).
Proof.
  unfold ndcg_measure_list, ndcg_model.
  rewrite truncate_nf, with_topk_nf. destruct (trunc_ok k recs); [|apply exc_eq_refl].
  cbn [trunc_il il_ids]. set (L := topk k (il_ids recs)).
  destruct graded.
  - unfold tl_field. destruct (tl_has_gain t); [|apply exc_eq_refl].
    unfold ideal_gains. destruct k as [n|].
    + destruct (Nat.eqb n 0); cbn [exc_eq]; apply np_div_compat; try apply array_dcg_nf.
      * rewrite ser_values_sorted. apply array_dcg_nf.
      * rewrite ser_values_nlargest. apply array_dcg_nf.
    + cbn [exc_eq]. apply np_div_compat; [apply array_dcg_nf|]. rewrite ser_values_sorted. apply array_dcg_nf.
  - rewrite np_isin_rel, mask_set_zeros. unfold ideal_count. destruct k as [n|].
    + destruct (Nat.eqb n 0); cbn [exc_eq].
      * apply np_div_compat; [apply array_dcg_nf|]. rewrite fixed_dcg_nf. reflexivity.
      * destruct (Nat.ltb_spec n (tl_len t)) as [Lt|Lt]; cbn [exc_eq]; (apply np_div_compat; [apply array_dcg_nf|]);
          rewrite fixed_dcg_nf; [rewrite Nat.min_l by lia|rewrite Nat.min_r by lia]; reflexivity.
    + cbn [exc_eq]. apply np_div_compat; [apply array_dcg_nf|]. rewrite fixed_dcg_nf. reflexivity.
Qed.

Lemma reindex_item_ranks (f : nat -> Q) cs i : f 0%nat = 0 ->
  gain_of (map (fun e : Z * nat => (fst e, f (snd e))) cs) i 0 = f (count_of cs i).
Proof.
  intro F0. induction cs as [|e cs IH]; cbn; [symmetry; exact F0|].
  destruct (Z.eqb i (fst e)); [reflexivity|exact IH].
Qed.

Lemma pop_gen counts k recs t :
  pop_measure_list k (pop_item_ranks counts) recs t = pop_model counts k recs t.
Proof.
  unfold pop_measure_list, pop_model.
  rewrite truncate_nf, with_topk_nf. destruct (trunc_ok k recs); [|reflexivity].
  unfold il_len. cbn [trunc_il il_ids].
  destruct (Nat.eqb (length (topk k (il_ids recs))) 0); [reflexivity|].
  unfold ser_reindex, pop_item_ranks, item_quantile. do 2 f_equal. apply map_ext. intro i.
  apply (reindex_item_ranks (quantile counts)). reflexivity.
Qed.
