(* C12 -- the batch runner's bookkeeping: one result per key, in key order, under the key's own name,
   equal to the single-query run; a failing key fails the whole run. *)
From Coq Require Import ZArith List Bool Arith String Lia.
From LK Require Import Model.C12_shapes Gen.C12_shape Model.C12_pool Proofs.C12_pool.
Import ListNotations.
Open Scope list_scope.

Section Dicts.
Context {X : Type}.

Lemma alookup_dset_same k (v : X) d : alookup k (dset k v d) = Some v.
Proof.
  induction d as [|[j w] d IH]; simpl; [rewrite String.eqb_refl; reflexivity|].
  destruct (String.eqb j k) eqn:E; simpl; rewrite E; [reflexivity|exact IH].
Qed.

Lemma alookup_dset_other k j (v : X) d : String.eqb k j = false -> alookup j (dset k v d) = alookup j d.
Proof.
  intro N. induction d as [|[i w] d IH]; simpl; [rewrite N; reflexivity|].
  destruct (String.eqb i k) eqn:E; simpl.
  - apply String.eqb_eq in E. subst i. rewrite N. reflexivity.
  - destruct (String.eqb i j); [reflexivity|exact IH].
Qed.

Lemma dset_keys k (v : X) d j : In j (map fst (dset k v d)) <-> j = k \/ In j (map fst d).
Proof.
  induction d as [|[i w] d IH]; simpl; [intuition|].
  destruct (String.eqb i k) eqn:E; simpl.
  - apply String.eqb_eq in E. subst i. intuition.
  - rewrite IH. intuition.
Qed.

Lemma dset_nodup k (v : X) d : NoDup (map fst d) -> NoDup (map fst (dset k v d)).
Proof.
  induction d as [|[i w] d IH]; simpl; intro ND; [constructor; [intros []|constructor]|].
  inversion ND as [|? ? Hn ND']; subst.
  destruct (String.eqb i k) eqn:E; simpl; [constructor; assumption|].
  constructor; [|apply IH, ND'].
  intro H. apply dset_keys in H. destruct H as [H|H]; [subst; rewrite String.eqb_refl in E; discriminate|contradiction].
Qed.

Lemma alookup_in_keys k (d : list (string * X)) : alookup k d <> None <-> In k (map fst d).
Proof.
  induction d as [|[j w] d IH]; simpl; [intuition|].
  destruct (String.eqb j k) eqn:E.
  - apply String.eqb_eq in E. subst. split; [intros _; left; reflexivity|intros _; discriminate].
  - rewrite IH. split; [intro H; right; exact H|intros [H|H]; [subst; rewrite String.eqb_refl in E; discriminate|exact H]].
Qed.
End Dicts.

Section BatchProofs.
Context {IV V : Type}.
Variable run_all : list string -> @inputs IV -> res (@outs V).

Notation invocation := (@invocation IV).
Notation bres := (@bres IV V).

Definition onames (invs : list invocation) : list string := flat_map (fun inv => map snd (iv_comps inv)) invs.

(* ---- what one task returns ---------------------------------------------------------------------------- *)

Lemma copy_outputs_keys comps : forall (o result r : @outs V),
  copy_outputs comps o result = Ok r ->
  (NoDup (map fst result) -> NoDup (map fst r)) /\
  (forall j, In j (map fst r) <-> In j (map fst result) \/ In j (map snd comps)).
Proof.
  induction comps as [|[cn on] comps IH]; intros o result r H; simpl in H.
  - inversion H; subst. split; [tauto|]. intro j. simpl. tauto.
  - destruct (alookup cn o) as [v|]; [|discriminate].
    destruct (IH _ _ _ H) as [N K]. split; [intro ND; apply N, dset_nodup, ND|].
    intro j. rewrite K, dset_keys. simpl. intuition.
Qed.

Lemma run_invs_keys invs : forall k items (result r : @outs V),
  run_invs run_all invs k items result = Ok r ->
  (NoDup (map fst result) -> NoDup (map fst r)) /\
  (forall j, In j (map fst r) <-> In j (map fst result) \/ In j (onames invs)).
Proof.
  induction invs as [|inv invs IH]; intros k items result r H; simpl in H.
  - inversion H; subst. split; [tauto|]. intro j. simpl. tauto.
  - unfold run_inv in H. destruct (run_all (map fst (iv_comps inv)) (inputs_of inv k items)) as [o|e]; [|discriminate].
    destruct (copy_outputs (iv_comps inv) o result) as [r1|e] eqn:C; [|discriminate].
    destruct (copy_outputs_keys _ _ _ _ C) as [N1 K1]. destruct (IH _ _ _ _ H) as [N2 K2].
    split; [intro ND; apply N2, N1, ND|].
    intro j. rewrite K2, K1. unfold onames. simpl. rewrite in_app_iff. fold (onames invs). intuition.
Qed.

(* ---- the result collections ----------------------------------------------------------------------------- *)

Lemma alookup_app_l {Y} k (a b : list (string * Y)) : alookup k (a ++ b) = match alookup k a with Some v => Some v | None => alookup k b end.
Proof. induction a as [|[j v] a IH]; simpl; [reflexivity|]. destruct (String.eqb j k); [reflexivity|exact IH]. Qed.

Lemma alookup_add_output n o (b : bres) :
  alookup o (add_output n b) = match alookup o b with Some l => Some l | None => if String.eqb n o then Some [] else None end.
Proof.
  unfold add_output. destruct (alookup n b) as [l|] eqn:E.
  - destruct (alookup o b) eqn:Eo; [reflexivity|].
    destruct (String.eqb n o) eqn:N; [|reflexivity]. apply String.eqb_eq in N. subst. congruence.
  - rewrite alookup_app_l. destruct (alookup o b); [reflexivity|]. simpl. destruct (String.eqb n o); reflexivity.
Qed.

Lemma alookup_declare invs o :
  alookup o (declare invs : bres) = if existsb (String.eqb o) (onames invs) then Some [] else None.
Proof.
  unfold declare.
  assert (G : forall (names : list string) (b : bres),
            alookup o (fold_left (fun b' n => add_output n b') names b) =
            match alookup o b with Some l => Some l | None => if existsb (String.eqb o) names then Some [] else None end).
  { induction names as [|n names IH]; intro b; simpl; [destruct (alookup o b); reflexivity|].
    rewrite IH, alookup_add_output. destruct (alookup o b); [reflexivity|].
    rewrite (String.eqb_sym o n). destruct (String.eqb n o); [reflexivity|]. reflexivity. }
  assert (F : forall invs (b : bres),
            fold_left (fun b inv => fold_left (fun b' co => add_output (snd co) b') (iv_comps inv) b) invs b =
            fold_left (fun b' n => add_output n b') (onames invs) b).
  { induction invs0 as [|inv invs0 IH]; intro b; simpl; [reflexivity|].
    unfold onames. simpl. rewrite fold_left_app. fold (onames invs0). rewrite <- IH. f_equal.
    generalize (iv_comps inv) b. induction l as [|co l IHl]; intro b0; simpl; [reflexivity|apply IHl]. }
  rewrite F, G. reflexivity.
Qed.

Lemma alookup_append_to n kv o (b : bres) :
  alookup o (append_to n kv b) = if String.eqb n o then option_map (fun l => l ++ [kv]) (alookup o b) else alookup o b.
Proof.
  induction b as [|[m l] b IH]; simpl; [destruct (String.eqb n o); reflexivity|].
  destruct (String.eqb m n) eqn:E; simpl.
  - apply String.eqb_eq in E. subst m. destruct (String.eqb n o); reflexivity.
  - destruct (String.eqb m o) eqn:Eo.
    + destruct (String.eqb n o) eqn:N; [|reflexivity].
      apply String.eqb_eq in Eo, N. subst. rewrite String.eqb_refl in E. discriminate.
    + exact IH.
Qed.

Lemma alookup_add_result n k v o (b : bres) :
  alookup n b <> None ->
  alookup o (add_result n k v b) = if String.eqb n o then option_map (fun l => l ++ [(k, v)]) (alookup o b) else alookup o b.
Proof.
  intro H. unfold add_result. rewrite alookup_append_to.
  assert (E : add_output n b = b) by (unfold add_output; destruct (alookup n b); [reflexivity|contradiction]).
  rewrite E. reflexivity.
Qed.

(* one task's outputs: every output it names gets exactly this key's value appended *)
Lemma alookup_add_task (out : @outs V) : forall k o (b : bres),
  NoDup (map fst out) -> (forall n, In n (map fst out) -> alookup n b <> None) ->
  alookup o (add_task_outputs b (k, out)) =
  match alookup o out with Some v => option_map (fun l => l ++ [(k, v)]) (alookup o b) | None => alookup o b end.
Proof.
  unfold add_task_outputs. simpl. induction out as [|[n v] out IH]; intros k o b ND P; simpl; [reflexivity|].
  inversion ND as [|? ? Hn ND']; subst.
  rewrite IH; [|exact ND'|].
  - rewrite alookup_add_result by (apply P; left; reflexivity).
    destruct (String.eqb n o) eqn:E.
    + apply String.eqb_eq in E. subst o.
      assert (alookup n out = None).
      { destruct (alookup n out) eqn:A; [|reflexivity]. exfalso. apply Hn. apply alookup_in_keys. congruence. }
      rewrite H. reflexivity.
    + reflexivity.
  - intros m Hm. rewrite alookup_add_result by (apply P; left; reflexivity).
    destruct (String.eqb n m); [|apply P; right; exact Hm].
    destruct (alookup m b) eqn:A; [discriminate|]. exfalso. apply (P m); [right; exact Hm|exact A].
Qed.

Lemma alookup_fold_tasks (rs : list (@key IV * @outs V)) : forall o (b : bres) l0,
  alookup o b = Some l0 ->
  (forall r, In r rs -> NoDup (map fst (snd r)) /\ (forall n, In n (map fst (snd r)) <-> alookup n b <> None)) ->
  exists l, alookup o (fold_left add_task_outputs rs b) = Some (l0 ++ l) /\
            map fst l = map fst rs /\
            map (fun kv => Some (snd kv)) l = map (fun r => alookup o (snd r)) rs.
Proof.
  induction rs as [|[k out] rs IH]; intros o b l0 H P; simpl.
  - exists []. rewrite app_nil_r. repeat split; assumption.
  - destruct (P (k, out) (or_introl eq_refl)) as [ND K]. simpl in ND, K.
    assert (Ho : exists v, alookup o out = Some v).
    { destruct (alookup o out) eqn:A; [eexists; reflexivity|]. exfalso.
      assert (X : alookup o b <> None) by congruence. apply K in X. apply alookup_in_keys in X. contradiction. }
    destruct Ho as [v Hv].
    assert (H1 : alookup o (add_task_outputs b (k, out)) = Some (l0 ++ [(k, v)])).
    { rewrite alookup_add_task; [rewrite Hv, H; reflexivity|exact ND|intros n Hn; apply K, Hn]. }
    destruct (IH o _ _ H1) as [l [L1 [L2 L3]]].
    { intros r Hr. destruct (P r (or_intror Hr)) as [ND' K']. split; [exact ND'|].
      intro n. rewrite K'. rewrite alookup_add_task; [|exact ND|intros m Hm; apply K, Hm].
      destruct (alookup n out); [|tauto]. destruct (alookup n b); simpl; split; intro; congruence. }
    exists ((k, v) :: l). rewrite L1, <- app_assoc. split; [reflexivity|]. simpl. rewrite L2, L3, Hv. split; reflexivity.
Qed.

(* ---- the run ---------------------------------------------------------------------------------------------- *)

(* the single-query operation for one key: what _run_pipeline produces for it under output name o *)
Definition single_query (invs : list invocation) (req : @key IV * IV) (o : string) : option V :=
  match run_pipeline run_all invs req with Ok (_, out) => alookup o out | Err _ => None end.

Variable mapper : (@key IV * IV -> res (@key IV * @outs V)) -> list (@key IV * IV) -> list (res (@key IV * @outs V)).
Hypothesis mapper_is_map : forall g xs, mapper g xs = map g xs.

Lemma existsb_in o names : existsb (String.eqb o) names = true <-> In o names.
Proof.
  rewrite existsb_exists. split.
  - intros [x [Hx E]]. apply String.eqb_eq in E. subst. exact Hx.
  - intro H. exists o. split; [exact H|apply String.eqb_refl].
Qed.

Lemma batch_is_sequential_l : forall invs reqs,
  (forall req, In req reqs -> is_ok (run_pipeline run_all invs req) = true) ->
  exists b, batch_run run_all mapper invs reqs = Ok b /\
    (forall o, alookup o b <> None <-> In o (onames invs)) /\
    forall o, In o (onames invs) ->
      exists l, alookup o b = Some l /\ map fst l = map fst reqs /\
                map (fun kv => Some (snd kv)) l = map (fun req => single_query invs req o) reqs.
Proof.
  intros invs reqs Hok. unfold batch_run. rewrite mapper_is_map.
  rewrite (consume_all_ok (run_pipeline run_all invs) (@nil (string * IV), @nil (string * V)) reqs Hok).
  set (rs := map (fun x => ok_value ([], []) (run_pipeline run_all invs x)) reqs).
  destruct batch_loop_shape.
  exists (fold_left add_task_outputs rs (declare invs)). split; [reflexivity|].
  (* every task returns its own key and exactly the declared output names, each once *)
  assert (R : forall req, In req reqs ->
            exists out, run_pipeline run_all invs req = Ok (fst req, out) /\ NoDup (map fst out) /\
                        forall n, In n (map fst out) <-> In n (onames invs)).
  { intros req Hin. pose proof (Hok req Hin) as O. unfold run_pipeline in *.
    destruct (run_invs run_all invs (fst req) (snd req) []) as [out|e] eqn:E; [|discriminate].
    destruct (run_invs_keys _ _ _ _ _ E) as [N K]. exists out. split; [reflexivity|]. split; [apply N; constructor|].
    intro n. rewrite K. simpl. tauto. }
  assert (D : forall n, alookup n (declare invs : bres) <> None <-> In n (onames invs)).
  { intro n. rewrite alookup_declare, <- existsb_in. destruct (existsb (String.eqb n) (onames invs)); split; congruence. }
  assert (P : forall r, In r rs -> NoDup (map fst (snd r)) /\ (forall n, In n (map fst (snd r)) <-> alookup n (declare invs : bres) <> None)).
  { intros r Hr. unfold rs in Hr. apply in_map_iff in Hr. destruct Hr as [req [<- Hin]].
    destruct (R req Hin) as [out [E [N K]]]. rewrite E. simpl. split; [exact N|]. intro n. rewrite K, D. tauto. }
  split.
  - intro o. destruct (in_dec string_dec o (onames invs)) as [I|I].
    + assert (Hd : alookup o (declare invs : bres) = Some []) by (rewrite alookup_declare; apply existsb_in in I; rewrite I; reflexivity).
      destruct (alookup_fold_tasks rs o _ _ Hd P) as [l [L _]]. rewrite L. split; [intros _; exact I|intros _; discriminate].
    + split; [|intro X; contradiction]. intro X. exfalso. apply X.
      (* an undeclared name is never created: every task's names are declared ones *)
      assert (G : forall (rs0 : list (@key IV * @outs V)) (b : bres), alookup o b = None ->
                (forall r, In r rs0 -> NoDup (map fst (snd r)) /\ forall n, In n (map fst (snd r)) -> alookup n b <> None) ->
                alookup o (fold_left add_task_outputs rs0 b) = None).
      { induction rs0 as [|[k out] rs0 IH]; intros b Hb Pb; simpl; [exact Hb|].
        destruct (Pb (k, out) (or_introl eq_refl)) as [ND K]. simpl in ND, K.
        apply IH.
        - rewrite alookup_add_task by assumption. destruct (alookup o out) eqn:A; [|exact Hb].
          exfalso. apply (K o); [apply alookup_in_keys; congruence|exact Hb].
        - intros r Hr. destruct (Pb r (or_intror Hr)) as [ND' K']. split; [exact ND'|].
          intros n Hn. rewrite alookup_add_task by assumption.
          pose proof (K' n Hn) as Q. destruct (alookup n out); [|exact Q]. destruct (alookup n b); [discriminate|contradiction]. }
      apply G.
      * rewrite alookup_declare. destruct (existsb (String.eqb o) (onames invs)) eqn:E; [apply existsb_in in E; contradiction|reflexivity].
      * intros r Hr. destruct (P r Hr) as [N K]. split; [exact N|]. intros n Hn. apply K, Hn.
  - intros o I.
    assert (Hd : alookup o (declare invs : bres) = Some []) by (rewrite alookup_declare; apply existsb_in in I; rewrite I; reflexivity).
    destruct (alookup_fold_tasks rs o _ _ Hd P) as [l [L1 [L2 L3]]].
    exists l. split; [exact L1|]. unfold rs in L2, L3. rewrite map_map in L2, L3. split.
    + rewrite L2. apply map_ext_in. intros req Hin. destruct (R req Hin) as [out [E _]]. rewrite E. reflexivity.
    + rewrite L3. apply map_ext_in. intros req Hin. unfold single_query. destruct (R req Hin) as [out [E _]]. rewrite E. reflexivity.
Qed.

(* a key whose single-query run fails makes the whole batch run fail with that error: no collection is
   returned at all, hence no shorter or shifted one *)
Lemma failure_surfaces_l : forall invs pre req post e,
  (forall r, In r pre -> is_ok (run_pipeline run_all invs r) = true) ->
  run_pipeline run_all invs req = Err e ->
  batch_run run_all mapper invs (pre ++ req :: post) = Err e.
Proof.
  intros invs pre req post e Hpre He. unfold batch_run. rewrite mapper_is_map.
  rewrite (consume_first_error (run_pipeline run_all invs) (@nil (string * IV), @nil (string * V)) pre req post e Hpre He).
  destruct batch_loop_shape. reflexivity.
Qed.

End BatchProofs.

(* the abstract pool, under any complete schedule, satisfies the map contract the batch theorems assume *)
Lemma pool_mapper_is_map {A R} n_jobs (sched_of : list A -> list ev) :
  (forall (g : A -> res R) xs, n_jobs <> 1 -> complete (prun g xs (sched_of xs)) = true) ->
  forall (g : A -> res R) xs, (fun g xs => invoker_map g n_jobs xs (sched_of xs)) g xs = map g xs.
Proof. intros H g xs. apply invoker_map_l. intro N. apply H, N. Qed.

(* ---- the module-level helpers hand their parameters on ------------------------------------------------ *)

Lemma helpers_forward_parameters_l : forall (IV : Type) (k : @key IV) (n items : IV),
  inputs_of (helper_inv helper_recommend n) k items = single_inputs HSRecommendN (alookup "user_id"%string k) n items /\
  inputs_of (helper_inv helper_score n) k items = single_inputs HSScore (alookup "user_id"%string k) n items /\
  inputs_of (helper_inv helper_predict n) k items = single_inputs HSPredict (alookup "user_id"%string k) n items.
Proof.
  intros IV k n items. unfold inputs_of, helper_recommend, helper_score, helper_predict, run_pipeline_steps, single_inputs.
  cbn. destruct (alookup "user_id"%string k); cbn; repeat split; reflexivity.
Qed.
