(* C13 -- literal values survive the document: what represent writes as JSON is read back as the same
   Python value (type of every part included), everything else is pickled, and different values are
   written differently. *)
From Coq Require Import String Ascii List Bool Arith.
From LK Require Import Lib.StrDict Gen.C13_shape Model.C13_json Model.C13_config Model.C13_literal.
Import ListNotations.
Open Scope string_scope.

(* induction over values, through the lists *)
Section PyvInd.
  Variable P : pyv -> Prop.
  Hypothesis HNone : P PNone.
  Hypothesis HBool : forall b, P (PBool b).
  Hypothesis HInt : forall t, P (PInt t).
  Hypothesis HFloat : forall t, P (PFloat t).
  Hypothesis HFloatNF : forall w, P (PFloatNF w).
  Hypothesis HStr : forall s, P (PStr s).
  Hypothesis HList : forall l, Forall P l -> P (PList l).
  Hypothesis HTuple : forall l, Forall P l -> P (PTuple l).
  Hypothesis HDict : forall kv, Forall (fun p => P (fst p) /\ P (snd p)) kv -> P (PDict kv).
  Hypothesis HSub : forall b, P b -> P (PSub b).
  Hypothesis HOther : forall w, P (POther w).

  Fixpoint pyv_rect' (v : pyv) : P v :=
    match v with
    | PNone => HNone
    | PBool b => HBool b
    | PInt t => HInt t
    | PFloat t => HFloat t
    | PFloatNF w => HFloatNF w
    | PStr s => HStr s
    | PList l => HList l ((fix go (l : list pyv) : Forall P l :=
                             match l with [] => Forall_nil P | x :: r => Forall_cons x (pyv_rect' x) (go r) end) l)
    | PTuple l => HTuple l ((fix go (l : list pyv) : Forall P l :=
                               match l with [] => Forall_nil P | x :: r => Forall_cons x (pyv_rect' x) (go r) end) l)
    | PDict kv => HDict kv ((fix go (l : list (pyv * pyv)) : Forall (fun p => P (fst p) /\ P (snd p)) l :=
                               match l with
                               | [] => Forall_nil _
                               | (k, x) :: r => Forall_cons (k, x) (conj (pyv_rect' k) (pyv_rect' x)) (go r)
                               end) kv)
    | PSub b => HSub b (pyv_rect' b)
    | POther w => HOther w
    end.
End PyvInd.

Lemma int_tok_not_keyword t : is_int_tok t = true ->
  String.eqb t "null" = false /\ String.eqb t "true" = false /\ String.eqb t "false" = false.
Proof.
  intro Hi. repeat split.
  all: destruct (String.eqb t _) eqn:E; [apply String.eqb_eq in E; subst t; vm_compute in Hi; discriminate|reflexivity].
Qed.

(* a JSON-exact value is read back from its JSON tree unchanged *)
Lemma of_to_json v : json_exact v = true -> pyv_wf v = true -> of_json (to_json v) = v.
Proof.
  induction v as [| b | t | t | w | s | l IH | l IH | kv IH | b IH | w] using pyv_rect'; cbn [json_exact]; intros He Hw; try discriminate.
  - reflexivity.
  - destruct b; reflexivity.
  - cbn [pyv_wf] in Hw. cbn [to_json of_json].
    destruct (int_tok_not_keyword t Hw) as (E1 & E2 & E3). now rewrite E1, E2, E3, Hw.
  - cbn [pyv_wf] in Hw. unfold float_tok_ok in Hw. cbn [to_json of_json].
    apply andb_prop in Hw. destruct Hw as [Hw E3]. apply andb_prop in Hw. destruct Hw as [Hw E2].
    apply andb_prop in Hw. destruct Hw as [E0 E1].
    apply negb_true_iff in E0, E1, E2, E3. now rewrite E1, E2, E3, E0.
  - reflexivity.
  - cbn [pyv_wf] in Hw. cbn [to_json of_json]. f_equal.
    induction l as [|x r IHr]; [reflexivity|].
    cbn [forallb] in He, Hw. apply andb_prop in He, Hw. destruct He as [He1 He2], Hw as [Hw1 Hw2].
    inversion IH as [|? ? Hx Hr]; subst. cbn [map]. rewrite (Hx He1 Hw1). f_equal. exact (IHr Hr He2 Hw2).
  - cbn [pyv_wf] in Hw. cbn [to_json of_json]. f_equal.
    induction kv as [|[k x] r IHr]; [reflexivity|].
    cbn [forallb] in He, Hw. apply andb_prop in He, Hw. destruct He as [He1 He2], Hw as [Hw1 Hw2].
    apply andb_prop in He1, Hw1. destruct He1 as [Hk He1], Hw1 as [_ Hw1].
    inversion IH as [|? ? Hx Hr]; subst. cbn [fst snd] in Hx. destruct Hx as [_ Hx]. cbn [map].
    destruct k; try discriminate Hk. cbn [key_str]. rewrite (Hx He1 Hw1). f_equal. exact (IHr Hr He2 Hw2).
Qed.

Section Represent.
  Variable pickle : pyv -> string.
  Variable unpickle : string -> option pyv.

  Lemma choice_exact v : json_choice v = json_exact v.
  Proof. unfold json_choice. change literal_json_iff_exact with true. reflexivity. Qed.

  (* the JSON encoding is chosen exactly for the values JSON can hold as they are *)
  Lemma represent_json_iff v : l_enc (represent pickle v) = "json" <-> json_exact v = true.
  Proof.
    unfold represent. rewrite choice_exact. destruct (json_exact v); cbn; split; intro H; try reflexivity; discriminate.
  Qed.

  Lemma represent_enc v : l_enc (represent pickle v) = "json" \/ l_enc (represent pickle v) = "base85".
  Proof. unfold represent. destruct (json_choice v); cbn; auto. Qed.

  (* the literal node of the reloaded pipeline holds the value of the original one, whatever its type *)
  Lemma decode_represent : (forall v, unpickle (pickle v) = Some v) ->
    forall v, pyv_wf v = true -> decode unpickle (represent pickle v) = Some v.
  Proof.
    intros Hp v Hw. unfold represent. rewrite choice_exact. destruct (json_exact v) eqn:He.
    - unfold decode. cbn [l_enc l_value]. cbn [String.eqb Ascii.eqb Bool.eqb]. now rewrite (of_to_json v He Hw).
    - unfold decode. cbn [l_enc l_value]. cbn. apply Hp.
  Qed.

  (* ... and writing that value again gives the same entry (what from_config followed by build_config does) *)
  Lemma rerepresent : (forall v, unpickle (pickle v) = Some v) ->
    forall v, pyv_wf v = true ->
    exists v', decode unpickle (represent pickle v) = Some v' /\ represent pickle v' = represent pickle v.
  Proof. intros Hp v Hw. exists v. split; [apply decode_represent; assumption|reflexivity]. Qed.

  (* different values (a tuple and the equal list, 1 and true, a key 1 and a key "1") are written differently *)
  Lemma represent_inj : (forall v w, pickle v = pickle w -> v = w) ->
    forall v w, pyv_wf v = true -> pyv_wf w = true -> represent pickle v = represent pickle w -> v = w.
  Proof.
    intros Hi v w Hv Hw E. unfold represent in E. rewrite (choice_exact v), (choice_exact w) in E.
    destruct (json_exact v) eqn:Ev, (json_exact w) eqn:Ew; cbv iota in E.
    - injection E as E. rewrite <- (of_to_json v Ev Hv), <- (of_to_json w Ew Hw), E. reflexivity.
    - discriminate E.
    - discriminate E.
    - injection E as E. exact (Hi _ _ E).
  Qed.

  (* one contract suffices: a pickle that can be loaded again is injective *)
  Lemma literal_survives_l : (forall v, unpickle (pickle v) = Some v) ->
    forall v, pyv_wf v = true ->
    decode unpickle (represent pickle v) = Some v /\
    (l_enc (represent pickle v) = "json" <-> json_exact v = true) /\
    (l_enc (represent pickle v) = "json" \/ l_enc (represent pickle v) = "base85") /\
    forall v', decode unpickle (represent pickle v) = Some v' -> represent pickle v' = represent pickle v.
  Proof.
    intros Hp v Hw. split; [apply decode_represent; assumption|]. split; [apply represent_json_iff|].
    split; [apply represent_enc|]. intros v' E. rewrite (decode_represent Hp v Hw) in E. now injection E as <-.
  Qed.

  Lemma literal_change_l : (forall v, unpickle (pickle v) = Some v) ->
    forall v w, pyv_wf v = true -> pyv_wf w = true -> v <> w -> represent pickle v <> represent pickle w.
  Proof.
    intros Hp v w Hv Hw Hne E. apply Hne. apply (represent_inj) with (3 := Hw) (2 := Hv); [|exact E].
    intros a b Eab. pose proof (Hp a) as Ha. rewrite Eab, (Hp b) in Ha. now injection Ha as <-.
  Qed.
End Represent.
