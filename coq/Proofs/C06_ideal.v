(* C06 -- an ideal ranking of the test items scores 1 for nDCG, recall and normalised RBP. *)
From Coq Require Import ZArith QArith Qpower Qabs List Bool Lia Lqa Permutation Sorted Setoid Morphisms.
From LK Require Import Lib.QLib Lib.RankLib Model.C06_ranking Proofs.C06_model Proofs.C06_bounds.
Import ListNotations.
Open Scope Q_scope.

(* the test items first (all of them, in non-increasing order of gain), then anything irrelevant *)
Definition ideal_ranking (t : tlist) (ids : list Z) : Prop :=
  exists P R, ids = P ++ R /\ Permutation P (tl_ids t) /\ (forall i, In i R -> ~ In i (tl_ids t)) /\
              desc (map (fun i => gain_of (tl_items t) i 0) P).
(* binary relevance: every order of the test items is ideal *)
Definition ideal_ranking_bin (t : tlist) (ids : list Z) : Prop :=
  exists P R, ids = P ++ R /\ Permutation P (tl_ids t) /\ (forall i, In i R -> ~ In i (tl_ids t)).

(* ---- two non-increasing arrangements of one multiset agree position by position ---- *)
Lemma prefix_sums_pointwise : forall l1 l2 : list Q,
  length l1 = length l2 -> (forall n, Qsum (firstn n l1) == Qsum (firstn n l2)) -> Forall2 Qeq l1 l2.
Proof.
  induction l1 as [|x l1 IH]; intros [|y l2] Len H; try discriminate; constructor.
  - specialize (H 1%nat). cbn in H. lra.
  - apply IH; [cbn in Len; lia|]. intro n.
    pose proof (H 1%nat) as H1. pose proof (H (S n)) as Hn. cbn in H1, Hn. lra.
Qed.

Lemma desc_perm_pointwise l1 l2 : desc l1 -> desc l2 -> Permutation l1 l2 -> Forall2 Qeq l1 l2.
Proof.
  intros D1 D2 P. apply prefix_sums_pointwise; [apply Permutation_length, P|].
  intro n. apply topsum_desc_unique; assumption.
Qed.

Lemma wsum_Forall2 w r a b : Forall2 Qeq a b -> wsum w r a == wsum w r b.
Proof.
  intro F. revert r. induction F as [|x y a b E F IH]; intro r; cbn; [reflexivity|].
  rewrite E, IH. reflexivity.
Qed.

Lemma Forall2_firstn {A B} (R : A -> B -> Prop) n a b : Forall2 R a b -> Forall2 R (firstn n a) (firstn n b).
Proof.
  intro F. revert n. induction F; intros [|n]; cbn; constructor; auto.
Qed.

(* ---- gains along the test identifiers ---- *)
Lemma gain_of_absent s i : ~ In i (map fst s) -> gain_of s i 0 = 0.
Proof.
  induction s as [|e s IH]; cbn; intro H; [reflexivity|].
  destruct (Z.eqb_spec i (fst e)) as [E|N]; [exfalso; apply H; left; symmetry; exact E|].
  apply IH. intro I. apply H. right. exact I.
Qed.

Lemma gains_along_ids s : NoDup (map fst s) -> map (fun i => gain_of s i 0) (map fst s) = map snd s.
Proof.
  induction s as [|[j g] s IH]; cbn [map fst snd]; intro ND; [reflexivity|].
  inversion ND as [|? ? Hj Hs]; subst. cbn [gain_of fst snd]. rewrite Z.eqb_refl. f_equal.
  rewrite <- (IH Hs). apply map_ext_in. intros i Hi.
  destruct (Z.eqb_spec i j) as [->|N]; [contradiction|reflexivity].
Qed.

Lemma firstn_app_zeros (w : nat -> Q) n G Zs :
  (forall x, In x Zs -> x == 0) -> wsum w 1 (firstn n (G ++ Zs)) == wsum w 1 (firstn n G).
Proof.
  intro HZ. rewrite firstn_app, wsum_app.
  rewrite (wsum_all_zero w _ (firstn (n - length G) Zs)); [ring|].
  intros x Hx. apply HZ. eapply In_firstn; eauto.
Qed.

Lemma app_zeros (w : nat -> Q) G Zs :
  (forall x, In x Zs -> x == 0) -> wsum w 1 (G ++ Zs) == wsum w 1 G.
Proof. intro HZ. rewrite wsum_app, (wsum_all_zero w _ Zs HZ). ring. Qed.

Lemma np_div_self a b : a == b -> 0 < b -> exc_eq (Ret (np_div a b)) (Ret (RVal 1)).
Proof.
  intros E P. unfold np_div. destruct (Qeq_bool b 0) eqn:Z0.
  - apply Qeq_bool_iff in Z0. lra.
  - cbn. rewrite E. field. lra.
Qed.

Lemma with_topk_ok k recs f : trunc_ok k recs = true -> with_topk k recs f = f (topk k (il_ids recs)).
Proof. intro OK. unfold with_topk, trunc_ok in *. destruct k; [rewrite OK|]; reflexivity. Qed.

(* ---- nDCG ---- *)
Lemma ideal_dcg_attained disc k t ids :
  NoDup (tl_ids t) -> ideal_ranking t ids -> valid_k k ->
  dcg_of disc (scores_graded t (topk k ids)) == dcg_of disc (ideal_gains k (map snd (tl_items t))).
Proof.
  intros NDt (P & R & -> & PP & DR & DP) VK. unfold dcg_of. rewrite !ranksum_wsum.
  set (g := fun i => gain_of (tl_items t) i 0) in *.
  assert (ZR : forall x, In x (map g R) -> x == 0).
  { intros x Hx. apply in_map_iff in Hx. destruct Hx as (i & <- & Hi). unfold g.
    rewrite gain_of_absent; [reflexivity|]. apply DR, Hi. }
  assert (PW : Forall2 Qeq (map g P) (sort_desc (map snd (tl_items t)))).
  { apply desc_perm_pointwise; [exact DP|apply sort_desc_desc|].
    etransitivity; [apply Permutation_map, PP|]. unfold g, tl_ids. rewrite gains_along_ids by exact NDt.
    apply sort_desc_perm. }
  unfold scores_graded, ideal_gains. fold g. destruct k as [n|].
  - destruct (Nat.eqb_spec n 0) as [->|Hn]; [exfalso; apply VK; reflexivity|].
    cbn [topk]. rewrite <- firstn_map, map_app, firstn_app_zeros by exact ZR.
    apply wsum_Forall2, Forall2_firstn, PW.
  - cbn [topk]. rewrite map_app, app_zeros by exact ZR. apply wsum_Forall2, PW.
Qed.

Lemma ndcg_graded_ideal disc k recs t :
  trunc_ok k recs = true -> NoDup (tl_ids t) -> tl_has_gain t = true -> nonneg_gains t -> valid_k k ->
  (exists e, In e (tl_items t) /\ 0 < snd e) -> ideal_ranking t (il_ids recs) ->
  exc_eq (ndcg_model disc true k recs t) (Ret (RVal 1)).
Proof.
  intros OK NDt HG NN VK PG ID. unfold ndcg_model. rewrite with_topk_ok by exact OK. rewrite HG.
  apply np_div_self; [apply ideal_dcg_attained; assumption|apply ideal_pos; assumption].
Qed.

Lemma desc_const (l : list Q) c : (forall x, In x l -> x = c) -> desc l.
Proof.
  induction l as [|x l IH]; intro H; constructor.
  - apply IH. intros y Hy. apply H. right. exact Hy.
  - rewrite Forall_forall. intros y Hy. unfold Qge'.
    rewrite (H x) by (left; reflexivity). rewrite (H y) by (right; exact Hy). lra.
Qed.

Lemma ideal_bin_as_graded t ids : ideal_ranking_bin t ids -> ideal_ranking (ones t) ids.
Proof.
  intros (P & R & E & PP & DR). exists P, R. rewrite tl_ids_ones. repeat split; try assumption.
  apply (desc_const _ 1). intros x Hx. apply in_map_iff in Hx. destruct Hx as (i & <- & Hi).
  rewrite <- relq_gain. unfold relq.
  assert (Hr : rel t i = true) by (apply rel_In; eapply Permutation_in; eauto). rewrite Hr. reflexivity.
Qed.

Lemma exc_eq_trans' a b c : exc_eq a b -> exc_eq b c -> exc_eq a c.
Proof. destruct a, b, c; cbn; try tauto; [intros; congruence|apply res_eq_trans]. Qed.

Lemma ndcg_binary_ideal disc k recs t :
  trunc_ok k recs = true -> NoDup (tl_ids t) -> tl_len t <> 0%nat -> valid_k k ->
  ideal_ranking_bin t (il_ids recs) ->
  exc_eq (ndcg_model disc false k recs t) (Ret (RVal 1)).
Proof.
  intros OK NDt NE VK ID. eapply exc_eq_trans'; [apply ndcg_binary_as_graded|].
  assert (NDt' : NoDup (tl_ids (ones t))) by (rewrite tl_ids_ones; exact NDt).
  assert (PG : exists e, In e (tl_items (ones t)) /\ 0 < snd e).
  { unfold tl_len in NE. unfold ones, tl_ids. cbn. destruct (tl_items t) as [|e l]; [contradiction|].
    exists (fst e, 1). split; [left; reflexivity|cbn; lra]. }
  exact (ndcg_graded_ideal disc k recs (ones t) OK NDt' eq_refl (ones_nonneg t) VK PG (ideal_bin_as_graded _ _ ID)).
Qed.

(* ---- recall and RBP: count of relevant items at the top ---- *)
Lemma ngood_app t a b : ngood t (a ++ b) = (ngood t a + ngood t b)%nat.
Proof. unfold ngood. rewrite filter_app, app_length. reflexivity. Qed.
Lemma ngood_all t a : (forall i, In i a -> rel t i = true) -> ngood t a = length a.
Proof.
  unfold ngood. induction a as [|x a IH]; intro H; [reflexivity|]. cbn.
  rewrite (H x) by (left; reflexivity). cbn. rewrite IH; [reflexivity|]. intros i Hi. apply H. right. exact Hi.
Qed.
Lemma ngood_none t a : (forall i, In i a -> rel t i = false) -> ngood t a = 0%nat.
Proof.
  unfold ngood. induction a as [|x a IH]; intro H; [reflexivity|]. cbn.
  rewrite (H x) by (left; reflexivity). apply IH. intros i Hi. apply H. right. exact Hi.
Qed.

Lemma rel_false_notin t i : ~ In i (tl_ids t) -> rel t i = false.
Proof. intro H. destruct (rel t i) eqn:E; [apply rel_In in E; contradiction|reflexivity]. Qed.

Lemma ideal_bin_parts t ids : ideal_ranking_bin t ids ->
  exists P R, ids = P ++ R /\ length P = tl_len t /\
    (forall i, In i P -> rel t i = true) /\ (forall i, In i R -> rel t i = false).
Proof.
  intros (P & R & E & PP & DR). exists P, R. repeat split; try assumption.
  - rewrite (Permutation_length PP). unfold tl_ids, tl_len. apply map_length.
  - intros i Hi. apply rel_In. eapply Permutation_in; eauto.
  - intros i Hi. apply rel_false_notin, DR, Hi.
Qed.

Lemma ngood_ideal t ids k : ideal_ranking_bin t ids -> ngood t (topk k ids) = recall_denom k (tl_len t).
Proof.
  intro ID. destruct (ideal_bin_parts t ids ID) as (P & R & -> & LP & HP & HR).
  destruct k as [n|]; cbn [topk recall_denom].
  - rewrite firstn_app, ngood_app.
    rewrite ngood_all by (intros i Hi; apply HP; eapply In_firstn; eauto).
    rewrite ngood_none by (intros i Hi; apply HR; eapply In_firstn; eauto).
    rewrite firstn_length, LP. lia.
  - rewrite ngood_app, ngood_all by exact HP. rewrite ngood_none by exact HR. lia.
Qed.

Lemma recall_ideal k recs t :
  trunc_ok k recs = true -> tl_len t <> 0%nat -> valid_k k -> ideal_ranking_bin t (il_ids recs) ->
  exc_eq (recall_model k recs t) (Ret (RVal 1)).
Proof.
  intros OK NE VK ID. unfold recall_model. rewrite with_topk_ok by exact OK.
  rewrite ngood_ideal by exact ID. apply np_div_self; [reflexivity|].
  apply Qofnat_pos. destruct k as [[|n]|]; cbn [recall_denom]; [exfalso; apply VK; reflexivity|lia|lia].
Qed.

Lemma wsum_all_rel w r t a : (forall i, In i a -> rel t i = true) -> wsum w r (map (relq t) a) == bigsum r (length a) w.
Proof.
  revert r. induction a as [|x a IH]; intros r H; [reflexivity|].
  cbn [map wsum length]. rewrite bigsum_S. unfold relq at 1. rewrite (H x) by (left; reflexivity).
  rewrite IH by (intros i Hi; apply H; right; exact Hi). cbn [b2q]. ring.
Qed.
Lemma wsum_no_rel w r t a : (forall i, In i a -> rel t i = false) -> wsum w r (map (relq t) a) == 0.
Proof.
  intro H. apply wsum_all_zero. intros x Hx. apply in_map_iff in Hx. destruct Hx as (i & <- & Hi).
  unfold relq. rewrite (H i Hi). reflexivity.
Qed.

Lemma rbp_ideal_sum g t ids k : ideal_ranking_bin t ids ->
  rbp_sum g t (topk k ids) == rbp_max g t (topk k ids).
Proof.
  intro ID. destruct (ideal_bin_parts t ids ID) as (P & R & -> & LP & HP & HR).
  unfold rbp_sum, rbp_max. rewrite ranksum_wsum.
  destruct k as [n|]; cbn [topk].
  - rewrite firstn_app, map_app, wsum_app.
    rewrite wsum_all_rel by (intros i Hi; apply HP; eapply In_firstn; eauto).
    rewrite wsum_no_rel by (intros i Hi; apply HR; eapply In_firstn; eauto).
    rewrite app_length, !firstn_length, LP.
    replace (Nat.min (tl_len t) (Nat.min n (tl_len t) + Nat.min (n - tl_len t) (length R)))
      with (Nat.min n (tl_len t)) by lia. ring.
  - rewrite map_app, wsum_app, wsum_all_rel by exact HP. rewrite wsum_no_rel by exact HR.
    rewrite app_length, LP. replace (Nat.min (tl_len t) (tl_len t + length R)) with (tl_len t) by lia. ring.
Qed.

Lemma topk_ideal_nonempty t ids k : ideal_ranking_bin t ids -> tl_len t <> 0%nat -> valid_k k -> topk k ids <> [].
Proof.
  intros ID NE VK. destruct (ideal_bin_parts t ids ID) as (P & R & -> & LP & _ & _).
  destruct P as [|p P]; [cbn in LP; lia|]. destruct k as [[|n]|]; cbn; try discriminate.
  exfalso. apply VK. reflexivity.
Qed.

Lemma rbp_norm_ideal g k recs t :
  trunc_ok k recs = true -> tl_len t <> 0%nat -> valid_k k -> 0 <= g -> ideal_ranking_bin t (il_ids recs) ->
  exc_eq (rbp_model g true k recs t) (Ret (RVal 1)).
Proof.
  intros OK NE VK G0 ID. unfold rbp_model. rewrite with_topk_ok by exact OK.
  destruct (Nat.eqb_spec (tl_len t) 0) as [Z0|_]; [contradiction|].
  apply np_div_self; [apply rbp_ideal_sum, ID|].
  apply rbp_max_pos; try assumption. apply (topk_ideal_nonempty t); assumption.
Qed.
