(* C20 -- the combined (row, column) key and the membership test against the index of observed pairs. *)
From Coq Require Import ZArith List Bool Lia.
From LK Require Import Gen.C20_shape Model.C20_sampling.
Import ListNotations.
Open Scope Z_scope.

Definition B32 : Z := 2 ^ 32.
Definition observed (m : mat) (r c : Z) : Prop := In (r, c) (m_pairs m).

Lemma key_small r c : 0 <= r < B32 -> 0 <= c < B32 -> key r c = r * B32 + c.
Proof.
  intros Hr Hc. unfold key, W64, key_word_bits, key_shift, B32 in *.
  change (2 ^ 64) with 18446744073709551616 in *. change (2 ^ 32) with 4294967296 in *.
  rewrite (Z.mod_small r) by lia. rewrite (Z.mod_small c) by lia.
  rewrite (Z.mod_small (r * 4294967296)) by nia.
  rewrite Z.mod_small by nia. reflexivity.
Qed.

Lemma key_injective_l r c r' c' :
  0 <= r < B32 -> 0 <= c < B32 -> 0 <= r' < B32 -> 0 <= c' < B32 ->
  key r c = key r' c' -> r = r' /\ c = c'.
Proof.
  intros Hr Hc Hr' Hc' E. rewrite !key_small in E by assumption.
  unfold B32 in *. change (2 ^ 32) with 4294967296 in *. nia.
Qed.

(* well-formed matrix: numbers are non-negative 32-bit values and columns are column numbers *)
Definition wf (m : mat) : Prop :=
  0 <= m_ncols m < B32 /\
  Forall (fun p => 0 <= fst p < B32 /\ 0 <= snd p < m_ncols m) (m_pairs m).
Definition rows_ok (rows : list Z) : Prop := Forall (fun r => 0 <= r < B32) rows.

Lemma mem_z_In x l : mem_z x l = true <-> In x l.
Proof.
  unfold mem_z. rewrite existsb_exists. split.
  - intros [y [Hy E]]. apply Z.eqb_eq in E. subst. exact Hy.
  - intro H. exists x. split; [exact H|apply Z.eqb_refl].
Qed.

Lemma mem_observed m r c : wf m -> 0 <= r < B32 -> 0 <= c < B32 ->
  (mem_z (key r c) (rc_index m) = true <-> observed m r c).
Proof.
  intros [Hn Hp] Hr Hc. rewrite mem_z_In. unfold rc_index, observed. rewrite in_map_iff. split.
  - intros [[r' c'] [E Hin]]. cbn [fst snd] in E.
    rewrite Forall_forall in Hp. specialize (Hp _ Hin). cbn [fst snd] in Hp.
    apply key_injective_l in E; try lia. destruct E; subst. exact Hin.
  - intro Hin. exists (r, c). split; [reflexivity|exact Hin].
Qed.
