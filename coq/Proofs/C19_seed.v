(* C19 -- user-derived seeds: different calls get different generator streams exactly when the seed words differ. *)
From Coq Require Import ZArith List Lia.
From LK Require Import Lib.C19Rules Gen.C19_len Model.C19_seed.
Import ListNotations.
Open Scope Z_scope.

Lemma app_single_inj {A} (l : list A) x y : l ++ [x] = l ++ [y] -> x = y.
Proof. intro H. apply app_inv_head in H. inversion H. reflexivity. Qed.

Lemma user_stream_eq digest base k1 k2 :
  user_stream digest base k1 = user_stream digest base k2 <-> key_word digest k1 = key_word digest k2.
Proof.
  unfold user_stream. split.
  - intro H. inversion H as [H1]. apply app_single_inj in H1. exact H1.
  - intros ->. reflexivity.
Qed.

Lemma int_users_distinct digest base a b :
  user_stream digest base (UInt a) = user_stream digest base (UInt b) <-> a = b.
Proof. rewrite user_stream_eq. reflexivity. Qed.

Lemma anonymous_calls_distinct base i j :
  anonymous_stream base i = anonymous_stream base j <-> i = j.
Proof.
  unfold anonymous_stream. split.
  - intro H. inversion H. lia.
  - intros ->. reflexivity.
Qed.

Lemma anonymous_not_user digest base i k : anonymous_stream base i <> user_stream digest base k.
Proof. unfold anonymous_stream, user_stream. intro H. inversion H. Qed.

Lemma digest_users_distinct digest family base k1 k2 b1 b2 :
  separates digest family ->
  key_bytes k1 = Some b1 -> key_bytes k2 = Some b2 -> In b1 family -> In b2 family ->
  (user_stream digest base k1 = user_stream digest base k2 <-> b1 = b2).
Proof.
  intros Hs E1 E2 I1 I2. rewrite user_stream_eq.
  assert (W1 : key_word digest k1 = digest b1) by (destruct k1; simpl in *; congruence).
  assert (W2 : key_word digest k2 = digest b2) by (destruct k2; simpl in *; congruence).
  rewrite W1, W2. split; [apply Hs; assumption|intros ->; reflexivity].
Qed.

(* a digest that does NOT separate two members of a family hands both users the same stream *)
Lemma colliding_users_share digest base k1 k2 b1 b2 :
  key_bytes k1 = Some b1 -> key_bytes k2 = Some b2 -> digest b1 = digest b2 ->
  user_stream digest base k1 = user_stream digest base k2.
Proof.
  intros E1 E2 H. apply user_stream_eq.
  destruct k1, k2; simpl in *; congruence.
Qed.

Lemma derived_streams_l :
  (* the generated facts this model rests on *)
  seed_digest = DigestMd5XorFold /\ seed_derivation = DeriveChildIfAnonymousElseBaseAndUser /\
  seed_words = [WSkipNone; WSeedSequenceEntropy; WNumpyInt; WInt; WDigestUuidBytes; WDigestUtf8; WDigestBytes; WIntSequence] /\
  seed_specs = [SpecUserFreshEntropy; SpecSeedUser; SpecFixedGenerator] /\
  forall (digest : list Z -> Z) (base : list Z),
    (forall i j, anonymous_stream base i = anonymous_stream base j <-> i = j) /\
    (forall i k, anonymous_stream base i <> user_stream digest base k) /\
    (forall k1 k2, user_stream digest base k1 = user_stream digest base k2 <-> key_word digest k1 = key_word digest k2) /\
    (forall a b, user_stream digest base (UInt a) = user_stream digest base (UInt b) <-> a = b) /\
    (forall family k1 k2 b1 b2, separates digest family ->
       key_bytes k1 = Some b1 -> key_bytes k2 = Some b2 -> In b1 family -> In b2 family ->
       (user_stream digest base k1 = user_stream digest base k2 <-> b1 = b2)).
Proof.
  repeat split; try reflexivity.
  - apply anonymous_calls_distinct.
  - apply anonymous_calls_distinct.
  - apply anonymous_not_user.
  - apply user_stream_eq.
  - apply user_stream_eq.
  - apply int_users_distinct.
  - apply int_users_distinct.
  - apply (digest_users_distinct digest family base k1 k2 b1 b2); assumption.
  - apply (digest_users_distinct digest family base k1 k2 b1 b2); assumption.
Qed.

Lemma generator_use_rule_l :
  random_draw = DrawChoiceNoReplace /\ softmax_draw = DrawUniform01PerEligible /\ stochastic_draw = DrawUniform01PerEligible.
Proof. repeat split; reflexivity. Qed.
