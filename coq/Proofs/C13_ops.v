(* C13 -- every builder operation preserves well-formedness, so every builder state reachable from
   the empty builder (with the unchecked calls used as documented) is covered by the round-trip and
   order theorems. *)
From Coq Require Import String Ascii List Bool Arith Lia Permutation Sorted.
From LK Require Import Lib.StrDict Lib.StrDictFacts Model.C13_json Gen.C13_shape Model.C13_config
  Proofs.C13_acyclic Proofs.C13_wf Proofs.C13_fromconfig.
Import ListNotations.
Open Scope string_scope.
Open Scope list_scope.

Section Ops.
  Variable norm : string -> option obj -> option (option obj).
  Variable set_of : list string -> list string.
  Hypothesis set_of_spec : forall l, NoDup (set_of l) /\ (forall x, In x (set_of l) <-> In x l).
  Hypothesis norm_idem : forall code s s', norm code s = Some s' -> norm code s' = Some s'.

  Notation bwf := (bwf norm).

  Lemma new_builder_wf n v : bwf (new_builder n v).
  Proof. constructor; cbn; try constructor; intros ? []. Qed.

  Lemma bwf_nodes_dset b n k : bwf b -> node_ok norm (n, k) -> ~ In n (keys (b_aliases b)) ->
    bwf (set_nodes b (dset n k (b_nodes b))).
  Proof.
    intros [W1 W2 W3 W4 W5 W6 W7 W8 W9] Hk Ha.
    assert (Hgrow : forall x, In x (keys (b_nodes b)) -> In x (keys (dset n k (b_nodes b)))) by (intros x Hx; apply in_keys_dset; right; exact Hx).
    constructor; cbn [set_nodes b_nodes b_aliases b_edges b_defaults].
    - apply nodup_keys_dset. exact W1.
    - rewrite Forall_forall in *. intros x Hx. destruct (in_dset _ _ _ _ Hx) as [->|Hx']; [exact Hk|apply W2; exact Hx'].
    - exact W3.
    - intros a Haa Hn. apply in_keys_dset in Hn. destruct Hn as [->|Hn]; [tauto|apply (W4 a Haa Hn)].
    - intros x Hx. apply Hgrow. apply W5. exact Hx.
    - exact W6.
    - rewrite Forall_forall in *. intros ne Hne. destruct (W7 ne Hne) as [A B]. split; [exact A|]. intros x Hx. apply Hgrow. apply B. exact Hx.
    - exact W8.
    - intros x Hx. apply Hgrow. apply W9. exact Hx.
  Qed.

  Lemma bwf_edges_dset b n e : bwf b -> NoDup (keys e) -> incl (vals e) (keys (b_nodes b)) ->
    bwf (set_edges b (dset n e (b_edges b))).
  Proof.
    intros [W1 W2 W3 W4 W5 W6 W7 W8 W9] Ne Ie.
    constructor; cbn [set_edges b_nodes b_aliases b_edges b_defaults]; try assumption.
    - apply nodup_keys_dset. exact W6.
    - rewrite Forall_forall in *. intros x Hx. destruct (in_dset _ _ _ _ Hx) as [->|Hx']; [split; assumption|apply W7; exact Hx'].
  Qed.

  Lemma bwf_aliases_dset b a t : bwf b -> In t (keys (b_nodes b)) -> ~ In a (keys (b_nodes b)) ->
    bwf (set_aliases b (dset a t (b_aliases b))).
  Proof.
    intros [W1 W2 W3 W4 W5 W6 W7 W8 W9] Ht Ha.
    constructor; cbn [set_aliases b_nodes b_aliases b_edges b_defaults]; try assumption.
    - apply nodup_keys_dset. exact W3.
    - intros x Hx. apply in_keys_dset in Hx. destruct Hx as [->|Hx]; [exact Ha|apply W4; exact Hx].
    - intros x Hx. destruct (in_vals_dset _ _ _ _ Hx) as [->|Hx']; [exact Ht|apply W5; exact Hx'].
  Qed.

  Lemma bwf_aliases_ddel b a : bwf b -> bwf (set_aliases b (ddel a (b_aliases b))).
  Proof.
    intros [W1 W2 W3 W4 W5 W6 W7 W8 W9].
    constructor; cbn [set_aliases b_nodes b_aliases b_edges b_defaults]; try assumption.
    - apply nodup_keys_ddel. exact W3.
    - intros x Hx. apply W4. eapply keys_ddel_incl. exact Hx.
    - intros x Hx. apply W5. unfold vals in *. rewrite in_map_iff in *. destruct Hx as [p [E Hp]]. exists p. split; [exact E|eapply in_ddel; exact Hp].
  Qed.

  Lemma bwf_defaults_dset b p t : bwf b -> In t (keys (b_nodes b)) -> bwf (set_defaults b (dset p t (b_defaults b))).
  Proof.
    intros [W1 W2 W3 W4 W5 W6 W7 W8 W9] Ht.
    constructor; cbn [set_defaults b_nodes b_aliases b_edges b_defaults]; try assumption.
    - apply nodup_keys_dset. exact W8.
    - intros x Hx. destruct (in_vals_dset _ _ _ _ Hx) as [->|Hx']; [exact Ht|apply W9; exact Hx'].
  Qed.

  Lemma bwf_set_default b d : bwf b -> bwf (set_default b d).
  Proof. intros [W1 W2 W3 W4 W5 W6 W7 W8 W9]. constructor; cbn; assumption. Qed.
  Lemma bwf_set_name b n : bwf b -> bwf (set_name b n).
  Proof. intros [W1 W2 W3 W4 W5 W6 W7 W8 W9]. constructor; cbn; assumption. Qed.
  Lemma bwf_set_version b v : bwf b -> bwf (set_version b v).
  Proof. intros [W1 W2 W3 W4 W5 W6 W7 W8 W9]. constructor; cbn; assumption. Qed.

  Lemma literal_wf b n e v : bwf b -> ~ In n (keys (b_aliases b)) -> bwf (literal b n e v).
  Proof. intros W Ha. unfold literal. apply bwf_nodes_dset; [exact W|exact I|exact Ha]. Qed.

  Lemma resolve_in_nodes b n r : bwf b -> resolve b n = Some r -> In r (keys (b_nodes b)).
  Proof.
    intros W. unfold resolve. destruct (dget n (b_aliases b)) as [t|] eqn:E.
    - intros [= <-]. apply (bw_al_targets _ _ W). apply dget_in in E. change t with (snd (n, t)). apply in_map. exact E.
    - destruct (dmem n (b_nodes b)) eqn:M; [|discriminate]. intros [= <-]. apply dmem_in. exact M.
  Qed.

  (* wiring targets after the caller's look-ups *)
  Definition tg_ok (b : builder) (kt : string * target) : Prop :=
    match snd kt with
    | TNode t => In t (keys (b_nodes b))
    | TLit n _ _ => ~ In n (keys (b_aliases b))
    end.
  Definition lit_pre (b : builder) (kt : string * target) : Prop :=
    match snd kt with TLit n _ _ => ~ In n (keys (b_aliases b)) | TNode _ => True end.

  Lemma resolve_targets_ok b : bwf b -> forall ins ins', Forall (lit_pre b) ins ->
    resolve_targets b ins = Some ins' -> Forall (tg_ok b) ins'.
  Proof.
    intro W. induction ins as [|[k tg] ins IH]; intros ins' F E; cbn [resolve_targets] in E.
    - injection E as <-. constructor.
    - inversion F as [|? ? Fk Fr]; subst. destruct tg as [t|n e v].
      + destruct (resolve b t) as [rt|] eqn:Er; [|discriminate]. destruct (resolve_targets b ins) as [r'|]; [|discriminate].
        injection E as <-. constructor; [|apply IH; [exact Fr|reflexivity]]. unfold tg_ok. cbn. eapply resolve_in_nodes; eassumption.
      + destruct (resolve_targets b ins) as [r'|]; [|discriminate]. injection E as <-.
        constructor; [exact Fk|apply IH; [exact Fr|reflexivity]].
  Qed.

  Definition same_but_nodes (b b1 : builder) : Prop :=
    b_name b1 = b_name b /\ b_version b1 = b_version b /\ b_edges b1 = b_edges b /\ b_aliases b1 = b_aliases b /\
    b_defaults b1 = b_defaults b /\ b_default b1 = b_default b /\ incl (keys (b_nodes b)) (keys (b_nodes b1)).

  Lemma wire_fold_wf : forall ins b e, bwf b -> NoDup (keys e) -> incl (vals e) (keys (b_nodes b)) -> Forall (tg_ok b) ins ->
    bwf (fst (fold_left wire_one ins (b, e))) /\ NoDup (keys (snd (fold_left wire_one ins (b, e)))) /\
    incl (vals (snd (fold_left wire_one ins (b, e)))) (keys (b_nodes (fst (fold_left wire_one ins (b, e))))) /\
    same_but_nodes b (fst (fold_left wire_one ins (b, e))).
  Proof.
    induction ins as [|[k tg] ins IH]; intros b e W Ne Ie F; cbn [fold_left].
    - cbn [fst snd]. split; [exact W|split; [exact Ne|split; [exact Ie|]]].
      unfold same_but_nodes. repeat split; try reflexivity. intros x Hx; exact Hx.
    - inversion F as [|? ? Fk Fr]; subst. unfold tg_ok in Fk. cbn [snd] in Fk.
      destruct tg as [t|n enc v]; unfold wire_one at 2; cbn [fst snd].
      + apply IH; [exact W|apply nodup_keys_dset; exact Ne| |exact Fr].
        intros x Hx. destruct (in_vals_dset _ _ _ _ Hx) as [->|Hx']; [exact Fk|apply Ie; exact Hx'].
      + assert (W' : bwf (literal b n enc v)) by (apply literal_wf; assumption).
        assert (Hgrow : incl (keys (b_nodes b)) (keys (b_nodes (literal b n enc v)))).
        { intros x Hx. unfold literal. cbn. apply in_keys_dset. right. exact Hx. }
        destruct (IH (literal b n enc v) (dset k n e) W') as [A [B [C D]]].
        * apply nodup_keys_dset. exact Ne.
        * intros x Hx. destruct (in_vals_dset _ _ _ _ Hx) as [->|Hx']; [|apply Hgrow; apply Ie; exact Hx'].
          unfold literal. cbn. apply in_keys_dset. left. reflexivity.
        * rewrite Forall_forall in *. intros kt Hkt. specialize (Fr kt Hkt). unfold tg_ok in *.
          destruct (snd kt); [apply Hgrow; exact Fr|exact Fr].
        * split; [exact A|split; [exact B|split; [exact C|]]]. destruct D as [D1 [D2 [D3 [D4 [D5 [D6 D7]]]]]].
          unfold same_but_nodes. repeat split; try assumption. intros x Hx. apply D7. apply Hgrow. exact Hx.
  Qed.

  Lemma connect_wf b name ins : bwf b -> Forall (tg_ok b) ins -> bwf (fst (connect b name ins)).
  Proof.
    intros W F. unfold connect. destruct (resolve b name) as [real|]; [|exact W].
    destruct (dget real (b_nodes b)) as [[ts|e v|code s]|]; try exact W.
    set (e0 := match dget real (b_edges b) with Some e => e | None => [] end).
    assert (He0 : NoDup (keys e0) /\ incl (vals e0) (keys (b_nodes b))).
    { unfold e0. destruct (dget real (b_edges b)) as [e|] eqn:Eg; [|split; [constructor|intros ? []]].
      apply dget_in in Eg. pose proof (bw_edges_ok _ _ W) as G. rewrite Forall_forall in G. apply (G _ Eg). }
    destruct (wire_fold_wf ins b e0 W (proj1 He0) (proj2 He0) F) as [A [B [C D]]].
    destruct (fold_left wire_one ins (b, e0)) as [b1 e1]. cbn [fst snd] in *.
    apply bwf_edges_dset; assumption.
  Qed.

  Definition lits_pre (b : builder) (ins : list (string * target)) : Prop := Forall (lit_pre b) ins.

  Definition op_pre (b : builder) (o : op) : Prop :=
    match o with
    | OLiteral n _ _ => ~ In n (keys (b_aliases b))
    | OAdd _ code _ ins => at_prefixed code = false /\ lits_pre b ins
    | OReplace name code _ ins => at_prefixed code = false /\ ~ In name (keys (b_aliases b)) /\ lits_pre b ins
    | OConnect _ ins => lits_pre b ins
    | ODefaultConn _ (TLit n _ _) => ~ In n (keys (b_aliases b))
    | _ => True
    end.

  Lemma tg_ok_grow b b2 ins : b_aliases b2 = b_aliases b -> incl (keys (b_nodes b)) (keys (b_nodes b2)) ->
    Forall (tg_ok b) ins -> Forall (tg_ok b2) ins.
  Proof.
    intros Ea Hg F. rewrite Forall_forall in *. intros kt Hkt. specialize (F kt Hkt). unfold tg_ok in *.
    destruct (snd kt); [apply Hg; exact F|rewrite Ea; exact F].
  Qed.

  Theorem apply_op_wf b o : bwf b -> op_pre b o -> bwf (fst (apply_op norm set_of b o)).
  Proof.
    intros W P. destruct o as [n ts|n e v|n code s ins|n code s ins|n ins|a t|a ok|p tg|n|n|nm|vv]; cbn [apply_op fst op_pre] in *.
    - unfold create_input. destruct (avail b n) eqn:Av; [|exact W]. cbn [fst].
      unfold avail in Av. apply andb_true_iff in Av. destruct Av as [_ Av]. apply negb_true_iff in Av.
      apply bwf_nodes_dset; [exact W|cbn; apply set_of_spec|apply dmem_false; exact Av].
    - apply literal_wf; assumption.
    - destruct P as [Hat Pl]. unfold add_component.
      destruct (resolve_targets b ins) as [ins'|] eqn:Er; [|exact W].
      pose proof (resolve_targets_ok b W ins ins' Pl Er) as F.
      destruct (avail b n) eqn:Av; [|exact W]. destruct (norm code s) as [s'|] eqn:En; [|exact W].
      unfold avail in Av. apply andb_true_iff in Av. destruct Av as [_ Av]. apply negb_true_iff in Av. apply dmem_false in Av.
      assert (W2 : bwf (set_nodes b (dset n (KComp code s') (b_nodes b)))).
      { apply bwf_nodes_dset; [exact W|cbn; split; [exact Hat|eapply norm_idem; exact En]|exact Av]. }
      apply connect_wf; [exact W2|]. apply (tg_ok_grow b); [reflexivity| |exact F].
      intros x Hx. cbn. apply in_keys_dset. right. exact Hx.
    - destruct P as [Hat [Hna Pl]]. unfold replace_component.
      destruct (resolve_targets b ins) as [ins'|] eqn:Er; [|exact W].
      pose proof (resolve_targets_ok b W ins ins' Pl Er) as F.
      destruct (norm code s) as [s'|] eqn:En; [|exact W].
      assert (W2 : bwf (set_nodes b (dset n (KComp code s') (b_nodes b)))).
      { apply bwf_nodes_dset; [exact W|cbn; split; [exact Hat|eapply norm_idem; exact En]|exact Hna]. }
      apply connect_wf; [exact W2|]. apply (tg_ok_grow b); [reflexivity| |exact F].
      intros x Hx. cbn. apply in_keys_dset. right. exact Hx.
    - unfold op_connect. destruct (resolve_targets b ins) as [ins'|] eqn:Er; [|exact W].
      apply connect_wf; [exact W|]. apply (resolve_targets_ok b W ins ins' P Er).
    - unfold alias. destruct (resolve b t) as [rt|] eqn:Er; [|exact W].
      destruct (avail b a) eqn:Av; [|exact W]. cbn [fst].
      unfold avail in Av. apply andb_true_iff in Av. destruct Av as [Av _]. apply negb_true_iff in Av. apply dmem_false in Av.
      apply bwf_aliases_dset; [exact W|eapply resolve_in_nodes; eassumption|exact Av].
    - unfold remove_alias. destruct (dmem a (b_aliases b)); [|exact W]. cbn [fst]. apply bwf_aliases_ddel. exact W.
    - unfold default_connection. destruct tg as [t|n e v].
      + destruct (resolve b t) as [rt|] eqn:Er; [|exact W]. cbn [fst]. apply bwf_defaults_dset; [exact W|eapply resolve_in_nodes; eassumption].
      + cbn [fst]. apply bwf_defaults_dset; [apply literal_wf; assumption|]. unfold literal. cbn. apply in_keys_dset. left. reflexivity.
    - apply bwf_set_default. exact W.
    - unfold clear_inputs. apply bwf_edges_dset; [exact W|constructor|intros ? []].
    - apply bwf_set_name. exact W.
    - apply bwf_set_version. exact W.
  Qed.

  (* histories: every operation meets its precondition in the state it is applied to *)
  Fixpoint hist_pre (b : builder) (ops : list op) : Prop :=
    match ops with
    | [] => True
    | o :: r => op_pre b o /\ hist_pre (fst (apply_op norm set_of b o)) r
    end.

  Theorem run_ops_wf : forall ops b, bwf b -> hist_pre b ops -> bwf (fst (run_ops norm set_of b ops)).
  Proof.
    induction ops as [|o ops IH]; intros b W P; cbn [run_ops]; [exact W|].
    destruct P as [P1 P2]. pose proof (apply_op_wf b o W P1) as W1.
    destruct (apply_op norm set_of b o) as [b1 e1]. cbn [fst] in *.
    specialize (IH b1 W1 P2). destruct (run_ops norm set_of b1 ops) as [b2 es]. exact IH.
  Qed.

  Theorem reachable_wf_l name version ops : hist_pre (new_builder name version) ops ->
    bwf (fst (run_ops norm set_of (new_builder name version) ops)).
  Proof. intro P. apply run_ops_wf; [apply new_builder_wf|exact P]. Qed.
End Ops.
