(* C01 -- vocabularies: look-ups, sorted de-duplicated insertion, append-only growth. *)
From Coq Require Import ZArith List Bool Arith Lia Sorting.Sorted Sorting.Permutation.
From LK Require Import Model.C01_dataset.
Import ListNotations.
Open Scope Z_scope.

(* ---- index_of ---- *)
Lemma index_of_Some x v n : index_of x v = Some n -> (n < length v)%nat /\ nth n v 0 = x.
Proof.
  revert n. induction v as [|y r IH]; intros n H; cbn in H; [discriminate|].
  destruct (Z.eqb_spec x y) as [->|Ne].
  - inversion H; subst. cbn. split; [lia|reflexivity].
  - destruct (index_of x r) as [k|] eqn:E; [|discriminate]. cbn in H. inversion H; subst.
    destruct (IH k eq_refl) as [L N]. cbn. split; [lia|exact N].
Qed.

Lemma index_of_In x v : In x v -> exists n, index_of x v = Some n.
Proof.
  induction v as [|y r IH]; intro H; [destruct H|]. cbn.
  destruct (Z.eqb_spec x y) as [->|Ne]; [eauto|].
  destruct H as [H|H]; [congruence|]. destruct (IH H) as [n ->]. cbn. eauto.
Qed.

Lemma index_of_None x v : index_of x v = None <-> ~ In x v.
Proof.
  split.
  - intros H Hin. destruct (index_of_In _ _ Hin) as [n E]. congruence.
  - intro H. destruct (index_of x v) as [n|] eqn:E; [|reflexivity].
    destruct (index_of_Some _ _ _ E) as [L N]. exfalso. apply H. rewrite <- N. apply nth_In. exact L.
Qed.

Lemma known_In v x : known v x = true <-> In x v.
Proof.
  unfold known. destruct (index_of x v) as [n|] eqn:E.
  - split; [intros _|reflexivity]. destruct (index_of_Some _ _ _ E) as [L N]. rewrite <- N. apply nth_In. exact L.
  - split; [discriminate|]. intro H. apply index_of_None in E. contradiction.
Qed.

Lemma index_of_nth v : NoDup v -> forall n, (n < length v)%nat -> index_of (nth n v 0) v = Some n.
Proof.
  induction 1 as [|y r Hy Hr IH]; intros n L; [cbn in L; lia|].
  destruct n as [|n]; cbn; [rewrite Z.eqb_refl; reflexivity|].
  cbn in L. destruct (Z.eqb_spec (nth n r 0) y) as [E|Ne].
  - exfalso. apply Hy. rewrite <- E. apply nth_In. lia.
  - rewrite IH by lia. reflexivity.
Qed.

(* the id <-> number map is a bijection between the identifiers and 0..n-1 *)
Lemma vocab_bijection v : NoDup v ->
  (forall x, In x v -> exists n, index_of x v = Some n /\ (n < length v)%nat /\ term v n = x) /\
  (forall n, (n < length v)%nat -> In (term v n) v /\ index_of (term v n) v = Some n) /\
  (forall x, ~ In x v -> index_of x v = None).
Proof.
  intro Hnd. split; [|split].
  - intros x Hin. destruct (index_of_In _ _ Hin) as [n E]. exists n. destruct (index_of_Some _ _ _ E). auto.
  - intros n L. split; [apply nth_In; exact L|apply index_of_nth; assumption].
  - intros x H. apply index_of_None. exact H.
Qed.

(* ---- prefixes ---- *)
Definition prefix (a b : vocab) : Prop := exists c, b = a ++ c.
Lemma prefix_refl a : prefix a a.
Proof. exists []. rewrite app_nil_r. reflexivity. Qed.
Lemma prefix_trans a b c : prefix a b -> prefix b c -> prefix a c.
Proof. intros [x ->] [y ->]. exists (x ++ y). rewrite app_assoc. reflexivity. Qed.
Lemma prefix_nth a b n : prefix a b -> (n < length a)%nat -> nth n b 0 = nth n a 0.
Proof. intros [c ->] L. apply app_nth1. exact L. Qed.
Lemma prefix_index_of a b x n : prefix a b -> index_of x a = Some n -> index_of x b = Some n.
Proof.
  intros [c ->]. revert n. induction a as [|y r IH]; intros n H; cbn in H; [discriminate|]. cbn.
  destruct (Z.eqb x y); [exact H|]. destruct (index_of x r) as [k|]; [|discriminate].
  rewrite (IH k eq_refl). exact H.
Qed.

(* ---- sort_z / dedup_z ---- *)
Lemma insert_z_perm x l : Permutation (x :: l) (insert_z x l).
Proof.
  induction l as [|y r IH]; cbn; [reflexivity|]. destruct (x <=? y); [reflexivity|].
  rewrite perm_swap. constructor. exact IH.
Qed.
Lemma sort_z_perm l : Permutation l (sort_z l).
Proof. induction l as [|x r IH]; cbn; [constructor|]. rewrite <- insert_z_perm. constructor. exact IH. Qed.

Lemma insert_z_hdrel a x l : HdRel Z.le a l -> a <= x -> HdRel Z.le a (insert_z x l).
Proof.
  destruct l as [|z r]; cbn; intros H L; [constructor; exact L|].
  destruct (x <=? z); constructor; [exact L|inversion H; assumption].
Qed.
Lemma insert_z_sorted x l : Sorted Z.le l -> Sorted Z.le (insert_z x l).
Proof.
  induction 1 as [|y r Hs IH Hh]; cbn; [repeat constructor|].
  destruct (Z.leb_spec x y).
  - constructor; [constructor; assumption|constructor; exact H].
  - constructor; [exact IH|apply insert_z_hdrel; [exact Hh|lia]].
Qed.
Lemma sort_z_sorted l : Sorted Z.le (sort_z l).
Proof. induction l as [|x r IH]; cbn; [constructor|apply insert_z_sorted; exact IH]. Qed.

Lemma sorted_nodup_strict l : Sorted Z.le l -> NoDup l -> StronglySorted Z.lt l.
Proof.
  intros Hs Hn. apply Sorted_StronglySorted in Hs; [|intros a b c; lia].
  induction Hs as [|x r Hr IH Hall]; [constructor|]. inversion Hn; subst. constructor; [auto|].
  rewrite Forall_forall in *. intros y Hy. specialize (Hall y Hy).
  assert (x <> y) by (intro; subst; contradiction). lia.
Qed.

Lemma mem_z_In x l : mem_z x l = true <-> In x l.
Proof.
  unfold mem_z. rewrite existsb_exists. split.
  - intros [y [Hy E]]. apply Z.eqb_eq in E. subst. exact Hy.
  - intro H. exists x. split; [exact H|apply Z.eqb_refl].
Qed.
Lemma mem_z_false x l : mem_z x l = false <-> ~ In x l.
Proof. rewrite <- mem_z_In. destruct (mem_z x l); split; congruence. Qed.

Lemma dedup_z_In x l : In x (dedup_z l) <-> In x l.
Proof.
  induction l as [|y r IH]; cbn; [tauto|]. destruct (mem_z y r) eqn:E.
  - rewrite IH. split; [auto|]. intros [->|H]; [apply mem_z_In; exact E|exact H].
  - cbn. rewrite IH. tauto.
Qed.
Lemma dedup_z_NoDup l : NoDup (dedup_z l).
Proof.
  induction l as [|y r IH]; cbn; [constructor|]. destruct (mem_z y r) eqn:E; [exact IH|].
  constructor; [|exact IH]. rewrite dedup_z_In. apply mem_z_false. exact E.
Qed.
Lemma dedup_z_length l : (length (dedup_z l) <= length l)%nat.
Proof. induction l as [|y r IH]; cbn; [lia|]. destruct (mem_z y r); cbn; lia. Qed.
Lemma dedup_z_length_eq l : length (dedup_z l) = length l <-> NoDup l.
Proof.
  induction l as [|y r IH]; cbn; [split; [constructor|reflexivity]|].
  pose proof (dedup_z_length r). destruct (mem_z y r) eqn:E.
  - split; [lia|]. intro H'. inversion H'; subst. apply mem_z_In in E. contradiction.
  - cbn. split.
    + intro L. constructor; [apply mem_z_false; exact E|apply IH; lia].
    + intro H'. inversion H'; subst. f_equal. apply IH. assumption.
Qed.
Lemma dedup_z_id l : NoDup l -> dedup_z l = l.
Proof.
  induction 1 as [|y r Hy Hr IH]; cbn; [reflexivity|]. apply mem_z_false in Hy. rewrite Hy, IH. reflexivity.
Qed.

Lemma sort_z_length l : length (sort_z l) = length l.
Proof. symmetry. apply Permutation_length, sort_z_perm. Qed.
Lemma sort_z_In x l : In x (sort_z l) <-> In x l.
Proof. split; apply Permutation_in; [symmetry|]; apply sort_z_perm. Qed.
Lemma sort_z_NoDup l : NoDup l -> NoDup (sort_z l).
Proof. apply Permutation_NoDup, sort_z_perm. Qed.

(* ---- add_entities ---- *)
Definition ascending (l : list Z) : Prop := StronglySorted Z.lt l.

Lemma filter_NoDup {A} (f : A -> bool) l : NoDup l -> NoDup (filter f l).
Proof.
  induction 1 as [|x r Hx Hr IH]; cbn; [constructor|]. destruct (f x); [|exact IH].
  constructor; [|exact IH]. intro H. apply filter_In in H. tauto.
Qed.
Lemma filter_StronglySorted {A} (R : A -> A -> Prop) (f : A -> bool) l : StronglySorted R l -> StronglySorted R (filter f l).
Proof.
  induction 1 as [|x r Hr IH Hall]; cbn; [constructor|]. destruct (f x); [|exact IH].
  constructor; [exact IH|]. rewrite Forall_forall in *. intros y Hy. apply filter_In in Hy. apply Hall. tauto.
Qed.
Lemma filter_len_le {A} (f : A -> bool) l : (length (filter f l) <= length l)%nat.
Proof. induction l as [|y r IH]; cbn; [lia|]. destruct (f y); cbn; lia. Qed.
Lemma filter_length_lt {A} (f : A -> bool) l : (length (filter f l) < length l)%nat <-> exists x, In x l /\ f x = false.
Proof.
  induction l as [|y r IH]; cbn; [split; [lia|intros [x [[] _]]]|].
  pose proof (filter_len_le f r). destruct (f y) eqn:E; cbn.
  - rewrite <- Nat.succ_lt_mono, IH. split; intros [x [Hx Fx]]; [eauto|]. destruct Hx as [->|Hx]; [congruence|eauto].
  - split; [intros _; eauto|intros _; lia].
Qed.

Lemma NoDup_app_intro {A} (a b : list A) : NoDup a -> NoDup b -> (forall x, In x a -> ~ In x b) -> NoDup (a ++ b).
Proof.
  induction 1 as [|x r Hx Hr IH]; intros Hb Hd; cbn; [exact Hb|].
  constructor.
  - rewrite in_app_iff. intros [H|H]; [contradiction|]. apply (Hd x); [left; reflexivity|exact H].
  - apply IH; [exact Hb|]. intros y Hy. apply Hd. right. exact Hy.
Qed.

Lemma add_entities_ok v new pol v' :
  add_entities v new pol = Ok v' ->
  NoDup (opt_vocab v) ->
  exists fresh, v' = Some (opt_vocab v ++ fresh) /\ ascending fresh /\ NoDup (opt_vocab v ++ fresh) /\ NoDup new /\
    (forall x, In x fresh <-> In x new /\ ~ In x (opt_vocab v)) /\
    (pol = DupError -> forall x, In x new -> ~ In x (opt_vocab v)).
Proof.
  unfold add_entities. intros H Hnd.
  destruct (Nat.ltb_spec (length (sort_z (dedup_z new))) (length new)) as [L|L]; [discriminate|].
  rewrite sort_z_length in L. pose proof (dedup_z_length new) as L2.
  assert (NoDup new) as Hnew by (apply dedup_z_length_eq; unfold id in *; lia).
  set (cur := opt_vocab v) in *.
  set (fresh := filter (fun x => negb (known cur x)) (sort_z (dedup_z new))) in *.
  destruct ((length fresh <? length (sort_z (dedup_z new)))%nat && is_dup_error pol) eqn:E; [discriminate|].
  inversion H; subst. exists fresh. split; [reflexivity|].
  assert (forall x, In x fresh <-> In x new /\ ~ In x cur) as Hfresh.
  { intro x. unfold fresh. rewrite filter_In, sort_z_In, dedup_z_In, negb_true_iff.
    split; intros [A B]; (split; [exact A|]).
    - intro C. apply known_In in C. congruence.
    - destruct (known cur x) eqn:K; [|reflexivity]. apply known_In in K. contradiction. }
  assert (ascending fresh) as Hasc.
  { unfold fresh. apply filter_StronglySorted. apply sorted_nodup_strict; [apply sort_z_sorted|].
    apply sort_z_NoDup, dedup_z_NoDup. }
  split; [exact Hasc|]. split.
  { apply NoDup_app_intro; [exact Hnd| |].
    - unfold fresh. apply filter_NoDup, sort_z_NoDup, dedup_z_NoDup.
    - intros x Hx Hf. apply Hfresh in Hf. tauto. }
  split; [exact Hnew|]. split; [exact Hfresh|].
  intros -> x Hx Hc. cbn in E. rewrite andb_true_r in E. apply Nat.ltb_ge in E.
  assert (length fresh < length (sort_z (dedup_z new)))%nat as C; [|lia].
  unfold fresh. apply filter_length_lt. exists x. split; [apply sort_z_In, dedup_z_In; exact Hx|].
  apply negb_false_iff, known_In. exact Hc.
Qed.

(* when does add_entities raise? exactly on duplicates inside `new`, or on a re-insert under "error" *)
Lemma add_entities_err v new pol :
  (exists e, add_entities v new pol = Err e) <->
  (~ NoDup new \/ (pol = DupError /\ exists x, In x new /\ In x (opt_vocab v))).
Proof.
  unfold add_entities.
  destruct (Nat.ltb_spec (length (sort_z (dedup_z new))) (length new)) as [L|L].
  - rewrite sort_z_length in L. split; [intros _|intros _; eauto]. left. intro H. apply dedup_z_length_eq in H. unfold id in *; lia.
  - rewrite sort_z_length in L. pose proof (dedup_z_length new) as L2.
    assert (NoDup new) as Hnew by (apply dedup_z_length_eq; unfold id in *; lia).
    set (cur := opt_vocab v). set (fresh := filter (fun x => negb (known cur x)) (sort_z (dedup_z new))).
    destruct ((length fresh <? length (sort_z (dedup_z new)))%nat && is_dup_error pol) eqn:E.
    + split; [intros _|intros _; eauto]. right. apply andb_true_iff in E. destruct E as [E1 E2].
      split; [destruct pol; [reflexivity|discriminate]|].
      apply Nat.ltb_lt in E1. apply filter_length_lt in E1. destruct E1 as [x [Hx Fx]].
      exists x. split; [apply dedup_z_In, sort_z_In; exact Hx|apply known_In, negb_false_iff; exact Fx].
    + split; [intros [e He]; discriminate|]. intros [H|[-> [x [Hx Hc]]]]; [contradiction|].
      exfalso. cbn in E. rewrite andb_true_r in E. apply Nat.ltb_ge in E.
      assert (length fresh < length (sort_z (dedup_z new)))%nat as C; [|lia].
      apply filter_length_lt. exists x. split; [apply sort_z_In, dedup_z_In; exact Hx|].
      apply negb_false_iff, known_In. exact Hc.
Qed.

Lemma one_shot_ascending_l new pol v : add_entities None new pol = Ok (Some v) -> ascending v.
Proof.
  intro H. destruct (add_entities_ok None new pol _ H) as [fresh [E [A _]]]; [constructor|].
  cbn in E. inversion E; subst. exact A.
Qed.
