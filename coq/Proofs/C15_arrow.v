(* C15 (b) -- Arrow round trip of one item list against an arbitrary column list that covers it
   (its own arrow_types, or the common schema of a collection). *)
From Coq Require Import ZArith List Bool Arith String Ascii Lia.
From LK Require Import Model.C15_codec Proofs.C15_codec.
Import ListNotations.
Open Scope string_scope.
Open Scope list_scope.

Definition arrow_val (il : ilist) (name : string) (ty : nat) : option acol :=
  if String.eqb name "item_id" then option_map (a_of (il_idty il)) (v_ids il)
  else if String.eqb name "item_num" then option_map (a_of TI32) (nums_strict il)
  else if String.eqb name "rank" then
    Some (match v_ranks il with Some r => a_of TI32 r | None => a_nulls ty (il_len il) end)
  else match alookup name (il_fields il) with
       | Some c => Some (a_of (c_ty c) (c_vals c))
       | None => Some (a_nulls ty (il_len il))
       end.

Lemma arrow_col_val il nt : arrow_col il nt = option_map (fun c => (fst nt, c)) (arrow_val il (fst nt) (snd nt)).
Proof.
  destruct nt as [name ty]. unfold arrow_col, arrow_val. cbn [fst snd].
  destruct (String.eqb name "item_id"); [destruct (v_ids il); reflexivity|].
  destruct (String.eqb name "item_num"); [destruct (nums_strict il); reflexivity|].
  destruct (String.eqb name "rank"); [reflexivity|].
  destruct (alookup name (il_fields il)); reflexivity.
Qed.

Definition aval (il : ilist) (name : string) (ty : nat) : acol :=
  match arrow_val il name ty with Some c => c | None => a_nulls ty 0 end.

Lemma sequence_map_some {A B} (f : A -> option B) (g : A -> B) l :
  (forall x, In x l -> f x = Some (g x)) -> sequence (map f l) = Some (map g l).
Proof.
  induction l as [|x l IH]; intro H; simpl; [reflexivity|].
  rewrite (H x) by (left; reflexivity). rewrite IH by (intros y Hy; apply H; right; exact Hy). reflexivity.
Qed.

(* the column list can carry this (non-empty) list *)
Record cols_ok (il : ilist) (cols : list (string * nat)) : Prop := {
  co_nodup : NoDup (map fst cols);
  co_id : In "item_id" (map fst cols);
  co_ids : exists i, v_ids il = Some i;
  co_num : In "item_num" (map fst cols) -> exists n, nums_strict il = Some n;
  co_rank : il_ordered il = true -> In "rank" (map fst cols);
  co_fields : forall k, In k (map fst (il_fields il)) -> In k (map fst cols)
}.

Lemma arrow_val_some il cols k ty : cols_ok il cols -> In (k, ty) cols -> arrow_val il k ty = Some (aval il k ty).
Proof.
  intros C Hin. unfold aval. destruct (arrow_val il k ty) eqn:E; [reflexivity|exfalso].
  unfold arrow_val in E.
  destruct (String.eqb k "item_id") eqn:E1.
  { destruct (co_ids il cols C) as [i Hi]. rewrite Hi in E. discriminate. }
  destruct (String.eqb k "item_num") eqn:E2.
  { apply String.eqb_eq in E2. subst k.
    destruct (co_num il cols C) as [n Hn]; [apply in_map_iff; exists ("item_num", ty); split; [reflexivity|exact Hin]|].
    rewrite Hn in E. discriminate. }
  destruct (String.eqb k "rank"); [discriminate|].
  destruct (alookup k (il_fields il)); discriminate.
Qed.

Definition arrow_cols (il : ilist) (cols : list (string * nat)) : list (string * acol) :=
  map (fun nt => (fst nt, aval il (fst nt) (snd nt))) cols.

Lemma to_arrow_cols_ok il cols :
  cols_ok il cols -> il_len il <> 0 -> to_arrow_cols il cols = Some (il_len il, arrow_cols il cols).
Proof.
  intros C L. unfold to_arrow_cols. destruct (Nat.eqb (il_len il) 0) eqn:E; [apply Nat.eqb_eq in E; contradiction|].
  rewrite (sequence_map_some (arrow_col il) (fun nt => (fst nt, aval il (fst nt) (snd nt)))); [reflexivity|].
  intros [k ty] Hin. rewrite arrow_col_val. cbn [fst snd]. rewrite (arrow_val_some il cols k ty C Hin). reflexivity.
Qed.

Lemma alookup_arrow_cols il cols k : alookup k (arrow_cols il cols) = option_map (aval il k) (alookup k cols).
Proof. unfold arrow_cols. apply (alookup_map (aval il)). Qed.

Lemma all_null_of t l : l <> [] -> all_null (a_of t l) = false.
Proof. destruct l; [contradiction|reflexivity]. Qed.
Lemma all_null_nulls t n : all_null (a_nulls t n) = true.
Proof. unfold all_null, a_nulls. cbn [a_vals]. induction n; [reflexivity|exact IHn]. Qed.
Lemma a_numpy_of t l : a_numpy (a_of t l) = mkCol t l.
Proof. unfold a_numpy, a_of. cbn [a_ty a_vals]. f_equal. rewrite map_map. apply map_id. Qed.

Lemma nonempty_len {A} (l : list A) n : List.length l = n -> n <> 0 -> l <> [].
Proof. intros H N E. subst l. simpl in H. congruence. Qed.

(* the fields from_arrow hands to the constructor *)
Definition kept (cs : list (string * acol)) : list (string * ncol) :=
  map (fun kc => (fst kc, a_numpy (snd kc)))
      (filter (fun kc => smem (fst kc) ["score"; "rank"] || negb (all_null (snd kc)))
         (filter (fun kc => negb (all_null (snd kc)))
            (filter (fun kc => negb (smem (fst kc) ["item_id"; "item_num"])) cs))).

Lemma kept_nodup cs : NoDup (map fst cs) -> NoDup (map fst (kept cs)).
Proof.
  intro ND. unfold kept. rewrite map_map. cbn [fst].
  apply (NoDup_filter _ fst), (NoDup_filter _ fst), (NoDup_filter _ fst), ND.
Qed.

Lemma alookup_kept cs k : NoDup (map fst cs) ->
  alookup k (kept cs) =
  match alookup k cs with
  | Some c => if smem k ["item_id"; "item_num"] then None else if all_null c then None else Some (a_numpy c)
  | None => None
  end.
Proof.
  intro ND. unfold kept.
  rewrite (alookup_map (fun _ c => a_numpy c)).
  rewrite alookup_filter by (apply (NoDup_filter _ fst), (NoDup_filter _ fst), ND).
  rewrite alookup_filter by (apply (NoDup_filter _ fst), ND).
  rewrite alookup_filter by exact ND.
  destruct (alookup k cs) as [c|]; [|reflexivity]. cbn [fst snd].
  destruct (smem k ["item_id"; "item_num"]); [reflexivity|]. cbn [negb].
  destruct (all_null c) eqn:A; [reflexivity|]. cbn [negb fst snd]. rewrite ?A. cbn [negb]. rewrite orb_true_r. reflexivity.
Qed.

Section OneList.
Variable il : ilist.
Variable cols : list (string * nat).
Hypothesis W : wf_il il.
Hypothesis C : cols_ok il cols.
Hypothesis L : il_len il <> 0.

Let F := kept (arrow_cols il cols).

Lemma cs_nodup : NoDup (map fst (arrow_cols il cols)).
Proof. unfold arrow_cols. rewrite map_map. cbn [fst]. apply (co_nodup il cols C). Qed.

Lemma in_keys_lookup k : In k (map fst cols) -> exists ty, alookup k cols = Some ty.
Proof.
  intro H. destruct (alookup k cols) eqn:E; [eexists; reflexivity|].
  exfalso. apply (alookup_none_notin k cols E H).
Qed.

Lemma F_rank : alookup "rank" F = option_map (mkCol TI32) (v_ranks il).
Proof.
  unfold F. rewrite (alookup_kept _ _ cs_nodup), alookup_arrow_cols.
  destruct (v_ranks il) as [r|] eqn:Er.
  - assert (O : il_ordered il = true) by (unfold v_ranks in Er; destruct (il_ordered il); [reflexivity|discriminate]).
    destruct (in_keys_lookup "rank" (co_rank il cols C O)) as [ty ->]. cbn [option_map smem existsb].
    unfold aval, arrow_val. cbn. rewrite Er.
    rewrite all_null_of by (apply (nonempty_len r (il_len il)); [apply (v_ranks_length il r W Er)|exact L]).
    rewrite a_numpy_of. reflexivity.
  - destruct (alookup "rank" cols) as [ty|]; [|reflexivity]. cbn [option_map].
    unfold aval, arrow_val. cbn. rewrite Er, all_null_nulls. reflexivity.
Qed.

Lemma F_field k : smem k ["item_id"; "item_num"; "rank"] = false -> alookup k F = alookup k (il_fields il).
Proof.
  intro N. unfold F. rewrite (alookup_kept _ _ cs_nodup), alookup_arrow_cols.
  assert (N1 : String.eqb k "item_id" = false /\ String.eqb k "item_num" = false /\ String.eqb k "rank" = false).
  { unfold smem in N. cbn [existsb] in N. repeat (apply orb_false_iff in N; destruct N as [? N]). repeat split; assumption. }
  destruct N1 as [N1 [N2 N3]].
  assert (N4 : smem k ["item_id"; "item_num"] = false) by (unfold smem; cbn [existsb]; rewrite N1, N2; reflexivity).
  destruct (alookup k (il_fields il)) as [c|] eqn:Ef.
  - destruct (in_keys_lookup k (co_fields il cols C k (alookup_some_in_keys k _ c Ef))) as [ty ->].
    cbn [option_map]. rewrite N4. unfold aval, arrow_val. rewrite N1, N2, N3, Ef.
    rewrite all_null_of by (apply (nonempty_len _ (il_len il)); [apply (wf_fieldlen il W k c), alookup_in, Ef|exact L]).
    rewrite a_numpy_of. destruct c; reflexivity.
  - destruct (alookup k cols) as [ty|]; [|reflexivity]. cbn [option_map]. rewrite N4.
    unfold aval, arrow_val. rewrite N1, N2, N3, Ef, all_null_nulls. reflexivity.
Qed.

Lemma F_nodup : NoDup (map fst F).
Proof. apply kept_nodup, cs_nodup. Qed.

Lemma F_lengths : forallb (fun kc : string * ncol => Nat.eqb (List.length (c_vals (snd kc))) (il_len il)) F = true.
Proof.
  apply forallb_forall. intros [k c] Hin. cbn [snd]. apply Nat.eqb_eq.
  pose proof (in_alookup k c F F_nodup Hin) as Hl.
  destruct (smem k ["item_id"; "item_num"; "rank"]) eqn:N.
  - destruct (String.eqb k "rank") eqn:Er.
    + apply String.eqb_eq in Er. subst k. rewrite F_rank in Hl.
      destruct (v_ranks il) as [r|] eqn:E; [|discriminate]. inversion Hl; subst. apply (v_ranks_length il r W E).
    + (* identifier columns never reach the constructor's fields *)
      exfalso. unfold F in Hl. rewrite (alookup_kept _ _ cs_nodup) in Hl.
      assert (N4 : smem k ["item_id"; "item_num"] = true).
      { unfold smem in *. cbn [existsb] in *. rewrite Er in N. rewrite !orb_false_r in N. rewrite orb_false_r. exact N. }
      rewrite N4 in Hl. destruct (alookup k (arrow_cols il cols)); discriminate.
  - rewrite (F_field k N) in Hl. apply (wf_fieldlen il W k c), alookup_in, Hl.
Qed.

Definition built_fields : list (string * ncol) :=
  match alookup "score" F with Some c => [("score", mkCol TF32 (c_vals c))] | None => [] end
  ++ filter (fun kc => negb (smem (fst kc) reserved)) F.

Lemma built_fields_equiv : fields_equiv built_fields (il_fields il).
Proof.
  unfold built_fields. rewrite (F_field "score" eq_refl).
  assert (FK : forall k, alookup k (filter (fun kc : string * ncol => negb (smem (fst kc) reserved)) F)
                         = if smem k reserved then None else alookup k F).
  { intro k. rewrite (alookup_filter_key (fun j => negb (smem j reserved))). destruct (smem k reserved); reflexivity. }
  split; [|split].
  - assert (ND : NoDup (map fst (filter (fun kc : string * ncol => negb (smem (fst kc) reserved)) F))) by apply (NoDup_filter _ fst), F_nodup.
    destruct (alookup "score" (il_fields il)); cbn [app map fst]; [|exact ND].
    constructor; [|exact ND]. intro H. apply in_map_iff in H. destruct H as [[j c] [E Hin]]. cbn [fst] in E. subst j.
    apply filter_In in Hin. destruct Hin as [_ P]. discriminate.
  - apply (wf_nodup il W).
  - intro k. rewrite alookup_app, FK.
    destruct (String.eqb k "score") eqn:Ek.
    + apply String.eqb_eq in Ek. subst k.
      destruct (alookup "score" (il_fields il)) as [c|] eqn:E; cbn [alookup]; [|reflexivity].
      cbn. pose proof (wf_score il W c E) as T. destruct c as [t vs]. cbn [c_ty c_vals] in *. subst t. reflexivity.
    + assert (Hs : alookup k (match alookup "score" (il_fields il) with
                               | Some c => [("score", mkCol TF32 (c_vals c))] | None => [] end) = None).
      { destruct (alookup "score" (il_fields il)); [|reflexivity]. cbn [alookup]. rewrite String.eqb_sym, Ek. reflexivity. }
      rewrite Hs.
      destruct (smem k ["item_id"; "item_num"; "rank"]) eqn:N.
      * assert (R : smem k reserved = true).
        { unfold smem, reserved in *. cbn [existsb] in *. rewrite Ek.
          apply orb_true_iff in N. destruct N as [N|N]; [rewrite N; reflexivity|].
          apply orb_true_iff in N. destruct N as [N|N]; [rewrite N; apply orb_true_r|].
          rewrite orb_false_r in N. rewrite N. rewrite !orb_true_r. reflexivity. }
        rewrite R. symmetry. apply alookup_wf_none; assumption.
      * assert (R : smem k reserved = false).
        { unfold smem, reserved in *. cbn [existsb] in *. rewrite Ek.
          repeat (apply orb_false_iff in N; destruct N as [? N]). repeat (apply orb_false_iff; split); assumption. }
        rewrite R. apply F_field, N.
Qed.

(* what from_arrow returns for this list and these columns *)
Lemma from_arrow_ok :
  exists il',
    from_arrow (il_len il, arrow_cols il cols) = Some il' /\
    il_len il' = il_len il /\
    il_idty il' = il_idty il /\
    v_ids il' = v_ids il /\
    v_nums il' = (if amem "item_num" cols then v_nums il else None) /\
    il_ordered il' = il_ordered il /\
    v_ranks il' = v_ranks il /\
    fields_equiv (il_fields il') (il_fields il) /\
    il_vocab il' = None /\
    (forall c, alookup "score" (il_fields il') = Some c -> c_ty c = TF32).
Proof.
  destruct (co_ids il cols C) as [i Hi].
  destruct (in_keys_lookup "item_id" (co_id il cols C)) as [tid Htid].
  unfold from_arrow.
  assert (Lid : alookup "item_id" (arrow_cols il cols) = Some (a_of (il_idty il) i)).
  { rewrite alookup_arrow_cols, Htid. cbn [option_map]. unfold aval, arrow_val. cbn. rewrite Hi. reflexivity. }
  rewrite Lid.
  replace (Nat.eqb (il_len il) 0) with false by (symmetry; apply Nat.eqb_neq, L).
  fold (kept (arrow_cols il cols)). fold F.
  assert (Lnum : option_map (fun c => c_vals (a_numpy c)) (alookup "item_num" (arrow_cols il cols))
                 = if amem "item_num" cols then v_nums il else None).
  { rewrite alookup_arrow_cols, amem_alookup.
    destruct (alookup "item_num" cols) as [ty|] eqn:E; [|reflexivity].
    destruct (co_num il cols C (alookup_some_in_keys _ _ _ E)) as [n Hn].
    cbn [option_map]. unfold aval, arrow_val.
    change (String.eqb "item_num" "item_id") with false. change (String.eqb "item_num" "item_num") with true. cbv iota.
    rewrite Hn. cbn [option_map]. rewrite a_numpy_of. cbn [c_vals].
    symmetry. apply nums_strict_v, Hn. }
  set (nums' := option_map (fun c => c_vals (a_numpy c)) (alookup "item_num" (arrow_cols il cols))) in *.
  cbn [option_map]. rewrite a_numpy_of. cbn [c_vals a_ty a_of].
  assert (Li : List.length i = il_len il) by apply (v_ids_length il i W Hi).
  assert (Lenok : match nums' with
                  | Some n => if Nat.eqb (List.length i) (List.length n) then Some (List.length i) else None
                  | None => Some (List.length i)
                  end = Some (il_len il)).
  { rewrite Lnum. destruct (amem "item_num" cols); [|rewrite Li; reflexivity].
    destruct (v_nums il) as [n|] eqn:En; [|rewrite Li; reflexivity].
    rewrite (v_nums_length il n W En), Li, Nat.eqb_refl. reflexivity. }
  unfold construct. rewrite Lenok, F_lengths.
  eexists. split.
  { cbn [il_len]. rewrite Nat.eqb_refl. reflexivity. }
  cbn [il_len il_idty il_ids il_nums il_vocab il_ordered il_ranks il_fields].
  unfold v_ids at 1, v_nums at 1, v_ranks at 1.
  cbn [il_len il_idty il_ids il_nums il_vocab il_ordered il_ranks il_fields].
  split; [reflexivity|]. split; [reflexivity|]. split; [symmetry; exact Hi|].
  split; [rewrite <- Lnum; destruct nums'; reflexivity|].
  split; [rewrite (amem_alookup "rank" F), F_rank; unfold v_ranks; destruct (il_ordered il); reflexivity|].
  split; [rewrite (amem_alookup "rank" F), F_rank; unfold v_ranks; destruct (il_ordered il); [destruct (il_ranks il)|]; reflexivity|].
  split; [apply built_fields_equiv|]. split; [reflexivity|].
  intros c Hc. fold built_fields in Hc. unfold built_fields in Hc. rewrite alookup_app in Hc.
  destruct (alookup "score" F) as [c0|].
  - cbn in Hc. inversion Hc; subst. reflexivity.
  - cbn [alookup] in Hc. rewrite (alookup_filter_key (fun j => negb (smem j reserved))) in Hc. cbn in Hc. discriminate.
Qed.

End OneList.

(* ---- an empty list against any columns -------------------------------------------------------- *)

Lemma from_arrow_empty il cols :
  il_len il = 0 -> In "item_id" (map fst cols) -> NoDup (map fst cols) ->
  exists il', to_arrow_cols il cols = Some (0, map (fun nt => (fst nt, mkACol (snd nt) [])) cols) /\
    from_arrow (0, map (fun nt => (fst nt, mkACol (snd nt) [])) cols) = Some il' /\
    il_len il' = 0 /\ v_ids il' = Some [] /\ il_ordered il' = amem "rank" cols /\ il_vocab il' = None /\
    (forall k, In k (map fst (il_fields il')) -> k = "score").
Proof.
  intros L Hid ND.
  set (cs := map (fun nt : string * nat => (fst nt, mkACol (snd nt) [])) cols).
  assert (Lk : forall k, alookup k cs = option_map (fun t => mkACol t []) (alookup k cols)).
  { intro k. unfold cs. apply (alookup_map (fun _ t => mkACol t [])). }
  assert (NDc : NoDup (map fst cs)) by (unfold cs; rewrite map_map; exact ND).
  destruct (alookup "item_id" cols) as [tid|] eqn:Eid; [|exfalso; apply (alookup_none_notin _ _ Eid Hid)].
  unfold to_arrow_cols. rewrite L. cbn [Nat.eqb]. fold cs.
  unfold from_arrow. rewrite (Lk "item_id"), Eid. cbn [option_map Nat.eqb].
  (* only score and rank survive array_is_null on empty arrays *)
  set (f2 := filter (fun kc : string * acol => smem (fst kc) ["score"; "rank"] || negb (all_null (snd kc)))
               (filter (fun kc : string * acol => negb (smem (fst kc) ["item_id"; "item_num"])) cs)).
  set (F := map (fun kc : string * acol => (fst kc, a_numpy (snd kc))) f2).
  assert (Hempty : forall k c, In (k, c) F -> c_vals c = [] /\ smem k ["score"; "rank"] = true).
  { intros k c Hin. unfold F in Hin. apply in_map_iff in Hin. destruct Hin as [[j a] [E Hin]]. cbn [fst snd] in E. inversion E; subst.
    unfold f2 in Hin. apply filter_In in Hin. destruct Hin as [Hin P]. apply filter_In in Hin. destruct Hin as [Hin _].
    unfold cs in Hin. apply in_map_iff in Hin. destruct Hin as [[j' t] [E' _]]. cbn [fst snd] in E'. inversion E'; subst.
    cbn [fst snd] in P. split; [reflexivity|]. cbn in P. rewrite orb_false_r in P. exact P. }
  assert (Hlen : forallb (fun kc : string * ncol => Nat.eqb (List.length (c_vals (snd kc))) 0) F = true).
  { apply forallb_forall. intros [k c] Hin. cbn [snd]. destruct (Hempty k c Hin) as [-> _]. reflexivity. }
  assert (NDF : NoDup (map fst F)).
  { unfold F. rewrite map_map. cbn [fst]. unfold f2. apply (NoDup_filter _ fst), (NoDup_filter _ fst), NDc. }
  assert (Hrank : amem "rank" F = amem "rank" cols).
  { rewrite !amem_alookup. unfold F. rewrite (alookup_map (fun _ c => a_numpy c)). unfold f2.
    rewrite alookup_filter by (apply (NoDup_filter _ fst), NDc).
    rewrite alookup_filter by exact NDc. rewrite Lk.
    destruct (alookup "rank" cols); reflexivity. }
  destruct (alookup "item_num" cs) as [cn|] eqn:En.
  - rewrite Lk in En. destruct (alookup "item_num" cols); [|discriminate]. cbn in En. inversion En; subst.
    cbn [option_map a_numpy a_vals map c_vals List.length Nat.eqb a_ty].
    unfold construct. cbn [List.length Nat.eqb]. rewrite Hlen.
    eexists. split; [reflexivity|]. split; [reflexivity|].
    cbn [il_len il_ids il_vocab il_ordered il_fields]. unfold v_ids. cbn [il_ids].
    split; [reflexivity|]. split; [reflexivity|]. split; [exact Hrank|]. split; [reflexivity|].
    intros k Hk. rewrite map_app in Hk. apply in_app_or in Hk. destruct Hk as [Hk|Hk].
    + destruct (alookup "score" F); [|contradiction]. destruct Hk as [E|[]]. symmetry. exact E.
    + apply in_map_iff in Hk. destruct Hk as [[j c] [E Hin]]. cbn [fst] in E. subst j.
      apply filter_In in Hin. destruct Hin as [Hin P]. destruct (Hempty k c Hin) as [_ S].
      cbn [fst] in P. apply negb_true_iff in P. unfold smem, reserved in *. cbn [existsb] in *.
      apply orb_true_iff in S. destruct S as [S|S]; [apply String.eqb_eq in S; exact S|].
      rewrite orb_false_r in S. rewrite S in P. rewrite !orb_true_r in P. discriminate.
  - cbn [option_map a_numpy a_vals map c_vals List.length Nat.eqb a_ty].
    unfold construct. cbn [List.length]. rewrite Hlen.
    eexists. split; [reflexivity|]. split; [reflexivity|].
    cbn [il_len il_ids il_vocab il_ordered il_fields]. unfold v_ids. cbn [il_ids].
    split; [reflexivity|]. split; [reflexivity|]. split; [exact Hrank|]. split; [reflexivity|].
    intros k Hk. rewrite map_app in Hk. apply in_app_or in Hk. destruct Hk as [Hk|Hk].
    + destruct (alookup "score" F); [|contradiction]. destruct Hk as [E|[]]. symmetry. exact E.
    + apply in_map_iff in Hk. destruct Hk as [[j c] [E Hin]]. cbn [fst] in E. subst j.
      apply filter_In in Hin. destruct Hin as [Hin P]. destruct (Hempty k c Hin) as [_ S].
      cbn [fst] in P. apply negb_true_iff in P. unfold smem, reserved in *. cbn [existsb] in *.
      apply orb_true_iff in S. destruct S as [S|S]; [apply String.eqb_eq in S; exact S|].
      rewrite orb_false_r in S. rewrite S in P. rewrite !orb_true_r in P. discriminate.
Qed.

(* ---- to_arrow / from_arrow of a single list ----------------------------------------------------- *)

Lemma arrow_types_ok il numbers :
  wf_il il -> il_len il <> 0 -> has_ids il = true ->
  (numbers = true -> has_nums il = true -> exists n, nums_strict il = Some n) ->
  cols_ok il (arrow_types il true numbers).
Proof.
  intros W L HI HN.
  assert (E0 : Nat.eqb (il_len il) 0 = false) by (apply Nat.eqb_neq, L).
  unfold arrow_types. rewrite E0, HI. cbn [andb].
  set (numc := if numbers && has_nums il then [("item_num", TI32)] else []).
  set (rankc := if il_ordered il then [("rank", TI32)] else []).
  set (fc := map (fun kc : string * ncol => (fst kc, c_ty (snd kc))) (il_fields il)).
  assert (Kf : map fst fc = map fst (il_fields il)) by (unfold fc; rewrite map_map; reflexivity).
  assert (Nf : forall k, smem k ["item_id"; "item_num"; "rank"] = true -> ~ In k (map fst fc)).
  { intros k S Hin. rewrite Kf in Hin. rewrite (wf_names il W k Hin) in S. discriminate. }
  constructor.
  - (* distinct column names *)
    rewrite !map_app. cbn [map fst app].
    constructor.
    { intro H. apply in_app_or in H. destruct H as [H|H].
      - unfold numc in H. destruct (numbers && has_nums il); [|contradiction]. destruct H as [H|[]]. discriminate.
      - apply in_app_or in H. destruct H as [H|H].
        + unfold rankc in H. destruct (il_ordered il); [|contradiction]. destruct H as [H|[]]. discriminate.
        + apply (Nf "item_id" eq_refl H). }
    assert (ND2 : NoDup (map fst rankc ++ map fst fc)).
    { unfold rankc. destruct (il_ordered il); cbn [map fst app]; [|rewrite Kf; apply (wf_nodup il W)].
      constructor; [apply (Nf "rank" eq_refl)|rewrite Kf; apply (wf_nodup il W)]. }
    unfold numc. destruct (numbers && has_nums il); cbn [map fst app]; [|exact ND2].
    constructor; [|exact ND2].
    intro H. apply in_app_or in H. destruct H as [H|H].
    + unfold rankc in H. destruct (il_ordered il); [|contradiction]. destruct H as [H|[]]. discriminate.
    + apply (Nf "item_num" eq_refl H).
  - left. reflexivity.
  - apply (has_ids_v il W HI).
  - intro H. cbn [map fst app] in H. destruct H as [H|H]; [discriminate|].
    rewrite !map_app in H. apply in_app_or in H. destruct H as [H|H].
    + unfold numc in H. destruct numbers; [|contradiction]. destruct (has_nums il) eqn:E; [|contradiction].
      apply HN; reflexivity.
    + exfalso. apply in_app_or in H. destruct H as [H|H].
      * unfold rankc in H. destruct (il_ordered il); [|contradiction]. destruct H as [H|[]]. discriminate.
      * apply (Nf "item_num" eq_refl H).
  - intro O. cbn [map fst app]. right. rewrite !map_app. apply in_or_app. right. apply in_or_app. left.
    unfold rankc. rewrite O. left. reflexivity.
  - intros k Hk. cbn [map fst app]. right. rewrite !map_app. apply in_or_app. right. apply in_or_app. right.
    rewrite Kf. exact Hk.
Qed.

Lemma arrow_roundtrip_l : forall il numbers,
  wf_il il -> il_len il <> 0 -> has_ids il = true ->
  (numbers = true -> has_nums il = true -> exists n, nums_strict il = Some n) ->
  exists t il',
    to_arrow il true numbers = Some t /\ from_arrow t = Some il' /\
    il_len il' = il_len il /\ v_ids il' = v_ids il /\
    v_nums il' = (if numbers && has_nums il then v_nums il else None) /\
    il_ordered il' = il_ordered il /\ v_ranks il' = v_ranks il /\
    fields_equiv (il_fields il') (il_fields il) /\ il_vocab il' = None.
Proof.
  intros il numbers W L HI HN.
  pose proof (arrow_types_ok il numbers W L HI HN) as C.
  destruct (from_arrow_ok il _ W C L) as [il' [Hf [H1 [_ [H2 [H3 [H4 [H5 [H6 [H7 _]]]]]]]]]].
  exists (il_len il, arrow_cols il (arrow_types il true numbers)), il'.
  split; [apply to_arrow_cols_ok; assumption|]. split; [exact Hf|].
  split; [exact H1|]. split; [exact H2|]. split.
  { rewrite H3. f_equal. rewrite amem_alookup. unfold arrow_types.
    replace (Nat.eqb (il_len il) 0) with false by (symmetry; apply Nat.eqb_neq, L).
    rewrite HI. cbn [andb app alookup]. change (String.eqb "item_id" "item_num") with false. cbv iota.
    destruct (numbers && has_nums il); [reflexivity|]. cbn [app].
    rewrite alookup_app.
    replace (alookup "item_num" (if il_ordered il then [("rank", TI32)] else [])) with (@None nat) by (destruct (il_ordered il); reflexivity).
    rewrite alookup_notin; [reflexivity|].
    rewrite map_map. cbn [fst]. intro Hin. pose proof (wf_names il W _ Hin) as N. discriminate. }
  split; [exact H4|]. split; [exact H5|]. split; [exact H6|exact H7].
Qed.

(* the finding: an empty list does not survive to_arrow/from_arrow *)
Lemma arrow_empty_refuted_l : forall il ids numbers, il_len il = 0 ->
  match to_arrow il ids numbers with Some t => from_arrow t = None | None => True end.
Proof.
  intros il ids numbers L. unfold to_arrow, arrow_types, to_arrow_cols. rewrite L. reflexivity.
Qed.
