(* C16 -- basic facts: vocabulary look-ups, selections, dictionaries. *)
From Coq Require Import ZArith List Bool Arith Lia.
From LK Require Import Model.C16_itemlist.
Import ListNotations.
Open Scope Z_scope.

(* ---------------------------------------------------------------- vocabulary *)
Lemma vnum_ge v x : -1 <= vnum v x.
Proof.
  induction v as [|t r IH]; cbn [vnum]; [lia|].
  destruct (Z.eqb t x); [lia|]. destruct (Z.ltb_spec (vnum r x) 0); lia.
Qed.

Lemma vnum_lt v x : vnum v x < Z.of_nat (length v).
Proof.
  induction v as [|t r IH]; cbn [vnum length]; [lia|].
  destruct (Z.eqb t x); [lia|]. destruct (Z.ltb_spec (vnum r x) 0); lia.
Qed.

Lemma vnum_notin v x : ~ In x v -> vnum v x = -1.
Proof.
  induction v as [|t r IH]; cbn [vnum In]; intro H; [reflexivity|].
  destruct (Z.eqb_spec t x) as [E|E]; [exfalso; auto|].
  rewrite IH by tauto. reflexivity.
Qed.

Lemma vnum_in v x : In x v -> 0 <= vnum v x /\ nth (Z.to_nat (vnum v x)) v 0 = x.
Proof.
  induction v as [|t r IH]; cbn [vnum In]; intro H; [contradiction|].
  destruct (Z.eqb_spec t x) as [E|E]; [subst; cbn; split; [lia|reflexivity]|].
  destruct H as [H|H]; [congruence|]. specialize (IH H). destruct IH as [G N].
  destruct (Z.ltb_spec (vnum r x) 0); [lia|]. split; [lia|].
  replace (Z.to_nat (vnum r x + 1)) with (S (Z.to_nat (vnum r x))) by lia. exact N.
Qed.

Lemma vnum_neg_iff v x : vnum v x < 0 <-> ~ In x v.
Proof.
  split.
  - intros H I. apply vnum_in in I. lia.
  - intro H. rewrite vnum_notin by exact H. lia.
Qed.

(* the number of the k-th term of a duplicate-free vocabulary is k *)
Lemma vnum_nth v : NoDup v -> forall k, (k < length v)%nat -> vnum v (nth k v 0) = Z.of_nat k.
Proof.
  induction 1 as [|t r NI ND IH]; intros k Hk; cbn [length] in Hk; [lia|].
  destruct k as [|k]; cbn [nth vnum].
  - rewrite Z.eqb_refl. reflexivity.
  - assert (Hk' : (k < length r)%nat) by lia.
    destruct (Z.eqb_spec t (nth k r 0)) as [E|E].
    + exfalso. apply NI. rewrite E. apply nth_In. exact Hk'.
    + rewrite IH by exact Hk'. destruct (Z.ltb_spec (Z.of_nat k) 0); lia.
Qed.

Lemma in_range_spec v n : in_range v n = true <-> 0 <= n < Z.of_nat (length v).
Proof. unfold in_range. rewrite andb_true_iff, Z.leb_le, Z.ltb_lt. tauto. Qed.

Lemma vnum_vterm v n : NoDup v -> in_range v n = true -> vnum v (vterm v n) = n.
Proof.
  intros ND H. apply in_range_spec in H. unfold vterm.
  rewrite vnum_nth by (exact ND || lia). lia.
Qed.

Lemma vnums_vids v ns i : NoDup v -> vids v ns = Ok i -> vnums v i = ns.
Proof.
  unfold vids, vnums. intros ND. destruct (forallb (in_range v) ns) eqn:F; [|discriminate].
  intro E. injection E as <-. rewrite map_map.
  rewrite forallb_forall in F.
  induction ns as [|n r IH]; cbn [map]; [reflexivity|].
  rewrite vnum_vterm by (exact ND || apply F; left; reflexivity).
  f_equal. apply IH. intros x Hx. apply F. right. exact Hx.
Qed.

Lemma vids_length v ns i : vids v ns = Ok i -> length i = length ns.
Proof.
  unfold vids. destruct (forallb (in_range v) ns); [|discriminate].
  intro E. injection E as <-. apply map_length.
Qed.

Lemma vnums_length v i : length (vnums v i) = length i.
Proof. apply map_length. Qed.

Lemma env_nodup env k : Forall (@NoDup Z) env -> NoDup (venv env k).
Proof.
  intro H. unfold venv. revert k. induction H as [|v r Hv Hr IH]; intros [|k]; cbn [nth]; try constructor; auto.
Qed.

(* ---------------------------------------------------------------- selections *)
Lemma pick_length {A} (d : A) sigma xs : length (pick d sigma xs) = length sigma.
Proof. apply map_length. Qed.

Lemma pick_map {A B} (f : A -> B) (da : A) (db : B) sigma xs :
  Forall (fun k => (k < length xs)%nat) sigma -> pick db sigma (map f xs) = map f (pick da sigma xs).
Proof.
  unfold pick. intro H. rewrite map_map. apply map_ext_in. intros k Hk.
  rewrite Forall_forall in H. specialize (H k Hk).
  rewrite (nth_indep (map f xs) db (f da)) by (rewrite map_length; exact H).
  apply map_nth.
Qed.

Lemma mask_pos_bound m k : Forall (fun j => (k <= j < k + length m)%nat) (mask_pos m k).
Proof.
  revert k. induction m as [|b r IH]; intro k; cbn [mask_pos length]; [constructor|].
  specialize (IH (S k)).
  assert (Forall (fun j => (k <= j < k + S (length r))%nat) (mask_pos r (S k))).
  { eapply Forall_impl; [|exact IH]. cbn beta. intros; lia. }
  destruct b; [constructor; [lia|assumption]|assumption].
Qed.

Lemma norm_idx_bound n i k : norm_idx n i = Ok k -> (k < n)%nat.
Proof.
  unfold norm_idx.
  destruct ((0 <=? i) && (i <? Z.of_nat n)) eqn:A.
  - apply andb_true_iff in A. destruct A as [A B]. apply Z.leb_le in A. apply Z.ltb_lt in B.
    intro E. injection E as <-. lia.
  - destruct ((i <? 0) && (- Z.of_nat n <=? i)) eqn:B; [|discriminate].
    apply andb_true_iff in B. destruct B as [B C]. apply Z.ltb_lt in B. apply Z.leb_le in C.
    intro E. injection E as <-. lia.
Qed.

Lemma norm_idxs_bound n ix s : norm_idxs n ix = Ok s -> Forall (fun k => (k < n)%nat) s.
Proof.
  revert s. induction ix as [|i r IH]; intros s; cbn [norm_idxs].
  - intro E. injection E as <-. constructor.
  - destruct (norm_idx n i) eqn:A; cbn [bind]; [|discriminate].
    destruct (norm_idxs n r) eqn:B; cbn [bind]; [|discriminate].
    intro E. injection E as <-. constructor; [eapply norm_idx_bound; eassumption|apply IH; reflexivity].
Qed.

Lemma norm_idxs_length n ix s : norm_idxs n ix = Ok s -> length s = length ix.
Proof.
  revert s. induction ix as [|i r IH]; intros s; cbn [norm_idxs].
  - intro E. injection E as <-. reflexivity.
  - destruct (norm_idx n i); cbn [bind]; [|discriminate].
    destruct (norm_idxs n r); cbn [bind]; [|discriminate].
    intro E. injection E as <-. cbn [length]. f_equal. apply IH. reflexivity.
Qed.

(* every position produced by a slice lies between the two ends it was started with *)
Lemma range_list_up fuel cur stop step :
  0 < step -> 0 <= cur -> Forall (fun k => cur <= Z.of_nat k < stop) (range_list fuel cur stop step).
Proof.
  revert cur. induction fuel as [|f IH]; intros cur Hs Hc; cbn [range_list]; [constructor|].
  destruct (Z.ltb_spec 0 step); [|lia].
  destruct (Z.ltb_spec cur stop); [|constructor].
  constructor; [lia|].
  eapply Forall_impl; [|apply IH; lia]. cbn beta. intros; lia.
Qed.

Lemma range_list_down fuel cur stop step :
  step < 0 -> -1 <= stop -> Forall (fun k => stop < Z.of_nat k <= cur) (range_list fuel cur stop step).
Proof.
  revert cur. induction fuel as [|f IH]; intros cur Hs Hc; cbn [range_list]; [constructor|].
  destruct (Z.ltb_spec 0 step); [lia|].
  destruct (Z.ltb_spec stop cur); [|constructor].
  constructor; [lia|].
  eapply Forall_impl; [|apply IH; lia]. cbn beta. intros; lia.
Qed.

Lemma slice_idx_bound n a b c s : slice_idx n a b c = Ok s -> Forall (fun k => (k < n)%nat) s.
Proof.
  unfold slice_idx.
  set (st := match c with Some s0 => s0 | None => 1 end).
  destruct (Z.eqb_spec st 0) as [E0|E0]; [discriminate|].
  intro E. injection E as <-.
  destruct (Z.ltb_spec st 0) as [Neg|Pos].
  - (* negative step: positions lie in (stop, start] with start <= n-1 *)
    set (clamp := fun x : Z => if x <? 0 then Z.max (x + Z.of_nat n) (-1) else Z.min x (Z.of_nat n - 1)).
    assert (Hc : forall x, -1 <= clamp x <= Z.of_nat n - 1).
    { intro x. unfold clamp. destruct (Z.ltb_spec x 0); lia. }
    set (bb := match a with Some x => clamp x | None => Z.of_nat n - 1 end).
    set (ee := match b with Some x => clamp x | None => -1 end).
    assert (Hb : bb <= Z.of_nat n - 1) by (unfold bb; destruct a; [apply Hc|lia]).
    assert (He : -1 <= ee) by (unfold ee; destruct b; [apply Hc|lia]).
    eapply Forall_impl; [|apply (range_list_down n bb ee st Neg He)]. cbn beta. intros; lia.
  - set (clamp := fun x : Z => if x <? 0 then Z.max (x + Z.of_nat n) 0 else Z.min x (Z.of_nat n)).
    assert (Hc : forall x, 0 <= clamp x <= Z.of_nat n).
    { intro x. unfold clamp. destruct (Z.ltb_spec x 0); lia. }
    set (bb := match a with Some x => clamp x | None => 0 end).
    set (ee := match b with Some x => clamp x | None => Z.of_nat n end).
    assert (Hb : 0 <= bb) by (unfold bb; destruct a; [apply Hc|lia]).
    assert (He : ee <= Z.of_nat n) by (unfold ee; destruct b; [apply Hc|lia]).
    eapply Forall_impl; [|apply (range_list_up n bb ee st ltac:(lia) Hb)]. cbn beta. intros; lia.
Qed.

Lemma sel_idx_bound n s sigma : sel_idx n s = Ok sigma -> Forall (fun k => (k < n)%nat) sigma.
Proof.
  destruct s as [m|ix|i|a b c]; cbn [sel_idx].
  - destruct (Nat.eqb_spec (length m) n) as [E|E]; cbn [orb].
    + intro H. injection H as <-. subst n.
      eapply Forall_impl; [|apply mask_pos_bound]. cbn beta. intros; lia.
    + destruct (Nat.eqb_spec (length m) 0) as [E0|E0]; [|discriminate].
      intro H. injection H as <-. destruct m; [constructor|discriminate].
  - apply norm_idxs_bound.
  - apply norm_idxs_bound.
  - apply slice_idx_bound.
Qed.

(* ---------------------------------------------------------------- dictionaries *)
Lemma dict_set_forall {A} (P : nat * A -> Prop) k v d :
  P (k, v) -> Forall P d -> Forall P (dict_set k v d).
Proof.
  intros Pk. induction 1 as [|[k' v'] r Hx Hr IH]; cbn [dict_set]; [repeat constructor; exact Pk|].
  destruct (Nat.eqb k k'); constructor; assumption.
Qed.

Lemma dict_union_forall {A} (P : nat * A -> Prop) (a b : list (nat * A)) :
  Forall P a -> Forall P b -> Forall P (dict_union a b).
Proof.
  unfold dict_union. revert a. induction b as [|[k v] r IH]; intros a Ha Hb; cbn [fold_left]; [exact Ha|].
  inversion Hb; subst. apply IH; [|assumption]. apply dict_set_forall; assumption.
Qed.

Lemma lookup_in {A} k (d : list (nat * A)) v : lookup k d = Some v -> In (k, v) d.
Proof.
  induction d as [|[k' v'] r IH]; cbn [lookup]; [discriminate|].
  destruct (Nat.eqb_spec k k') as [E|E].
  - intro H. injection H as <-. subst. left. reflexivity.
  - intro H. right. apply IH. exact H.
Qed.

Lemma lookup_app {A} k (a b : list (nat * A)) :
  lookup k (a ++ b) = match lookup k a with Some v => Some v | None => lookup k b end.
Proof.
  induction a as [|[k' v'] r IH]; cbn [lookup app]; [reflexivity|].
  destruct (Nat.eqb k k'); [reflexivity|exact IH].
Qed.

Lemma lookup_map {A B} (g : A -> B) k (d : list (nat * A)) :
  lookup k (map (fun f => (fst f, g (snd f))) d) = option_map g (lookup k d).
Proof.
  induction d as [|[k' v'] r IH]; cbn [lookup map fst snd]; [reflexivity|].
  destruct (Nat.eqb k k'); [reflexivity|exact IH].
Qed.

Lemma check_1d_some sh n : check_1d sh (Some n) = true <-> sh = [n].
Proof.
  cbn [check_1d]. unfold shape_eqb. destruct (list_eq_dec Nat.eq_dec sh [n]); split; congruence.
Qed.

Lemma seq1_length n : length (seq1 n) = n.
Proof. unfold seq1. rewrite map_length, seq_length. reflexivity. Qed.

Lemma forall_update {A} (P : A -> Prop) k x (l : list A) : P x -> Forall P l -> Forall P (update k x l).
Proof.
  intros Px H. revert k. induction H as [|y r Hy Hr IH]; intros [|k]; cbn [update]; try constructor; auto.
Qed.

Lemma nth_error_update_same {A} k x (l : list A) y : nth_error l k = Some y -> nth_error (update k x l) k = Some x.
Proof.
  revert k. induction l as [|z r IH]; intros [|k]; cbn; try discriminate; auto.
Qed.

Lemma nth_error_update_other {A} k j x (l : list A) : j <> k -> nth_error (update k x l) j = nth_error l j.
Proof.
  revert k j. induction l as [|z r IH]; intros [|k] [|j] H; cbn; try reflexivity; try congruence.
  apply IH. congruence.
Qed.

Lemma update_length {A} k x (l : list A) : length (update k x l) = length l.
Proof. revert k. induction l as [|z r IH]; intros [|k]; cbn; auto. Qed.

(* ---------------------------------------------------------------- dictionaries with distinct keys *)
Lemma lookup_notin {A} k (d : list (nat * A)) : ~ In k (map fst d) -> lookup k d = None.
Proof.
  induction d as [|[k' v'] r IH]; cbn [lookup map fst In]; [reflexivity|].
  intro H. destruct (Nat.eqb_spec k k') as [->|NE]; [exfalso; apply H; left; reflexivity|].
  apply IH. intro I. apply H. right. exact I.
Qed.

Lemma lookup_some_in {A} k (d : list (nat * A)) v : lookup k d = Some v -> In k (map fst d).
Proof. intro H. apply lookup_in in H. apply (in_map fst) in H. exact H. Qed.

Lemma lookup_dict_set {A} k k' (v : A) d : lookup k (dict_set k' v d) = if Nat.eqb k k' then Some v else lookup k d.
Proof.
  induction d as [|[k0 v0] r IH]; cbn [dict_set lookup].
  - destruct (Nat.eqb k k'); reflexivity.
  - destruct (Nat.eqb_spec k' k0) as [->|NE]; cbn [lookup].
    + destruct (Nat.eqb k k0); reflexivity.
    + destruct (Nat.eqb_spec k k0) as [->|NE2].
      * destruct (Nat.eqb_spec k0 k'); [congruence|reflexivity].
      * exact IH.
Qed.

Lemma dict_set_keys {A} k (v : A) d :
  map fst (dict_set k v d) = if existsb (Nat.eqb k) (map fst d) then map fst d else map fst d ++ [k].
Proof.
  induction d as [|[k0 v0] r IH]; cbn [dict_set map fst existsb app]; [reflexivity|].
  destruct (Nat.eqb_spec k k0) as [->|NE]; cbn [map fst orb]; [reflexivity|].
  rewrite IH. destruct (existsb (Nat.eqb k) (map fst r)); reflexivity.
Qed.

Lemma nodup_snoc {A} (l : list A) x : NoDup l -> ~ In x l -> NoDup (l ++ [x]).
Proof.
  induction 1 as [|y r Hy Hr IH]; intro NI; cbn [app]; [constructor; [intros []|constructor]|].
  constructor.
  - intro I. apply in_app_or in I. destruct I as [I|[I|[]]]; [contradiction|]. apply NI. left. symmetry. exact I.
  - apply IH. intro I. apply NI. right. exact I.
Qed.

Lemma dict_set_nodup {A} k (v : A) d : NoDup (map fst d) -> NoDup (map fst (dict_set k v d)).
Proof.
  intro H. rewrite dict_set_keys. destruct (existsb (Nat.eqb k) (map fst d)) eqn:E; [exact H|].
  apply nodup_snoc; [exact H|]. intro I.
  assert (X : existsb (Nat.eqb k) (map fst d) = true) by (apply existsb_exists; exists k; split; [exact I|apply Nat.eqb_refl]).
  congruence.
Qed.

Lemma dict_union_nodup {A} (a b : list (nat * A)) : NoDup (map fst a) -> NoDup (map fst (dict_union a b)).
Proof.
  unfold dict_union. revert a. induction b as [|[k v] r IH]; intros a H; cbn [fold_left]; [exact H|].
  apply IH. apply dict_set_nodup. exact H.
Qed.

(* with distinct keywords, the union reads the override first *)
Lemma lookup_dict_union {A} k (a b : list (nat * A)) : NoDup (map fst b) ->
  lookup k (dict_union a b) = match lookup k b with Some v => Some v | None => lookup k a end.
Proof.
  unfold dict_union. revert a. induction b as [|[k0 v0] r IH]; intros a H; cbn [fold_left lookup]; [reflexivity|].
  cbn [map fst] in H. apply NoDup_cons_iff in H. destruct H as [NI ND].
  rewrite (IH _ ND), lookup_dict_set. cbn [fst snd].
  destruct (Nat.eqb_spec k k0) as [->|NE]; [|reflexivity].
  rewrite (lookup_notin k0 r NI). reflexivity.
Qed.

Lemma lookup_notin_conv {A} k (d : list (nat * A)) : In k (map fst d) -> lookup k d <> None.
Proof.
  induction d as [|[k' v'] r IH]; cbn [lookup map fst In]; [intros []|].
  intros [->|I]; [rewrite Nat.eqb_refl; discriminate|].
  destruct (Nat.eqb k k'); [discriminate|apply IH; exact I].
Qed.
