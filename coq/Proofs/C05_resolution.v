(* C05: integer times of any magnitude and fractional cut-offs.
   The repaired code (fix b680b7a: builder._conform_time, temporal._int_bound) compares an integer time
   column with math.ceil(x) instead of the float x.  The model and the theorems compare the integer time
   with the rational cut-off exactly; this file shows the two coincide for every integer time and every
   rational cut-off (no bound on the magnitude - no 2^53). *)
From Coq Require Import ZArith QArith Qround List Bool Lia.
From LK Require Import Lib.SplitLib Gen.C05_holdout Model.C05_split Proofs.C05_temporal.
Import ListNotations.

Definition int_bound (x : Q) : Z := Qceiling x.          (* math.ceil *)

Lemma lt_ceiling (z : Z) (x : Q) : (inject_Z z < x)%Q <-> (z < Qceiling x)%Z.
Proof.
  split; intro H.
  - rewrite Zlt_Qlt. eapply Qlt_le_trans; [exact H | apply Qle_ceiling].
  - assert (Hz : (z <= Qceiling x - 1)%Z) by lia.
    rewrite Zle_Qle in Hz. eapply Qle_lt_trans; [exact Hz | apply Qceiling_lt].
Qed.

Lemma Qlt_b_ceiling (z : Z) (x : Q) : Qlt_b (inject_Z z) x = Qlt_b (inject_Z z) (inject_Z (int_bound x)).
Proof.
  unfold int_bound.
  destruct (Qlt_b (inject_Z z) x) eqn:E1; destruct (Qlt_b (inject_Z z) (inject_Z (Qceiling x))) eqn:E2; try reflexivity; exfalso.
  - apply (proj1 (Qlt_b_lt _ _)) in E1. apply (proj1 (lt_ceiling _ _)) in E1.
    rewrite Zlt_Qlt in E1. apply (proj2 (Qlt_b_lt _ _)) in E1. congruence.
  - apply (proj1 (Qlt_b_lt _ _)) in E2. rewrite <- Zlt_Qlt in E2. apply (proj2 (lt_ceiling _ _)) in E2.
    apply (proj2 (Qlt_b_lt _ _)) in E2. congruence.
Qed.

Lemma Qle_b_ceiling (z : Z) (x : Q) : Qle_b x (inject_Z z) = Qle_b (inject_Z (int_bound x)) (inject_Z z).
Proof.
  assert (H := Qlt_b_ceiling z x). rewrite !Qlt_b_compl in H.
  destruct (Qle_b x (inject_Z z)), (Qle_b (inject_Z (int_bound x)) (inject_Z z)); simpl in H; congruence.
Qed.

(* the pair built from the ceilings of the cut-offs is the pair of the exact cut-offs *)
Lemma time_fold_ceiling recs t t2 :
  time_fold recs (inject_Z (int_bound t)) (option_map (fun e => inject_Z (int_bound e)) t2) = time_fold recs t t2.
Proof.
  unfold time_fold. f_equal.
  - apply filter_ext. intro r. unfold tq. symmetry. apply Qlt_b_ceiling.
  - f_equal. apply filter_ext. intro r. unfold tq. rewrite <- Qle_b_ceiling. f_equal.
    destruct t2 as [e|]; simpl; [symmetry; apply Qlt_b_ceiling | reflexivity].
Qed.

Lemma time_folds_ceiling recs cuts endt :
  time_folds recs (map (fun t => inject_Z (int_bound t)) cuts) (option_map (fun e => inject_Z (int_bound e)) endt)
  = time_folds recs cuts endt.
Proof.
  induction cuts as [|t rest IH]; [reflexivity|].
  cbn [map time_folds]. rewrite IH. f_equal.
  destruct rest as [|t' rest']; cbn [map].
  - apply time_fold_ceiling.
  - apply (time_fold_ceiling recs t (Some t')).
Qed.

Lemma filter_window_ceiling recs (mn mx : option Q) :
  filter (fun r => match mn with None => true | Some a => Qle_b (inject_Z (int_bound a)) (tq r) end &&
                   match mx with None => true | Some b => Qlt_b (tq r) (inject_Z (int_bound b)) end) recs
  = filter (fun r => match mn with None => true | Some a => Qle_b a (tq r) end &&
                     match mx with None => true | Some b => Qlt_b (tq r) b end) recs.
Proof.
  apply filter_ext. intro r. unfold tq. f_equal.
  - destruct mn; [symmetry; apply Qle_b_ceiling | reflexivity].
  - destruct mx; [symmetry; apply Qlt_b_ceiling | reflexivity].
Qed.

Lemma integer_cut_ceiling_l :
  (forall (z : Z) (x : Q), ((inject_Z z < x)%Q <-> (z < int_bound x)%Z) /\ ((x <= inject_Z z)%Q <-> (int_bound x <= z)%Z)) /\
  (forall recs cuts endt,
     time_folds recs (map (fun t => inject_Z (int_bound t)) cuts) (option_map (fun e => inject_Z (int_bound e)) endt)
     = time_folds recs cuts endt) /\
  (forall recs (mn mx : option Q),
     filter (fun r => match mn with None => true | Some a => Qle_b (inject_Z (int_bound a)) (tq r) end &&
                      match mx with None => true | Some b => Qlt_b (tq r) (inject_Z (int_bound b)) end) recs
     = filter (fun r => match mn with None => true | Some a => Qle_b a (tq r) end &&
                        match mx with None => true | Some b => Qlt_b (tq r) b end) recs).
Proof.
  split; [|split].
  - intros z x. split; [apply lt_ceiling|].
    split; intro H.
    + destruct (Z_lt_le_dec z (int_bound x)) as [L|L]; [|exact L].
      apply (proj2 (lt_ceiling _ _)) in L. exfalso. apply (Qlt_not_le _ _ L H).
    + destruct (Qlt_le_dec (inject_Z z) x) as [L|L]; [|exact L].
      apply (proj1 (lt_ceiling _ _)) in L. unfold int_bound in H. lia.
  - exact time_folds_ceiling.
  - exact filter_window_ceiling.
Qed.
