(* C19 -- structural validity of random selection and stochastic ranking, for every outcome of the
   random draws.  The facts about random_len / softmax_len / stochastic_len / argtopn_plan are proved
   about the GENERATED definitions (Gen/C19_len.v, Gen/C03_len.v). *)
From Coq Require Import ZArith QArith List Bool Lia ZifyBool Lqa Sorted Permutation.
From LK Require Import Lib.QLib Lib.PyInt Lib.TopN Gen.C03_len Gen.C19_len Model.C19_select Proofs.C03_argtopn.
Import ListNotations.
Open Scope Z_scope.

(* ---- the generated length functions ---- *)
Ltac split_ifs :=
  repeat match goal with
         | |- context [if ?b then _ else _] => let E := fresh "E" in destruct b eqn:E; cbn
         | H : context [if ?b then _ else _] |- _ => let E := fresh "E" in destruct b eqn:E; cbn in H
         end.

Ltac crunch :=
  cbn; unfold truthy, ret in *; cbn in *; split_ifs; unfold truthy, ret in *; cbn in *;
  try reflexivity; try (exfalso; lia); try (repeat f_equal; lia).

Lemma random_len_spec n config_n N : 0 <= N ->
  random_len n config_n N =
  Some (let m := random_length n config_n N in if m >? 0 then Take (Some m) false else EmptyList false).
Proof.
  intro HN. unfold random_len, random_length, config_default.
  destruct n as [k|]; destruct config_n as [c|]; crunch.
Qed.

Definition rank_len_spec (lenf : lenfun) : Prop := forall n config_n N, 0 <= N ->
  lenf n config_n N = Some (if N =? 0 then EmptyList true else Take (Some (rank_length n config_n N)) true).

Lemma softmax_len_spec : rank_len_spec softmax_len.
Proof.
  intros n config_n N HN. unfold softmax_len, rank_length, config_default.
  destruct n as [k|]; destruct config_n as [c|]; crunch.
Qed.
Lemma stochastic_len_spec : rank_len_spec stochastic_len.
Proof.
  intros n config_n N HN. unfold stochastic_len, rank_length, config_default.
  destruct n as [k|]; destruct config_n as [c|]; crunch.
Qed.

Lemma rank_length_range n config_n N : 0 <= N -> 0 <= rank_length n config_n N <= N.
Proof. intro H. unfold rank_length. destruct n as [k|]; split_ifs; lia. Qed.
Lemma rank_length_positive k config_n N : 0 < k -> 0 <= N -> rank_length (Some k) config_n N = Z.min k N.
Proof. intros. unfold rank_length. split_ifs; lia. Qed.
Lemma random_length_range n config_n N : 0 <= N -> random_length n config_n N <= N.
Proof. intro H. unfold random_length. split_ifs; lia. Qed.
Lemma random_length_runtime k config_n N : random_length (Some k) config_n N = if k <? 0 then N else Z.min k N.
Proof. reflexivity. Qed.

(* ---- list helpers ---- *)
Lemma nodup_nat_NoDup l : nodup_nat l = true <-> NoDup l.
Proof.
  induction l as [|x l IH]; simpl.
  - split; [constructor|reflexivity].
  - rewrite andb_true_iff, negb_true_iff, IH. split.
    + intros [A B]. constructor; [|exact B]. intro Hi.
      assert (T : existsb (Nat.eqb x) l = true) by (apply existsb_exists; exists x; split; [exact Hi|apply Nat.eqb_refl]).
      congruence.
    + intro H. inversion H as [|? ? Hn Hd]; subst. split; [|exact Hd].
      destruct (existsb (Nat.eqb x) l) eqn:E; [|reflexivity]. exfalso. apply Hn.
      apply existsb_exists in E. destruct E as [y [Hy E]]. apply Nat.eqb_eq in E. subst. exact Hy.
Qed.

Lemma NoDup_map_filter {A B} (f : A -> B) (p : A -> bool) l : NoDup (map f l) -> NoDup (map f (filter p l)).
Proof.
  induction l as [|x l IH]; simpl; intro H; [constructor|].
  inversion H as [|? ? Hn Hd]; subst. destruct (p x); simpl; [|auto].
  constructor; [|auto]. intro Hi. apply Hn. apply in_map_iff in Hi. destruct Hi as [y [E Hy]].
  apply in_map_iff. exists y. split; [exact E|]. apply filter_In in Hy. tauto.
Qed.

Lemma combine_map_fst {A B} (a : list A) (b : list B) : length b = length a -> map fst (combine a b) = a.
Proof.
  revert b. induction a as [|x a IH]; intros [|y b] H; simpl in *; try reflexivity; try discriminate.
  f_equal. apply IH. lia.
Qed.

Lemma NoDup_fst_functional {A B} (l : list (A * B)) a b c :
  NoDup (map fst l) -> In (a, b) l -> In (a, c) l -> b = c.
Proof.
  induction l as [|[x y] l IH]; simpl; intros H H1 H2; [contradiction|].
  inversion H as [|? ? Hn Hd]; subst.
  destruct H1 as [H1|H1], H2 as [H2|H2].
  - congruence.
  - inversion H1; subst. exfalso. apply Hn. apply in_map_iff. exists (a, c). auto.
  - inversion H2; subst. exfalso. apply Hn. apply in_map_iff. exists (a, b). auto.
  - eauto.
Qed.

(* ---- RandomSelector ---- *)
Lemma pick_In items picked r : In r (pick items picked) -> In r items.
Proof.
  unfold pick. rewrite in_flat_map. intros [p [_ H]]. destruct (nth_error items p) eqn:E; [|contradiction].
  destruct H as [<-|[]]. eapply nth_error_In; eauto.
Qed.

Lemma pick_props items picked :
  NoDup (map r_id items) -> NoDup picked -> (forall p, In p picked -> (p < length items)%nat) ->
  NoDup (map r_id (pick items picked)) /\ length (pick items picked) = length picked.
Proof.
  intros Hid. induction picked as [|p ps IH]; intros Hnd Hlt; simpl; [split; [constructor|reflexivity]|].
  inversion Hnd as [|? ? Hn Hd]; subst.
  destruct IH as [IH1 IH2]; [exact Hd|intros; apply Hlt; right; assumption|].
  assert (Hp : (p < length items)%nat) by (apply Hlt; left; reflexivity).
  destruct (nth_error items p) as [r|] eqn:E; [|apply nth_error_None in E; lia].
  simpl. split; [|congruence]. constructor; [|exact IH1].
  intro Hi. apply in_map_iff in Hi. destruct Hi as [r' [Eid Hr']].
  unfold pick in Hr'. apply in_flat_map in Hr'. destruct Hr' as [q [Hq Hr']].
  destruct (nth_error items q) as [r''|] eqn:E'; [|contradiction]. destruct Hr' as [<-|[]].
  assert (p = q).
  { apply (proj1 (NoDup_nth_error (map r_id items)) Hid); [rewrite map_length; exact Hp|].
    rewrite !nth_error_map, E, E'. simpl. congruence. }
  subst. contradiction.
Qed.

Lemma choice_ok_spec N k picked : choice_ok N k picked = true ->
  Z.of_nat (length picked) = k /\ NoDup picked /\ forall p, In p picked -> Z.of_nat p < N.
Proof.
  unfold choice_ok. rewrite !andb_true_iff, nodup_nat_NoDup, forallb_forall.
  intros [[A B] C]. split; [lia|]. split; [exact B|]. intros p Hp. specialize (C p Hp). lia.
Qed.

Lemma selection_valid_random_l items n config_n :
  NoDup (map r_id items) ->
  let N := Z.of_nat (length items) in
  let m := random_length n config_n N in
  random_request items n config_n = Some (if m >? 0 then Some (N, m) else None) /\
  forall picked, (m > 0 -> choice_ok N m picked = true) ->
    exists out, random_select items n config_n picked = Some (out, false) /\
      NoDup (map r_id out) /\
      (forall r, In r out -> In r items) /\
      Z.of_nat (length out) = m.
Proof.
  intros Hid N m. assert (HN : 0 <= N) by (unfold N; lia).
  unfold random_request, random_select. fold N. rewrite (random_len_spec n config_n N HN). cbv zeta. fold m.
  destruct (m >? 0) eqn:E; (split; [reflexivity|]); intros picked Hc.
  - destruct (choice_ok_spec N m picked (Hc ltac:(lia))) as (A & B & C).
    destruct (pick_props items picked Hid B) as [P1 P2].
    { intros p Hp. specialize (C p Hp). unfold N in C. lia. }
    exists (pick items picked). repeat split; [exact P1|apply pick_In|lia].
  - exists []. repeat split; [constructor|intros r []|].
    pose proof (random_length_range n config_n N HN). simpl.
    assert (0 <= m); [|lia]. unfold m, random_length. split_ifs; lia.
Qed.

(* ---- rankers ---- *)
Lemma rank_by_keys_firstn valid keys k :
  0 <= k <= Z.of_nat (length (combine valid keys)) ->
  rank_by_keys valid keys k = Some (map fst (firstn (Z.to_nat k) (sort_desc snd (combine valid keys)))).
Proof.
  intro H. unfold rank_by_keys. rewrite argtopn_plan_cases.
  destruct (k =? 0) eqn:E0; [assert (k = 0) by lia; subst; reflexivity|].
  destruct ((0 <=? k) && (k <? Z.of_nat (length (combine valid keys)))) eqn:E; [reflexivity|].
  assert (Z.to_nat k = length (sort_desc snd (combine valid keys))) as -> by (rewrite sort_desc_length; lia).
  rewrite firstn_all. reflexivity.
Qed.

Lemma selection_valid_rank_l (mask : mask_kind) (lenf : lenfun) items n config_n keys :
  rank_len_spec lenf ->
  NoDup (map r_id items) ->
  let valid := filter (eligible mask) items in
  let N := Z.of_nat (length valid) in
  length keys = length valid ->
  exists out, stochastic_rank mask lenf items n config_n keys = Some (out, true) /\
    NoDup (map r_id out) /\
    (forall r, In r out -> In r items /\ eligible mask r = true) /\
    Z.of_nat (length out) = rank_length n config_n N /\
    (* it is a top-n of the keys: nothing left out has a key above an included one *)
    (forall r kr r' kr', In (r, kr) (combine valid keys) -> In r out ->
       In (r', kr') (combine valid keys) -> ~ In r' out -> (kr' <= kr)%Q).
Proof.
  intros Hspec Hid valid N Hk. assert (HN : 0 <= N) by (unfold N; lia).
  unfold stochastic_rank. fold valid. fold N. rewrite (Hspec n config_n N HN).
  pose proof (rank_length_range n config_n N HN) as Hr.
  destruct (N =? 0) eqn:E0.
  - exists []. assert (N = 0) by lia. split; [reflexivity|]. split; [constructor|]. split; [intros r []|].
    split; [simpl; lia|]. intros r kr r' kr' _ [].
  - set (m := rank_length n config_n N) in *.
    assert (Hlen : length (combine valid keys) = length valid) by (rewrite combine_length; lia).
    rewrite rank_by_keys_firstn by (rewrite Hlen; fold N; lia). cbn [option_map].
    eexists. split; [reflexivity|].
    set (pairs := combine valid keys) in *.
    assert (Hfst : map fst pairs = valid) by (apply combine_map_fst; exact Hk).
    assert (Hvid : NoDup (map r_id valid)) by (apply NoDup_map_filter; exact Hid).
    assert (Hin : forall p, In p (firstn (Z.to_nat m) (sort_desc snd pairs)) -> In p pairs).
    { intros p Hp. apply In_firstn in Hp. apply sort_desc_in in Hp. exact Hp. }
    split; [|split; [|split]].
    + rewrite map_map. apply NoDup_map_firstn. apply sort_desc_NoDup_map.
      rewrite <- (map_map fst r_id), Hfst. exact Hvid.
    + intros r Hr'. apply in_map_iff in Hr'. destruct Hr' as [[r0 k0] [<- Hp]]. apply Hin in Hp.
      apply in_combine_l in Hp. unfold valid in Hp. apply filter_In in Hp. exact Hp.
    + rewrite map_length, firstn_length, sort_desc_length, Hlen. fold N. lia.
    + intros r kr r' kr' H1 H2 H3 H4.
      apply in_map_iff in H2. destruct H2 as [[r0 k0] [E Hp]]. simpl in E. subst r0.
      assert (k0 = kr).
      { eapply NoDup_fst_functional; [|apply Hin; exact Hp|exact H1].
        rewrite Hfst. eapply NoDup_map_inv. exact Hvid. }
      subst k0.
      assert (H3' : In (r', kr') (sort_desc snd pairs)) by (apply sort_desc_in; exact H3).
      rewrite <- (firstn_skipn (Z.to_nat m)) in H3'. apply in_app_or in H3'. destruct H3' as [H3'|H3'].
      * exfalso. apply H4. apply in_map_iff. exists (r', kr'). auto.
      * exact (topn_dominates snd (Z.to_nat m) pairs _ _ Hp H3').
Qed.

(* ---- linear weights are a probability vector ---- *)
Lemma fold_Qminq_le l x : (fold_left Qminq l x <= x)%Q /\ forall y, In y l -> (fold_left Qminq l x <= y)%Q.
Proof.
  revert x. induction l as [|z l IH]; intro x; simpl.
  - split; [lra|intros y []].
  - destruct (IH (Qminq x z)) as [A B].
    assert (M : (Qminq x z <= x /\ Qminq x z <= z)%Q).
    { unfold Qminq. destruct (Qle_bool x z) eqn:E; [apply Qle_bool_iff in E; lra|].
      destruct (Qlt_le_dec z x) as [L|L]; [lra|]. apply Qle_bool_iff in L. congruence. }
    split; [lra|]. intros y [<-|Hy]; [lra|auto].
Qed.
Lemma qmin_list_le l y : In y l -> (qmin_list l <= y)%Q.
Proof.
  destruct l as [|x l]; [intros []|]. simpl. destruct (fold_Qminq_le l x) as [A B].
  intros [<-|Hy]; [exact A|auto].
Qed.

Lemma Qsum_map_div l c : ~ (c == 0)%Q -> (Qsum (map (fun x => x / c) l) == Qsum l / c)%Q.
Proof. intro H. induction l as [|x l IH]; simpl; [field; exact H|rewrite IH; field; exact H]. Qed.
Lemma Qsum_repeat c m : (Qsum (repeat c m) == Qofnat m * c)%Q.
Proof.
  induction m as [|m IH]; [simpl; unfold Qofnat; simpl; ring|].
  change (repeat c (S m)) with (c :: repeat c m). simpl Qsum. rewrite IH, Qofnat_S. ring.
Qed.

Lemma uniform_weights_prob m : (0 < m)%nat ->
  (Qsum (uniform_weights m) == 1)%Q /\ forall w, In w (uniform_weights m) -> (0 <= w)%Q.
Proof.
  intro H. pose proof (Qofnat_pos m H) as P. unfold uniform_weights. split.
  - rewrite Qsum_repeat. field. lra.
  - intros w Hw. apply repeat_spec in Hw. subst. apply Qlt_le_weak. apply Qlt_shift_div_l; lra.
Qed.

Lemma linear_weights_prob_l xs : xs <> [] ->
  length (linear_weights xs) = length xs /\
  (Qsum (linear_weights xs) == 1)%Q /\ forall w, In w (linear_weights xs) -> (0 <= w)%Q.
Proof.
  intro Hne. assert (Hm : (0 < length xs)%nat) by (destruct xs; [congruence|simpl; lia]).
  unfold linear_weights.
  set (lb := qmin_list xs). set (r := (qmax_list xs - lb)%Q).
  destruct (Qltb 0 r) eqn:Er.
  2:{ split; [unfold uniform_weights; apply repeat_length|apply uniform_weights_prob; exact Hm]. }
  apply Qltb_lt in Er.
  set (s2 := map (fun x => x / r)%Q (map (fun x => x - lb)%Q xs)).
  destruct (Qltb 0 (Qsum s2)) eqn:Et.
  2:{ split; [unfold uniform_weights; apply repeat_length|apply uniform_weights_prob; exact Hm]. }
  apply Qltb_lt in Et. split; [unfold s2; rewrite !map_length; reflexivity|]. split.
  - rewrite Qsum_map_div by lra. field. lra.
  - intros w Hw. apply in_map_iff in Hw. destruct Hw as [y [<- Hy]].
    unfold s2 in Hy. apply in_map_iff in Hy. destruct Hy as [z [<- Hz]].
    apply in_map_iff in Hz. destruct Hz as [x [<- Hx]].
    pose proof (qmin_list_le xs x Hx) as L. fold lb in L.
    assert (0 <= (x - lb) / r)%Q by (apply Qle_shift_div_l; lra).
    apply Qle_shift_div_l; lra.
Qed.

Lemma rates_positive tiny ws : (0 < tiny)%Q -> forall w, In w (rates tiny ws) -> (0 < w)%Q.
Proof.
  intros Ht w Hw. unfold rates in Hw. apply in_map_iff in Hw. destruct Hw as [x [<- _]].
  unfold Qmaxq. destruct (Qle_bool x tiny) eqn:E; [exact Ht|].
  destruct (Qlt_le_dec tiny x) as [L|L]; [lra|]. apply Qle_bool_iff in L. congruence.
Qed.

Lemma linear_weights_prob_full xs tiny : xs <> [] -> (0 < tiny)%Q ->
  length (linear_weights xs) = length xs /\
  (Qsum (linear_weights xs) == 1)%Q /\ (forall w, In w (linear_weights xs) -> (0 <= w)%Q) /\
  (forall t ws w, In w (rates tiny (weights t ws)) -> (0 < w)%Q).
Proof.
  intros Hne Ht. destruct (linear_weights_prob_l xs Hne) as (A & B & C).
  repeat split; try assumption. intros t ws w. apply rates_positive. exact Ht.
Qed.

Lemma positive_runtime_l k config_n N : 0 < k -> 0 <= N ->
  rank_length (Some k) config_n N = Z.min k N /\
  random_length (Some k) config_n N = Z.min k N /\
  rank_length None config_n N = (let c := config_default config_n in if (c <? 0) || (c >? N) then N else c) /\
  random_length None config_n N = (let c := config_default config_n in if c <? 0 then N else Z.min c N).
Proof.
  intros Hk HN. split; [apply rank_length_positive; assumption|]. split; [|split; reflexivity].
  unfold random_length. split_ifs; lia.
Qed.

(* eligibility: the generated masks are "every item" for the selector, "finite score" for
   StochasticTopNRanker -- and only "not NaN" for the deprecated SoftmaxRanker (KNOWN finding) *)
Lemma eligibility_partial_l :
  random_mask = MAll /\ stochastic_mask = MFinite /\ softmax_mask = MNotNan /\
  (forall r, eligible MFinite r = true <-> exists q, r_score r = SNum q) /\
  (forall r, eligible MNotNan r = true <-> r_score r <> SNan) /\
  (forall r, eligible MAll r = true).
Proof.
  split; [reflexivity|]. split; [reflexivity|]. split; [reflexivity|]. split; [|split].
  - intro r. split.
    + unfold eligible. destruct (r_score r); try discriminate. eauto.
    + intros [q E]. unfold eligible. rewrite E. reflexivity.
  - intro r. unfold eligible. destruct (r_score r); split; congruence.
  - intro r. reflexivity.
Qed.

(* the faithful model of SoftmaxRanker violates "only items with finite scores": witness *)
Lemma softmax_finite_only_refuted_l :
  exists items keys out, softmax_ranker items (Some 1) None keys = Some (out, true) /\
    exists r, In r out /\ r_score r = SPInf.
Proof.
  exists [(42, SPInf, 0); (7, SNum 1, 0)], [0%Q; (-1 # 2)%Q], [(42, SPInf, 0)].
  split; [vm_compute; reflexivity|]. exists (42, SPInf, 0). split; [left; reflexivity|reflexivity].
Qed.

Lemma selection_valid_softmax_l items n config_n keys :
  NoDup (map r_id items) ->
  let valid := filter (eligible softmax_mask) items in
  let N := Z.of_nat (length valid) in
  length keys = length valid ->
  exists out, softmax_ranker items n config_n keys = Some (out, true) /\
    NoDup (map r_id out) /\
    (forall r, In r out -> In r items /\ eligible softmax_mask r = true) /\
    Z.of_nat (length out) = rank_length n config_n N /\
    (forall r kr r' kr', In (r, kr) (combine valid keys) -> In r out ->
       In (r', kr') (combine valid keys) -> ~ In r' out -> (kr' <= kr)%Q).
Proof. exact (selection_valid_rank_l softmax_mask softmax_len items n config_n keys softmax_len_spec). Qed.

Lemma selection_valid_stochastic_l items n config_n keys :
  NoDup (map r_id items) ->
  let valid := filter (eligible stochastic_mask) items in
  let N := Z.of_nat (length valid) in
  length keys = length valid ->
  exists out, stochastic_ranker items n config_n keys = Some (out, true) /\
    NoDup (map r_id out) /\
    (forall r, In r out -> In r items /\ eligible stochastic_mask r = true) /\
    Z.of_nat (length out) = rank_length n config_n N /\
    (forall r kr r' kr', In (r, kr) (combine valid keys) -> In r out ->
       In (r', kr') (combine valid keys) -> ~ In r' out -> (kr' <= kr)%Q).
Proof. exact (selection_valid_rank_l stochastic_mask stochastic_len items n config_n keys stochastic_len_spec). Qed.

(* the regenerated weight rule: the scale factor multiplies the eligible scores before the transform is
   chosen -- which is how the model forms its weights (`weights t (scaled_scores scale valid)`) *)
Lemma weight_rule_l :
  stochastic_scale = ScaleBeforeTransform /\
  stochastic_transforms = [TrLinearMinMax; TrSoftmax; TrRawClamp] /\
  stochastic_keys = KLogUOverW /\ softmax_keys = KLogUOverW /\
  (forall scale valid, weights TLinear (scaled_scores scale valid) = linear_weights (scaled_scores scale valid)) /\
  (forall scale valid, weights TRaw (scaled_scores scale valid) = scaled_scores scale valid) /\
  (forall scale i q x, scaled_scores scale [(i, SNum q, x)] = [(q * scale)%Q]).
Proof. repeat split; reflexivity. Qed.
