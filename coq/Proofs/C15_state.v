(* C15 -- tie A for the hand-written codec model: the attributes an ItemList object consists of and the
   shape of __getstate__ / __setstate__ / arrow_types, as regenerated from data/items.py on every run
   (Gen/C15_state.v), are the ones Model/C15_codec.v and Model/C15_derive.v were written after:
     - the record `ilist` has one component per attribute (il_idty is the dtype of _ids / the vocabulary's
       identifiers), and the copy constructor's self.__dict__.update(source.__dict__) is the only place the
       object's dictionary is handled wholesale, so a derived list shares exactly these with its source;
     - getstate / setstate / arrow_types follow the statements below, guard by guard.
   Each lemma is closed by reflexivity: any other attribute or statement stops this file compiling. *)
From Coq Require Import List String.
From LK Require Import Gen.C15_state.
Import ListNotations.
Open Scope string_scope.

Definition expected_itemlist_attrs : list string :=
  ["_fields"; "_ids"; "_len"; "_numbers"; "_ranks"; "_vocab"; "ordered"].

Definition expected_itemlist_dict_ops : list string :=
  ["self.__dict__.update(source.__dict__)"].

Definition expected_getstate_shape : list (string * string) :=
  [
  ("", "state: dict[str, object] = {'ordered': self.ordered, 'len': self._len}");
  ("self._ids is not None", "state['ids'] = self._ids");
  ("not (self._ids is not None) && self._vocab is not None", "state['ids'] = self.ids()");
  ("self._numbers is not None", "state['numbers'] = self._numbers.numpy()");
  ("not (self._numbers is not None) && self._vocab is not None", "state['numbers'] = self.numbers(missing='negative')");
  ("self.ordered and self._ranks is not None", "ranks = self._ranks.numpy()");
  ("self.ordered and self._ranks is not None && not np.array_equal(ranks, np.arange(1, self._len + 1))", "state['ranks'] = ranks");
  ("", "state.update((('field_' + k, v.numpy()) for k, v in self._fields.items()))");
  ("", "return state")].

Definition expected_setstate_shape : list (string * string) :=
  [
  ("", "self.ordered = state['ordered']");
  ("", "self._len = state['len']");
  ("", "self._ids = state.get('ids', None)");
  ("'numbers' in state", "self._numbers = MTArray(state['numbers'])");
  ("'ranks' in state", "self._ranks = MTArray(state['ranks'])");
  ("", "self._fields = {k[6:]: MTArray(v) for k, v in state.items() if k.startswith('field_')}")].

Definition expected_arrow_types_shape : list (string * string) :=
  [
  ("", "types: dict[str, pa.DataType] = {}");
  ("len(self) == 0", "return types");
  ("ids && self._ids is not None", "types['item_id'] = _arrow_type(self._ids.dtype)");
  ("ids && not (self._ids is not None) && self._vocab is not None", "types['item_id'] = _arrow_type(self._vocab.ids().dtype)");
  ("numbers and (self._numbers is not None or self._vocab is not None)", "types['item_num'] = pa.int32()");
  ("self.ordered", "types['rank'] = pa.int32()");
  ("for (name, f) in self._fields.items()", "types[name] = _arrow_type(f.numpy().dtype)");
  ("", "return types")].

Lemma state_is_modelled_l :
  itemlist_attrs = expected_itemlist_attrs /\
  itemlist_dict_ops = expected_itemlist_dict_ops /\
  getstate_shape = expected_getstate_shape /\
  setstate_shape = expected_setstate_shape /\
  arrow_types_shape = expected_arrow_types_shape.
Proof. repeat split; reflexivity. Qed.
