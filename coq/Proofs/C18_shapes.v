(* C18 -- Pipeline.train over pipeline SHAPES: which component nodes are trained does not depend on how the
   nodes are wired, which node is the default and which have aliases.  `pt_iterates_all_nodes` is generated
   from the source (the loop is `for node in self.nodes()`, Pipeline.nodes returns every node). *)
From Coq Require Import ZArith List Bool Lia Arith.
From Coq Require String.
Import String.StringSyntax.
From LK Require Import Model.C18_retrain Gen.C18_frames Proofs.C18_proofs.
Import ListNotations.
Local Open Scope string_scope.

Lemma count_name_notin : forall a l, ~ In a l -> count_name a l = 0.
Proof.
  induction l as [|b t IH]; intro H; cbn [count_name]; [reflexivity|].
  destruct (String.eqb_spec a b) as [E|E].
  - exfalso. apply H. left. symmetry. exact E.
  - rewrite IH; [reflexivity|]. intro Hin. apply H. right. exact Hin.
Qed.

Lemma count_name_nodup_in : forall a l, NoDup l -> In a l -> count_name a l = 1.
Proof.
  induction l as [|b t IH]; intros Hnd Hin; [destruct Hin|].
  inversion Hnd as [|x xs Hnin Hnd']; subst. cbn [count_name].
  destruct (String.eqb_spec a b) as [E|E].
  - subst b. rewrite count_name_notin; [reflexivity|exact Hnin].
  - destruct Hin as [Hin|Hin]; [exfalso; apply E; symmetry; exact Hin|].
    rewrite IH; [reflexivity|exact Hnd'|exact Hin].
Qed.

Lemma nodup_map_inj : forall A B (f : A -> B) l, NoDup (map f l) ->
  forall x y, In x l -> In y l -> f x = f y -> x = y.
Proof.
  induction l as [|z l IH]; intros Hnd x y Hx Hy Hf; [destruct Hx|].
  cbn in Hnd. inversion Hnd as [|w ws Hnin Hnd']; subst.
  destruct Hx as [Hx|Hx]; destruct Hy as [Hy|Hy].
  - subst. reflexivity.
  - subst z. exfalso. apply Hnin. rewrite Hf. apply in_map. exact Hy.
  - subst z. exfalso. apply Hnin. rewrite <- Hf. apply in_map. exact Hx.
  - apply IH; assumption.
Qed.

Lemma count_in_trainable : forall ns, NoDup (map pn_name ns) -> forall n, In n ns ->
  count_name (pn_name n) (map pn_name (filter pn_trainable ns)) = expected_count n.
Proof.
  intros ns Hnd n Hin. unfold expected_count. destruct (pn_trainable n) eqn:Ht.
  - apply count_name_nodup_in; [apply NoDup_map_filter; exact Hnd|].
    apply in_map. apply filter_In. split; assumption.
  - apply count_name_notin. intro H. apply in_map_iff in H. destruct H as [m [Hm Hmin]].
    apply filter_In in Hmin. destruct Hmin as [Hmin Hmt].
    assert (m = n) as E by (apply (nodup_map_inj _ _ pn_name ns Hnd); assumption).
    subst m. rewrite Ht in Hmt. discriminate.
Qed.

Lemma iterates_all_nodes_l : pt_iterates_all_nodes = true.
Proof. reflexivity. Qed.

Lemma every_node_whatever_the_wiring_l : forall k retrain sb sh,
  NoDup (map pn_name (sh_nodes sh)) ->
  let calls := shape_calls pt_iterates_all_nodes (pt_seed_plan k) pt_spawn_width retrain (start_index (pt_seed_plan k) sb) sh in
  (forall n, In n (sh_nodes sh) -> count_name (pn_name n) (map pc_name calls) = expected_count n) /\
  (forall n, In n (sh_nodes sh) -> pn_trainable n = true -> on_output_path sh (pn_name n) = false ->
     count_name (pn_name n) (map pc_name calls) = 1) /\
  (forall sh', sh_nodes sh' = sh_nodes sh ->
     shape_calls pt_iterates_all_nodes (pt_seed_plan k) pt_spawn_width retrain (start_index (pt_seed_plan k) sb) sh' = calls).
Proof.
  intros k retrain sb sh Hnd. cbv zeta. unfold shape_calls. rewrite iterates_all_nodes_l. cbn [visited].
  split; [|split].
  - intros n Hin. rewrite ptrain_calls_names. apply count_in_trainable; assumption.
  - intros n Hin Ht _. rewrite ptrain_calls_names. rewrite count_in_trainable by assumption.
    unfold expected_count. rewrite Ht. reflexivity.
  - intros sh' E. rewrite E. reflexivity.
Qed.

(* a training loop that walks back from the declared outputs instead never reaches a side branch *)
Definition side_shape : pshape :=
  mkShape [mkNode "scorer" true; mkNode "ranker" false; mkNode "fallback" true]
          [("ranker", "scorer"); ("fallback", "scorer")] (Some "ranker") [("recommender", "ranker")].

Lemma outputs_walk_misses_side_branch_l :
  on_output_path side_shape "scorer" = true /\ on_output_path side_shape "fallback" = false /\
  count_name "fallback" (map pc_name (shape_calls false PlanWrap 1 true 0 side_shape)) = 0 /\
  count_name "fallback" (map pc_name (shape_calls pt_iterates_all_nodes PlanWrap 1 true 0 side_shape)) = 1.
Proof. repeat split; vm_compute; reflexivity. Qed.
