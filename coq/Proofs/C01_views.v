(* C01 -- every view of a well-formed built dataset decodes to the same record list. *)
From Coq Require Import ZArith List Bool Arith Lia Sorting.Sorted Sorting.Permutation.
From LK Require Import Model.C01_dataset Proofs.C01_vocab Proofs.C01_sort Proofs.C01_rowptr Proofs.C01_refine1.
Import ListNotations.
Open Scope nat_scope.

Record wfd (d : dataset) : Prop := {
  w_sorted : StronglySorted rle (d_tbl d);
  w_valid : Forall (valid (d_users d) (d_items d)) (d_tbl d);
  w_nu : NoDup (d_users d);
  w_ni : NoDup (d_items d);
  w_ptrs : d_ptrs d = row_ptrs (length (d_users d)) (d_tbl d)
}.

Definition dec_with {V} (d : dataset) (g : rec -> V) (r : rec) : id * id * V :=
  (term (d_users d) (r_u r), term (d_items d) (r_i r), g r).

Lemma slice_map {A B} (g : A -> B) l a b : slice (map g l) a b = map g (slice l a b).
Proof. unfold slice. rewrite skipn_map, firstn_map. reflexivity. Qed.
Lemma combine_map2 {A B C} (g : A -> B) (h : A -> C) l : combine (map g l) (map h l) = map (fun x => (g x, h x)) l.
Proof. induction l as [|x r IH]; cbn; [reflexivity|rewrite IH; reflexivity]. Qed.
Lemma flat_map_map {A B C} (F : B -> C) (h : A -> list B) l : flat_map (fun n => map F (h n)) l = map F (flat_map h l).
Proof. induction l as [|x r IH]; cbn; [reflexivity|rewrite IH, map_app; reflexivity]. Qed.
Lemma flat_map_ext_in' {A B} (f g : A -> list B) l : (forall x, In x l -> f x = g x) -> flat_map f l = flat_map g l.
Proof.
  induction l as [|x r IH]; intro H; cbn; [reflexivity|]. rewrite (H x (or_introl eq_refl)), IH; [reflexivity|].
  intros y Hy. apply H. right. exact Hy.
Qed.
Lemma flat_map_of_map {A B C} (f : B -> list C) (h : A -> B) l : flat_map f (map h l) = flat_map (fun x => f (h x)) l.
Proof. induction l as [|x r IH]; cbn; [reflexivity|rewrite IH; reflexivity]. Qed.
Lemma flat_map_nth {B} (g : Z -> list B) (l : list Z) :
  flat_map g l = flat_map (fun n => g (nth n l 0%Z)) (seq 0 (length l)).
Proof.
  induction l as [|x r IH]; [reflexivity|]. cbn [length seq flat_map nth]. f_equal.
  rewrite IH, <- seq_shift, flat_map_of_map. reflexivity.
Qed.

Section Partition.
  Context {A : Type} (k : A -> nat).
  Lemma filter_filter (f g : A -> bool) l : filter f (filter g l) = filter (fun x => g x && f x) l.
  Proof.
    induction l as [|x t IH]; [reflexivity|]. cbn [filter]. destruct (g x); cbn [filter andb]; [destruct (f x); rewrite IH; reflexivity|exact IH].
  Qed.
  Lemma partition_below N l : StronglySorted (by_key k) l ->
    flat_map (fun n => filter (fun x => Nat.eqb (k x) n) l) (seq 0 N) = filter (fun x => k x <? N) l.
  Proof.
    intro H. induction N as [|N IH].
    - cbn. symmetry. induction l as [|x t IHt]; [reflexivity|]. cbn [filter]. inversion H; subst.
      replace (k x <? 0) with false by reflexivity. apply IHt. assumption.
    - rewrite seq_S, flat_map_app, IH. cbn [flat_map plus]. rewrite app_nil_r.
      pose proof (sorted_split k N (filter (fun x => k x <? S N) l) (filter_sorted k _ l H)) as E.
      rewrite !filter_filter in E. rewrite E at 1. f_equal; apply filter_ext; intro x;
        destruct (Nat.ltb_spec (k x) (S N)); destruct (Nat.ltb_spec (k x) N); destruct (Nat.eqb_spec (k x) N); cbn [andb negb]; try reflexivity; lia.
  Qed.
  Lemma partition_all N l : StronglySorted (by_key k) l -> (forall x, In x l -> k x < N) ->
    flat_map (fun n => filter (fun x => Nat.eqb (k x) n) l) (seq 0 N) = l.
  Proof.
    intros H Hb. rewrite partition_below by exact H. clear H. induction l as [|x t IH]; [reflexivity|]. cbn [filter].
    replace (k x <? N) with true by (symmetry; apply Nat.ltb_lt; apply Hb; left; reflexivity).
    f_equal. apply IH. intros y Hy. apply Hb. right. exact Hy.
  Qed.
End Partition.

Section Views.
  Variable d : dataset.
  Hypothesis W : wfd d.

  Let N := length (d_users d).

  Lemma tbl_rows_lt : forall r, In r (d_tbl d) -> r_u r < N.
  Proof. intros r Hr. pose proof (w_valid d W) as V. rewrite Forall_forall in V. apply V. exact Hr. Qed.

  Lemma ptr_slice n : n < N ->
    slice (d_tbl d) (nth n (d_ptrs d) 0) (nth (S n) (d_ptrs d) 0) = filter (fun x => Nat.eqb (r_u x) n) (d_tbl d).
  Proof.
    intro Hn. rewrite (w_ptrs d W).
    destruct (row_ptrs_correct_l N (d_tbl d) (sorted_by_user _ (w_sorted d W)) tbl_rows_lt) as [_ [_ [_ [_ S]]]].
    apply S. exact Hn.
  Qed.

  (* concatenating the rows gives back the table *)
  Lemma rows_concat {V} (g : rec -> V) :
    flat_map (fun n => map (fun r => (term (d_users d) n, term (d_items d) (r_i r), g r))
                           (filter (fun x => Nat.eqb (r_u x) n) (d_tbl d))) (seq 0 N)
    = map (dec_with d g) (d_tbl d).
  Proof.
    transitivity (flat_map (fun n => map (dec_with d g) (filter (fun x => Nat.eqb (r_u x) n) (d_tbl d))) (seq 0 N)).
    - apply flat_map_ext_in'. intros n _. apply map_ext_in. intros r Hr. apply filter_In in Hr. destruct Hr as [_ E].
      apply Nat.eqb_eq in E. unfold dec_with. rewrite E. reflexivity.
    - rewrite flat_map_map. f_equal. apply partition_all; [apply sorted_by_user, (w_sorted d W)|apply tbl_rows_lt].
  Qed.

  Lemma den_csr_table {V} (g : rec -> V) :
    den_csr d (d_ptrs d) (map r_i (d_tbl d)) (map g (d_tbl d)) = map (dec_with d g) (d_tbl d).
  Proof.
    unfold den_csr. fold N. rewrite <- rows_concat. apply flat_map_ext_in'. intros n Hn. apply in_seq in Hn.
    rewrite combine_map2, slice_map. rewrite ptr_slice by lia. rewrite map_map. reflexivity.
  Qed.

  Lemma den_coo_table {V} (g : rec -> V) :
    den_coo d (map r_u (d_tbl d)) (map r_i (d_tbl d)) (map g (d_tbl d)) = map (dec_with d g) (d_tbl d).
  Proof.
    unfold den_coo. rewrite combine_map2. rewrite (combine_map2 (fun x => (r_u x, r_i x)) g). rewrite map_map. reflexivity.
  Qed.

  Lemma den_table_table {V} (g : rec -> V) :
    den_table d (map (fun r => (r_u r, r_i r, g r)) (d_tbl d)) = map (dec_with d g) (d_tbl d).
  Proof. unfold den_table. rewrite map_map. reflexivity. Qed.

  Lemma row_of_filter n : n < N ->
    row_of d n = map (fun r => (r_i r, r_a r)) (filter (fun x => Nat.eqb (r_u x) n) (d_tbl d)).
  Proof. intro Hn. unfold row_of. rewrite ptr_slice by exact Hn. reflexivity. Qed.

  Lemma den_user_rows_table : den_user_rows d = map (dec_with d r_a) (d_tbl d).
  Proof.
    unfold den_user_rows. rewrite flat_map_nth. fold N. rewrite <- rows_concat.
    apply flat_map_ext_in'. intros n Hn. apply in_seq in Hn. unfold view_user_row.
    rewrite (index_of_nth _ (w_nu d W) n) by (unfold N in Hn; cbn in Hn; apply Hn). rewrite row_of_filter by lia. rewrite map_map. reflexivity.
  Qed.

  Lemma view_user_row_known u : In u (d_users d) <-> exists row, view_user_row d u = Some row.
  Proof.
    unfold view_user_row. split.
    - intro H. destruct (index_of_In _ _ H) as [n E]. rewrite E. eauto.
    - intros [row E]. destruct (index_of u (d_users d)) as [n|] eqn:En; [|discriminate].
      destruct (index_of_Some _ _ _ En) as [L Nn]. rewrite <- Nn. apply nth_In. exact L.
  Qed.
End Views.
