(* C12 -- arrays of any memory layout: index positions, memory positions and axis permutations.
   An array A = M.transpose(p) of a C-ordered block M travels as the elements of M; rebuilding it from that
   block with the inverse map gives back the elements of A (from_to_memory). *)
From Coq Require Import ZArith List Bool Arith Lia.
From LK Require Import Model.C12_shapes Gen.C12_shape Model.C12_pool.
Import ListNotations.

Definition valid (idx s : list nat) : Prop := Forall2 lt idx s.

Lemma prod_cons d s : prod (d :: s) = d * prod s.
Proof. reflexivity. Qed.

Lemma valid_length idx s : valid idx s -> List.length idx = List.length s.
Proof. induction 1; simpl; congruence. Qed.

Lemma valid_nth idx s : valid idx s -> forall i, i < List.length s -> nth i idx 0 < nth i s 0.
Proof.
  induction 1 as [|a b l l' Hab Hl IH]; intros i Hi; simpl in Hi; [lia|].
  destruct i as [|i]; simpl; [exact Hab|]. apply IH. lia.
Qed.

Lemma unravel_length s : forall k, List.length (unravel s k) = List.length s.
Proof. induction s as [|d s IH]; intro k; cbn [unravel List.length]; [reflexivity|]. rewrite IH. reflexivity. Qed.

Lemma unravel_valid : forall s k, k < prod s -> valid (unravel s k) s.
Proof.
  induction s as [|d s IH]; intros k H; cbn [unravel]; [constructor|].
  rewrite prod_cons in H.
  assert (P0 : prod s <> 0) by (intro E; rewrite E in H; lia).
  constructor.
  - apply Nat.div_lt_upper_bound; [exact P0|]. rewrite Nat.mul_comm. exact H.
  - apply IH. apply Nat.mod_upper_bound. exact P0.
Qed.

Lemma ravel_lt idx s : valid idx s -> ravel s idx < prod s.
Proof.
  induction 1 as [|i d idx s Hid Hv IH]; [cbn; lia|].
  cbn [ravel]. rewrite prod_cons. nia.
Qed.

Lemma ravel_unravel : forall s k, k < prod s -> ravel s (unravel s k) = k.
Proof.
  induction s as [|d s IH]; intros k H.
  - cbn in *. lia.
  - cbn [unravel ravel]. rewrite prod_cons in H.
    assert (P0 : prod s <> 0) by (intro E; rewrite E in H; lia).
    rewrite IH by (apply Nat.mod_upper_bound; exact P0).
    pose proof (Nat.div_mod k (prod s) P0) as E. rewrite (Nat.mul_comm (k / prod s)). lia.
Qed.

Lemma unravel_ravel idx s : valid idx s -> unravel s (ravel s idx) = idx.
Proof.
  induction 1 as [|i d idx s Hid Hv IH]; [reflexivity|].
  cbn [ravel unravel].
  pose proof (ravel_lt _ _ Hv) as Hr.
  assert (P0 : prod s <> 0) by lia.
  rewrite Nat.div_add_l by exact P0. rewrite (Nat.div_small _ _ Hr), Nat.add_0_r.
  rewrite Nat.add_comm, Nat.mod_add by exact P0. rewrite (Nat.mod_small _ _ Hr), IH. reflexivity.
Qed.

(* ---- axis permutations ---- *)

Definition perm_ok (n : nat) (p q : list nat) : Prop :=
  List.length p = n /\ List.length q = n /\
  forall m, m < n -> nth m p 0 < n /\ nth m q 0 < n /\ nth (nth m q 0) p 0 = m /\ nth (nth m p 0) q 0 = m.

Lemma perm_okb_ok n p q : perm_okb n p q = true -> perm_ok n p q.
Proof.
  unfold perm_okb, perm_ok. intro H.
  apply andb_true_iff in H. destruct H as [H H3]. apply andb_true_iff in H. destruct H as [H1 H2].
  apply Nat.eqb_eq in H1. apply Nat.eqb_eq in H2. split; [exact H1|]. split; [exact H2|].
  intros m Hm. rewrite forallb_forall in H3. specialize (H3 m).
  assert (Hin : In m (seq 0 n)) by (apply in_seq; lia). specialize (H3 Hin).
  apply andb_true_iff in H3. destruct H3 as [H3 Hd]. apply andb_true_iff in H3. destruct H3 as [H3 Hc].
  apply andb_true_iff in H3. destruct H3 as [Ha Hb].
  apply Nat.ltb_lt in Ha. apply Nat.ltb_lt in Hb. apply Nat.eqb_eq in Hc. apply Nat.eqb_eq in Hd. auto.
Qed.

Lemma perm_ok_sym n p q : perm_ok n p q -> perm_ok n q p.
Proof.
  intros [Hp [Hq H]]. split; [exact Hq|]. split; [exact Hp|].
  intros m Hm. destruct (H m Hm) as [A [B [C D]]]. auto.
Qed.

Lemma perm_ok_bound n p q : perm_ok n p q -> Forall (fun i => i < n) p.
Proof.
  intros [Hp [Hq H]]. apply Forall_forall. intros x Hx.
  destruct (In_nth p x 0 Hx) as [m [Hm E]]. rewrite Hp in Hm. destruct (H m Hm) as [A _]. rewrite <- E. exact A.
Qed.

Lemma gather_length p l : List.length (gather p l) = List.length p.
Proof. unfold gather. apply map_length. Qed.

Lemma nth_gather p l m : m < List.length p -> nth m (gather p l) 0 = nth (nth m p 0) l 0.
Proof.
  intro H. unfold gather.
  rewrite (nth_indep (map (fun i => nth i l 0) p) 0 (nth 0 l 0)) by (rewrite map_length; exact H).
  exact (map_nth (fun i => nth i l 0) p 0 m).
Qed.

Lemma gather_gather n p q l : perm_ok n p q -> List.length l = n -> gather p (gather q l) = l.
Proof.
  intros [Hp [Hq H]] Hl.
  apply (nth_ext _ _ 0 0).
  - rewrite gather_length. congruence.
  - intros m Hm. rewrite gather_length, Hp in Hm.
    destruct (H m Hm) as [A [B [C D]]].
    rewrite nth_gather by (rewrite Hp; exact Hm).
    rewrite nth_gather by (rewrite Hq; exact A).
    rewrite D. reflexivity.
Qed.

Lemma gather_valid p idx s : valid idx s -> Forall (fun i => i < List.length s) p -> valid (gather p idx) (gather p s).
Proof.
  intros Hv Hp. induction Hp as [|i p Hi Hp IH]; cbn [gather map]; [constructor|].
  constructor; [apply valid_nth; assumption|exact IH].
Qed.

(* ---- memory order and back ---- *)

Lemma tau_lt p q s j : perm_ok (List.length s) p q -> j < prod s -> tau q s j < prod (mem_shape q s).
Proof.
  intros Hpq Hj. unfold tau, mem_shape. apply ravel_lt.
  apply gather_valid; [apply unravel_valid; exact Hj|].
  exact (perm_ok_bound _ _ _ (perm_ok_sym _ _ _ Hpq)).
Qed.

Lemma gather_mem_shape p q s : perm_ok (List.length s) p q -> gather p (mem_shape q s) = s.
Proof. intro Hpq. unfold mem_shape. apply (gather_gather (List.length s)); [exact Hpq|reflexivity]. Qed.

Lemma sigma_lt p q s k : perm_ok (List.length s) p q -> k < prod (mem_shape q s) -> sigma p q s k < prod s.
Proof.
  intros Hpq Hk. unfold sigma. apply ravel_lt.
  pose proof (unravel_valid _ _ Hk) as Hv.
  assert (Hb : Forall (fun i => i < List.length (mem_shape q s)) p).
  { unfold mem_shape. rewrite gather_length. destruct Hpq as [Hp [Hq H]]. rewrite Hq.
    exact (perm_ok_bound _ _ _ (conj Hp (conj Hq H))). }
  pose proof (gather_valid p _ _ Hv Hb) as G. rewrite (gather_mem_shape _ _ _ Hpq) in G. exact G.
Qed.

Lemma sigma_tau p q s j : perm_ok (List.length s) p q -> j < prod s -> sigma p q s (tau q s j) = j.
Proof.
  intros Hpq Hj. unfold sigma, tau.
  pose proof (unravel_valid _ _ Hj) as Hv.
  assert (Hb : Forall (fun i => i < List.length s) q) by exact (perm_ok_bound _ _ _ (perm_ok_sym _ _ _ Hpq)).
  pose proof (gather_valid q _ _ Hv Hb) as G.
  unfold mem_shape. rewrite (unravel_ravel _ _ G).
  rewrite (gather_gather (List.length s)) by (try exact Hpq; apply unravel_length).
  apply ravel_unravel. exact Hj.
Qed.

Lemma nth_map_seq {B} (g : nat -> B) n i d : i < n -> nth i (map g (seq 0 n)) d = g i.
Proof.
  intro H. rewrite (nth_indep (map g (seq 0 n)) d (g 0)) by (rewrite map_length, seq_length; exact H).
  rewrite (map_nth g (seq 0 n) 0 i). rewrite seq_nth by exact H. reflexivity.
Qed.

Lemma map_nth_seq_id {B} (l : list B) d : map (fun j => nth j l d) (seq 0 (List.length l)) = l.
Proof.
  apply (nth_ext _ _ d d).
  - rewrite map_length, seq_length. reflexivity.
  - intros i Hi. rewrite map_length, seq_length in Hi. exact (nth_map_seq (fun j => nth j l d) (List.length l) i d Hi).
Qed.

Lemma from_to_memory p q s (elems : list (list nat)) :
  perm_ok (List.length s) p q -> List.length elems = prod s -> from_memory q s (to_memory p q s elems) = elems.
Proof.
  intros Hpq Hl. unfold from_memory, to_memory.
  transitivity (map (fun j => nth j elems []) (seq 0 (prod s))); [|rewrite <- Hl; apply map_nth_seq_id].
  apply map_ext_in. intros j Hj. apply in_seq in Hj.
  rewrite nth_map_seq by (apply (tau_lt p); [exact Hpq|lia]).
  rewrite sigma_tau by (try exact Hpq; lia). reflexivity.
Qed.

Lemma to_memory_length p q s (elems : list (list nat)) : List.length (to_memory p q s elems) = prod (mem_shape q s).
Proof. unfold to_memory. rewrite map_length, seq_length. reflexivity. Qed.

Lemma to_memory_items p q s isz (elems : list (list nat)) :
  perm_ok (List.length s) p q -> List.length elems = prod s ->
  Forall (fun e => List.length e = isz) elems -> Forall (fun e => List.length e = isz) (to_memory p q s elems).
Proof.
  intros Hpq Hl He. unfold to_memory. apply Forall_forall. intros x Hx.
  apply in_map_iff in Hx. destruct Hx as [k [E Hk]]. apply in_seq in Hk. subst x.
  rewrite Forall_forall in He. apply He. apply nth_In. rewrite Hl. apply sigma_lt; [exact Hpq|lia].
Qed.

(* ---- a flat buffer cut into elements ---- *)

Lemma firstn_app_len {B} (e r : list B) : firstn (List.length e) (e ++ r) = e.
Proof. rewrite firstn_app, Nat.sub_diag, firstn_all. cbn [firstn]. apply app_nil_r. Qed.
Lemma skipn_app_len {B} (e r : list B) : skipn (List.length e) (e ++ r) = r.
Proof. rewrite skipn_app, Nat.sub_diag, skipn_all. reflexivity. Qed.

Lemma chunk_concat isz (es : list (list nat)) :
  Forall (fun e => List.length e = isz) es -> chunk isz (List.length es) (List.concat es) = es.
Proof.
  induction 1 as [|e es He Hes IH]; [reflexivity|].
  cbn [List.length chunk List.concat]. f_equal.
  - rewrite <- He. apply firstn_app_len.
  - replace (skipn isz (e ++ List.concat es)) with (List.concat es) by (rewrite <- He; symmetry; apply skipn_app_len).
    exact IH.
Qed.

Lemma forallb_lengths isz (es : list (list nat)) :
  forallb (fun e => Nat.eqb (List.length e) isz) es = true -> Forall (fun e => List.length e = isz) es.
Proof.
  intro H. apply Forall_forall. intros x Hx. rewrite forallb_forall in H. apply Nat.eqb_eq. exact (H x Hx).
Qed.

(* an array that travels out of band as the block of its memory comes back element for element *)
Lemma array_out_of_band p q isz s elems :
  arr_okb (OutOfBand p q) isz s elems = true ->
  from_memory q s (chunk isz (prod (mem_shape q s)) (List.concat (to_memory p q s elems))) = elems.
Proof.
  unfold arr_okb. intro H.
  apply andb_true_iff in H. destruct H as [H Hp]. apply andb_true_iff in H. destruct H as [Hl He].
  apply Nat.eqb_eq in Hl. apply forallb_lengths in He. apply perm_okb_ok in Hp.
  rewrite <- (to_memory_length p q s elems).
  rewrite chunk_concat by (apply to_memory_items; assumption).
  apply from_to_memory; assumption.
Qed.

(* an array that travels in band as a C-ordered copy *)
Lemma array_in_band tr isz s elems :
  arr_okb tr isz s elems = true -> chunk isz (prod s) (List.concat elems) = elems.
Proof.
  unfold arr_okb. intro H.
  apply andb_true_iff in H. destruct H as [H _]. apply andb_true_iff in H. destruct H as [Hl He].
  apply Nat.eqb_eq in Hl. apply forallb_lengths in He. rewrite <- Hl. apply chunk_concat. exact He.
Qed.
