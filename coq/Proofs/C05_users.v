(* C05 -- user-based splitting: _make_split holds out exactly what the hold-out rule selects for each
   test user, removes exactly those rows from the training data (anti-join), leaves every other
   user's rows in training; cross-folding puts every user on the test side of exactly one fold. *)
From Coq Require Import ZArith List Bool Lia Permutation Arith PeanoNat.
From LK Require Import Lib.SplitLib Gen.C05_holdout Model.C05_split Proofs.C05_records Proofs.C05_holdout.
Import ListNotations.

(* ---- list facts ---------------------------------------------------------------------------------------- *)
Lemma inj_on_list {A B} (g : A -> B) l x y : NoDup (map g l) -> In x l -> In y l -> g x = g y -> x = y.
Proof.
  induction l as [|a l IH]; intros N Hx Hy E; [destruct Hx|]. cbn [map] in N. inversion N as [|? ? Hn Hd]; subst.
  destruct Hx as [Ex|Hx], Hy as [Ey|Hy]; subst.
  - reflexivity.
  - exfalso. apply Hn. rewrite E. apply in_map. exact Hy.
  - exfalso. apply Hn. rewrite <- E. apply in_map. exact Hx.
  - apply IH; assumption.
Qed.
Lemma NoDup_map_inj_in {A B} (f : A -> B) l :
  (forall x y, In x l -> In y l -> f x = f y -> x = y) -> NoDup l -> NoDup (map f l).
Proof.
  induction l as [|a l IH]; intros I N; [constructor|]. inversion N as [|? ? Hn Hd]; subst. cbn [map]. constructor.
  - intro H. apply in_map_iff in H. destruct H as [y [E Hy]]. apply Hn.
    rewrite (I a y (or_introl eq_refl) (or_intror Hy) (eq_sym E)). exact Hy.
  - apply IH; [|exact Hd]. intros x y Hx Hy. apply I; right; assumption.
Qed.
Lemma NoDup_app_intro {A} (a b : list A) : NoDup a -> NoDup b -> (forall x, In x a -> In x b -> False) -> NoDup (a ++ b).
Proof.
  induction a as [|x a IH]; intros Na Nb D; [exact Nb|]. inversion Na as [|? ? Hn Hd]; subst. cbn [app]. constructor.
  - intro H. apply in_app_or in H. destruct H as [H|H]; [contradiction|]. exact (D x (or_introl eq_refl) H).
  - apply IH; [exact Hd|exact Nb|]. intros y Hy. apply D. right. exact Hy.
Qed.
Lemma NoDup_gather {A} (d : A) l idx : NoDup l -> valid_idx (length l) idx -> NoDup (gather d l idx).
Proof.
  intros N [Ni Lt]. unfold gather. apply NoDup_map_inj_in; [|exact Ni].
  intros x y Hx Hy E. apply (proj1 (NoDup_nth l d) N); auto.
Qed.
Lemma mem_pair_true p l : mem_pair p l = true <-> In p l.
Proof.
  unfold mem_pair. rewrite existsb_exists. destruct p as [a b]. split.
  - intros [[c e] [H E]]. cbn [fst snd] in E. apply andb_true_iff in E. destruct E as [E1 E2].
    apply Z.eqb_eq in E1. apply Z.eqb_eq in E2. subst. exact H.
  - intro H. exists (a, b). split; [exact H|]. cbn [fst snd]. rewrite !Z.eqb_refl. reflexivity.
Qed.
Lemma NoDup_recs_of_pairs (recs : list rec) : NoDup (map pair_of recs) -> NoDup recs.
Proof. apply NoDup_map_inv. Qed.

(* ---- user rows -------------------------------------------------------------------------------------------- *)
Lemma user_row_in recs u r : In r (user_row recs u) <-> In r recs /\ ru r = u.
Proof. unfold user_row. rewrite filter_In, Z.eqb_eq. reflexivity. Qed.

(* g consists of distinct rows of user u *)
Definition sel_of (recs : list rec) (u : Z) (g : list rec) : Prop :=
  exists idx, valid_idx (length (user_row recs u)) idx /\ g = gather dflt (user_row recs u) idx.
Definition tests_sel (recs : list rec) (us : list Z) (t : list (Z * list rec)) : Prop :=
  Forall2 (fun u ug => fst ug = u /\ sel_of recs u (snd ug)) us t.

Lemma sel_in recs u g r : sel_of recs u g -> In r g -> In r recs /\ ru r = u.
Proof.
  intros [idx [[_ Lt] E]] H. subst g. apply user_row_in. apply (gather_in dflt _ idx r H). exact Lt.
Qed.
Lemma sel_nodup recs u g : NoDup recs -> sel_of recs u g -> NoDup g.
Proof.
  intros N [idx [V E]]. subst g. apply NoDup_gather; [|exact V]. unfold user_row. apply NoDup_filter. exact N.
Qed.

Lemma tests_flat recs us t : NoDup recs -> NoDup us -> tests_sel recs us t ->
  NoDup (concat (map snd t)) /\ (forall r, In r (concat (map snd t)) -> In r recs /\ In (ru r) us) /\ map fst t = us.
Proof.
  intros N Nu H. induction H as [|u ug us t [E S] H IH]; [split; [constructor|split; [intros r []|reflexivity]]|].
  inversion Nu as [|? ? Hn Hd]; subst. destruct (IH Hd) as [N1 [I1 K1]]. cbn [map concat]. split; [|split].
  - apply NoDup_app_intro; [apply (sel_nodup recs (fst ug)); assumption|exact N1|].
    intros r Hr Hr'. apply (sel_in recs (fst ug) _ r S) in Hr. destruct Hr as [_ Eu]. apply I1 in Hr'. destruct Hr' as [_ Hu].
    apply Hn. rewrite <- Eu. exact Hu.
  - intros r Hr. apply in_app_or in Hr. destruct Hr as [Hr|Hr].
    + apply (sel_in recs (fst ug) _ r S) in Hr. destruct Hr as [Hr Eu]. split; [exact Hr|left; symmetry; exact Eu].
    + apply I1 in Hr. destruct Hr as [Hr Hu]. split; [exact Hr|right; exact Hu].
  - rewrite K1. reflexivity.
Qed.

(* ---- the anti-join removes exactly the test rows ------------------------------------------------------------- *)
Lemma anti_join_partition recs T : NoDup (map pair_of recs) -> NoDup T -> (forall r, In r T -> In r recs) ->
  Permutation (anti_join recs (map pair_of T) ++ T) recs.
Proof.
  intros Np Nt Sub. assert (NoDup recs) as N by (apply NoDup_recs_of_pairs; exact Np).
  apply NoDup_Permutation; [|exact N|].
  - apply NoDup_app_intro; [unfold anti_join; apply NoDup_filter; exact N|exact Nt|].
    intros r Hr Ht. unfold anti_join in Hr. apply filter_In in Hr. destruct Hr as [_ M]. apply negb_true_iff in M.
    assert (mem_pair (pair_of r) (map pair_of T) = true) as M' by (apply mem_pair_true; apply in_map; exact Ht). congruence.
  - intro r. split.
    + intro H. apply in_app_or in H. destruct H as [H|H]; [unfold anti_join in H; apply filter_In in H; tauto|auto].
    + intro H. apply in_or_app. destruct (mem_pair (pair_of r) (map pair_of T)) eqn:M.
      * right. apply mem_pair_true in M. apply in_map_iff in M. destruct M as [r' [E Hr']].
        rewrite <- (inj_on_list pair_of recs r' r Np (Sub r' Hr') H E). exact Hr'.
      * left. unfold anti_join. apply filter_In. split; [exact H|]. rewrite M. reflexivity.
Qed.
Lemma anti_join_keeps recs T r : In r recs -> (forall r', In r' T -> ru r' <> ru r) -> In r (anti_join recs (map pair_of T)).
Proof.
  intros H D. unfold anti_join. apply filter_In. split; [exact H|]. apply negb_true_iff.
  destruct (mem_pair (pair_of r) (map pair_of T)) eqn:M; [|reflexivity]. apply mem_pair_true in M.
  apply in_map_iff in M. destruct M as [r' [E Hr']]. exfalso. apply (D r' Hr'). unfold pair_of in E. congruence.
Qed.

Section Users.
Context {F : Type} (rm : Z -> F -> option Z).

(* what is assumed about the libraries for one hold-out call: the contract at the actual arguments *)
Definition hdraw_ok (h : holdout F) (row : list rec) (d : hdraw) : Prop :=
  let len := Z.of_nat (length row) in
  match h with
  | HSampleN n => choice_ok_at (np_choice (fst d)) len n
  | HSampleFrac f => forall n, rm len f = Some n -> choice_ok_at (np_choice (fst d)) len n
  | HLastN _ fld | HLastFrac _ fld => forall c, col_of fld row = Some c -> argsort_ok (fun _ => snd d) c
  end.

Lemma col_of_length fld row c : col_of fld row = Some c -> length c = length row.
Proof.
  destruct row as [|r0 row]; [discriminate|].
  destruct fld; cbn [col_of]; intro E; inversion E; subst; cbn [length]; rewrite ?map_length; reflexivity.
Qed.

Lemma slice_valid (o : list nat) n lo hi : Permutation o (seq 0 n) -> valid_idx n (py_slice o lo hi).
Proof.
  intro P. split.
  - apply py_slice_NoDup. apply (Permutation_NoDup (Permutation_sym P)). apply seq_NoDup.
  - intros p Hp. apply py_slice_sub in Hp. apply (Permutation_in _ P) in Hp. apply in_seq in Hp. lia.
Qed.

(* whatever the parameters, a hold-out that returns selects distinct existing rows *)
Lemma run_holdout_valid h row d idx : hdraw_ok h row d -> run_holdout rm h row d = HOk idx -> valid_idx (length row) idx.
Proof.
  intros C E. assert (valid_idx (length row) (all_idx (Z.of_nat (length row)))) as VA.
  { rewrite <- (Nat2Z.id (length row)) at 1. apply all_idx_valid. lia. }
  destruct h as [n|f|n fld|f fld]; cbn [run_holdout hdraw_ok] in *.
  - unfold SampleN_call in E. destruct (Z.of_nat (length row) <=? n)%Z; [inversion E; subst; exact VA|].
    unfold choice_ok_at in C. destruct (np_choice (fst d) (Z.of_nat (length row)) n); [|discriminate].
    inversion E; subst. destruct C as [_ [V _]]. rewrite Nat2Z.id in V. exact V.
  - unfold SampleFrac_call in E. destruct (rm (Z.of_nat (length row)) f) as [n|]; [|discriminate].
    specialize (C n eq_refl). unfold choice_ok_at in C. destruct (np_choice (fst d) (Z.of_nat (length row)) n); [|discriminate].
    inversion E; subst. destruct C as [_ [V _]]. rewrite Nat2Z.id in V. exact V.
  - unfold LastN_call in E. destruct (Z.of_nat (length row) <=? n)%Z; [inversion E; subst; exact VA|].
    destruct (col_of fld row) as [c|] eqn:Ec; [|discriminate]. inversion E; subst. destruct (C c eq_refl) as [P _].
    rewrite <- (col_of_length _ _ _ Ec). apply slice_valid. exact P.
  - unfold LastFrac_call in E. destruct (rm (Z.of_nat (length row)) f) as [n|]; [|discriminate].
    destruct (Z.of_nat (length row) <=? n)%Z; [inversion E; subst; exact VA|].
    destruct (col_of fld row) as [c|] eqn:Ec; [|discriminate]. inversion E; subst. destruct (C c eq_refl) as [P _].
    rewrite <- (col_of_length _ _ _ Ec). apply slice_valid. exact P.
Qed.

(* the row of a user without interactions (an empty list, which has no ordering field): the time-ordered
   rules with a non-negative size return without consulting the field and hold out nothing *)
Lemma run_holdout_empty_row_l (h : holdout F) d :
  match h with
  | HLastN n fld => (0 <= n)%Z -> run_holdout rm h [] d = HOk []
  | HLastFrac f fld => forall n, rm 0%Z f = Some n -> (0 <= n)%Z -> run_holdout rm h [] d = HOk []
  | _ => True
  end.
Proof.
  destruct h as [n|f|n fld|f fld]; cbn [run_holdout length Z.of_nat]; try exact I.
  - intro Hn. unfold LastN_call. destruct (Z.leb_spec 0 n) as [_|L]; [reflexivity|lia].
  - intros n R Hn. unfold LastFrac_call. rewrite R. destruct (Z.leb_spec 0 n) as [_|L]; [reflexivity|lia].
Qed.

(* exact counts and recency for each rule, on the generated bodies as instantiated by the model *)
Lemma run_holdout_exact_l (h : holdout F) row d : hdraw_ok h row d ->
  let len := Z.of_nat (length row) in
  match h with
  | HSampleN n => (0 <= n)%Z -> exists idx, run_holdout rm h row d = HOk idx /\ exact_count len n idx
  | HSampleFrac f => forall n, rm len f = Some n -> (0 <= n <= len)%Z ->
      exists idx, run_holdout rm h row d = HOk idx /\ exact_count len n idx
  | HLastN n fld => (0 <= n)%Z -> forall c, col_of fld row = Some c ->
      exists idx, run_holdout rm h row d = HOk idx /\ exact_count len n idx /\ most_recent c idx
  | HLastFrac f fld => forall n c, rm len f = Some n -> (0 <= n)%Z -> col_of fld row = Some c ->
      exists idx, run_holdout rm h row d = HOk idx /\ exact_count len n idx /\ most_recent c idx
  end.
Proof.
  intros C len. destruct h as [n|f|n fld|f fld]; cbn [run_holdout hdraw_ok] in *.
  - intro Hn. apply SampleN_exact; [exact Hn|unfold len; lia|exact C].
  - intros n R Hn. apply (SampleFrac_exact rm _ _ f len None n); [unfold len; lia|exact R|exact Hn|exact (C n R)].
  - intros Hn c Ec. rewrite Ec. apply LastN_exact; [exact Hn| |exact (C c Ec)].
    rewrite (col_of_length _ _ _ Ec). reflexivity.
  - intros n c R Hn Ec. rewrite Ec. apply (LastFrac_exact rm _ _ f len c n); [exact R|exact Hn| |exact (C c Ec)].
    rewrite (col_of_length _ _ _ Ec). reflexivity.
Qed.

(* ---- _make_split ------------------------------------------------------------------------------------------------- *)
Definition draws_ok (recs : list rec) (h : holdout F) (us : list Z) (ds : list hdraw) : Prop :=
  forall j, (j < length us)%nat -> hdraw_ok h (user_row recs (nth j us 0%Z)) (nth j ds no_draw).

Lemma nth_hd_tl {A} (d : A) (l : list A) j : nth (S j) l d = nth j (tl l) d.
Proof. destruct l as [|x l]; [destruct j; reflexivity|reflexivity]. Qed.
Lemma nth_0_hd {A} (d : A) (l : list A) : nth 0 l d = hd d l.
Proof. destruct l; reflexivity. Qed.

Lemma split_tests_spec recs h us ds t : split_tests rm recs h us ds = TOk t ->
  length t = length us /\
  forall j, (j < length us)%nat ->
    exists idx, run_holdout rm h (user_row recs (nth j us 0%Z)) (nth j ds no_draw) = HOk idx /\
                nth j t (0%Z, []) = (nth j us 0%Z, gather dflt (user_row recs (nth j us 0%Z)) idx).
Proof.
  revert ds t. induction us as [|u us IH]; intros ds t E; cbn [split_tests] in E.
  - inversion E; subst. split; [reflexivity|]. intros j Hj. cbn [length] in Hj. lia.
  - destruct (run_holdout rm h (user_row recs u) (hd no_draw ds)) as [idx|e] eqn:R; [|discriminate].
    destruct (split_tests rm recs h us (tl ds)) as [t'|e] eqn:St; [|discriminate]. inversion E; subst. clear E.
    destruct (IH _ _ St) as [L IHj]. split; [cbn [length]; rewrite L; reflexivity|].
    intros j Hj. destruct j as [|j].
    + exists idx. cbn [nth]. rewrite nth_0_hd. split; [exact R|reflexivity].
    + cbn [length] in Hj. destruct (IHj j ltac:(lia)) as [idx' [R' N']]. exists idx'. cbn [nth].
      rewrite nth_hd_tl. split; [exact R'|exact N'].
Qed.

Lemma split_tests_sel recs h us ds t : draws_ok recs h us ds -> split_tests rm recs h us ds = TOk t -> tests_sel recs us t.
Proof.
  revert ds t. induction us as [|u us IH]; intros ds t D E; cbn [split_tests] in E.
  - inversion E; subst. constructor.
  - destruct (run_holdout rm h (user_row recs u) (hd no_draw ds)) as [idx|e] eqn:R; [|discriminate].
    destruct (split_tests rm recs h us (tl ds)) as [t'|e] eqn:St; [|discriminate]. inversion E; subst. clear E.
    constructor.
    + split; [reflexivity|]. exists idx. split; [|reflexivity]. apply (run_holdout_valid h _ (hd no_draw ds)); [|exact R].
      specialize (D 0%nat ltac:(cbn [length]; lia)). cbn [nth] in D. rewrite nth_0_hd in D. exact D.
    + apply (IH (tl ds)); [|exact St]. intros j Hj. specialize (D (S j) ltac:(cbn [length]; lia)). cbn [nth] in D.
      rewrite nth_hd_tl in D. exact D.
Qed.

Lemma make_split_spec_l recs h (test_only : bool) us ds f :
  make_split rm recs h test_only us ds = inl (Some f) -> draws_ok recs h us ds ->
  test_keys f = us /\
  (forall j, (j < length us)%nat ->
     exists idx, run_holdout rm h (user_row recs (nth j us 0%Z)) (nth j ds no_draw) = HOk idx /\
                 nth j (f_test f) (0%Z, []) = (nth j us 0%Z, gather dflt (user_row recs (nth j us 0%Z)) idx)) /\
  (test_only = true -> f_train f = []) /\
  (NoDup (map pair_of recs) -> NoDup us ->
     (forall r, In r (test_recs f) -> In r recs /\ In (ru r) us) /\
     (test_only = false -> Permutation (f_train f ++ test_recs f) recs) /\
     (test_only = false -> forall r, In r recs -> ~ In (ru r) us -> In r (f_train f))).
Proof.
  unfold make_split. intros E D. destruct (split_tests rm recs h us ds) as [t|e] eqn:St; [|discriminate].
  inversion E; subst. clear E. cbn [f_train f_test test_keys test_recs].
  pose proof (split_tests_sel _ _ _ _ _ D St) as TS. destruct (split_tests_spec _ _ _ _ _ St) as [L J].
  assert (map fst t = us) as K.
  { clear - TS. induction TS as [|u ug us t [E _] _ IH]; [reflexivity|]. cbn [map]. rewrite E, IH. reflexivity. }
  split; [exact K|]. split; [exact J|]. split; [intro T; subst; reflexivity|].
  intros Np Nu. assert (NoDup recs) as N by (apply NoDup_recs_of_pairs; exact Np).
  destruct (tests_flat recs us t N Nu TS) as [NT [IT _]]. split; [exact IT|]. split.
  - intro T. subst test_only. destruct (0 <? length t)%nat eqn:Z0.
    + apply anti_join_partition; [exact Np|exact NT|]. intros r Hr. apply IT. exact Hr.
    + apply Nat.ltb_ge in Z0. destruct t; [|cbn [length] in Z0; lia]. cbn [map concat]. rewrite app_nil_r. apply Permutation_refl.
  - intros T r Hr Hu. subst test_only. destruct (0 <? length t)%nat; [|exact Hr].
    apply anti_join_keeps; [exact Hr|]. intros r' Hr' E. apply Hu. rewrite <- E. apply IT. exact Hr'.
Qed.

(* ---- folds of crossfold_users / sample_users -------------------------------------------------------------------------- *)
Definition dfold : fold := mkFold [] [].
Lemma collect_spec (l : list (option fold + err)) fs : collect l = Folds fs ->
  length fs = length l /\ forall j, (j < length l)%nat -> nth j l (inl None) = inl (Some (nth j fs dfold)).
Proof.
  revert fs. induction l as [|x l IH]; intros fs E; cbn [collect] in E.
  - inversion E; subst. split; [reflexivity|]. intros j Hj. cbn [length] in Hj. lia.
  - destruct x as [[f|]|e]; try discriminate. destruct (collect l) as [fs'|e] eqn:C; [|discriminate].
    inversion E; subst. clear E. destruct (IH _ eq_refl) as [L J]. split; [cbn [length]; rewrite L; reflexivity|].
    intros j Hj. destruct j as [|j]; [reflexivity|]. cbn [nth]. apply J. cbn [length] in Hj. lia.
Qed.
Lemma nth_map_seq' {A} (g : nat -> A) (d : A) m j : (j < m)%nat -> nth j (map g (seq 0 m)) d = g j.
Proof.
  intro H. rewrite (nth_indep _ d (g 0%nat)) by (rewrite map_length, seq_length; exact H).
  rewrite (map_nth g). rewrite seq_nth by exact H. reflexivity.
Qed.

Lemma split_sections_spec recs users h (test_only : bool) secs hds fs :
  split_sections rm recs users h test_only secs hds = Folds fs ->
  length fs = length secs /\
  forall j, (j < length secs)%nat ->
    make_split rm recs h test_only (gather 0%Z users (nth j secs [])) (nth j hds []) = inl (Some (nth j fs dfold)).
Proof.
  unfold split_sections. intro E. apply collect_spec in E. rewrite map_length, seq_length in E. destruct E as [L J].
  split; [exact L|]. intros j Hj. rewrite <- (J j Hj). symmetry.
  apply (nth_map_seq' (fun j => make_split rm recs h test_only (gather 0%Z users (nth j secs [])) (nth j hds []))). exact Hj.
Qed.

Definition sections_draws_ok recs users h (secs : list (list nat)) (hds : list (list hdraw)) : Prop :=
  forall j, (j < length secs)%nat -> draws_ok recs h (gather 0%Z users (nth j secs [])) (nth j hds []).

Lemma crossfold_users_once_l recs users k h (test_only : bool) perm hds folds :
  Permutation perm (seq 0 (length users)) -> (0 < k)%Z ->
  sections_draws_ok recs users h (array_split perm (Z.to_nat k)) hds ->
  crossfold_users rm recs users k h test_only perm hds = Folds folds ->
  length folds = Z.to_nat k /\
  Permutation (concat (map test_keys folds)) users /\
  (forall j, (j < Z.to_nat k)%nat ->
     length (test_keys (nth j folds dfold)) =
     (length users / Z.to_nat k + (if j <? length users mod Z.to_nat k then 1 else 0))%nat).
Proof.
  intros P Hk D E. unfold crossfold_users in E. assert ((k <=? 0)%Z = false) as T by (apply Z.leb_gt; exact Hk). rewrite T in E.
  set (kn := Z.to_nat k) in *. assert (0 < kn)%nat as Hkn by (unfold kn; lia).
  set (secs := array_split perm kn) in *.
  destruct (split_sections_spec _ _ _ _ _ _ _ E) as [L J].
  assert (length secs = kn) as LS by (apply array_split_length).
  assert (forall j, (j < kn)%nat -> test_keys (nth j folds dfold) = gather 0%Z users (nth j secs [])) as K.
  { intros j Hj. rewrite <- LS in Hj. pose proof (make_split_spec_l _ _ _ _ _ _ (J j Hj) (D j Hj)) as [K _]. exact K. }
  assert (length perm = length users) as LP by (rewrite (Permutation_length P), seq_length; reflexivity).
  split; [rewrite L; exact LS|]. split.
  - assert (map test_keys folds = map (gather 0%Z users) secs) as M.
    { apply (nth_ext _ _ [] []); [rewrite !map_length, L; reflexivity|].
      intros j Hj. rewrite map_length in Hj.
      rewrite (nth_indep _ [] (test_keys dfold)) by (rewrite map_length; exact Hj). rewrite (map_nth test_keys).
      rewrite (nth_indep _ [] (gather 0%Z users [])) by (rewrite map_length; lia). rewrite (map_nth (gather 0%Z users)).
      apply K. lia. }
    rewrite M, <- gather_concat. unfold secs. rewrite array_split_concat by exact Hkn.
    eapply Permutation_trans; [apply gather_perm; exact P|]. fold (positions users). rewrite gather_positions. apply Permutation_refl.
  - intros j Hj. rewrite (K j Hj), gather_length. unfold secs. rewrite array_split_sizes by assumption. rewrite LP. reflexivity.
Qed.

(* ---- every pair produced through split_sections (crossfold_users and all branches of sample_users) ------------------- *)
Lemma gather_users_nodup (users : list Z) sec : NoDup users -> valid_idx (length users) sec ->
  NoDup (gather 0%Z users sec) /\ forall u, In u (gather 0%Z users sec) -> In u users.
Proof.
  intros N V. split; [apply NoDup_gather; assumption|]. intros u Hu. apply (gather_in 0%Z users sec u Hu). exact (proj2 V).
Qed.

Lemma split_sections_pairs_l recs users h (eff : bool) secs hds fs :
  NoDup (map pair_of recs) -> NoDup users -> (forall s, In s secs -> valid_idx (length users) s) ->
  sections_draws_ok recs users h secs hds ->
  split_sections rm recs users h eff secs hds = Folds fs ->
  length fs = length secs /\
  forall j, (j < length secs)%nat ->
    let f := nth j fs dfold in
    let us := gather 0%Z users (nth j secs []) in
    test_keys f = us /\ NoDup us /\
    (forall i, (i < length us)%nat ->
       exists idx, run_holdout rm h (user_row recs (nth i us 0%Z)) (nth i (nth j hds []) no_draw) = HOk idx /\
                   nth i (f_test f) (0%Z, []) = (nth i us 0%Z, gather dflt (user_row recs (nth i us 0%Z)) idx)) /\
    (forall r, In r (test_recs f) -> In r recs /\ In (ru r) us) /\
    (eff = true -> f_train f = []) /\
    (eff = false ->
       Permutation (f_train f ++ test_recs f) recs /\
       (forall r, In r recs -> ~ In (ru r) us -> In r (f_train f)) /\
       (forall r1 r2, In r1 (f_train f) -> In r2 (test_recs f) -> pair_of r1 <> pair_of r2)).
Proof.
  intros Np N V D E. destruct (split_sections_spec _ _ _ _ _ _ _ E) as [L J]. split; [exact L|].
  intros j Hj f us. specialize (J j Hj). fold f in J. fold us in J.
  destruct (gather_users_nodup users (nth j secs []) N (V _ (nth_In secs [] Hj))) as [Nd Sub]. fold us in Nd.
  destruct (make_split_spec_l _ _ _ _ _ _ J (D j Hj)) as [K [X [T O]]]. destruct (O Np Nd) as [I [P U]].
  split; [exact K|]. split; [exact Nd|]. split; [exact X|]. split; [exact I|]. split; [exact T|].
  intro Ef. split; [exact (P Ef)|]. split; [exact (U Ef)|]. exact (partition_no_shared_pair _ _ _ (P Ef) Np).
Qed.

Lemma slices_valid (perm : list nat) n size reps : Permutation perm (seq 0 n) ->
  forall s, In s (slices perm size reps) -> valid_idx n s.
Proof.
  intros P s Hs. unfold slices in Hs. apply in_map_iff in Hs. destruct Hs as [i [E _]]. subst. apply slice_valid. exact P.
Qed.
Lemma all_some_in {A} (l : list (option A)) xs x : all_some l = Some xs -> In x xs -> In (Some x) l.
Proof.
  revert xs. induction l as [|o l IH]; intros xs E H; cbn [all_some] in E.
  - inversion E; subst. destruct H.
  - destruct o as [y|]; [|discriminate]. destruct (all_some l) as [ys|]; [|discriminate]. inversion E; subst.
    destruct H as [Ex|H]; [subst; left; reflexivity|right; exact (IH ys eq_refl H)].
Qed.

(* the sections of every branch select distinct existing users, given the rng contracts *)
Lemma user_sections_valid nu size repeats (disjoint : bool) draws secs :
  (disjoint = true -> repeats <> None -> Permutation (nth 0 draws []) (seq 0 nu)) ->
  ((disjoint = false \/ repeats = None) -> forall i, valid_idx nu (nth i draws [])) ->
  user_sections (Z.of_nat nu) size repeats disjoint draws = Some secs -> forall s, In s secs -> valid_idx nu s.
Proof.
  intros PD VD E s Hs. unfold user_sections in E. destruct repeats as [reps|].
  - destruct (disjoint && (Z.of_nat nu <=? reps * size)%Z) eqn:FB.
    + apply andb_true_iff in FB. destruct FB as [Dj _]. subst disjoint.
      destruct (reps <=? 0)%Z eqn:K0; [discriminate|]. apply Z.leb_gt in K0. inversion E; subst. clear E.
      apply (sections_valid (nth 0 draws []) nu (array_split (nth 0 draws []) (Z.to_nat reps))); [apply PD; [reflexivity|discriminate]| |exact Hs].
      apply array_split_concat. lia.
    + destruct disjoint.
      * inversion E; subst. clear E. apply (slices_valid (nth 0 draws []) nu size reps); [apply PD; [reflexivity|discriminate]|exact Hs].
      * apply (all_some_in _ _ s E) in Hs. apply in_map_iff in Hs. destruct Hs as [i [Ei _]].
        unfold np_choice in Ei. destruct ((0 <=? size) && (size <=? Z.of_nat nu))%Z; [|discriminate]. inversion Ei; subst.
        apply VD. left. reflexivity.
  - unfold np_choice in E. destruct ((0 <=? size) && (size <=? Z.of_nat nu))%Z; [|discriminate]. cbn [option_map] in E.
    inversion E; subst. destruct Hs as [Es|[]]. subst. apply VD. right. reflexivity.
Qed.

Lemma sample_users_sections recs users size repeats (disjoint test_only : bool) h draws hds fs :
  sample_users rm recs users size repeats disjoint test_only h draws hds = Folds fs ->
  exists secs, user_sections (Z.of_nat (length users)) size repeats disjoint draws = Some secs /\
    split_sections rm recs users h (user_test_only (Z.of_nat (length users)) size repeats disjoint test_only) secs hds = Folds fs.
Proof.
  unfold sample_users. intro E. destruct (user_sections (Z.of_nat (length users)) size repeats disjoint draws) as [secs|]; [|discriminate].
  exists secs. split; [reflexivity|exact E].
Qed.
Lemma user_test_only_cases nu size repeats (disjoint test_only : bool) :
  user_test_only nu size repeats disjoint test_only = test_only \/ user_test_only nu size repeats disjoint test_only = false.
Proof. unfold user_test_only. destruct repeats; [destruct (user_fallback _ _ _ _)|]; auto. Qed.
Lemma crossfold_users_sections recs users k h (test_only : bool) perm hds fs :
  crossfold_users rm recs users k h test_only perm hds = Folds fs ->
  (0 < k)%Z /\ split_sections rm recs users h test_only (array_split perm (Z.to_nat k)) hds = Folds fs.
Proof.
  unfold crossfold_users. destruct (k <=? 0)%Z eqn:K0; [discriminate|]. apply Z.leb_gt in K0. intro E. split; assumption.
Qed.
End Users.
