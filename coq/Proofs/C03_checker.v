(* C03 -- the Prop-level specification of a recommendation list and the proof that the boolean
   checker rec_ok_b decides it. *)
From Coq Require Import ZArith QArith List Bool Lia Lqa Sorted Permutation.
From LK Require Import Lib.QLib Lib.PyInt Lib.TopN Gen.C03_len Model.C03_pipeline.
Import ListNotations.
Open Scope Z_scope.

(* the property text, clause by clause *)
Definition rec_spec (cand : list Z) (scores : scored) (n : Z) (out : scored) : Prop :=
  (* only candidate items *)
  (forall i s, In (i, s) out -> In i cand) /\
  (* no duplicates *)
  NoDup (map fst out) /\
  (* no unscored items *)
  (forall i s, In (i, s) out -> s <> None) /\
  (* non-increasing score order *)
  StronglySorted (fun a b => skey b <= skey a)%Q out /\
  (* carrying the very scores the scoring model assigns to those items *)
  (forall i s, In (i, s) out -> In (i, s) scores) /\
  (* length min(n, number of scorable candidates); everything when n < 0 *)
  length out = want_len n (length (scorable cand scores)) /\
  (* omits no scorable candidate whose score is strictly higher than an included one *)
  (forall j t, In (j, Some t) scores -> In j cand -> ~ In j (map fst out) ->
     forall i s, In (i, Some s) out -> ~ (s < t)%Q).

Lemma memZ_In i l : memZ i l = true <-> In i l.
Proof.
  unfold memZ. rewrite existsb_exists. split.
  - intros [x [Hx E]]. apply Z.eqb_eq in E. subst. exact Hx.
  - intro H. exists i. split; [exact H|apply Z.eqb_refl].
Qed.
Lemma memZ_nIn i l : memZ i l = false <-> ~ In i l.
Proof. rewrite <- memZ_In. destruct (memZ i l); split; congruence. Qed.

Lemma nodupb_NoDup l : nodupb l = true <-> NoDup l.
Proof.
  induction l as [|x l IH]; simpl.
  - split; [constructor|reflexivity].
  - rewrite andb_true_iff, negb_true_iff, memZ_nIn, IH. split.
    + intros [A B]. constructor; assumption.
    + intro H. inversion H; subst. split; assumption.
Qed.

Lemma Qc_eqb_eq a b : Qc_eqb a b = true <-> a = b.
Proof.
  unfold Qc_eqb. rewrite andb_true_iff, Z.eqb_eq, Pos.eqb_eq. destruct a, b; simpl. split.
  - intros [-> ->]. reflexivity.
  - intro H. inversion H. auto.
Qed.
Lemma oq_eqb_eq a b : oq_eqb a b = true <-> a = b.
Proof.
  destruct a, b; simpl; try (split; congruence).
  rewrite Qc_eqb_eq. split; congruence.
Qed.
Lemma row_eqb_eq p r : row_eqb p r = true <-> p = r.
Proof.
  unfold row_eqb. rewrite andb_true_iff, Z.eqb_eq, oq_eqb_eq. destruct p, r; simpl. split.
  - intros [-> ->]. reflexivity.
  - intro H. inversion H. auto.
Qed.
Lemma mem_row_In p l : mem_row p l = true <-> In p l.
Proof.
  unfold mem_row. rewrite existsb_exists. split.
  - intros [x [Hx E]]. apply row_eqb_eq in E. subst. exact Hx.
  - intro H. exists p. split; [exact H|apply row_eqb_eq; reflexivity].
Qed.

Lemma nonincreasing_sorted l :
  nonincreasing_b l = true <-> StronglySorted (fun a b => skey b <= skey a)%Q l.
Proof.
  induction l as [|x l IH]; simpl.
  - split; [constructor|reflexivity].
  - rewrite andb_true_iff, IH, forallb_forall. split.
    + intros [A B]. constructor; [exact B|]. rewrite Forall_forall. intros y Hy.
      apply Qle_bool_iff. auto.
    + intro H. inversion H as [|? ? Hs Hf]; subst. split; [|exact Hs].
      rewrite Forall_forall in Hf. intros y Hy. apply Qle_bool_iff. auto.
Qed.

Lemma has_score_some i s : has_score (i, s) = true <-> s <> None.
Proof. unfold has_score; simpl. destruct s; split; congruence. Qed.

Lemma scorable_In cand scores j s :
  In (j, s) (scorable cand scores) <-> In (j, s) scores /\ In j cand /\ s <> None.
Proof.
  unfold scorable. rewrite filter_In. change (if has_score (j, s) then memZ (fst (j, s)) cand else false) with (has_score (j, s) && memZ (fst (j, s)) cand).
  rewrite andb_true_iff, memZ_In, has_score_some. simpl. tauto.
Qed.

Lemma in_map_fst (l : scored) i : In i (map fst l) <-> exists s, In (i, s) l.
Proof.
  rewrite in_map_iff. split.
  - intros [[a s] [E H]]. simpl in E. subst. eauto.
  - intros [s H]. exists (i, s). auto.
Qed.

Lemma rec_ok_sound_complete_l cand scores n out :
  rec_ok_b cand scores n out = true <-> rec_spec cand scores n out.
Proof.
  unfold rec_ok_b, rec_spec.
  rewrite !andb_true_iff, !forallb_forall, nodupb_NoDup, nonincreasing_sorted, Nat.eqb_eq.
  split.
  - intros [[[[[[H1 H2] H3] H4] H5] H6] H7]. repeat split; try assumption.
    + intros i s Hi. apply memZ_In. exact (H1 (i, s) Hi).
    + intros i s Hi. apply (has_score_some i s). exact (H3 (i, s) Hi).
    + intros i s Hi. apply mem_row_In. exact (H5 (i, s) Hi).
    + intros j t Hj Hc Hn i s Hi Hlt.
      assert (Hs : In (j, Some t) (scorable cand scores)) by (apply scorable_In; repeat split; [assumption..|discriminate]).
      specialize (H7 _ Hs). apply orb_true_iff in H7. destruct H7 as [H7|H7].
      * apply memZ_In in H7. contradiction.
      * rewrite forallb_forall in H7. specialize (H7 _ Hi). apply Qle_bool_iff in H7.
        unfold skey in H7; simpl in H7. lra.
  - intros (H1 & H2 & H3 & H4 & H5 & H6 & H7). repeat split; try assumption.
    + intros [i s] Hi. apply memZ_In. simpl. eauto.
    + intros [i s] Hi. apply has_score_some. exact (H3 i s Hi).
    + intros [i s] Hi. apply mem_row_In. eauto.
    + intros [j t] Hs. apply scorable_In in Hs. destruct Hs as (Hj & Hc & Hsome).
      destruct t as [t|]; [|congruence]. simpl.
      destruct (memZ j (map fst out)) eqn:E; [reflexivity|]. simpl.
      apply memZ_nIn in E. apply forallb_forall. intros [i s] Hi. apply Qle_bool_iff.
      destruct s as [s|]; [|exfalso; exact (H3 _ _ Hi eq_refl)].
      unfold skey; simpl. specialize (H7 j t Hj Hc E i s Hi). lra.
Qed.
