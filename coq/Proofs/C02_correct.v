(* C02 -- the memoising runner refines the memo-free evaluation [den] on ranked (acyclic) graphs:
   same value or same error for every request, and the execution log is exactly the set of
   components the memo-free evaluation executes.  Lazy inputs (Force) included. *)
From Coq Require Import ZArith List Bool Arith Lia.
From LK Require Import Model.C02_runner Proofs.C02_basic Proofs.C02_den.
Import ListNotations.

Lemma den_args_tr_incl d r : forall ps acc tr, incl tr (snd (den_args d r ps acc tr)).
Proof.
  induction ps as [|p ps IH]; intros acc tr; simpl; [apply incl_refl|].
  destruct (p_src p) as [src|].
  - destruct (p_lazy p); [apply IH|].
    destruct (d src (r && p_strict p)) as [dd t].
    assert (Hi : incl tr (tr ++ t)) by (apply incl_appl, incl_refl).
    destruct dd; simpl; try exact Hi;
      repeat (match goal with |- context [if ?b then _ else _] => destruct b end; simpl; try exact Hi);
      (eapply incl_tran; [exact Hi|apply IH]).
  - destruct (p_lazy p); [apply IH|]. simpl.
    repeat (match goal with |- context [if ?b then _ else _] => destruct b end; simpl; try apply incl_refl); apply IH.
Qed.

Lemma den_exec_tr_incl d ps r : forall p tr, incl tr (snd (den_exec d ps r p tr)).
Proof.
  induction p as [v|e|i k IH|i k IHk h IHh]; intros tr; simpl; try apply incl_refl.
  - destruct (nth_error ps i) as [q|]; [|apply incl_refl].
    destruct (negb (p_lazy q)); [apply incl_refl|].
    destruct (p_src q) as [src|]; [|apply IH].
    destruct (d src (r && p_strict q)) as [dd t].
    assert (Hi : incl tr (tr ++ t)) by (apply incl_appl, incl_refl).
    destruct dd; simpl; try exact Hi;
      (destruct (p_typed q && negb (p_compat q _)); simpl; [exact Hi|eapply incl_tran; [exact Hi|apply IH]]).
  - destruct (nth_error ps i) as [q|]; [|apply incl_refl].
    destruct (negb (p_lazy q)); [apply incl_refl|].
    destruct (p_src q) as [src|]; [|apply IHk].
    destruct (d src (r && p_strict q)) as [dd t].
    assert (Hi : incl tr (tr ++ t)) by (apply incl_appl, incl_refl).
    destruct dd; simpl; try (eapply incl_tran; [exact Hi|apply IHh]);
      (destruct (p_typed q && negb (p_compat q _)); simpl; (eapply incl_tran; [exact Hi|]); [apply IHh|apply IHk]).
Qed.

Ltac splits := repeat match goal with |- _ /\ _ => split end.

Section Correct.
Variable g : graph.
Variable inputs : list (name * val).
Variable rank : name -> nat.
Hypothesis Hrank : ranked g rank.
Variable F : nat.
Hypothesis HF : forall n, rank n < F.
(* the refinement is stated for bodies that do not catch the exceptions of their lazy inputs: a body
   that catches can tell a node that failed a moment ago ("previously failed") from one that fails now,
   which no memo-free evaluation can; what holds for catching bodies is in C02_basic (at most once,
   failed nodes are not retried, only reachable nodes run) *)
Hypothesis Hcf : catch_free g.
Local Notation D := (C02_den.D g inputs F).

Let D_fix' := D_fix g inputs rank Hrank F HF.
Let D_val_any' := D_val_any g inputs rank Hrank F HF Hcf.
Let D_val_from' := D_val_from g inputs rank Hrank F HF Hcf.
Let D_skip_true' := D_skip_true g inputs rank Hrank F HF Hcf.

Definition val_ok (v : option val) (d : dres * list name) (r : bool) : Prop :=
  fst d = DVal v \/ (fst d = DSkip /\ v = None /\ r = false).

Record Inv (s : st) : Prop := {
  i_val : forall n v, stat s n = Finished -> vals s n = Some v -> fst (D n false) = DVal v;
  i_skip : forall n, stat s n = Finished -> vals s n = None -> fst (D n false) = DSkip;
  i_nf : forall n e, stat s n <> Failed e;
  i_none : forall n, stat s n = Pending \/ stat s n = InProgress -> vals s n = None;
  i_tr : forall n c, stat s n = Finished -> In c (snd (D n false)) -> In c (log s)
}.
Definition P (s : st) (k : nat) : Prop := forall m, stat s m = InProgress -> k <= rank m.
Record frame (s s' : st) : Prop := {
  f_keep : forall m, stat s m <> Pending -> stat s' m = stat s m /\ vals s' m = vals s m;
  f_pend : forall m, stat s m = Pending -> stat s' m = Pending \/ stat s' m = Finished;
  f_log : forall c, In c (log s) -> In c (log s')
}.
Definition logsub (s s' : st) (tr : list name) : Prop := forall c, In c (log s') -> In c (log s) \/ In c tr.
Definition trsub (tr tr' : list name) (s' : st) : Prop := forall c, In c tr' -> In c tr \/ In c (log s').

Definition spec (rec : st -> name -> bool -> st * result) (bound : nat) : Prop :=
  forall s n r s' res, Inv s -> P s (S (rank n)) -> rank n < bound -> rec s n r = (s', res) ->
  match res with
  | Err e => fst (D n r) = DErr e /\ logsub s s' (snd (D n r))
  | Ok v => Inv s' /\ frame s s' /\ stat s' n = Finished /\ val_ok v (D n r) r /\ logsub s s' (snd (D n r))
  end.

Lemma frame_refl s : frame s s.
Proof. constructor; auto. Qed.
Lemma frame_trans a b c : frame a b -> frame b c -> frame a c.
Proof.
  intros [k1 p1 l1] [k2 p2 l2]. constructor.
  - intros m Hm. destruct (k1 m Hm) as [E1 E2]. destruct (k2 m) as [E3 E4]; [congruence|]. split; congruence.
  - intros m Hm. destruct (p1 m Hm) as [H|H]; [apply p2, H|]. right. destruct (k2 m) as [E3 _]; congruence.
  - auto.
Qed.
Lemma frame_P a b k : frame a b -> P a k -> P b k.
Proof.
  intros [k1 p1 _] HP m Hm. apply HP. destruct (stat a m) eqn:E; try reflexivity.
  - destruct (p1 m E); congruence.
  - destruct (k1 m) as [E1 _]; congruence.
  - destruct (k1 m) as [E1 _]; congruence.
Qed.
Lemma logsub_refl s tr : logsub s s tr.
Proof. intros c H; auto. Qed.
Lemma logsub_trans a b c t1 t2 : logsub a b t1 -> logsub b c t2 -> incl t1 t2 -> logsub a c t2.
Proof. intros H1 H2 Hi x Hx. destruct (H2 x Hx) as [H|H]; [|auto]. destruct (H1 x H); auto. Qed.
Lemma logsub_weaken a b t1 t2 : logsub a b t1 -> incl t1 t2 -> logsub a b t2.
Proof. intros H Hi x Hx. destruct (H x Hx); auto. Qed.

(* the trace of a sub-evaluation that returned normally does not depend on `required` *)
Lemma tr_of_ok n v q : val_ok v (D n q) q -> snd (D n q) = snd (D n false).
Proof.
  intros [H|(H & _ & Hq)]; [|subst; reflexivity].
  rewrite (D_val_any' n v q); [reflexivity|]. eapply D_val_from'; eauto.
Qed.

Lemma sub_call rec k n s src q s1 iv :
  spec rec k -> rank n <= k -> rank src < rank n -> Inv s -> P s (rank n) ->
  rec s src q = (s1, iv) ->
  match iv with
  | Err e => fst (D src q) = DErr e /\ logsub s s1 (snd (D src q))
  | Ok v => Inv s1 /\ frame s s1 /\ P s1 (rank n) /\ val_ok v (D src q) q /\ logsub s s1 (snd (D src q)) /\
            (forall c, In c (snd (D src q)) -> In c (log s1))
  end.
Proof.
  intros Hrec Hn Hsrc Hi HP Hr.
  assert (HP' : P s (S (rank src))) by (intros m Hm; specialize (HP m Hm); lia).
  pose proof (Hrec s src q s1 iv Hi HP' ltac:(lia) Hr) as H.
  destruct iv as [v|e]; [|exact H].
  destruct H as (I1 & Fr & Fin & Vo & Ls). splits; auto.
  - eapply frame_P; eauto.
  - intros c Hc. rewrite (tr_of_ok _ _ _ Vo) in Hc. eapply i_tr; eauto.
Qed.

Lemma to_opt_ok v d q : val_ok v d q -> to_opt (fst d) = v /\ (forall e, fst d <> DErr e).
Proof.
  intros [H|(H & -> & _)]; rewrite H; simpl; split; auto; discriminate.
Qed.

Section Loops.
Variable rec : st -> name -> bool -> st * result.
Variable k : nat.
Hypothesis Hrec : spec rec k.
Variable n : name.
Hypothesis Hn : rank n <= k.
Variable r : bool.

Lemma args_spec : forall ps, (forall src, In src (srcs ps) -> rank src < rank n) ->
  forall s acc tr s' ar dar tr', Inv s -> P s (rank n) ->
  run_args rec r ps s acc = (s', ar) -> den_args D r ps acc tr = (dar, tr') ->
  match ar with
  | AErr e => dar = DAErr e /\ logsub s s' tr'
  | ABail => dar = DABail /\ r = false /\ Inv s' /\ frame s s' /\ logsub s s' tr' /\ trsub tr tr' s'
  | AOk a => dar = DAOk a /\ Inv s' /\ frame s s' /\ logsub s s' tr' /\ trsub tr tr' s'
  end.
Proof.
  induction ps as [|p ps IH]; intros Hps s acc tr s' ar dar tr' Hi HP Hrun Hden; simpl in Hrun, Hden.
  - inversion Hrun; inversion Hden; subst. splits; auto using frame_refl, logsub_refl.
    intros c Hc; auto.
  - assert (Htl : forall src, In src (srcs ps) -> rank src < rank n) by (intros; apply Hps, srcs_cons_tl; auto).
    (* the part after the value of the parameter is known is the same on both sides *)
    assert (Hrest : forall s1 v t1, Inv s1 -> P s1 (rank n) -> frame s s1 -> logsub s s1 t1 -> trsub tr t1 s1 -> incl tr t1 ->
       (if p_lazy p then run_args rec r ps s1 (v :: acc)
        else if is_none v && p_strict p && negb r then (s1, ABail)
        else if p_typed p && negb (p_compat p v) then (s1, AErr (if is_none v then EMissing else EType))
        else run_args rec r ps s1 (v :: acc)) = (s', ar) ->
       (if p_lazy p then den_args D r ps (v :: acc) t1
        else if is_none v && p_strict p && negb r then (DABail, t1)
        else if p_typed p && negb (p_compat p v) then (DAErr (if is_none v then EMissing else EType), t1)
        else den_args D r ps (v :: acc) t1) = (dar, tr') ->
       match ar with
       | AErr e => dar = DAErr e /\ logsub s s' tr'
       | ABail => dar = DABail /\ r = false /\ Inv s' /\ frame s s' /\ logsub s s' tr' /\ trsub tr tr' s'
       | AOk a => dar = DAOk a /\ Inv s' /\ frame s s' /\ logsub s s' tr' /\ trsub tr tr' s'
       end).
    { intros s1 v t1 I1 P1 F1 L1 T1 Hinc R1 D1.
      assert (Hgo : run_args rec r ps s1 (v :: acc) = (s', ar) -> den_args D r ps (v :: acc) t1 = (dar, tr') ->
                match ar with
                | AErr e => dar = DAErr e /\ logsub s s' tr'
                | ABail => dar = DABail /\ r = false /\ Inv s' /\ frame s s' /\ logsub s s' tr' /\ trsub tr tr' s'
                | AOk a => dar = DAOk a /\ Inv s' /\ frame s s' /\ logsub s s' tr' /\ trsub tr tr' s'
                end).
      { intros R2 D2. pose proof (IH Htl s1 (v :: acc) t1 s' ar dar tr' I1 P1 R2 D2) as H.
        assert (Hi2 : incl t1 tr') by (pose proof (den_args_tr_incl D r ps (v :: acc) t1) as X; rewrite D2 in X; exact X).
        assert (TS : forall s2, frame s1 s2 -> trsub t1 tr' s2 -> trsub tr tr' s2).
        { intros s2 F2 T2 c Hc. destruct (T2 c Hc) as [Hx|Hx]; [|auto].
          destruct (T1 c Hx) as [Hy|Hy]; [auto|right; eapply f_log; eauto]. }
        destruct ar as [a| |e].
        - destruct H as (E & I2 & F2 & L2 & T2). splits; auto.
          + eapply frame_trans; eauto.
          + eapply logsub_trans; eauto.
        - destruct H as (E & Er & I2 & F2 & L2 & T2). splits; auto.
          + eapply frame_trans; eauto.
          + eapply logsub_trans; eauto.
        - destruct H as (E & L2). split; auto. eapply logsub_trans; eauto. }
      destruct (p_lazy p); [apply Hgo; auto|].
      destruct (is_none v && p_strict p && negb r) eqn:Eb.
      - inversion R1; inversion D1; subst. splits; auto.
        apply andb_prop in Eb. destruct Eb as [_ Eb]. destruct r; [discriminate|reflexivity].
      - destruct (p_typed p && negb (p_compat p v)).
        + inversion R1; inversion D1; subst. split; auto.
        + apply Hgo; auto. }
    assert (Hnone :
       (if p_lazy p then run_args rec r ps s (None :: acc)
        else if is_none (@None val) && p_strict p && negb r then (s, ABail)
        else if p_typed p && negb (p_compat p None) then (s, AErr (if is_none (@None val) then EMissing else EType))
        else run_args rec r ps s (None :: acc)) = (s', ar) ->
       (if p_lazy p then den_args D r ps (None :: acc) tr
        else if is_none (@None val) && p_strict p && negb r then (DABail, tr)
        else if p_typed p && negb (p_compat p None) then (DAErr (if is_none (@None val) then EMissing else EType), tr)
        else den_args D r ps (None :: acc) tr) = (dar, tr') ->
       match ar with
       | AErr e => dar = DAErr e /\ logsub s s' tr'
       | ABail => dar = DABail /\ r = false /\ Inv s' /\ frame s s' /\ logsub s s' tr' /\ trsub tr tr' s'
       | AOk a => dar = DAOk a /\ Inv s' /\ frame s s' /\ logsub s s' tr' /\ trsub tr tr' s'
       end).
    { apply (Hrest s None tr); auto using frame_refl, logsub_refl, incl_refl. intros c Hc; auto. }
    destruct (p_src p) as [src|] eqn:Es.
    + destruct (p_lazy p) eqn:El.
      * apply Hnone; [exact Hrun|exact Hden].
      * destruct (rec s src (r && p_strict p)) as [s1 iv] eqn:Er.
        pose proof (sub_call rec k n s src _ s1 iv Hrec Hn (Hps src (srcs_cons_in _ _ _ Es)) Hi HP Er) as Hc.
        destruct (D src (r && p_strict p)) as [dd t] eqn:Ed. simpl in Hc.
        destruct iv as [v|e].
        -- destruct Hc as (I1 & F1 & P1 & Vo & L1 & Tr1).
           destruct (to_opt_ok _ _ _ Vo) as [Hto Hne]. simpl in Hto, Hne.
           assert (Hden' : (if false then den_args D r ps (to_opt dd :: acc) (tr ++ t)
                            else if is_none (to_opt dd) && p_strict p && negb r then (DABail, tr ++ t)
                            else if p_typed p && negb (p_compat p (to_opt dd))
                                 then (DAErr (if is_none (to_opt dd) then EMissing else EType), tr ++ t)
                            else den_args D r ps (to_opt dd :: acc) (tr ++ t)) = (dar, tr')).
           { destruct dd; try exact Hden. exfalso. eapply Hne; reflexivity. }
           rewrite Hto in Hden'.
           apply (Hrest s1 v (tr ++ t)); auto.
           ++ eapply logsub_weaken; eauto. apply incl_appr, incl_refl.
           ++ intros c Hc. apply in_app_or in Hc. destruct Hc; auto.
           ++ apply incl_appl, incl_refl.
        -- destruct Hc as [Hc1 Hc2]. subst dd. inversion Hrun; inversion Hden; subst. split; auto.
           eapply logsub_weaken; eauto. apply incl_appr, incl_refl.
    + apply Hnone; [exact Hrun|exact Hden].
Qed.
Lemma exec_spec ps : (forall src, In src (srcs ps) -> rank src < rank n) ->
  forall p, nocatch p -> forall s tr s' res d tr', Inv s -> P s (rank n) ->
  exec rec ps r p s = (s', res) -> den_exec D ps r p tr = (d, tr') ->
  match res with
  | Err e => d = DErr e /\ logsub s s' tr'
  | Ok v => d = DVal v /\ Inv s' /\ frame s s' /\ logsub s s' tr' /\ trsub tr tr' s'
  end.
Proof.
  intros Hps p Hnc. induction Hnc as [v|e|i kk Hkk IH]; intros s tr s' res d tr' Hi HP Hrun Hden; simpl in Hrun, Hden.
  - inversion Hrun; inversion Hden; subst. splits; auto using frame_refl, logsub_refl. intros c Hc; auto.
  - inversion Hrun; inversion Hden; subst. split; auto using logsub_refl.
  - destruct (nth_error ps i) as [q|] eqn:Eq; [|inversion Hrun; inversion Hden; subst; split; auto using logsub_refl].
    destruct (negb (p_lazy q)); [inversion Hrun; inversion Hden; subst; split; auto using logsub_refl|].
    destruct (p_src q) as [src|] eqn:Es.
    + destruct (rec s src (r && p_strict q)) as [s1 iv] eqn:Er.
      pose proof (sub_call rec k n s src _ s1 iv Hrec Hn (Hps src (srcs_nth _ _ _ _ Eq Es)) Hi HP Er) as Hc.
      destruct (D src (r && p_strict q)) as [dd t] eqn:Ed. simpl in Hc.
      assert (Hw : forall sx, logsub s sx t -> logsub s sx (tr ++ t)).
      { intros sx L. eapply logsub_weaken; eauto. apply incl_appr, incl_refl. }
      destruct iv as [v|e].
      * destruct Hc as (I1 & F1 & P1 & Vo & L1 & Tr1).
        destruct (to_opt_ok _ _ _ Vo) as [Hto Hne]. simpl in Hto, Hne.
        assert (Hden' : (if p_typed q && negb (p_compat q (to_opt dd)) then (DErr EType, tr ++ t)
                         else den_exec D ps r (kk (to_opt dd)) (tr ++ t)) = (d, tr')).
        { destruct dd; try exact Hden. exfalso; eapply Hne; reflexivity. }
        rewrite Hto in Hden'.
        destruct (p_typed q && negb (p_compat q v)).
        -- inversion Hrun; inversion Hden'; subst. split; auto.
        -- pose proof (IH v s1 (tr ++ t) s' res d tr' I1 P1 Hrun Hden') as H.
           assert (Hi2 : incl (tr ++ t) tr').
           { pose proof (den_exec_tr_incl D ps r (kk v) (tr ++ t)) as X. rewrite Hden' in X. exact X. }
           destruct res as [v'|e'].
           ++ destruct H as (E & I2 & F2 & L2 & T2). splits; auto.
              ** eapply frame_trans; eauto.
              ** eapply logsub_trans; [apply Hw, L1|exact L2|exact Hi2].
              ** intros c Hc. destruct (T2 c Hc) as [Hx|Hx]; [|auto].
                 apply in_app_or in Hx. destruct Hx as [Hx|Hx]; [auto|].
                 right. eapply f_log; [exact F2|]. apply Tr1, Hx.
           ++ destruct H as (E & L2). split; auto.
              eapply logsub_trans; [apply Hw, L1|exact L2|exact Hi2].
      * destruct Hc as [Hc1 Hc2]. subst dd. inversion Hrun; inversion Hden; subst. split; auto.
    + eapply IH; eauto.
Qed.
End Loops.

(* ---- leaving a node ---- *)

Lemma Inv_inprog s n : Inv s -> stat s n = Pending -> Inv (set_stat s n InProgress).
Proof.
  intros [a b c d e] Hp. constructor; simpl.
  - intros m v. destruct (Nat.eqb m n); [discriminate|apply a].
  - intros m. destruct (Nat.eqb m n); [discriminate|apply b].
  - intros m x. destruct (Nat.eqb m n); [discriminate|apply c].
  - intros m. destruct (Nat.eqb m n) eqn:E; [|apply d].
    apply Nat.eqb_eq in E; subst. intros _. apply d. auto.
  - intros m x. destruct (Nat.eqb m n); [discriminate|apply e].
Qed.

Lemma P_inprog s n : P s (S (rank n)) -> P (set_stat s n InProgress) (rank n).
Proof.
  intros HP m. simpl. destruct (Nat.eqb m n) eqn:E.
  - apply Nat.eqb_eq in E; subst. lia.
  - intros Hm. specialize (HP m Hm). lia.
Qed.

Lemma frame_out s n s2 s3 :
  stat s n = Pending -> frame (set_stat s n InProgress) s2 ->
  (forall m, Nat.eqb m n = false -> stat s3 m = stat s2 m /\ vals s3 m = vals s2 m) ->
  stat s3 n = Finished -> (forall c, In c (log s2) -> In c (log s3)) ->
  frame s s3.
Proof.
  intros Hp [k1 p1 l1] Hoth Hn Hl. constructor.
  - intros m Hm. assert (E : Nat.eqb m n = false).
    { apply Nat.eqb_neq. intros ->. congruence. }
    destruct (Hoth m E) as [E1 E2]. destruct (k1 m) as [E3 E4]; [simpl; rewrite E; exact Hm|].
    simpl in E3, E4. rewrite E in E3. split; congruence.
  - intros m Hm. destruct (Nat.eqb m n) eqn:E.
    + apply Nat.eqb_eq in E; subst. auto.
    + destruct (Hoth m E) as [E1 _]. rewrite E1. apply p1. simpl. rewrite E. exact Hm.
  - intros c Hc. apply Hl, l1. exact Hc.
Qed.

Lemma finish_value s n r v s2 :
  stat s n = Pending -> Inv s2 -> frame (set_stat s n InProgress) s2 ->
  fst (D n r) = DVal v -> (forall c, In c (snd (D n r)) -> In c (log s2)) ->
  let s3 := set_stat (set_val s2 n v) n Finished in
  finish_lookup s3 n r = (s3, Ok v) /\ Inv s3 /\ frame s s3 /\ stat s3 n = Finished.
Proof.
  intros Hp [a b c d e] Fr Hv Htr s3.
  assert (Hf : fst (D n false) = DVal v) by (eapply D_val_from'; eauto).
  assert (Heq : D n r = D n false) by (eapply D_val_any'; eauto).
  splits.
  - unfold finish_lookup, s3. simpl. rewrite eqb_refl'. reflexivity.
  - constructor; unfold s3; simpl.
    + intros m x. destruct (Nat.eqb m n) eqn:E; [|apply a].
      apply Nat.eqb_eq in E; subst. intros _ Hx. inversion Hx; subst. exact Hf.
    + intros m. destruct (Nat.eqb m n) eqn:E; [intros _; discriminate|apply b].
    + intros m x. destruct (Nat.eqb m n); [discriminate|apply c].
    + intros m. destruct (Nat.eqb m n) eqn:E; [intros [H|H]; discriminate|apply d].
    + intros m x. destruct (Nat.eqb m n) eqn:E; [|apply e].
      apply Nat.eqb_eq in E; subst. intros _ Hx. apply Htr. rewrite Heq. exact Hx.
  - eapply frame_out; eauto; unfold s3; simpl.
    + intros m E. rewrite E. auto.
    + rewrite eqb_refl'. reflexivity.
  - unfold s3. simpl. rewrite eqb_refl'. reflexivity.
Qed.

Lemma finish_skip s n s1 :
  stat s n = Pending -> Inv (set_stat s n InProgress) -> Inv s1 -> frame (set_stat s n InProgress) s1 ->
  fst (D n false) = DSkip -> (forall c, In c (snd (D n false)) -> In c (log s1)) ->
  let s3 := set_stat s1 n Finished in
  vals s3 n = None /\ Inv s3 /\ frame s s3 /\ stat s3 n = Finished.
Proof.
  intros Hp I0 [a b c d e] Fr Hv Htr s3.
  assert (Hnone : vals s1 n = None).
  { destruct (f_keep _ _ Fr n) as [_ E]; [simpl; rewrite eqb_refl'; discriminate|].
    rewrite E. simpl. apply (i_none _ I0). right. simpl. rewrite eqb_refl'. reflexivity. }
  splits.
  - exact Hnone.
  - constructor; unfold s3; simpl.
    + intros m x. destruct (Nat.eqb m n) eqn:E; [|apply a].
      apply Nat.eqb_eq in E; subst. intros _ Hx. congruence.
    + intros m. destruct (Nat.eqb m n) eqn:E; [|apply b].
      apply Nat.eqb_eq in E; subst. intros _ _. exact Hv.
    + intros m x. destruct (Nat.eqb m n); [discriminate|apply c].
    + intros m. destruct (Nat.eqb m n) eqn:E; [intros [H|H]; discriminate|apply d].
    + intros m x. destruct (Nat.eqb m n) eqn:E; [|apply e].
      apply Nat.eqb_eq in E; subst. intros _ Hx. apply Htr, Hx.
  - eapply frame_out; eauto; unfold s3; simpl.
    + intros m E. rewrite E. auto.
    + rewrite eqb_refl'. reflexivity.
  - unfold s3. simpl. rewrite eqb_refl'. reflexivity.
Qed.

Lemma logsub_same s s' tr : log s' = log s -> logsub s s' tr.
Proof. intros E c Hc. rewrite E in Hc. auto. Qed.

Lemma run_step_spec rec k : spec rec k -> spec (run_step g inputs rec) (S k).
Proof.
  intros Hrec s n r s' res Hi HP Hlt Hrun. unfold run_step in Hrun.
  assert (Hn : rank n <= k) by lia.
  pose proof (D_fix' n r) as Efix.
  destruct (stat s n) eqn:Est.
  - (* pending: run the node *)
    set (s0 := set_stat s n InProgress) in *.
    assert (I0 : Inv s0) by (apply Inv_inprog; auto).
    assert (P0 : P s0 (rank n)) by (apply P_inprog; auto).
    assert (F0 : frame s0 s0) by apply frame_refl.
    assert (Lfail : forall sx e, log (set_stat sx n (Failed e)) = log sx) by reflexivity.
    (* leaving with a stored value *)
    assert (Hval : forall s2 v, Inv s2 -> frame s0 s2 -> fst (D n r) = DVal v ->
               (forall c, In c (snd (D n r)) -> In c (log s2)) -> logsub s s2 (snd (D n r)) ->
               finish_lookup (set_stat (set_val s2 n v) n Finished) n r = (s', res) ->
               match res with
               | Err e => fst (D n r) = DErr e /\ logsub s s' (snd (D n r))
               | Ok v => Inv s' /\ frame s s' /\ stat s' n = Finished /\ val_ok v (D n r) r /\ logsub s s' (snd (D n r))
               end).
    { intros s2 v I2 F2 Hv Htr L2 Hf.
      destruct (finish_value s n r v s2 Est I2 F2 Hv Htr) as (E1 & I3 & F3 & Fin).
      rewrite E1 in Hf. inversion Hf; subst. splits; auto. left; exact Hv. }
    (* leaving without a value (only for a consumer that does not require the node) *)
    assert (Hskip : forall s1, Inv s1 -> frame s0 s1 -> r = false -> fst (D n r) = DSkip ->
               (forall c, In c (snd (D n r)) -> In c (log s1)) -> logsub s s1 (snd (D n r)) ->
               finish_lookup (set_stat s1 n Finished) n r = (s', res) ->
               match res with
               | Err e => fst (D n r) = DErr e /\ logsub s s' (snd (D n r))
               | Ok v => Inv s' /\ frame s s' /\ stat s' n = Finished /\ val_ok v (D n r) r /\ logsub s s' (snd (D n r))
               end).
    { intros s1 I1 F1 -> Hv Htr L1 Hf.
      destruct (finish_skip s n s1 Est I0 I1 F1 Hv Htr) as (E1 & I3 & F3 & Fin).
      unfold finish_lookup in Hf. rewrite E1 in Hf. inversion Hf; subst. splits; auto. right; auto. }
    unfold run_node in Hrun. unfold den_step in Efix.
    destruct (lookup n g) as [[typed nullable|v|ps body]|] eqn:Eg.
    + (* input *)
      destruct (lookup n inputs) as [v|].
      * destruct (typed && negb (is_int v)).
        -- inversion Hrun; subst. rewrite Efix. simpl. split; auto. apply logsub_same; reflexivity.
        -- apply (Hval s0 (Some v) I0 F0);
             [rewrite Efix; reflexivity|rewrite Efix; intros c []|apply logsub_same; reflexivity|exact Hrun].
      * destruct (typed && negb nullable).
        -- destruct r.
           ++ inversion Hrun; subst. rewrite Efix. simpl. split; auto. apply logsub_same; reflexivity.
           ++ apply (Hskip s0 I0 F0 eq_refl);
                [rewrite Efix; reflexivity|rewrite Efix; intros c []|apply logsub_same; reflexivity|exact Hrun].
        -- apply (Hval s0 None I0 F0);
             [rewrite Efix; reflexivity|rewrite Efix; intros c []|apply logsub_same; reflexivity|exact Hrun].
    + (* literal *)
      apply (Hval s0 (Some v) I0 F0);
        [rewrite Efix; reflexivity|rewrite Efix; intros c []|apply logsub_same; reflexivity|exact Hrun].
    + (* component *)
      assert (Hps : forall src, In src (srcs ps) -> rank src < rank n) by (intros src H; eapply Hrank; eauto).
      destruct (run_args rec r ps s0 []) as [s1 ar] eqn:Ea.
      destruct (den_args D r ps [] []) as [dar tra] eqn:Eda.
      pose proof (args_spec rec k Hrec n Hn r ps Hps s0 [] [] s1 ar dar tra I0 P0 Ea Eda) as HA.
      destruct ar as [a| |e].
      * destruct HA as (-> & I1 & F1 & L1 & T1).
        assert (Ttra : forall c, In c tra -> In c (log s1)).
        { intros c Hc. destruct (T1 c Hc) as [[]|H]; exact H. }
        destruct (exec rec ps r (body a) (add_log s1 n)) as [s2 r2] eqn:Ee.
        destruct (den_exec D ps r (body a) (tra ++ [n])) as [d tre] eqn:Ede.
        assert (Ia : Inv (add_log s1 n)).
        { destruct I1 as [a1 b1 c1 d1 e1]. constructor; simpl; auto. intros m c Hm Hc. right. eapply e1; eauto. }
        assert (Pa : P (add_log s1 n) (rank n)) by (exact (frame_P _ _ _ F1 P0)).
        assert (Fa : frame s1 (add_log s1 n)) by (constructor; simpl; auto).
        pose proof (exec_spec rec k Hrec n Hn r ps Hps (body a) (Hcf n ps body (lookup_in _ _ _ Eg) a) (add_log s1 n) (tra ++ [n]) s2 r2 d tre Ia Pa Ee Ede) as HE.
        assert (Hi2 : incl (tra ++ [n]) tre).
        { pose proof (den_exec_tr_incl D ps r (body a) (tra ++ [n])) as X. rewrite Ede in X. exact X. }
        assert (Lall : forall sx, logsub (add_log s1 n) sx tre -> logsub s sx tre).
        { intros sx L c Hc. destruct (L c Hc) as [H|H]; [|auto]. simpl in H. destruct H as [<-|H].
          - right. apply Hi2, in_or_app. right. simpl. auto.
          - destruct (L1 c H) as [H1|H1]; [left; exact H1|right; apply Hi2, in_or_app; auto]. }
        destruct r2 as [v|e].
        -- destruct HE as (-> & I2 & F2 & L2 & T2).
           apply (Hval s2 v I2).
           ++ eapply frame_trans; [exact F1|eapply frame_trans; [exact Fa|exact F2]].
           ++ rewrite Efix. reflexivity.
           ++ rewrite Efix. simpl. intros c Hc. destruct (T2 c Hc) as [H|H]; [|exact H].
              eapply f_log; [exact F2|]. simpl. apply in_app_or in H. destruct H as [H|[<-|[]]]; auto.
           ++ rewrite Efix. simpl. apply Lall, L2.
           ++ exact Hrun.
        -- destruct HE as (-> & L2). inversion Hrun; subst. rewrite Efix. simpl. split; [reflexivity|].
           apply Lall in L2. exact L2.
      * destruct HA as (-> & -> & I1 & F1 & L1 & T1).
        apply (Hskip s1 I1 F1 eq_refl).
        -- rewrite Efix. reflexivity.
        -- rewrite Efix. simpl. intros c Hc. destruct (T1 c Hc) as [[]|H]; exact H.
        -- rewrite Efix. simpl. exact L1.
        -- exact Hrun.
      * destruct HA as (-> & L1). inversion Hrun; subst. rewrite Efix. simpl. split; auto.
    + inversion Hrun; subst. rewrite Efix. simpl. split; auto. apply logsub_same; reflexivity.
  - (* in progress: impossible on a ranked graph *)
    exfalso. specialize (HP n Est). lia.
  - (* finished: memo hit *)
    unfold finish_lookup in Hrun. destruct (vals s n) as [v|] eqn:Ev.
    + inversion Hrun; subst. pose proof (i_val _ Hi n v Est Ev) as Hv.
      splits; auto using frame_refl, logsub_refl. left. rewrite (D_val_any' n v r Hv). exact Hv.
    + pose proof (i_skip _ Hi n Est Ev) as Hv. destruct r; inversion Hrun; subst.
      * destruct (D_skip_true' n Hv) as [E1 E2]. split; auto using logsub_refl.
      * splits; auto using frame_refl, logsub_refl. right; auto.
  - exfalso. eapply (i_nf _ Hi); eauto.
Qed.

Lemma run_spec : forall f, spec (run g inputs f) f.
Proof.
  induction f as [|f IH].
  - intros s n r s' res _ _ Hlt. lia.
  - simpl. apply run_step_spec, IH.
Qed.

Definition noIP (s : st) : Prop := forall m, stat s m <> InProgress.
Lemma frame_noIP a b : frame a b -> noIP a -> noIP b.
Proof.
  intros [k1 p1 _] H m Hm. destruct (stat a m) eqn:E.
  - destruct (p1 m E); congruence.
  - eapply H; eauto.
  - destruct (k1 m) as [E1 _]; congruence.
  - destruct (k1 m) as [E1 _]; congruence.
Qed.

Lemma Inv_init : Inv init.
Proof. constructor; simpl; try discriminate; auto. Qed.

(* value of a node as the specification gives it, and "the specification gives a value" *)
Definition node_value (n : name) : option val := to_opt (fst (D n true)).
Definition ok_node (n : name) : Prop := exists v, fst (D n true) = DVal v.

Lemma run_list_spec : forall l s s' e, Inv s -> noIP s -> run_list g inputs F s l = (s', e) ->
  (forall c, In c (log s') -> In c (log s) \/ exists root, In root l /\ In c (snd (D root true))) /\
  match e with
  | Some x => den_list g inputs F l = inr x
  | None => Inv s' /\ frame s s' /\ noIP s' /\ den_list g inputs F l = inl (map node_value l) /\
            (forall n, In n l -> stat s' n = Finished /\ ok_node n)
  end.
Proof.
  induction l as [|n l IH]; intros s s' e Hi Hn Hrun; simpl in Hrun.
  - inversion Hrun; subst. split; [auto|]. splits; auto using frame_refl. intros n [].
  - destruct (run g inputs F s n true) as [s1 r1] eqn:Er.
    assert (HP : P s (S (rank n))) by (intros m Hm; exfalso; eapply Hn; eauto).
    pose proof (run_spec F s n true s1 r1 Hi HP (HF n) Er) as H.
    destruct r1 as [v|x].
    + destruct H as (I1 & F1 & Fin & Vo & L1).
      assert (Hv : fst (D n true) = DVal v) by (destruct Vo as [H|(_ & _ & H)]; [exact H|discriminate]).
      destruct (IH s1 s' e I1 (frame_noIP _ _ F1 Hn) Hrun) as [L2 H2]. split.
      * intros c Hc. destruct (L2 c Hc) as [H|(root & Hr & Hc')].
        -- destruct (L1 c H) as [H'|H']; [auto|right; exists n; simpl; auto].
        -- right. exists root. simpl. auto.
      * simpl. change (den g inputs F n true) with (D n true). rewrite Hv.
        destruct e as [x|].
        -- rewrite H2. reflexivity.
        -- destruct H2 as (I2 & F2 & N2 & E2 & A2). splits; auto.
           ++ eapply frame_trans; eauto.
           ++ rewrite E2. unfold node_value at 2. rewrite Hv. reflexivity.
           ++ intros m [Hm|Hm]; [subst m|apply A2, Hm]. split; [|exists v; exact Hv].
              destruct (f_keep _ _ F2 n) as [E _]; [rewrite Fin; discriminate|]. rewrite E. exact Fin.
    + destruct H as [Hx Lx]. inversion Hrun; subst. split.
      * intros c Hc. destruct (Lx c Hc); [auto|right; exists n; simpl; auto].
      * simpl. change (den g inputs F n true) with (D n true). rewrite Hx. reflexivity.
Qed.

Lemma run_correct_l : forall ns, pipeline_run g inputs F ns = den_outcome g inputs F ns.
Proof.
  intros ns. unfold pipeline_run, den_outcome, run_all.
  destruct (run_list g inputs F init (requests g ns)) as [s e] eqn:Er.
  destruct (run_list_spec _ _ _ _ Inv_init ltac:(intros m; simpl; discriminate) Er) as [_ H].
  destruct e as [x|].
  - rewrite H. reflexivity.
  - destruct H as (I2 & _ & _ & E2 & A2). rewrite E2. f_equal. apply map_ext_in. intros n Hin.
    assert (Hreq : In n (requests g ns)) by (unfold requests; destruct ns; [destruct Hin|exact Hin]).
    destruct (A2 n Hreq) as [Fin [v Hv]].
    change (den g inputs F n true) with (D n true). rewrite Hv. simpl.
    unfold value_in. destruct (vals s n) as [v'|] eqn:Ev.
    + pose proof (i_val _ I2 n v' Fin Ev) as Hf. rewrite (D_val_any' n v' true Hf) in Hv. congruence.
    + pose proof (i_skip _ I2 n Fin Ev) as Hf. destruct (D_skip_true' n Hf) as [E1 _]. congruence.
Qed.

(* the execution log is within what the memo-free evaluation executes, and equal to it when the run succeeds *)
Lemma only_if_needed_l : forall ns s e c, run_all g inputs F ns = (s, e) -> In c (log s) ->
  exists root, In root (requests g ns) /\ needs g inputs F root c.
Proof.
  intros ns s e c Hr Hc. unfold run_all in Hr.
  destruct (run_list_spec _ _ _ _ Inv_init ltac:(intros m; simpl; discriminate) Hr) as [L _].
  destruct (L c Hc) as [[]|H]. exact H.
Qed.

Lemma needed_executed_l : forall ns s root c, run_all g inputs F ns = (s, None) ->
  In root (requests g ns) -> needs g inputs F root c -> In c (log s).
Proof.
  intros ns s root c Hr Hroot Hc. unfold run_all in Hr.
  destruct (run_list_spec _ _ _ _ Inv_init ltac:(intros m; simpl; discriminate) Hr) as [_ (I2 & _ & _ & _ & A2)].
  destruct (A2 root Hroot) as [Fin [v Hv]].
  eapply (i_tr _ I2 root c Fin). unfold needs in Hc. change (den g inputs F root true) with (D root true) in Hc.
  rewrite <- (D_val_any' root v true); [exact Hc|]. eapply D_val_from'; eauto.
Qed.

(* success and the values do not depend on the order of the request *)
Lemma den_list_ok : forall l, (exists vs, den_list g inputs F l = inl vs) <-> Forall ok_node l.
Proof.
  induction l as [|n l IH]; simpl.
  - split; [constructor|eauto].
  - change (den g inputs F n true) with (D n true). split.
    + intros [vs H]. destruct (fst (D n true)) eqn:E; try discriminate.
      destruct (den_list g inputs F l) eqn:El; try discriminate.
      constructor; [exists v; exact E|apply IH; eauto].
    + intros H. inversion H as [|? ? [v Hv] Hl]; subst. rewrite Hv.
      apply IH in Hl. destruct Hl as [vs ->]. eauto.
Qed.

Lemma run_values_l : forall ns vs, pipeline_run g inputs F ns = Values vs -> vs = map node_value ns.
Proof.
  intros ns vs H. rewrite run_correct_l in H. unfold den_outcome in H.
  destruct (den_list g inputs F (requests g ns)); inversion H. reflexivity.
Qed.

Lemma run_succeeds_iff : forall ns, (exists vs, pipeline_run g inputs F ns = Values vs) <-> Forall ok_node (requests g ns).
Proof.
  intros ns. rewrite run_correct_l. unfold den_outcome. rewrite <- den_list_ok.
  destruct (den_list g inputs F (requests g ns)); split; intros [vs H]; eauto; discriminate.
Qed.
End Correct.
