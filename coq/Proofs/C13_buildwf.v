(* C13 -- build_config of a well-formed builder yields a well-formed document. *)
From Coq Require Import String Ascii List Bool Arith Lia Permutation Sorted.
From LK Require Import Lib.StrDict Lib.StrDictFacts Model.C13_json Gen.C13_shape Model.C13_config
  Proofs.C13_acyclic Proofs.C13_wf Proofs.C13_fromconfig Proofs.C13_roundtrip.
Import ListNotations.
Open Scope string_scope.
Open Scope list_scope.

Lemma resolve_one_keys D e i : NoDup (keys e) -> NoDup (keys (resolve_one D e i)).
Proof.
  intro N. unfold resolve_one. destruct (negb (dmem i e)); [|exact N].
  destruct (dget i D); [apply nodup_keys_dset; exact N|exact N].
Qed.
Lemma resolve_one_vals D e i t : In t (vals (resolve_one D e i)) -> In t (vals e) \/ In t (vals D).
Proof.
  unfold resolve_one. destruct (negb (dmem i e)); [|auto].
  destruct (dget i D) as [x|] eqn:E; [|auto]. intro Hin. destruct (in_vals_dset _ _ _ _ Hin) as [->|Hin']; [|auto].
  right. apply dget_in in E. change x with (snd (i, x)). apply in_map. exact E.
Qed.
Lemma fold_resolve_one_keys D l : forall e, NoDup (keys e) -> NoDup (keys (fold_left (resolve_one D) l e)).
Proof. induction l as [|i l IH]; intros e N; cbn [fold_left]; [exact N|]. apply IH. apply resolve_one_keys. exact N. Qed.
Lemma fold_resolve_one_vals D l : forall e t, In t (vals (fold_left (resolve_one D) l e)) -> In t (vals e) \/ In t (vals D).
Proof.
  induction l as [|i l IH]; intros e t Hin; cbn [fold_left] in Hin; [auto|].
  destruct (IH _ _ Hin) as [Hin'|Hin']; [|auto]. apply (resolve_one_vals D e i t Hin').
Qed.

Section BuildWF.
  Variable sig : string -> list string.
  Variable norm : string -> option obj -> option (option obj).
  Variable H : string -> string.

  Lemma resolve_node_other D E nk n : n <> fst nk -> dget n (resolve_node sig D E nk) = dget n E.
  Proof.
    intro Hne. unfold resolve_node. destruct (snd nk); try reflexivity. apply dget_dset_other. exact Hne.
  Qed.

  Lemma fold_resolve_keep D : forall nodes E n, ~ In n (keys nodes) -> dget n (fold_left (resolve_node sig D) nodes E) = dget n E.
  Proof.
    induction nodes as [|nk nodes IH]; intros E n Hn; cbn [fold_left]; [reflexivity|].
    cbn in Hn. rewrite IH by tauto. apply resolve_node_other. intro X. apply Hn. left. symmetry. exact X.
  Qed.

  Lemma resolved_get D : forall nodes E n code s,
    NoDup (keys nodes) -> In (n, KComp code s) nodes ->
    dget n (fold_left (resolve_node sig D) nodes E)
    = Some (fold_left (resolve_one D) (sig code) (match dget n E with Some e => e | None => [] end)).
  Proof.
    induction nodes as [|[n' k'] nodes IH]; intros E n code s ND Hin; [destruct Hin|].
    cbn in ND. inversion ND as [|? ? Hn' NDr]; subst. cbn [fold_left]. destruct Hin as [[= -> ->]|Hin].
    - rewrite fold_resolve_keep by exact Hn'. unfold resolve_node. cbn [fst snd]. apply dget_dset_same.
    - assert (Hne : n <> n').
      { intro X. subst. apply Hn'. change n' with (fst (n', KComp code s)). apply in_map. exact Hin. }
      rewrite (IH _ n code s NDr Hin). rewrite (resolve_node_other D E (n', k') n Hne). reflexivity.
  Qed.

  Lemma resolved_keys_incl D : forall nodes E n, In n (keys E) -> In n (keys (fold_left (resolve_node sig D) nodes E)).
  Proof.
    induction nodes as [|nk nodes IH]; intros E n Hn; cbn [fold_left]; [exact Hn|].
    apply IH. unfold resolve_node. destruct (snd nk); try exact Hn. apply in_keys_dset. right. exact Hn.
  Qed.

  (* names of the document = names of the nodes *)
  Lemma names_perm (G : dict (dict string)) : forall nodes,
    Permutation (map i_name (node_inputs nodes) ++ keys (node_literals nodes) ++ keys (node_components G nodes)) (keys nodes).
  Proof.
    induction nodes as [|[n k] nodes IH]; [constructor|].
    destruct k as [ts|e v|code s].
    - change (node_inputs ((n, KInput ts) :: nodes)) with ({| i_name := n; i_types := Some ts |} :: node_inputs nodes).
      change (node_literals ((n, KInput ts) :: nodes)) with (node_literals nodes).
      change (node_components G ((n, KInput ts) :: nodes)) with (node_components G nodes).
      cbn [map i_name app keys fst]. constructor. exact IH.
    - change (node_inputs ((n, KLit e v) :: nodes)) with (node_inputs nodes).
      change (node_literals ((n, KLit e v) :: nodes)) with ((n, {| l_enc := e; l_value := v |}) :: node_literals nodes).
      change (node_components G ((n, KLit e v) :: nodes)) with (node_components G nodes).
      cbn [map app keys fst]. symmetry. apply Permutation_cons_app. symmetry. exact IH.
    - change (node_inputs ((n, KComp code s) :: nodes)) with (node_inputs nodes).
      change (node_literals ((n, KComp code s) :: nodes)) with (node_literals nodes).
      set (p := {| c_code := code; c_config := s;
                   c_inputs := if wiring_sorted then sort_kv (match dget n G with Some e => e | None => [] end)
                               else match dget n G with Some e => e | None => [] end |}).
      change (node_components G ((n, KComp code s) :: nodes)) with ((n, p) :: node_components G nodes).
      cbn [map app keys fst]. symmetry. rewrite app_assoc. apply Permutation_cons_app. rewrite <- app_assoc. symmetry. exact IH.
  Qed.

  Lemma in_node_components G nodes n p :
    In (n, p) (node_components G nodes) ->
    exists code s, In (n, KComp code s) nodes /\
      p = {| c_code := code; c_config := s;
             c_inputs := sort_kv (match dget n G with Some e => e | None => [] end) |}.
  Proof.
    unfold node_components. rewrite in_flat_map. intros [[n' k] [Hin Hx]]. cbn [fst snd] in Hx.
    destruct k as [ts|e v|code s]; [destruct Hx|destruct Hx|]. change wiring_sorted with true in Hx. cbv iota in Hx.
    destruct Hx as [[= -> <-]|[]]. exists code, s. split; [exact Hin|reflexivity].
  Qed.

  Theorem build_config_wf b ih c : bwf norm b -> build_config sig H b ih = OK c -> cwf norm c.
  Proof.
    intros W. unfold build_config. change validate_after_defaults with true. cbv iota.
    destruct (acyclic_b (resolved_edges sig b)) eqn:Hac; [|discriminate].
    set (R := resolved_edges sig b) in *.
    change aliases_sorted with true. change literals_sorted with true. cbv iota.
    set (c0 := {| cf_meta := _; cf_inputs := _; cf_components := _; cf_aliases := _; cf_default := _; cf_literals := _ |}).
    intro E.
    assert (Hc : exists h, c = with_hash c0 h).
    { destruct ih; injection E as <-; [eexists; reflexivity|exists None; reflexivity]. }
    clear E. destruct Hc as [h ->].
    pose proof (bw_nodes _ _ W) as NDN.
    assert (NP : Permutation (config_names (with_hash c0 h)) (keys (b_nodes b))).
    { unfold config_names. cbn [with_hash c0 cf_inputs cf_literals cf_components].
      rewrite <- (names_perm R (b_nodes b)). apply Permutation_app_head. apply Permutation_app_tail. apply sort_kv_keys_perm. }
    assert (Hin_names : forall x, In x (keys (b_nodes b)) -> In x (config_names (with_hash c0 h))).
    { intros x Hx. eapply Permutation_in; [symmetry; exact NP|exact Hx]. }
    assert (Hnames_in : forall x, In x (config_names (with_hash c0 h)) -> In x (keys (b_nodes b))).
    { intros x Hx. eapply Permutation_in; [exact NP|exact Hx]. }
    (* wiring of a component node in the resolved graph *)
    assert (HRget : forall n code s, In (n, KComp code s) (b_nodes b) ->
              exists w, dget n R = Some w /\ NoDup (keys w) /\ incl (vals w) (keys (b_nodes b))).
    { intros n code s Hin. unfold R, resolved_edges. rewrite (resolved_get _ _ _ n code s NDN Hin).
      eexists. split; [reflexivity|].
      assert (Hbase : NoDup (keys (match dget n (b_edges b) with Some e => e | None => [] end)) /\
                      incl (vals (match dget n (b_edges b) with Some e => e | None => [] end)) (keys (b_nodes b))).
      { destruct (dget n (b_edges b)) as [e|] eqn:Eg; [|split; [constructor|intros ? []]].
        apply dget_in in Eg. pose proof (bw_edges_ok _ _ W) as F. rewrite Forall_forall in F. apply (F _ Eg). }
      destruct Hbase as [B1 B2]. split; [apply fold_resolve_one_keys; exact B1|].
      intros t Ht. destruct (fold_resolve_one_vals _ _ _ _ Ht) as [Ht'|Ht']; [apply B2; exact Ht'|apply (bw_def_targets _ _ W); exact Ht']. }
    constructor.
    - eapply Permutation_NoDup; [symmetry; exact NP|exact NDN].
    - cbn [with_hash c0 cf_inputs]. unfold node_inputs. rewrite Forall_forall. intros i Hi. rewrite in_flat_map in Hi.
      destruct Hi as [[n k] [Hin Hx]]. cbn [fst snd] in Hx. destruct k as [ts|e v|code s]; [|destruct Hx|destruct Hx].
      destruct Hx as [<-|[]]. cbn [i_types]. exists ts. split; [reflexivity|].
      pose proof (bw_node_ok _ _ W) as F. rewrite Forall_forall in F. apply (F _ Hin).
    - cbn [with_hash c0 cf_components]. rewrite Forall_forall. intros [n p] Hp.
      destruct (in_node_components _ _ _ _ Hp) as [code [s [Hin ->]]].
      pose proof (bw_node_ok _ _ W) as F. rewrite Forall_forall in F. destruct (F _ Hin) as [F1 F2].
      destruct (HRget n code s Hin) as [w [Hw [Nw Iw]]]. rewrite Hw.
      unfold comp_ok. cbn [fst snd c_code c_config c_inputs]. repeat split; try assumption.
      + apply sort_by_sorted.
      + eapply Permutation_NoDup; [symmetry; apply sort_kv_keys_perm|exact Nw].
      + intros t Ht. apply Hin_names. apply Iw.
        eapply Permutation_in; [apply Permutation_map; apply sort_kv_perm|exact Ht].
    - apply sort_by_sorted.
    - cbn [with_hash c0 cf_aliases]. eapply Permutation_NoDup; [symmetry; apply sort_kv_keys_perm|exact (bw_al_nodup _ _ W)].
    - cbn [with_hash c0 cf_aliases]. intros a Ha Hn. apply (bw_al_fresh _ _ W a).
      + eapply Permutation_in; [apply sort_kv_keys_perm|exact Ha].
      + apply Hnames_in. exact Hn.
    - cbn [with_hash c0 cf_aliases]. intros t Ht. apply Hin_names. apply (bw_al_targets _ _ W).
      eapply Permutation_in; [apply Permutation_map; apply sort_kv_perm|exact Ht].
    - cbn [with_hash c0 cf_default]. unfold norm_default. destruct (b_default b) as [s|]; [|discriminate].
      destruct (String.eqb s "") eqn:Es; [discriminate|]. intros [= ->]. discriminate.
    - (* the document's graph is a subgraph of the validated one *)
      apply (acyclic_b_subgraph _ R); [|exact Hac]. unfold comp_graph. cbn [with_hash c0 cf_components]. split.
      + intros n ins' t Hin Ht. rewrite in_map_iff in Hin. destruct Hin as [[n' p] [[= -> <-] Hp]]. cbn [fst snd] in *.
        destruct (in_node_components _ _ _ _ Hp) as [code [s [HinN ->]]]. cbn [c_inputs] in Ht.
        destruct (HRget n code s HinN) as [w [Hw _]]. rewrite Hw in Ht. exists w. split; [apply dget_in; exact Hw|].
        eapply Permutation_in; [apply Permutation_map; apply sort_kv_perm|exact Ht].
      + intros n Hn. unfold keys in Hn. rewrite map_map in Hn. cbn [fst] in Hn. rewrite in_map_iff in Hn.
        destruct Hn as [[n' p] [<- Hp]]. cbn [fst]. destruct (in_node_components _ _ _ _ Hp) as [code [s [HinN _]]].
        destruct (HRget n' code s HinN) as [w [Hw _]]. eapply dget_some_in_keys. exact Hw.
    - apply sort_by_sorted.
  Qed.
End BuildWF.
