(* C10 -- the public-only view of an explicit fold-in (Model/C10_history.v) against the verified
   residual checker: with no allowance for single-precision values it IS `foldin_ok_explicit`,
   and with any allowance >= 0 it accepts whatever `foldin_ok_explicit` accepts on the same row. *)
From Coq Require Import ZArith QArith Qabs List Bool Lia Lqa.
From LK Require Import Lib.QLib Model.C10_als Model.C10_history Proofs.C10_als_proofs.
Import ListNotations.
Open Scope Q_scope.

Lemma Qle_bool_ext a b c : b == c -> Qle_bool a b = Qle_bool a c.
Proof.
  intro Hbc. apply eq_true_iff_eq. rewrite !Qle_bool_iff. rewrite Hbc. tauto.
Qed.

Lemma Qle_bool_weaken a b c : b <= c -> Qle_bool a b = true -> Qle_bool a c = true.
Proof. rewrite !Qle_bool_iff. intros Hbc Hab. apply Qle_trans with b; assumption. Qed.

Lemma resid_ok_slack_zero tol sc s A x y : s == 0 -> resid_ok_slack tol sc s A x y = resid_ok tol sc A x y.
Proof.
  intro Hs. unfold resid_ok_slack, resid_ok. f_equal. apply Qle_bool_ext. rewrite Hs. ring.
Qed.

Lemma resid_ok_slack_weaken tol sc s A x y : 0 <= s -> resid_ok tol sc A x y = true -> resid_ok_slack tol sc s A x y = true.
Proof.
  intros Hs. unfold resid_ok_slack, resid_ok. rewrite !andb_true_iff. intros [Hl Hr]. split; [exact Hl|].
  eapply Qle_bool_weaken; [|exact Hr]. lra.
Qed.

Lemma value_slack_zero k items row : value_slack 0 k items row == 0.
Proof. unfold value_slack. ring. Qed.

Lemma value_slack_nonneg tolb k items row : 0 <= tolb -> 0 <= value_slack tolb k items row.
Proof. intro Ht. unfold value_slack. apply Qmult_le_0_compat; [exact Ht|apply vnorm_nonneg]. Qed.

Theorem foldin_public_view_l tol k lam items row x :
  foldin_ok_explicit_pub tol 0 k lam items row x = foldin_ok_explicit tol k lam items row x /\
  (forall tolb, 0 <= tolb -> foldin_ok_explicit tol k lam items row x = true ->
                foldin_ok_explicit_pub tol tolb k lam items row x = true).
Proof.
  unfold foldin_ok_explicit_pub, foldin_ok_explicit. destruct row as [|e row]; [split; [reflexivity|auto]|].
  split.
  - apply resid_ok_slack_zero, value_slack_zero.
  - intros tolb Ht. apply resid_ok_slack_weaken, value_slack_nonneg, Ht.
Qed.

Theorem kept_ok_iff Pb Pa Qb Qa :
  kept_ok Pb Pa Qb Qa = true <->
  meqb Qb Qa = true /\ match Pb, Pa with Some a, Some b => meqb a b = true | None, None => True | _, _ => False end.
Proof.
  unfold kept_ok. rewrite andb_true_iff. destruct Pb, Pa; intuition congruence.
Qed.

(* ---------------------------------------------------------------- the data scale of the residual check *)
Lemma row_scale_nonneg fb k other row : 0 <= row_scale fb k other row.
Proof. unfold row_scale. apply vnorm_nonneg. Qed.

Lemma mnorm_nonneg A : 0 <= mnorm A.
Proof.
  induction A as [|r A IH]; cbn; [lra|]. fold (mnorm A).
  pose proof (Qmaxq_ge_r (Qsum (map Qabs r)) (mnorm A)). lra.
Qed.

Lemma resid_ok_scale_mono tol sc sc' A x y : 0 <= tol -> sc <= sc' ->
  resid_ok tol sc A x y = true -> resid_ok tol sc' A x y = true.
Proof.
  intros Ht Hs. unfold resid_ok. rewrite !andb_true_iff. intros [Hl Hr]. split; [exact Hl|].
  eapply Qle_bool_weaken; [|exact Hr].
  set (a := mnorm A * vnorm x + vnorm y).
  setoid_replace (tol * (a + sc')) with (tol * (a + sc) + tol * (sc' - sc)) by ring.
  assert (0 <= tol * (sc' - sc)) by (apply Qmult_le_0_compat; lra). lra.
Qed.

Theorem residual_scale_l tol sc A x y fb k other row :
  (resid_ok 0 sc A x y = true <-> solves (A, y) x) /\
  0 <= row_scale fb k other row /\
  (0 <= tol -> resid_ok tol 0 A x y = true -> resid_ok tol (row_scale fb k other row) A x y = true).
Proof.
  split; [apply resid_ok_exact|]. split; [apply row_scale_nonneg|].
  intros Ht. apply resid_ok_scale_mono; [exact Ht|apply row_scale_nonneg].
Qed.

(* ---------------------------------------------------------------- the user bias that applies *)
Lemma foldin_user_bias_residuals b d vocab h :
  foldin_user_bias b d vocab h =
  (if Qeq_bool (Qofnat (length h) + d) 0 then 0 else Qsum (hist_residuals b vocab h) / (Qofnat (length h) + d)).
Proof. reflexivity. Qed.

Lemma foldin_user_bias_ignores_stored b bu d vocab h :
  foldin_user_bias (with_user_bias b bu) d vocab h = foldin_user_bias b d vocab h.
Proof. reflexivity. Qed.

Lemma balanced_history_bias_zero b d vocab h :
  Qsum (hist_residuals b vocab h) == 0 -> foldin_user_bias b d vocab h == 0.
Proof.
  intro H. rewrite foldin_user_bias_residuals.
  destruct (Qeq_bool (Qofnat (length h) + d) 0); [reflexivity|].
  unfold Qdiv. rewrite H. ring.
Qed.

Theorem history_bias_applies_l b bu d vocab h :
  applicable_user_bias b d vocab UFold h = foldin_user_bias b d vocab h /\
  foldin_user_bias (with_user_bias b bu) d vocab h = foldin_user_bias b d vocab h /\
  (Qsum (hist_residuals b vocab h) == 0 -> applicable_user_bias b d vocab UFold h == 0).
Proof.
  split; [reflexivity|]. split; [apply foldin_user_bias_ignores_stored|]. apply balanced_history_bias_zero.
Qed.

(* a query that folds its history in is judged without reading the stored user biases at all *)
Theorem fold_query_ignores_stored_bias_l tol tolb k lam ivocab items P b bu d prefer un h cands fold obs :
  user_path prefer (is_some P) un (length h) = UFold ->
  query_ok_explicit tol tolb k lam ivocab items P (with_user_bias b bu) d prefer un (Some h) cands fold obs =
  query_ok_explicit tol tolb k lam ivocab items P b d prefer un (Some h) cands fold obs.
Proof.
  intro Hp. unfold query_ok_explicit. rewrite Hp. destruct fold as [[row x]|]; reflexivity.
Qed.

(* with a history bias of exactly 0 the score of a known candidate is dot product + global + item bias *)
Theorem zero_history_bias_scores_l vocab k items b d h u cands :
  applicable_user_bias b d vocab UFold h == 0 ->
  forall j i n, nth_error cands j = Some i -> number vocab i = Some n ->
    exists s, nth_error (score_explicit vocab k items b u (applicable_user_bias b d vocab UFold h) cands) j = Some (i, Some s) /\
              s == dot (nth n items (vzero k)) u + (b_global b + nth n (b_item b) 0).
Proof.
  intros Hz j i n Hj Hn.
  destruct (score_is_dot_plus_bias_explicit vocab k items b u (applicable_user_bias b d vocab UFold h) cands) as [_ Hs].
  rewrite (Hs j i Hj), Hn. eexists. split; [reflexivity|]. rewrite Hz. ring.
Qed.
