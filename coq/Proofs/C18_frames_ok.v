(* C18 -- the generated frame table (Gen/C18_frames.v) satisfies the per-class obligation, and the
   generated seed plan of Pipeline.train is the one the pipeline theorems need.  Re-checked against
   the source on every run. *)
From Coq Require Import ZArith List Bool Lia.
From Coq Require String.
Import String.StringSyntax.
From LK Require Import Model.C18_retrain Gen.C18_frames Proofs.C18_proofs.
Import ListNotations.
Local Open Scope string_scope.

Lemma frames_closed_l : forallb frame_ok frames = true.
Proof. vm_compute. reflexivity. Qed.

Lemma frames_nonempty_l : frames <> [].
Proof. discriminate. Qed.

Lemma every_frame_closed : forall fr, In fr frames -> closed fr.
Proof.
  intros fr Hin. apply frame_ok_closed.
  pose proof frames_closed_l as H. rewrite forallb_forall in H. apply H. exact Hin.
Qed.

(* a supplied seed (a number, a sequence of numbers, a SeedSequence) is spawned per component;
   no seed / a live generator is handed on as it is *)
Lemma seed_plan_l :
  pt_seed_plan KSeedLike = PlanWrap /\ pt_seed_plan KSeedSequence = PlanUseGiven /\
  pt_seed_plan KNone = PlanNoSeed /\ pt_seed_plan KGenerator = PlanNoSeed /\ pt_seed_plan KBitGenerator = PlanNoSeed /\
  0 < pt_spawn_width /\ pt_spawn_pick < pt_spawn_width.
Proof. repeat split; try reflexivity; vm_compute; lia. Qed.

(* seeds are VALUES: the seed that is false in a truth test (zero) is wrapped and spawned like every other number *)
Lemma zero_is_a_seed_l : pt_seed_plan KSeedZero = pt_seed_plan KSeedLike /\ pt_seed_plan KSeedZero = PlanWrap.
Proof. split; reflexivity. Qed.

Lemma seeded_plan_spawns : forall k, k = KSeedLike \/ k = KSeedSequence \/ k = KSeedZero -> pt_seed_plan k <> PlanNoSeed.
Proof. intros k [H|[H|H]]; subst; discriminate. Qed.

(* nothing on a train() path keeps state outside the components (scan of the source, regenerated) *)
Lemma outside_state_empty_l : outside_state = [].
Proof. reflexivity. Qed.

Lemma keeps_nothing_outside_l : train_keeps_outside = false.
Proof. reflexivity. Qed.
