(* C07 -- the per-list table read key by key, and pairs with neither value.
   (a) the keyed table puts row i under the key of output i;
   (b) the key-by-key matcher used by the case files (Model: agree_keyed) is sound -- whatever it
       accepts is a re-ordering of the model's (key, row) pairs in which every observed row agrees with
       a model row stored under the SAME key -- and accepts the model's own order;
   (c) a joined pair with neither a prediction nor a rating is not "missing on one side": it never makes
       align fail, under any pair of dispositions. *)
From Coq Require Import ZArith QArith Qabs List Bool Permutation.
From LK Require Import Lib.QLib Gen.C07_agg Model.C07_metrics Proofs.C07_proofs Proofs.C07_main.
Import ListNotations.
Open Scope Q_scope.

Lemma key_eqb_eq a b : key_eqb a b = true <-> a = b.
Proof. unfold key_eqb. destruct (list_eq_dec Z.eq_dec a b); split; intro H; congruence. Qed.
Lemma key_eqb_refl a : key_eqb a a = true.
Proof. apply key_eqb_eq. reflexivity. Qed.

Lemma map_fst_combine {A B} (a : list A) (b : list B) :
  length a = length b -> map fst (combine a b) = a.
Proof.
  revert b. induction a as [|x a IH]; intros [|y b] L; simpl in *; try discriminate; [reflexivity|].
  f_equal. apply IH. congruence.
Qed.

Lemma keyed_rows_l ofs tfs ms outputs test a :
  measure ofs tfs ms outputs test = OK a ->
  map fst (keyed_table outputs (a_table a)) = map fst outputs /\
  forall i key o, nth_error outputs i = Some (key, o) ->
    exists row, nth_error (keyed_table outputs (a_table a)) i = Some (key, row) /\
                nth_error (a_table a) i = Some row.
Proof.
  intro H. destruct (list_value_is_metric_l _ _ _ _ _ _ H) as [L R]. split.
  - unfold keyed_table. apply map_fst_combine. rewrite map_length. congruence.
  - intros i key o N. destruct (R i key o N) as [row [Nr _]]. exists row. split; [|exact Nr].
    unfold keyed_table. apply combine_nth_error; [|exact Nr].
    rewrite nth_error_map, N. reflexivity.
Qed.

(* ---- the matcher ---- *)
Lemma take_key_perm k rows r rest :
  take_key k rows = Some (r, rest) -> Permutation rows ((k, r) :: rest).
Proof.
  revert r rest. induction rows as [|[k' r'] rows IH]; intros r rest H; simpl in H; [discriminate|].
  destruct (key_eqb k' k) eqn:E.
  - apply key_eqb_eq in E. subst k'. injection H as <- <-. apply Permutation_refl.
  - destruct (take_key k rows) as [[r1 rest1]|] eqn:T; [|discriminate]. injection H as <- <-.
    eapply Permutation_trans; [apply perm_skip, IH; reflexivity|]. apply perm_swap.
Qed.

Lemma agree_keyed_sound tol model index obs :
  agree_keyed tol model index obs = true ->
  exists rows, Permutation model (combine index rows) /\ length rows = length index /\
               Forall2 (fun r o => all2 (agree_res tol) r o = true) rows obs.
Proof.
  revert model obs. induction index as [|k index IH]; intros model obs H; destruct obs as [|o obs]; simpl in H; try discriminate.
  - destruct model; [|discriminate]. exists []. repeat split; constructor.
  - destruct (take_key k model) as [[r rest]|] eqn:T; [|discriminate].
    apply andb_true_iff in H. destruct H as [Hr Hrest].
    destruct (IH _ _ Hrest) as [rows [P [L F]]]. exists (r :: rows). split; [|split].
    + simpl. eapply Permutation_trans; [apply take_key_perm; exact T|]. apply perm_skip. exact P.
    + simpl. congruence.
    + constructor; assumption.
Qed.

Lemma agree_keyed_self tol ks rows obs :
  length ks = length rows -> Forall2 (fun r o => all2 (agree_res tol) r o = true) rows obs ->
  agree_keyed tol (combine ks rows) ks obs = true.
Proof.
  intros L F. revert ks L. induction F as [|r o rows obs Hro F IH]; intros [|k ks] L; simpl in *; try discriminate; [reflexivity|].
  rewrite key_eqb_refl, Hro. simpl. apply IH. congruence.
Qed.

(* ---- pairs with neither value ---- *)
Lemma both_missing_tolerated_l ms mt preds truth :
  (forall pt, In pt (join preds truth) -> (fst pt = None <-> snd pt = None)) ->
  exists al, align ms mt preds truth = Some al.
Proof.
  intro H. destruct (align ms mt preds truth) as [al|] eqn:A; [eauto|]. exfalso.
  apply (proj1 (align_none _ _ _ _)) in A.
  destruct A as [[_ [[s r] [I M]]]|[_ [[s r] [I M]]]]; specialize (H _ I); simpl in H;
    destruct s, r; simpl in M; try discriminate; destruct H as [H1 H2];
    [specialize (H1 eq_refl)|specialize (H2 eq_refl)]; discriminate.
Qed.
