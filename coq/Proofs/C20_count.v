(* C20 -- the "plentiful" clause as a COUNT over all draw streams.

   single_row_failure (C20_history) gives the exact failure event of one requested row: the call warns
   iff its first draw and the next `att` redraws all stand for observed columns of the row.  Here that
   event is counted: of the N^(att+1) in-range streams of length att+1 exactly h^(att+1) make the call
   warn, where N is the population of the weighting and h the number of draws that stand for an observed
   column of the row (uniform: the observed columns; popularity: the records whose column the row
   observes).  Under an ideal source the failure probability of a cell is therefore (h/N)^(att+1), at
   most 2^-(att+1) when at least half of the draws miss -- the number the Python oracle uses when it
   judges "rows for which unobserved columns are plentiful receive true negatives without any warning".

   The count presupposes what the extractor checks on the source: ONE generator serves the initial draw
   and every retry level (the model threads one stream).  A retry level that re-created its generator from
   a seed would see the same draw again and again, and the count would be h*N^att instead. *)
From Coq Require Import ZArith List Bool Lia FinFun.
From LK Require Import Gen.C20_shape Model.C20_sampling Proofs.C20_key Proofs.C20_resample Proofs.C20_sample
  Proofs.C20_history Proofs.C20_reach Proofs.C20_main.
Import ListNotations.
Open Scope Z_scope.

(* ---- all words of a given length over an alphabet ---- *)
Fixpoint words (A : list Z) (L : nat) : list (list Z) :=
  match L with
  | O => [[]]
  | S L' => flat_map (fun a => map (cons a) (words A L')) A
  end.

Lemma flat_map_const_length {X Y} (f : X -> list Y) k : forall l,
  (forall a, length (f a) = k) -> length (flat_map f l) = (length l * k)%nat.
Proof. induction l as [|a l IH]; intro H; cbn [flat_map length]; [reflexivity|]. rewrite app_length, H, IH by exact H. lia. Qed.

Lemma words_length A : forall L, length (words A L) = (length A ^ L)%nat.
Proof.
  induction L as [|L IH]; cbn [words Nat.pow]; [reflexivity|].
  rewrite (flat_map_const_length _ (length (words A L))); [rewrite IH; reflexivity|].
  intro a. apply map_length.
Qed.

Lemma words_In A : forall L ds, In ds (words A L) <-> length ds = L /\ Forall (fun d => In d A) ds.
Proof.
  induction L as [|L IH]; intros ds; cbn [words].
  - split.
    + intros [<-|[]]. split; [reflexivity|constructor].
    + intros [Hl _]. destruct ds; [left; reflexivity|discriminate].
  - rewrite in_flat_map. split.
    + intros [a [Ha Hin]]. apply in_map_iff in Hin. destruct Hin as [t [<- Ht]]. apply IH in Ht. destruct Ht as [Hl Hf].
      split; [cbn [length]; lia|constructor; assumption].
    + intros [Hl Hf]. destruct ds as [|d t]; [discriminate|]. inversion Hf; subst. exists d. split; [assumption|].
      apply in_map. apply IH. split; [cbn [length] in Hl; lia|assumption].
Qed.

Lemma NoDup_app_disjoint {X} (a b : list X) : NoDup a -> NoDup b -> (forall x, In x a -> ~ In x b) -> NoDup (a ++ b).
Proof.
  induction a as [|x a IH]; cbn [app]; intros Ha Hb Hd; [exact Hb|]. inversion Ha; subst. constructor.
  - rewrite in_app_iff. intros [H|H]; [contradiction|]. apply (Hd x); [left; reflexivity|exact H].
  - apply IH; [assumption|assumption|]. intros y Hy. apply Hd. right. exact Hy.
Qed.

Lemma flat_cons_NoDup (ws : list (list Z)) : NoDup ws -> forall A, NoDup A -> NoDup (flat_map (fun a => map (cons a) ws) A).
Proof.
  intros Hw. induction 1 as [|a A Hna HA IH]; cbn [flat_map]; [constructor|]. apply NoDup_app_disjoint.
  - apply Injective_map_NoDup; [intros x y E; injection E; auto|exact Hw].
  - exact IH.
  - intros x Hx Hy. apply in_map_iff in Hx. destruct Hx as [t [<- _]]. apply in_flat_map in Hy. destruct Hy as [b [Hb Hy]].
    apply in_map_iff in Hy. destruct Hy as [t' [E _]]. injection E as E1 _. subst b. contradiction.
Qed.

Lemma words_NoDup A : NoDup A -> forall L, NoDup (words A L).
Proof.
  intros HA. induction L as [|L IH]; cbn [words]; [constructor; [intros []|constructor]|].
  apply flat_cons_NoDup; assumption.
Qed.

Lemma count_step (f : Z -> bool) ws : forall A,
  length (filter (forallb f) (flat_map (fun a => map (cons a) ws) A))
  = (length (filter f A) * length (filter (forallb f) ws))%nat.
Proof.
  induction A as [|a A IH]; [reflexivity|]. cbn [flat_map]. rewrite filter_app, app_length, IH.
  assert (length (filter (forallb f) (map (cons a) ws)) = if f a then length (filter (forallb f) ws) else 0%nat) as E.
  { clear. induction ws as [|x ws IH]; cbn [map filter forallb]; [destruct (f a); reflexivity|].
    destruct (f a) eqn:Fa; cbn [andb].
    - destruct (forallb f x); cbn [length]; rewrite IH; reflexivity.
    - exact IH. }
  rewrite E. cbn [filter]. destruct (f a); cbn [length]; lia.
Qed.

Lemma words_count (f : Z -> bool) A : forall L,
  length (filter (forallb f) (words A L)) = (length (filter f A) ^ L)%nat.
Proof.
  induction L as [|L IH]; cbn [words Nat.pow]; [reflexivity|]. rewrite count_step, IH. reflexivity.
Qed.

(* ---- one requested row: the call is total on long enough streams, and its failure event on `hit` ---- *)
Lemma resample_single_total m w r : 0 < pop_n m w -> forall fuel b c ds,
  (Z.to_nat b <= length ds)%nat -> (Z.to_nat b < fuel)%nat ->
  exists out warns rest, resample m w fuel b [r] [c] ds = Ok (out, warns, rest).
Proof.
  intros Hp. induction fuel as [|fuel IH]; intros b c ds Hl Hf; [lia|].
  cbn [resample]. rewrite check_cons. cbn [check_negatives combine map existsb]. rewrite orb_false_r.
  destruct (hit m r c) eqn:Hh; [|do 3 eexists; reflexivity].
  unfold budget_positive. destruct (b >? 0) eqn:Eb.
  - cbn [select length].
    destruct (draw_columns_enough m w 1 ds Hp ltac:(lia)) as [d [rest [-> [Ld Ed]]]]. rewrite Ed.
    destruct d as [|d0 [|? ?]]; try discriminate. cbn [map].
    destruct (IH (budget_next b) (col_of m w d0) rest) as [o [wn [rs E]]].
    + unfold budget_next. rewrite app_length in Hl. cbn [length] in Hl. lia.
    + unfold budget_next. lia.
    + rewrite E. do 3 eexists; reflexivity.
  - unfold warn_on_exhaustion. do 3 eexists; reflexivity.
Qed.

Lemma sample_single_total m w att r ds :
  0 < pop_n m w -> (1 + Z.to_nat att <= length ds)%nat ->
  exists out warns rest, sample m w true att None [r] ds = Ok (out, warns, rest).
Proof.
  intros Hp Hl. unfold sample. cbn [length Nat.mul Nat.add].
  destruct (draw_columns_enough m w 1 ds Hp ltac:(lia)) as [d [ds1 [-> [Ld Ed]]]]. rewrite Ed.
  destruct d as [|x [|? ?]]; try discriminate. cbn [map seq column_of Nat.mul Nat.add nth resample_cols].
  rewrite app_length in Hl. cbn [length] in Hl.
  destruct (resample_single_total m w r Hp (fuel_for ds1) att (col_of m w x) ds1) as [o [wn [rs E]]].
  - lia.
  - unfold fuel_for. lia.
  - rewrite E. do 3 eexists; reflexivity.
Qed.

Lemma single_row_failure_hit m w att r ds out warns rest :
  sample m w true att None [r] ds = Ok (out, warns, rest) ->
  (warns <> [] <-> Forall (fun d => hit m r (col_of m w d) = true) (firstn (1 + Z.to_nat att) ds)).
Proof.
  intros H. unfold sample in H. cbn [length Nat.mul Nat.add] in H.
  destruct (draw_columns m w 1 ds) as [[d ds1]| |] eqn:Ed; try discriminate.
  destruct (draw_columns_spec _ _ _ _ _ _ Ed) as [d0 [-> [Ld ->]]].
  destruct d0 as [|x [|? ?]]; try discriminate. cbn [map seq column_of Nat.mul Nat.add nth resample_cols] in H.
  destruct (resample m w _ att [r] [col_of m w x] ds1) as [[[c' w1] ds2]| |] eqn:Er; try discriminate.
  inversion H; subst. rewrite app_nil_r. rewrite (single_row_failure _ _ _ _ _ _ _ _ _ _ Er).
  cbn [app firstn Nat.add]. split.
  - intros [A B]. constructor; assumption.
  - intro F. inversion F; subst. split; assumption.
Qed.

(* ---- the count ---- *)
Definition warned (x : res (list (list Z) * list Z * list Z)) : bool :=
  match x with
  | Ok (_, warns, _) => match warns with [] => false | _ :: _ => true end
  | _ => false
  end.
(* every draw the weighting can make: 0 .. pop_n - 1 *)
Definition pop_range (m : mat) (w : weighting) : list Z := map Z.of_nat (seq 0 (Z.to_nat (pop_n m w))).
(* all in-range streams of a given length *)
Definition all_streams (m : mat) (w : weighting) (L : nat) : list (list Z) := words (pop_range m w) L.
(* the draws that stand for an observed column of row r *)
Definition observed_draws (m : mat) (w : weighting) (r : Z) : list Z :=
  filter (fun d => hit m r (col_of m w d)) (pop_range m w).
(* the streams on which sample_negatives([r], verify=True, max_attempts=att) warns *)
Definition failing_streams (m : mat) (w : weighting) (att : Z) (r : Z) : list (list Z) :=
  filter (fun ds => warned (sample m w true att None [r] ds)) (all_streams m w (1 + Z.to_nat att)).

Lemma pop_range_In m w d : In d (pop_range m w) <-> 0 <= d < pop_n m w.
Proof.
  unfold pop_range. rewrite in_map_iff. split.
  - intros [k [<- Hk]]. apply in_seq in Hk. lia.
  - intros H. exists (Z.to_nat d). split; [lia|]. apply in_seq. lia.
Qed.

Lemma pop_range_NoDup m w : NoDup (pop_range m w).
Proof. unfold pop_range. apply Injective_map_NoDup; [intros x y E; apply Nat2Z.inj; exact E|apply seq_NoDup]. Qed.

Lemma all_streams_exact_l m w L :
  NoDup (all_streams m w L) /\ forall ds, In ds (all_streams m w L) <-> length ds = L /\ draws_ok m w ds.
Proof.
  split; [apply words_NoDup, pop_range_NoDup|]. intro ds. unfold all_streams, draws_ok. rewrite words_In.
  split; intros [Hl Hf]; (split; [exact Hl|]); eapply Forall_impl; try exact Hf; intros d Hd; apply pop_range_In; exact Hd.
Qed.

Lemma warned_eq m w att r ds : In ds (all_streams m w (1 + Z.to_nat att)) ->
  warned (sample m w true att None [r] ds) = forallb (fun d => hit m r (col_of m w d)) ds.
Proof.
  intros Hin. apply words_In in Hin. destruct Hin as [Hl Hf].
  assert (0 < pop_n m w) as Hp.
  { destruct ds as [|d ds]; [cbn [length] in Hl; lia|]. inversion Hf as [|? ? H1 H2]; subst. apply pop_range_In in H1. lia. }
  destruct (sample_single_total m w att r ds Hp ltac:(lia)) as [out [warns [rest E]]]. rewrite E.
  pose proof (single_row_failure_hit _ _ _ _ _ _ _ _ E) as Hiff. rewrite <- Hl, firstn_all in Hiff.
  cbn [warned]. destruct (forallb (fun d => hit m r (col_of m w d)) ds) eqn:Fb.
  - rewrite forallb_forall in Fb. destruct warns; [|reflexivity]. exfalso. apply (proj2 Hiff); [|reflexivity].
    apply Forall_forall. exact Fb.
  - destruct warns as [|x ws]; [reflexivity|]. exfalso.
    assert (forallb (fun d => hit m r (col_of m w d)) ds = true) as C; [|congruence].
    apply forallb_forall. apply Forall_forall. apply (proj1 Hiff). discriminate.
Qed.

Lemma plentiful_failure_count_l m w att r :
  length (failing_streams m w att r) = (length (observed_draws m w r) ^ (1 + Z.to_nat att))%nat
  /\ length (all_streams m w (1 + Z.to_nat att)) = (Z.to_nat (pop_n m w) ^ (1 + Z.to_nat att))%nat.
Proof.
  split.
  - unfold failing_streams, observed_draws. rewrite <- words_count. unfold all_streams. f_equal.
    apply filter_ext_in. intros ds H. apply warned_eq. exact H.
  - unfold all_streams. rewrite words_length. unfold pop_range. rewrite map_length, seq_length. reflexivity.
Qed.

Lemma observed_draws_exact_l m w r d : wf m -> 0 <= r < B32 ->
  (In d (observed_draws m w r) <-> 0 <= d < pop_n m w /\ observed m r (col_of m w d)).
Proof.
  intros Hwf Hr. unfold observed_draws. rewrite filter_In, pop_range_In.
  split; intros [A B]; (split; [exact A|]); apply (hit_observed m r (col_of m w d) Hwf Hr (col_of_range m w d Hwf A)); exact B.
Qed.

(* at least half of the draws miss the row's observed columns: at most a 2^-(att+1) fraction of the streams fails *)
Lemma plentiful_bound_l m w att r :
  (2 * length (observed_draws m w r) <= Z.to_nat (pop_n m w))%nat ->
  (2 ^ (1 + Z.to_nat att) * length (failing_streams m w att r) <= length (all_streams m w (1 + Z.to_nat att)))%nat.
Proof.
  intros H. destruct (plentiful_failure_count_l m w att r) as [E1 E2]. rewrite E1, E2.
  rewrite <- Nat.pow_mul_l. apply Nat.pow_le_mono_l. exact H.
Qed.
