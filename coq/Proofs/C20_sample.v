(* C20 -- the top-level call: shape, range, verified-or-warned, popularity columns occur. *)
From Coq Require Import ZArith List Bool Lia.
From LK Require Import Gen.C20_shape Model.C20_sampling Proofs.C20_key Proofs.C20_resample.
Import ListNotations.
Open Scope Z_scope.

Definition ncolumns (n : option nat) : nat := match n with None => 1%nat | Some k => k end.
Definition draws_ok (m : mat) (w : weighting) (ds : list Z) : Prop := Forall (fun d => 0 <= d < pop_n m w) ds.
Definition occurs (m : mat) (c : Z) : Prop := exists r, In (r, c) (m_pairs m).

Lemma column_of_length len k j d : length (column_of len k j d) = len.
Proof. unfold column_of. rewrite map_length, seq_length. reflexivity. Qed.

Lemma column_of_Forall (P : Z -> Prop) len k j d :
  (j < k)%nat -> length d = (len * k)%nat -> Forall P d -> Forall P (column_of len k j d).
Proof.
  intros Hj L Hd. unfold column_of. rewrite Forall_map, Forall_forall. intros i Hi.
  apply in_seq in Hi. rewrite Forall_forall in Hd. apply Hd. apply nth_In. rewrite L. nia.
Qed.

Lemma initial_columns_Forall (P : Z -> Prop) len k d :
  length d = (len * k)%nat -> Forall P d ->
  Forall (Forall P) (map (fun j => column_of len k j d) (seq 0 k)).
Proof.
  intros L Hd. rewrite Forall_map, Forall_forall. intros j Hj. apply in_seq in Hj.
  apply column_of_Forall; [lia|exact L|exact Hd].
Qed.

Lemma initial_columns_shape len k d :
  length (map (fun j => column_of len k j d) (seq 0 k)) = k /\
  Forall (fun c => length c = len) (map (fun j => column_of len k j d) (seq 0 k)).
Proof.
  split; [rewrite map_length, seq_length; reflexivity|].
  rewrite Forall_map, Forall_forall. intros j _. apply column_of_length.
Qed.

(* the central statement about the whole call, for an arbitrary predicate on columns *)
Lemma sample_Forall (P : Z -> Prop) m w verify att n rows ds out warns rest :
  sample m w verify att n rows ds = Ok (out, warns, rest) ->
  Forall (fun d => P (col_of m w d)) ds -> Forall (Forall P) out.
Proof.
  unfold sample. intros H Hd.
  destruct (draw_columns m w _ ds) as [[d ds1]| |] eqn:Ed; try discriminate.
  destruct (draw_columns_spec _ _ _ _ _ _ Ed) as [d0 [-> [Ld ->]]].
  apply Forall_app in Hd. destruct Hd as [Hd1 Hd2].
  assert (Forall (Forall P) (map (fun j => column_of (length rows) (ncolumns n) j (map (col_of m w) d0)) (seq 0 (ncolumns n)))) as Hi.
  { apply initial_columns_Forall; [rewrite map_length; exact Ld|rewrite Forall_map; exact Hd1]. }
  fold (ncolumns n) in H. destruct verify.
  - apply (resample_cols_Forall m w P _ _ _ _ _ _ _ H Hi Hd2).
  - inversion H; subst. exact Hi.
Qed.

Lemma sample_shape m w verify att n rows ds out warns rest :
  sample m w verify att n rows ds = Ok (out, warns, rest) ->
  length out = ncolumns n /\ Forall (fun c => length c = length rows) out.
Proof.
  unfold sample. intros H. fold (ncolumns n) in H.
  destruct (draw_columns m w _ ds) as [[d ds1]| |] eqn:Ed; try discriminate.
  destruct (initial_columns_shape (length rows) (ncolumns n) d) as [L F].
  destruct verify.
  - destruct (resample_cols_account m w _ _ _ _ _ _ _ H F) as [Lo [Fo _]]. split; [lia|exact Fo].
  - inversion H; subst. split; assumption.
Qed.

Lemma sample_account m w att n rows ds out warns rest :
  sample m w true att n rows ds = Ok (out, warns, rest) ->
  observed_cells m rows out = zsum warns /\ Forall (fun x => 0 < x) warns /\ (length warns <= ncolumns n)%nat.
Proof.
  unfold sample. intros H. fold (ncolumns n) in H.
  destruct (draw_columns m w _ ds) as [[d ds1]| |] eqn:Ed; try discriminate.
  destruct (initial_columns_shape (length rows) (ncolumns n) d) as [L F].
  destruct (resample_cols_account m w _ _ _ _ _ _ _ H F) as [Lo [Fo [A [Pw Nw]]]].
  split; [exact A|]. split; [exact Pw|lia].
Qed.

Lemma sample_unverified_silent m w att n rows ds out warns rest :
  sample m w false att n rows ds = Ok (out, warns, rest) -> warns = [].
Proof.
  unfold sample. destruct (draw_columns m w _ ds) as [[d ds1]| |]; try discriminate. intro H; inversion H; reflexivity.
Qed.

(* draws in range stand for column numbers *)
Lemma col_of_range m w d : wf m -> 0 <= d < pop_n m w -> 0 <= col_of m w d < m_ncols m.
Proof.
  intros [Hn Hp] Hd. destruct w; unfold col_of, pop_n, uniform_colmap, uniform_population, popular_colmap, popular_population,
    apply_colmap, pop_size in *.
  - exact Hd.
  - unfold nnz in Hd. rewrite Forall_forall in Hp.
    assert (In (nth (Z.to_nat d) (m_pairs m) (0, 0)) (m_pairs m)) as Hin by (apply nth_In; lia).
    apply Hp in Hin. lia.
Qed.

Lemma col_of_popular_occurs m d : 0 <= d < pop_n m Popular -> occurs m (col_of m Popular d).
Proof.
  intro Hd. unfold col_of, pop_n, popular_colmap, popular_population, apply_colmap, pop_size, nnz in *.
  assert (In (nth (Z.to_nat d) (m_pairs m) (0, 0)) (m_pairs m)) as Hin by (apply nth_In; lia).
  destruct (nth (Z.to_nat d) (m_pairs m) (0, 0)) as [r c] eqn:E. exists r. exact Hin.
Qed.

Lemma zsum_pos_nil l : Forall (fun x => 0 < x) l -> zsum l = 0 -> l = [].
Proof.
  intros F E. destruct l as [|x r]; [reflexivity|]. inversion F; subst.
  assert (0 <= zsum r) by (clear -H2; induction r; cbn; [lia|inversion H2; subst; specialize (IHr H3); lia]).
  cbn in E. lia.
Qed.
Lemma zsum_nonneg_terms l : Forall (fun x => 0 <= x) l -> zsum l = 0 -> Forall (fun x => x = 0) l.
Proof.
  induction l as [|x r IH]; intros F E; [constructor|]. inversion F; subst.
  assert (0 <= zsum r) by (clear -H2; induction r; cbn; [lia|inversion H2; subst; specialize (IHr H3); lia]).
  cbn in E. constructor; [lia|apply IH; [assumption|lia]].
Qed.

Lemma count_true_zero l : count_true l = 0 -> Forall (fun b => b = false) l.
Proof.
  unfold count_true. induction l as [|b l IH]; intro H; [constructor|].
  destruct b; cbn in H; [lia|]. constructor; [reflexivity|apply IH; exact H].
Qed.

(* no observed cell survives without a warning *)
Lemma verified_or_warned_l m w att n rows ds out warns rest :
  wf m -> rows_ok rows -> draws_ok m w ds ->
  sample m w true att n rows ds = Ok (out, warns, rest) ->
  warns = [] ->
  forall col i r c, In col out -> nth_error rows i = Some r -> nth_error col i = Some c -> ~ observed m r c.
Proof.
  intros Hwf Hrows Hds H Hw col i r c Hcol Hr Hc Hobs.
  destruct (sample_account _ _ _ _ _ _ _ _ _ H) as [A _]. subst warns. cbn in A.
  assert (Forall (Forall (fun c => 0 <= c < m_ncols m)) out) as Hrange.
  { apply (sample_Forall _ _ _ _ _ _ _ _ _ _ _ H). unfold draws_ok in Hds.
    eapply Forall_impl; [|exact Hds]. intros d Hd. apply col_of_range; assumption. }
  unfold observed_cells in A.
  apply zsum_nonneg_terms in A; [|rewrite Forall_map, Forall_forall; intros; apply count_true_nonneg].
  rewrite Forall_map, Forall_forall in A. specialize (A _ Hcol). apply count_true_zero in A.
  pose proof (check_nth m rows col i r c Hr Hc) as Hn.
  rewrite Forall_forall in A. apply nth_error_In in Hn. apply A in Hn.
  rewrite Forall_forall in Hrange. specialize (Hrange _ Hcol). rewrite Forall_forall in Hrange.
  apply nth_error_In in Hc. specialize (Hrange _ Hc).
  unfold rows_ok in Hrows. rewrite Forall_forall in Hrows. apply nth_error_In in Hr. specialize (Hrows _ Hr).
  destruct Hwf as [Hn32 Hp].
  assert (hit m r c = true) as Hh by (apply mem_observed; [split; assumption|exact Hrows|lia|exact Hobs]).
  congruence.
Qed.
