(* C19 -- uniform selection, exact count: over all arrangements of N distinct positions, the number that place a given
   position among the first n is  min(n, N) * N! / N  -- for EVERY n, in particular n = 1 ((N-1)! arrangements),
   n = N-1 and n = N (all of them).  With an ideal generator (every arrangement equally likely) every item is
   therefore selected with probability min(n, N) / N: the value the frequency exercise compares against.
   Double counting + the symmetry lemma of Proofs/C19_uniform.v.  Axiom-free. *)
From Coq Require Import Arith List Bool Lia Permutation.
From LK Require Import Proofs.C19_uniform.
Import ListNotations.

Lemma list_sum_const {A} (l : list A) c : list_sum (map (fun _ => c) l) = length l * c.
Proof. induction l as [|x l IH]; simpl; [reflexivity|]. rewrite IH. lia. Qed.
Lemma list_sum_same {A} (f : A -> nat) (l : list A) c :
  (forall x, In x l -> f x = c) -> list_sum (map f l) = length l * c.
Proof.
  induction l as [|x l IH]; simpl; intro H; [reflexivity|].
  rewrite (H x) by (left; reflexivity). rewrite IH by (intros; apply H; right; assumption). lia.
Qed.
Lemma list_sum_add {A} (f h : A -> nat) l :
  list_sum (map (fun b => f b + h b) l) = list_sum (map f l) + list_sum (map h l).
Proof. induction l as [|x l IH]; simpl; [reflexivity|]. rewrite IH. lia. Qed.
Lemma filter_length_sum {A} (f : A -> bool) l :
  length (filter f l) = list_sum (map (fun b => if f b then 1 else 0) l).
Proof. induction l as [|x l IH]; simpl; [reflexivity|]. destruct (f x); simpl; rewrite IH; reflexivity. Qed.

(* counting the pairs (a, b) with g a b row by row or column by column *)
Lemma double_count {A B} (g : A -> B -> bool) (la : list A) (lb : list B) :
  list_sum (map (fun a => length (filter (g a) lb)) la)
  = list_sum (map (fun b => length (filter (fun a => g a b) la)) lb).
Proof.
  induction la as [|a la IH]; simpl.
  - rewrite (list_sum_const lb 0). lia.
  - rewrite IH, filter_length_sum, <- list_sum_add. f_equal. apply map_ext. intro b.
    destruct (g a b); reflexivity.
Qed.

Lemma existsb_eqb_In i (S : list nat) : existsb (Nat.eqb i) S = true <-> In i S.
Proof.
  rewrite existsb_exists. split.
  - intros [x [Hx E]]. apply Nat.eqb_eq in E. subst. exact Hx.
  - intro H. exists i. split; [exact H|apply Nat.eqb_refl].
Qed.

(* how many members of l lie in a duplicate-free sub-collection S of l *)
Lemma members_counted (S l : list nat) :
  NoDup S -> NoDup l -> incl S l -> length (filter (fun i => existsb (Nat.eqb i) S) l) = length S.
Proof.
  intros HS Hl Hi. apply Permutation_length. apply NoDup_Permutation.
  - apply NoDup_filter. exact Hl.
  - exact HS.
  - intro x. rewrite filter_In, existsb_eqb_In. split; [tauto|]. intro H. split; [apply Hi; exact H|exact H].
Qed.

Lemma firstn_In_compat {A} n (p : list A) x : In x (firstn n p) -> In x p.
Proof.
  revert n. induction p as [|y p IH]; intros n H; destruct n; simpl in *; try tauto.
  destruct H as [H|H]; [left; exact H|right; eapply IH; exact H].
Qed.

Lemma NoDup_firstn {A} n (p : list A) : NoDup p -> NoDup (firstn n p).
Proof.
  revert n. induction p as [|x p IH]; intros n H; destruct n; simpl; try constructor.
  - inversion H as [|? ? Hn Hp]; subst. intro Hi. apply Hn. eapply firstn_In_compat. exact Hi.
  - inversion H; subst. apply IH. assumption.
Qed.

Lemma first_n_members n l p :
  NoDup l -> Permutation l p -> length (filter (fun i => in_first n i p) l) = Nat.min n (length l).
Proof.
  intros Hl Hp. unfold in_first. rewrite members_counted.
  - rewrite firstn_length, (Permutation_length Hp). reflexivity.
  - apply NoDup_firstn. eapply Permutation_NoDup; eassumption.
  - exact Hl.
  - intros x Hx. apply (Permutation_in _ (Permutation_sym Hp)). eapply firstn_In_compat; exact Hx.
Qed.

Lemma uniform_inclusion_count_l (l : list nat) (n i : nat) :
  NoDup l -> In i l ->
  count_first n i l * length l = Nat.min n (length l) * fact (length l).
Proof.
  intros Hl Hi.
  assert (E1 : list_sum (map (fun a => count_first n a l) l) = length l * count_first n i l).
  { apply list_sum_same. intros x Hx. apply uniform_symmetric_l; assumption. }
  assert (E2 : list_sum (map (fun a => count_first n a l) l)
               = list_sum (map (fun p => length (filter (fun a => in_first n a p) l)) (perms l))).
  { unfold count_first. apply (double_count (fun a p => in_first n a p) l (perms l)). }
  assert (E3 : list_sum (map (fun p => length (filter (fun a => in_first n a p) l)) (perms l))
               = length (perms l) * Nat.min n (length l)).
  { apply list_sum_same. intros p Hp. apply first_n_members; [exact Hl|apply perms_sound; exact Hp]. }
  rewrite perms_length in E3. lia.
Qed.

(* the ends of the range, spelled out *)
Lemma uniform_inclusion_ends (l : list nat) (i : nat) :
  NoDup l -> In i l ->
  count_first 1 i l * length l = fact (length l) /\                       (* n = 1: probability 1/N *)
  count_first (length l - 1) i l * length l = (length l - 1) * fact (length l) /\   (* n = N-1: (N-1)/N *)
  count_first (length l) i l = fact (length l).                            (* n = N: always selected *)
Proof.
  intros Hl Hi.
  assert (Hpos : 1 <= length l) by (destruct l; [destruct Hi|simpl; lia]).
  pose proof (uniform_inclusion_count_l l 1 i Hl Hi) as H1.
  pose proof (uniform_inclusion_count_l l (length l - 1) i Hl Hi) as H2.
  pose proof (uniform_inclusion_count_l l (length l) i Hl Hi) as H3.
  rewrite Nat.min_l in H1 by lia. rewrite Nat.min_l in H2 by lia. rewrite Nat.min_id in H3.
  split; [lia|]. split; [exact H2|]. nia.
Qed.

Lemma uniform_inclusion_full : forall (l : list nat) (n i : nat),
  NoDup l -> In i l ->
  count_first n i l * length l = Nat.min n (length l) * fact (length l) /\
  count_first 1 i l * length l = fact (length l) /\
  count_first (length l - 1) i l * length l = (length l - 1) * fact (length l) /\
  count_first (length l) i l = fact (length l).
Proof. intros l n i Hl Hi. split; [apply uniform_inclusion_count_l; assumption|apply uniform_inclusion_ends; assumption]. Qed.
