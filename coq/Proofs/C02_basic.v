(* C02 -- invariants of the runner that hold for every graph (cyclic or not), every fuel:
   generic preservation lemmas for the input loop and the body, then
     * at most one execution per component (status table is monotone),
     * errors pass through unchanged (every node that failed in a run failed with the exception
       the run ends with),
     * only components reachable from the requested node through the wiring are executed. *)
From Coq Require Import ZArith List Bool Arith Lia.
From LK Require Import Model.C02_runner.
Import ListNotations.

Lemma eqb_refl' n : Nat.eqb n n = true. Proof. apply Nat.eqb_refl. Qed.

Definition srcs (ps : list param) : list name :=
  flat_map (fun p => match p_src p with Some s => [s] | None => [] end) ps.

Lemma srcs_cons_in p ps src : p_src p = Some src -> In src (srcs (p :: ps)).
Proof. intros H. unfold srcs. simpl. rewrite H. simpl. auto. Qed.
Lemma srcs_cons_tl p ps src : In src (srcs ps) -> In src (srcs (p :: ps)).
Proof. intros H. unfold srcs in *. simpl. apply in_or_app. auto. Qed.
Lemma srcs_nth ps i q src : nth_error ps i = Some q -> p_src q = Some src -> In src (srcs ps).
Proof.
  revert i. induction ps as [|p ps IH]; intros [|i] H Hs; simpl in H; try discriminate.
  - inversion H; subst. eapply srcs_cons_in; eauto.
  - apply srcs_cons_tl. eauto.
Qed.

(* ---------------------------------------------------------------------------------------- *)
(* generic: a state predicate preserved by the recursive calls is preserved by the input loop  *)
(* and by the body                                                                            *)
(* ---------------------------------------------------------------------------------------- *)

Section Pres.
Variable I : st -> Prop.
Variable rec : st -> name -> bool -> st * result.

Lemma run_args_pres required : forall ps,
  (forall s src rq s' res, In src (srcs ps) -> I s -> rec s src rq = (s', res) -> I s') ->
  forall s acc s' ar, I s -> run_args rec required ps s acc = (s', ar) -> I s'.
Proof.
  induction ps as [|p ps IH]; intros Hrec s acc s' ar Hs Hrun; simpl in Hrun.
  - inversion Hrun; subst; auto.
  - assert (Htl : forall s src rq s' res, In src (srcs ps) -> I s -> rec s src rq = (s', res) -> I s').
    { intros; eapply Hrec; eauto using srcs_cons_tl. }
    destruct (p_src p) as [src|] eqn:Esrc.
    + destruct (p_lazy p) eqn:El.
      * eapply IH; eauto.
      * destruct (rec s src (required && p_strict p)) as [s1 iv] eqn:Er.
        assert (Hs1 : I s1) by (eapply Hrec; eauto using srcs_cons_in).
        destruct iv as [v|e].
        -- destruct (is_none v && p_strict p && negb required); [inversion Hrun; subst; auto|].
           destruct (p_typed p && negb (p_compat p v)); [inversion Hrun; subst; auto|].
           eapply IH; eauto.
        -- inversion Hrun; subst; auto.
    + destruct (p_lazy p) eqn:El.
      * eapply IH; eauto.
      * cbn [is_none] in Hrun.
        destruct (true && p_strict p && negb required); [inversion Hrun; subst; auto|].
        destruct (p_typed p && negb (p_compat p None)); [inversion Hrun; subst; auto|].
        eapply IH; eauto.
Qed.

Lemma exec_pres ps required :
  (forall s src rq s' res, In src (srcs ps) -> I s -> rec s src rq = (s', res) -> I s') ->
  forall p s s' res, I s -> exec rec ps required p s = (s', res) -> I s'.
Proof.
  intros Hrec. induction p as [v|e|i k IH|i k IHk h IHh]; intros s s' res Hs Hrun; simpl in Hrun.
  - inversion Hrun; subst; auto.
  - inversion Hrun; subst; auto.
  - destruct (nth_error ps i) as [q|] eqn:Eq; [|inversion Hrun; subst; auto].
    destruct (negb (p_lazy q)); [inversion Hrun; subst; auto|].
    destruct (p_src q) as [src|] eqn:Esrc.
    + destruct (rec s src (required && p_strict q)) as [s1 r] eqn:Er.
      assert (Hs1 : I s1) by (eapply Hrec; eauto using srcs_nth).
      destruct r as [v|e]; [|inversion Hrun; subst; auto].
      destruct (p_typed q && negb (p_compat q v)); [inversion Hrun; subst; auto|].
      eapply IH; eauto.
    + eapply IH; eauto.
  - (* a body that catches: whatever the forced input did, the state predicate is kept and the body goes on *)
    destruct (nth_error ps i) as [q|] eqn:Eq; [|inversion Hrun; subst; auto].
    destruct (negb (p_lazy q)); [inversion Hrun; subst; auto|].
    destruct (p_src q) as [src|] eqn:Esrc.
    + destruct (rec s src (required && p_strict q)) as [s1 r] eqn:Er.
      assert (Hs1 : I s1) by (eapply Hrec; eauto using srcs_nth).
      destruct r as [v|e]; [|eapply IHh; eauto].
      destruct (p_typed q && negb (p_compat q v)); [eapply IHh; eauto|].
      eapply IHk; eauto.
    + eapply IHk; eauto.
Qed.
End Pres.

(* ---------------------------------------------------------------------------------------- *)
(* at most once                                                                               *)
(* ---------------------------------------------------------------------------------------- *)

Definition J (s : st) : Prop := NoDup (log s) /\ forall c, In c (log s) -> stat s c <> Pending.
Definition mono (s s' : st) : Prop := forall m, stat s m <> Pending -> stat s' m <> Pending.
Definition grow (s s' : st) : Prop := forall c, In c (log s') -> In c (log s) \/ stat s c = Pending.
Definition T (s s' : st) : Prop := mono s s' /\ grow s s' /\ (J s -> J s').

Lemma T_refl s : T s s.
Proof. unfold T, mono, grow; intuition. Qed.
Lemma T_trans a b c : T a b -> T b c -> T a c.
Proof.
  intros (m1 & g1 & j1) (m2 & g2 & j2). split; [|split].
  - intros m H. apply m2, m1, H.
  - intros x H. destruct (g2 x H) as [H1|H1].
    + apply g1, H1.
    + right. destruct (stat a x) eqn:E; auto; exfalso; apply (m1 x); congruence.
  - intros Ha. apply j2, j1, Ha.
Qed.

Lemma T_set_stat s n x : x <> Pending -> T s (set_stat s n x).
Proof.
  intros Hx. split; [|split].
  - intros m H. simpl. destruct (Nat.eqb m n); [exact Hx|exact H].
  - intros c H. left. exact H.
  - intros [H1 H2]. split; [exact H1|].
    intros c Hc. simpl. destruct (Nat.eqb c n); [exact Hx|apply H2, Hc].
Qed.
Lemma T_set_val s n v : T s (set_val s n v).
Proof. split; [|split]; [intros m Hm; exact Hm|intros c Hc; left; exact Hc|intros H; exact H]. Qed.

Section Once.
Variable g : graph.
Variable inputs : list (name * val).

Definition rec_T (rec : st -> name -> bool -> st * result) : Prop :=
  forall s n r s' res, rec s n r = (s', res) -> T s s'.

Lemma run_step_T rec : rec_T rec -> rec_T (run_step g inputs rec).
Proof.
  intros Hrec s n r s' res Hrun. unfold run_step in Hrun.
  destruct (stat s n) eqn:Est.
  - (* pending *)
    set (s0 := set_stat s n InProgress) in *.
    assert (T0 : T s s0) by (apply T_set_stat; discriminate).
    assert (Hcalls : forall ps sa src rq sb res0, In src (srcs ps) -> T s0 sa -> rec sa src rq = (sb, res0) -> T s0 sb).
    { intros ps sa src rq sb res0 _ Ha Hr. eapply T_trans; eauto. }
    assert (Hfin : forall s1 x, x <> Pending -> T s s1 ->
              forall out, finish_lookup (set_stat s1 n x) n r = out -> T s (fst out)).
    { intros s1 x Hx H1 out <-. unfold finish_lookup.
      destruct (vals (set_stat s1 n x) n); [|destruct r]; simpl;
        (eapply T_trans; [exact H1|apply T_set_stat; exact Hx]). }
    unfold run_node in Hrun.
    destruct (lookup n g) as [[typed nullable|v|ps body]|] eqn:Eg.
    + (* input *)
      destruct (lookup n inputs) as [v|].
      * destruct (typed && negb (is_int v)).
        -- inversion Hrun; subst. eapply T_trans; [exact T0|apply T_set_stat; discriminate].
        -- change s' with (fst (s', res)). eapply Hfin; [| |exact Hrun]; [discriminate|].
           eapply T_trans; [exact T0|apply T_set_val].
      * destruct (typed && negb nullable).
        -- destruct r.
           ++ inversion Hrun; subst. eapply T_trans; [exact T0|apply T_set_stat; discriminate].
           ++ change s' with (fst (s', res)). eapply Hfin; [| |exact Hrun]; [discriminate|exact T0].
        -- change s' with (fst (s', res)). eapply Hfin; [| |exact Hrun]; [discriminate|].
           eapply T_trans; [exact T0|apply T_set_val].
    + (* literal *)
      change s' with (fst (s', res)). eapply Hfin; [| |exact Hrun]; [discriminate|].
      eapply T_trans; [exact T0|apply T_set_val].
    + (* component *)
      destruct (run_args rec r ps s0 []) as [s1 ar] eqn:Ea.
      assert (T1 : T s0 s1).
      { eapply (run_args_pres (T s0) rec r ps); [|apply T_refl|exact Ea]. intros; eapply Hcalls; eauto. }
      destruct ar as [a| |e].
      * (* body runs *)
        assert (Tl : T s (add_log s1 n)).
        { destruct T0 as (m0 & g0 & j0). destruct T1 as (m1 & g1 & j1). split; [|split].
          - intros m Hm. simpl. apply m1, m0, Hm.
          - intros c Hc. simpl in Hc. destruct Hc as [<-|Hc]; [right; exact Est|].
            destruct (g1 c Hc) as [H|H]; [left; exact H|].
            right. unfold s0 in H. simpl in H. destruct (Nat.eqb c n); [discriminate|exact H].
          - intros Hj0. split; simpl.
            + constructor.
              * intros Hin. destruct (g1 n Hin) as [H|H].
                -- unfold s0 in H. simpl in H. destruct Hj0 as [_ Hj]. apply (Hj n H). exact Est.
                -- unfold s0 in H. simpl in H. rewrite eqb_refl' in H. discriminate.
              * apply j1, j0, Hj0.
            + intros c [<-|Hc].
              * apply m1. unfold s0. simpl. rewrite eqb_refl'. discriminate.
              * destruct (j1 (j0 Hj0)) as [_ Hj]. apply Hj, Hc. }
        destruct (exec rec ps r (body a) (add_log s1 n)) as [s2 r2] eqn:Ee.
        assert (T2 : T s s2).
        { eapply (exec_pres (T s) rec ps r); [|exact Tl|exact Ee].
          intros sa src rq sb res0 _ Ha Hr. eapply T_trans; eauto. }
        destruct r2 as [v|e].
        -- change s' with (fst (s', res)). eapply Hfin; [| |exact Hrun]; [discriminate|].
           eapply T_trans; [exact T2|apply T_set_val].
        -- inversion Hrun; subst. eapply T_trans; [exact T2|apply T_set_stat; discriminate].
      * change s' with (fst (s', res)). eapply Hfin; [| |exact Hrun]; [discriminate|].
        eapply T_trans; eauto.
      * inversion Hrun; subst. eapply T_trans; [eapply T_trans; eauto|apply T_set_stat; discriminate].
    + inversion Hrun; subst. eapply T_trans; [exact T0|apply T_set_stat; discriminate].
  - inversion Hrun; subst. apply T_refl.
  - unfold finish_lookup in Hrun. destruct (vals s n); [|destruct r]; inversion Hrun; subst; apply T_refl.
  - inversion Hrun; subst. apply T_refl.
Qed.

Lemma run_T fuel : rec_T (run g inputs fuel).
Proof.
  induction fuel as [|f IH].
  - intros s n r s' res H. simpl in H. inversion H; subst. apply T_refl.
  - simpl. apply run_step_T, IH.
Qed.

Lemma run_list_T fuel : forall ns s s' e, run_list g inputs fuel s ns = (s', e) -> T s s'.
Proof.
  induction ns as [|n ns IH]; intros s s' e H; simpl in H.
  - inversion H; subst. apply T_refl.
  - destruct (run g inputs fuel s n true) as [s1 r] eqn:Er.
    pose proof (run_T fuel _ _ _ _ _ Er) as T1.
    destruct r; [eapply T_trans; eauto|inversion H; subst; exact T1].
Qed.

Lemma J_init : J init.
Proof. split; simpl; [constructor|intros c []]. Qed.

Lemma at_most_once_l : forall fuel ns s e, run_all g inputs fuel ns = (s, e) -> NoDup (log s).
Proof.
  intros fuel ns s e H. unfold run_all in H. apply run_list_T in H.
  destruct H as (_ & _ & Hj). apply Hj, J_init.
Qed.
End Once.

(* ---------------------------------------------------------------------------------------- *)
(* a node that failed stays failed for the rest of the run and is not evaluated again          *)
(* (what matters when a body catches the failure of a lazy input and the run goes on)          *)
(* ---------------------------------------------------------------------------------------- *)

Definition settled (x : status) : Prop := x = Finished \/ exists e, x = Failed e.
Definition keep (s s' : st) : Prop := forall m, settled (stat s m) -> stat s' m = stat s m.

Lemma keep_refl s : keep s s.
Proof. intros m _. reflexivity. Qed.
Lemma keep_trans a b c : keep a b -> keep b c -> keep a c.
Proof. intros H1 H2 m Hm. rewrite (H2 m); [apply H1, Hm|]. rewrite (H1 m Hm). exact Hm. Qed.
Lemma keep_set_stat s n x : stat s n = Pending -> keep s (set_stat s n x).
Proof.
  intros Hp m Hm. simpl. destruct (Nat.eqb m n) eqn:E; [|reflexivity].
  apply Nat.eqb_eq in E. subst. rewrite Hp in Hm. destruct Hm as [Hm|[e Hm]]; discriminate.
Qed.
Lemma keep_set_stat2 s s1 n x : stat s n = Pending -> keep s s1 -> keep s (set_stat s1 n x).
Proof.
  intros Hp H m Hm. simpl. destruct (Nat.eqb m n) eqn:E; [|apply H, Hm].
  apply Nat.eqb_eq in E. subst. rewrite Hp in Hm. destruct Hm as [Hm|[e Hm]]; discriminate.
Qed.
Lemma keep_stat_eq s s1 s2 : (forall m, stat s2 m = stat s1 m) -> keep s s1 -> keep s s2.
Proof. intros E H m Hm. rewrite E. apply H, Hm. Qed.

Section Keep.
Variable g : graph.
Variable inputs : list (name * val).

Definition rec_K (rec : st -> name -> bool -> st * result) : Prop :=
  forall s n r s' res, rec s n r = (s', res) -> keep s s'.

Lemma run_step_K rec : rec_K rec -> rec_K (run_step g inputs rec).
Proof.
  intros Hrec s n r s' res Hrun. unfold run_step in Hrun.
  assert (Hfl : forall s1 out, finish_lookup s1 n r = out -> forall m, stat (fst out) m = stat s1 m).
  { intros s1 out <- m. unfold finish_lookup. destruct (vals s1 n); [|destruct r]; reflexivity. }
  destruct (stat s n) eqn:Est.
  - set (s0 := set_stat s n InProgress) in *.
    assert (K0 : keep s s0) by (apply keep_set_stat; exact Est).
    assert (Hfin : forall s1 x, keep s s1 -> finish_lookup (set_stat s1 n x) n r = (s', res) -> keep s s').
    { intros s1 x H1 Hf. eapply keep_stat_eq; [exact (Hfl _ _ Hf)|]. apply keep_set_stat2; auto. }
    assert (Hcalls : forall ps sa src rq sb res0, In src (srcs ps) -> keep s sa -> rec sa src rq = (sb, res0) -> keep s sb).
    { intros ps sa src rq sb res0 _ Ha Hr. eapply keep_trans; [exact Ha|eapply Hrec; eauto]. }
    unfold run_node in Hrun.
    destruct (lookup n g) as [[typed nullable|v|ps body]|] eqn:Eg.
    + destruct (lookup n inputs) as [v|]; [destruct (typed && negb (is_int v))|destruct (typed && negb nullable); [destruct r|]];
        try (inversion Hrun; subst; apply keep_set_stat2; auto; fail);
        (eapply Hfin; [|exact Hrun]; eapply keep_stat_eq; [|exact K0]; reflexivity).
    + eapply Hfin; [|exact Hrun]. eapply keep_stat_eq; [|exact K0]. reflexivity.
    + destruct (run_args rec r ps s0 []) as [s1 ar] eqn:Ea.
      assert (K1 : keep s s1) by (eapply (run_args_pres (keep s) rec r ps (Hcalls ps)); [exact K0|exact Ea]).
      destruct ar as [a| |e].
      * destruct (exec rec ps r (body a) (add_log s1 n)) as [s2 r2] eqn:Ee.
        assert (K2 : keep s s2).
        { eapply (exec_pres (keep s) rec ps r (Hcalls ps)); [|exact Ee]. eapply keep_stat_eq; [|exact K1]. reflexivity. }
        destruct r2 as [v|e].
        -- eapply Hfin; [|exact Hrun]. eapply keep_stat_eq; [|exact K2]. reflexivity.
        -- inversion Hrun; subst. apply keep_set_stat2; auto.
      * eapply Hfin; [|exact Hrun]. exact K1.
      * inversion Hrun; subst. apply keep_set_stat2; auto.
    + inversion Hrun; subst. apply keep_set_stat2; auto.
  - inversion Hrun; subst. apply keep_refl.
  - eapply keep_stat_eq; [exact (Hfl _ _ Hrun)|apply keep_refl].
  - inversion Hrun; subst. apply keep_refl.
Qed.

Lemma run_K fuel : rec_K (run g inputs fuel).
Proof.
  induction fuel as [|f IH].
  - intros s n r s' res H. simpl in H. inversion H; subst. apply keep_refl.
  - simpl. apply run_step_K, IH.
Qed.

Lemma run_list_K fuel : forall ns s s' e, run_list g inputs fuel s ns = (s', e) -> keep s s'.
Proof.
  induction ns as [|n ns IH]; intros s s' e H; simpl in H.
  - inversion H; subst. apply keep_refl.
  - destruct (run g inputs fuel s n true) as [s1 r] eqn:Er.
    pose proof (run_K fuel _ _ _ _ _ Er) as K1.
    destruct r; [eapply keep_trans; eauto|inversion H; subst; exact K1].
Qed.

(* the three facts about a failure that a body caught:  (1) asking for a failed node again returns
   the runner's "previously failed" error and touches nothing (no body runs);  (2) whatever else
   runs afterwards -- any request, any fuel -- the node is still failed, with the same exception,
   and a finished node is still finished;  (3) so over a whole run no body is called twice
   (at_most_once_l above, which holds for catching bodies as well). *)
Lemma failed_not_retried_l :
  (forall fuel s n r e, stat s n = Failed e -> run g inputs (S fuel) s n r = (s, Err EFailed)) /\
  (forall fuel s n r s' res, run g inputs fuel s n r = (s', res) ->
     forall m, (stat s m = Finished -> stat s' m = Finished) /\ (forall e, stat s m = Failed e -> stat s' m = Failed e)) /\
  (forall fuel ns s s' x, run_list g inputs fuel s ns = (s', x) ->
     forall m, (stat s m = Finished -> stat s' m = Finished) /\ (forall e, stat s m = Failed e -> stat s' m = Failed e)).
Proof.
  split; [|split].
  - intros fuel s n r e H. simpl. unfold run_step. rewrite H. reflexivity.
  - intros fuel s n r s' res H m. pose proof (run_K fuel _ _ _ _ _ H m) as K. split.
    + intros Hm. rewrite K; [exact Hm|left; exact Hm].
    + intros e Hm. rewrite K; [exact Hm|right; eauto].
  - intros fuel ns s s' x H m. pose proof (run_list_K fuel _ _ _ _ H m) as K. split.
    + intros Hm. rewrite K; [exact Hm|left; exact Hm].
    + intros e Hm. rewrite K; [exact Hm|right; eauto].
Qed.
End Keep.

(* ---------------------------------------------------------------------------------------- *)
(* generic, result-sensitive: I holds after a normal return, E e after an error e             *)
(* ---------------------------------------------------------------------------------------- *)

(* a Raise reachable in a body *)
Inductive raises : prog -> exn -> Prop :=
| raises_here e : raises (Raise e) e
| raises_k i k v e : raises (k v) e -> raises (Force i k) e
| raises_tk i k h v e : raises (k v) e -> raises (TryForce i k h) e
| raises_th i k h x e : raises (h x) e -> raises (TryForce i k h) e.

(* bodies that do not catch the exceptions of their lazy inputs *)
Inductive nocatch : prog -> Prop :=
| nc_ret v : nocatch (Ret v)
| nc_raise e : nocatch (Raise e)
| nc_force i k : (forall v, nocatch (k v)) -> nocatch (Force i k).
Definition catch_free (g : graph) : Prop :=
  forall n ps body, In (n, Comp ps body) g -> forall a, nocatch (body a).

(* the runner's own diagnostics *)
Definition diag (e : exn) : Prop :=
  e = EMissing \/ e = EType \/ e = ECycle \/ e = EFailed \/ e = ENoNode \/ e = EFuel.
Ltac diag := unfold diag; tauto.

Section Pres2.
Variable I : st -> Prop.
Variable E : exn -> st -> Prop.
Variable rec : st -> name -> bool -> st * result.
Hypothesis local_err : forall s e, diag e -> I s -> E e s.     (* an error signalled by the runner itself *)

Definition post (s' : st) (res : result) : Prop := match res with Ok _ => I s' | Err e => E e s' end.

Lemma run_args_pres2 required : forall ps,
  (forall s src rq s' res, In src (srcs ps) -> I s -> rec s src rq = (s', res) -> post s' res) ->
  forall s acc s' ar, I s -> run_args rec required ps s acc = (s', ar) ->
  match ar with AErr e => E e s' | _ => I s' end.
Proof.
  induction ps as [|p ps IH]; intros Hrec s acc s' ar Hs Hrun; simpl in Hrun.
  - inversion Hrun; subst; auto.
  - assert (Htl : forall s src rq s' res, In src (srcs ps) -> I s -> rec s src rq = (s', res) -> post s' res).
    { intros; eapply Hrec; eauto using srcs_cons_tl. }
    assert (Hloc : forall (b : bool) s, I s -> E (if b then EMissing else EType) s).
    { intros b s0 H0. apply local_err; [destruct b; diag|exact H0]. }
    destruct (p_src p) as [src|] eqn:Esrc.
    + destruct (p_lazy p) eqn:El.
      * eapply IH; eauto.
      * destruct (rec s src (required && p_strict p)) as [s1 iv] eqn:Er.
        assert (Hs1 : post s1 iv) by (eapply Hrec; eauto using srcs_cons_in).
        destruct iv as [v|e]; simpl in Hs1.
        -- destruct (is_none v && p_strict p && negb required); [inversion Hrun; subst; auto|].
           destruct (p_typed p && negb (p_compat p v)); [inversion Hrun; subst; auto|].
           eapply IH; eauto.
        -- inversion Hrun; subst; auto.
    + destruct (p_lazy p) eqn:El.
      * eapply IH; eauto.
      * cbn [is_none] in Hrun.
        destruct (true && p_strict p && negb required); [inversion Hrun; subst; auto|].
        destruct (p_typed p && negb (p_compat p None)); [inversion Hrun; subst; apply (Hloc true); auto|].
        eapply IH; eauto.
Qed.

(* the body: an exception it raises itself (a reachable Raise) satisfies E by hypothesis *)
Lemma exec_pres2 ps required :
  (forall s src rq s' res, In src (srcs ps) -> I s -> rec s src rq = (s', res) -> post s' res) ->
  forall p, nocatch p -> (forall e s, raises p e -> I s -> E e s) ->
  forall s s' res, I s -> exec rec ps required p s = (s', res) -> post s' res.
Proof.
  intros Hrec p Hnc. induction Hnc as [v|e|i k Hk IH]; intros Hraise s s' res Hs Hrun; simpl in Hrun.
  - inversion Hrun; subst; simpl; auto.
  - inversion Hrun; subst; simpl. apply Hraise; [constructor|exact Hs].
  - assert (Hk' : forall v e s, raises (k v) e -> I s -> E e s).
    { intros v e s0 Hr. apply Hraise. econstructor; exact Hr. }
    destruct (nth_error ps i) as [q|] eqn:Eq; [|inversion Hrun; subst; simpl; apply local_err; [diag|auto]].
    destruct (negb (p_lazy q)); [inversion Hrun; subst; simpl; apply local_err; [diag|auto]|].
    destruct (p_src q) as [src|] eqn:Esrc.
    + destruct (rec s src (required && p_strict q)) as [s1 r] eqn:Er.
      assert (Hs1 : post s1 r) by (eapply Hrec; eauto using srcs_nth).
      destruct r as [v|e]; simpl in Hs1; [|inversion Hrun; subst; simpl; auto].
      destruct (p_typed q && negb (p_compat q v)); [inversion Hrun; subst; simpl; apply local_err; [diag|auto]|].
      eapply IH; eauto.
    + eapply IH; eauto.
Qed.
End Pres2.

(* ---------------------------------------------------------------------------------------- *)
(* exceptions pass through unchanged                                                          *)
(* ---------------------------------------------------------------------------------------- *)

Definition NF (s : st) : Prop := forall m e, stat s m <> Failed e.
Definition AllFailed (e : exn) (s : st) : Prop := forall m e', stat s m = Failed e' -> e' = e.
(* where an exception can come from: a diagnostic of the runner, or a Raise in the body of a component of g *)
Definition origin (g : graph) (e : exn) : Prop :=
  diag e \/ exists n ps body a, In (n, Comp ps body) g /\ raises (body a) e.

Lemma lookup_in {A} n (l : list (nat * A)) x : lookup n l = Some x -> In (n, x) l.
Proof.
  induction l as [|[m y] l IH]; simpl; [discriminate|].
  destruct (Nat.eqb n m) eqn:E.
  - intros H; inversion H; subst. apply Nat.eqb_eq in E; subst. auto.
  - auto.
Qed.

Section Transparent.
Variable g : graph.
Variable inputs : list (name * val).
Hypothesis Hcf : catch_free g.

Definition Epost (e : exn) (s : st) : Prop := AllFailed e s /\ origin g e.
Definition rec_E (rec : st -> name -> bool -> st * result) : Prop :=
  forall s n r s' res, NF s -> rec s n r = (s', res) -> post NF Epost s' res.

Lemma NF_AllFailed s e : NF s -> AllFailed e s.
Proof. intros H m e' Hm. exfalso. eapply H; eauto. Qed.
Lemma NF_set_stat s n x : (forall e, x <> Failed e) -> NF s -> NF (set_stat s n x).
Proof. intros Hx H m e. simpl. destruct (Nat.eqb m n); auto. Qed.
Lemma AllFailed_set e s n : AllFailed e s -> AllFailed e (set_stat s n (Failed e)).
Proof. intros H m e'. simpl. destruct (Nat.eqb m n); [intros Hm; inversion Hm; auto|apply H]. Qed.
Lemma diag_local s e : diag e -> NF s -> Epost e s.
Proof. intros Hd H. split; [apply NF_AllFailed, H|left; exact Hd]. Qed.

Lemma finish_E s n r s' res : NF s -> finish_lookup s n r = (s', res) -> post NF Epost s' res.
Proof.
  unfold finish_lookup. intros H Hf. destruct (vals s n); [|destruct r]; inversion Hf; subst; simpl; auto.
  apply diag_local; [diag|exact H].
Qed.

Lemma run_step_E rec : rec_E rec -> rec_E (run_step g inputs rec).
Proof.
  intros Hrec s n r s' res Hnf Hrun. unfold run_step in Hrun.
  destruct (stat s n) eqn:Est.
  - set (s0 := set_stat s n InProgress) in *.
    assert (H0 : NF s0) by (apply NF_set_stat; [discriminate|exact Hnf]).
    assert (Hfail : forall s1 e, Epost e s1 -> post NF Epost (set_stat s1 n (Failed e)) (Err e)).
    { intros s1 e [Ha Ho]. split; [apply AllFailed_set, Ha|exact Ho]. }
    assert (Hfin : forall s1, NF s1 -> finish_lookup (set_stat s1 n Finished) n r = (s', res) -> post NF Epost s' res).
    { intros s1 H1. apply finish_E, NF_set_stat; [discriminate|exact H1]. }
    assert (Hd : forall s1 e, diag e -> NF s1 -> post NF Epost (set_stat s1 n (Failed e)) (Err e)).
    { intros s1 e Hde H1. apply Hfail, diag_local; auto. }
    assert (Hcalls : forall ps sa src rq sb res0, In src (srcs ps) -> NF sa -> rec sa src rq = (sb, res0) -> post NF Epost sb res0).
    { intros ps sa src rq sb res0 _ Ha Hr. eapply Hrec; eauto. }
    unfold run_node in Hrun.
    destruct (lookup n g) as [[typed nullable|v|ps body]|] eqn:Eg.
    + destruct (lookup n inputs) as [v|].
      * destruct (typed && negb (is_int v)).
        -- inversion Hrun; subst. apply Hd; [diag|exact H0].
        -- apply (Hfin (set_val s0 n (Some v))); [exact H0|exact Hrun].
      * destruct (typed && negb nullable).
        -- destruct r.
           ++ inversion Hrun; subst. apply Hd; [diag|exact H0].
           ++ apply (Hfin s0); [exact H0|exact Hrun].
        -- apply (Hfin (set_val s0 n None)); [exact H0|exact Hrun].
    + apply (Hfin (set_val s0 n (Some v))); [exact H0|exact Hrun].
    + destruct (run_args rec r ps s0 []) as [s1 ar] eqn:Ea.
      pose proof (run_args_pres2 NF Epost rec diag_local r ps (Hcalls ps) s0 [] s1 ar H0 Ea) as H1.
      destruct ar as [a| |e].
      * destruct (exec rec ps r (body a) (add_log s1 n)) as [s2 r2] eqn:Ee.
        assert (H2 : post NF Epost s2 r2).
        { apply (exec_pres2 NF Epost rec diag_local ps r (Hcalls ps) (body a) (Hcf n ps body (lookup_in _ _ _ Eg) a)) with (s := add_log s1 n); [|exact H1|exact Ee].
          intros e sa Hr Ha. split; [apply NF_AllFailed, Ha|].
          right. exists n, ps, body, a. split; [apply lookup_in, Eg|exact Hr]. }
        destruct r2 as [v|e]; simpl in H2.
        -- apply (Hfin (set_val s2 n v)); [exact H2|exact Hrun].
        -- inversion Hrun; subst. apply Hfail, H2.
      * apply (Hfin s1); [exact H1|exact Hrun].
      * inversion Hrun; subst. apply Hfail, H1.
    + inversion Hrun; subst. apply Hd; [diag|exact H0].
  - inversion Hrun; subst. apply diag_local; [diag|exact Hnf].
  - eapply finish_E; eauto.
  - exfalso. eapply Hnf; eauto.
Qed.

Lemma run_E fuel : rec_E (run g inputs fuel).
Proof.
  induction fuel as [|f IH].
  - intros s n r s' res Hnf H. simpl in H. inversion H; subst. apply diag_local; [diag|exact Hnf].
  - simpl. apply run_step_E, IH.
Qed.

Lemma run_list_E fuel : forall ns s s' e, NF s -> run_list g inputs fuel s ns = (s', e) ->
  match e with None => NF s' | Some x => Epost x s' end.
Proof.
  induction ns as [|n ns IH]; intros s s' e Hnf H; simpl in H.
  - inversion H; subst. exact Hnf.
  - destruct (run g inputs fuel s n true) as [s1 r] eqn:Er.
    pose proof (run_E fuel _ _ _ _ _ Hnf Er) as H1.
    destruct r; simpl in H1; [eapply IH; eauto|inversion H; subst; exact H1].
Qed.

Lemma exception_transparent_l : forall fuel ns s,
  (forall e, run_all g inputs fuel ns = (s, Some e) ->
     (forall m e', stat s m = Failed e' -> e' = e) /\ origin g e) /\
  (run_all g inputs fuel ns = (s, None) -> forall m e', stat s m <> Failed e').
Proof.
  intros fuel ns s. split.
  - intros e H. apply run_list_E in H; [exact H|]. intros m e'. simpl. discriminate.
  - intros H. apply run_list_E in H; [exact H|]. intros m e'. simpl. discriminate.
Qed.
End Transparent.

(* ---------------------------------------------------------------------------------------- *)
(* only what the requested node reaches through the wiring is executed                        *)
(* ---------------------------------------------------------------------------------------- *)

Inductive reach (g : graph) : name -> name -> Prop :=
| reach_refl n : reach g n n
| reach_step n ps body src c :
    lookup n g = Some (Comp ps body) -> In src (srcs ps) -> reach g src c -> reach g n c.

Section Reach.
Variable g : graph.
Variable inputs : list (name * val).

Definition rec_R (rec : st -> name -> bool -> st * result) : Prop :=
  forall s n r s' res, rec s n r = (s', res) -> forall c, In c (log s') -> In c (log s) \/ reach g n c.

Lemma run_step_R rec : rec_R rec -> rec_R (run_step g inputs rec).
Proof.
  intros Hrec s n r s' res Hrun. unfold run_step in Hrun.
  assert (Hfl : forall s1 out, finish_lookup s1 n r = out -> log (fst out) = log s1).
  { intros s1 out <-. unfold finish_lookup. destruct (vals s1 n); [|destruct r]; reflexivity. }
  destruct (stat s n) eqn:Est.
  - set (s0 := set_stat s n InProgress) in *.
    unfold run_node in Hrun.
    destruct (lookup n g) as [[typed nullable|v|ps body]|] eqn:Eg.
    + intros c Hc. left.
      destruct (lookup n inputs) as [v|]; [destruct (typed && negb (is_int v))|destruct (typed && negb nullable); [destruct r|]];
        try (inversion Hrun; subst; exact Hc);
        (apply Hfl in Hrun; simpl in Hrun; rewrite Hrun in Hc; exact Hc).
    + intros c Hc. left. apply Hfl in Hrun; simpl in Hrun; rewrite Hrun in Hc; exact Hc.
    + set (Inv := fun sx : st => forall c, In c (log sx) -> In c (log s) \/ reach g n c).
      assert (Hcalls : forall sa src rq sb res0, In src (srcs ps) -> Inv sa -> rec sa src rq = (sb, res0) -> Inv sb).
      { intros sa src rq sb res0 Hin Ha Hr c Hc.
        destruct (Hrec _ _ _ _ _ Hr c Hc) as [H|H]; [apply Ha, H|].
        right. eapply reach_step; eauto. }
      destruct (run_args rec r ps s0 []) as [s1 ar] eqn:Ea.
      assert (H1 : Inv s1).
      { eapply (run_args_pres Inv rec r ps Hcalls); [|exact Ea]. intros c Hc. left. exact Hc. }
      destruct ar as [a| |e].
      * destruct (exec rec ps r (body a) (add_log s1 n)) as [s2 r2] eqn:Ee.
        assert (H2 : Inv s2).
        { apply (exec_pres Inv rec ps r Hcalls) with (p := body a) (s := add_log s1 n) (res := r2); [|exact Ee].
          intros c [<-|Hc]; [right; constructor|apply H1, Hc]. }
        destruct r2 as [v|e].
        -- intros c Hc. apply Hfl in Hrun. simpl in Hrun. rewrite Hrun in Hc. apply H2, Hc.
        -- inversion Hrun; subst. exact H2.
      * intros c Hc. apply Hfl in Hrun. simpl in Hrun. rewrite Hrun in Hc. apply H1, Hc.
      * inversion Hrun; subst. exact H1.
    + inversion Hrun; subst. intros c Hc. left. exact Hc.
  - inversion Hrun; subst. intros c Hc. left. exact Hc.
  - intros c Hc. apply Hfl in Hrun. simpl in Hrun. rewrite Hrun in Hc. left. exact Hc.
  - inversion Hrun; subst. intros c Hc. left. exact Hc.
Qed.

Lemma run_R fuel : rec_R (run g inputs fuel).
Proof.
  induction fuel as [|f IH].
  - intros s n r s' res H c Hc. simpl in H. inversion H; subst. left. exact Hc.
  - simpl. apply run_step_R, IH.
Qed.

Lemma only_reachable_l : forall fuel ns s e c,
  run_all g inputs fuel ns = (s, e) -> In c (log s) -> exists root, In root (requests g ns) /\ reach g root c.
Proof.
  intros fuel ns s e c H. unfold run_all in H.
  assert (G : forall l s0 s1 e1, run_list g inputs fuel s0 l = (s1, e1) ->
              In c (log s1) -> In c (log s0) \/ exists root, In root l /\ reach g root c).
  { induction l as [|n l IH]; intros s0 s1 e1 Hl Hc; simpl in Hl.
    - inversion Hl; subst. left. exact Hc.
    - destruct (run g inputs fuel s0 n true) as [sa ra] eqn:Er.
      pose proof (run_R fuel _ _ _ _ _ Er) as HR.
      destruct ra.
      + destruct (IH _ _ _ Hl Hc) as [Hin|(root & Hin & Hre)].
        * destruct (HR c Hin) as [Hq|Hq]; [left; exact Hq|right; exists n; simpl; auto].
        * right. exists root. simpl. auto.
      + inversion Hl; subst. destruct (HR c Hc) as [Hq|Hq]; [left; exact Hq|right; exists n; simpl; auto]. }
  intros Hc. destruct (G _ _ _ _ H Hc) as [[]|Hx]. exact Hx.
Qed.
End Reach.
