(* C15 (a) -- lemmas for the crash theorem: the states reachable by a prefix of DataContainer.save's
   effects load as the new dataset, as the old one (only while nothing of it is gone), or not at all. *)
From Coq Require Import ZArith List Bool Arith Lia.
From LK Require Import Model.C15_steps Gen.C15_save Model.C15_fs.
Import ListNotations.

(* ---- finite maps -------------------------------------------------------------------------- *)

Lemma fname_eqb_eq a b : fname_eqb a b = true <-> a = b.
Proof.
  destruct a, b; simpl; split; intro H; try discriminate; try reflexivity;
    try (apply Nat.eqb_eq in H; subst; reflexivity); try (inversion H; apply Nat.eqb_refl).
Qed.
Lemma fname_eqb_refl a : fname_eqb a a = true.
Proof. apply fname_eqb_eq. reflexivity. Qed.
Lemma fname_eqb_neq a b : fname_eqb a b = false <-> a <> b.
Proof.
  split; intro H.
  - intro E. apply fname_eqb_eq in E. congruence.
  - destruct (fname_eqb a b) eqn:E; [apply fname_eqb_eq in E; contradiction|reflexivity].
Qed.

Lemma dlookup_ddel f d g : dlookup (ddel f d) g = if fname_eqb f g then None else dlookup d g.
Proof.
  induction d as [|[h c] d IH]; simpl.
  - destruct (fname_eqb f g); reflexivity.
  - destruct (fname_eqb h f) eqn:Ehf; simpl.
    + apply fname_eqb_eq in Ehf. subst h. rewrite IH. destruct (fname_eqb f g); reflexivity.
    + rewrite IH. destruct (fname_eqb h g) eqn:Ehg; [|reflexivity].
      apply fname_eqb_eq in Ehg. subst h.
      destruct (fname_eqb f g) eqn:Efg; [|reflexivity].
      apply fname_eqb_eq in Efg. subst f. rewrite fname_eqb_refl in Ehf. discriminate.
Qed.

Lemma dlookup_dset f c d g : dlookup (dset f c d) g = if fname_eqb f g then Some c else dlookup d g.
Proof.
  unfold dset. simpl. destruct (fname_eqb f g) eqn:E; [reflexivity|].
  rewrite dlookup_ddel, E. reflexivity.
Qed.

Definition sub (d' d : dir) : Prop := forall f c, dlookup d' f = Some c -> dlookup d f = Some c.

Lemma sub_refl d : sub d d.
Proof. intros f c H. exact H. Qed.
Lemma sub_ddel f d' d : sub d' d -> sub (ddel f d') d.
Proof.
  intros S g c H. rewrite dlookup_ddel in H. destruct (fname_eqb f g); [discriminate|]. apply S, H.
Qed.

(* ---- running effects ---------------------------------------------------------------------- *)

Lemma run_app s a b : run s (a ++ b) = run (run s a) b.
Proof. unfold run. apply fold_left_app. Qed.

Lemma run_none es : run None es = None \/ exists d, run None es = Some d.
Proof. destruct (run None es); [right; eexists; reflexivity|left; reflexivity]. Qed.

Lemma run_unlinks d fs : exists d', run (Some d) (map EUnlink fs) = Some d' /\ sub d' d.
Proof.
  assert (G : forall d0, sub d0 d -> exists d', run (Some d0) (map EUnlink fs) = Some d' /\ sub d' d).
  { induction fs as [|f fs IH]; intros d0 S; simpl.
    - exists d0. split; [reflexivity|exact S].
    - apply IH. apply sub_ddel, S. }
  apply G, sub_refl.
Qed.

Lemma crash_state_nowrite s es k t :
  (forall e, In e es -> is_write e = false) -> crash_state s es k t = run s (firstn k es).
Proof.
  intro NW. unfold crash_state. destruct t; [|reflexivity].
  destruct (nth_error es k) as [e|] eqn:E; [|reflexivity].
  apply nth_error_In in E. apply NW in E. destruct e; try reflexivity. discriminate.
Qed.

Lemma crash_state_app_l s l1 l2 k t :
  k < length l1 -> crash_state s (l1 ++ l2) k t = crash_state s l1 k t.
Proof.
  intro L. unfold crash_state.
  rewrite firstn_app. replace (k - length l1) with 0 by lia. simpl. rewrite app_nil_r.
  rewrite nth_error_app1 by exact L. reflexivity.
Qed.

Lemma crash_state_app_r s l1 l2 j t :
  crash_state s (l1 ++ l2) (length l1 + j) t = crash_state (run s l1) l2 j t.
Proof.
  unfold crash_state.
  rewrite firstn_app. replace (length l1 + j - length l1) with j by lia.
  rewrite firstn_all2 by lia. rewrite run_app.
  rewrite nth_error_app2 by lia. replace (length l1 + j - length l1) with j by lia. reflexivity.
Qed.

(* ---- load, for the generated read list ---------------------------------------------------- *)

Lemma load_steps_shape : load_steps = [LReadSchema; LReadTables KEntities; LReadTables KRelationships; LReturn].
Proof. reflexivity. Qed.

Definition load_dir (d : dir) : lres :=
  match dlookup d NSchema with
  | Some (FSchema s) =>
      match read_tables d (s_ents s), read_tables d (s_rels s) with
      | Some a, Some b => LOk s (a ++ b)
      | _, _ => LFail
      end
  | _ => LFail
  end.

Lemma load_spec d : load (Some d) = load_dir d.
Proof.
  unfold load, load_dir. rewrite load_steps_shape. simpl.
  destruct (dlookup d NSchema) as [[s| | |]|]; reflexivity.
Qed.

Lemma read_tables_sub d' d ns :
  sub d' d ->
  read_tables d' ns = None \/
  (read_tables d' ns = read_tables d ns /\ forall n, In n ns -> dlookup d' (NTable n) = dlookup d (NTable n)).
Proof.
  intro S. induction ns as [|n ns IH]; simpl.
  - right. split; [reflexivity|intros ? []].
  - destruct (dlookup d' (NTable n)) as [c|] eqn:E; [|left; reflexivity].
    pose proof (S _ _ E) as E'. rewrite E'.
    destruct c; try (left; reflexivity).
    destruct IH as [IH|[IH1 IH2]].
    + rewrite IH. left. reflexivity.
    + rewrite IH1. right. split; [reflexivity|].
      intros m [->|Hm]; [congruence|apply IH2, Hm].
Qed.

Lemma sub_load d' d :
  sub d' d ->
  load (Some d') = LFail \/ (load (Some d') = load (Some d) /\ untouched (Some d) (Some d')).
Proof.
  intro S. rewrite !load_spec. unfold load_dir.
  destruct (dlookup d' NSchema) as [c|] eqn:E; [|left; reflexivity].
  pose proof (S _ _ E) as E'. rewrite E'.
  destruct c as [s| | |]; try (left; reflexivity).
  destruct (read_tables_sub d' d (s_ents s) S) as [H1|[H1 L1]]; [rewrite H1; left; reflexivity|].
  destruct (read_tables_sub d' d (s_rels s) S) as [H2|[H2 L2]].
  { rewrite H2. left. destruct (read_tables d' (s_ents s)); reflexivity. }
  rewrite H1, H2. right. split; [reflexivity|].
  simpl. split; [exact S|].
  unfold data_files. rewrite E'. intros f [<-|Hf]; [congruence|].
  apply in_map_iff in Hf. destruct Hf as [n [<- Hn]].
  unfold s_names in Hn. apply in_app_or in Hn. destruct Hn as [Hn|Hn]; [apply L1, Hn|apply L2, Hn].
Qed.

(* ---- the directory holds only new content (possibly one truncated file) -------------------- *)

Definition newc (ds : dataset) (f : fname) : option file :=
  match f with
  | NSchema => Some (FSchema (d_schema ds))
  | NTable n => option_map FTable (tlookup n (d_tables ds))
  | NSummary => Some FText
  | NOther _ => None
  end.

Definition all_new (ds : dataset) (s : fs) : Prop :=
  match s with
  | None => True
  | Some d => forall f c, dlookup d f = Some c -> c = FBroken \/ newc ds f = Some c
  end.

Definition new_write (ds : dataset) (e : eff) : Prop :=
  exists f c, e = EWrite f c /\ newc ds f = Some c.

Lemma tlookup_in n t ts : NoDup (map fst ts) -> In (n, t) ts -> tlookup n ts = Some t.
Proof.
  induction ts as [|[m u] ts IH]; simpl; intros ND H; [contradiction|].
  inversion ND as [|? ? Hnot ND']; subst.
  destruct H as [H|H].
  - inversion H; subst. rewrite Nat.eqb_refl. reflexivity.
  - destruct (Nat.eqb m n) eqn:E.
    + apply Nat.eqb_eq in E. subst m. exfalso. apply Hnot. apply in_map_iff. exists (n, t). split; [reflexivity|exact H].
    + apply IH; assumption.
Qed.

Lemma tlookup_some_in n t ts : tlookup n ts = Some t -> In (n, t) ts.
Proof.
  induction ts as [|[m u] ts IH]; simpl; intro H; [discriminate|].
  destruct (Nat.eqb m n) eqn:E.
  - apply Nat.eqb_eq in E. inversion H; subst. left. reflexivity.
  - right. apply IH, H.
Qed.

Lemma all_new_step ds s e : all_new ds s -> new_write ds e -> all_new ds (step s e).
Proof.
  intros A [f [c [-> N]]]. destruct s as [d|]; cbn [step all_new]; [|exact I].
  intros g c' H. rewrite dlookup_dset in H.
  destruct (fname_eqb f g) eqn:E.
  - apply fname_eqb_eq in E. subst g. inversion H; subst. right. exact N.
  - apply A, H.
Qed.

Lemma all_new_broken ds s f : all_new ds s -> all_new ds (step s (EWrite f FBroken)).
Proof.
  intro A. destruct s as [d|]; cbn [step all_new]; [|exact I].
  intros g c' H. rewrite dlookup_dset in H.
  destruct (fname_eqb f g); [inversion H; left; reflexivity|apply A, H].
Qed.

Lemma all_new_run ds s es : all_new ds s -> Forall (new_write ds) es -> all_new ds (run s es).
Proof.
  revert s. induction es as [|e es IH]; intros s A F; simpl; [exact A|].
  inversion F; subst. apply IH; [apply all_new_step; assumption|assumption].
Qed.

Lemma Forall_firstn {A} (P : A -> Prop) k l : Forall P l -> Forall P (firstn k l).
Proof.
  revert k. induction l as [|x l IH]; intros k F; destruct k; simpl; try constructor.
  - inversion F; assumption.
  - inversion F; apply IH; assumption.
Qed.

Lemma all_new_crash ds s es k t :
  all_new ds s -> Forall (new_write ds) es -> all_new ds (crash_state s es k t).
Proof.
  intros A F. unfold crash_state.
  pose proof (all_new_run ds s (firstn k es) A (Forall_firstn _ k es F)) as A'.
  destruct t; [|exact A'].
  destruct (nth_error es k) as [[| | |f c]|]; try exact A'.
  apply all_new_broken, A'.
Qed.

Lemma read_tables_new ds d ns :
  (forall f c, dlookup d f = Some c -> c = FBroken \/ newc ds f = Some c) ->
  read_tables d ns = None \/ read_tables d ns = Some (map (fun n => (n, table_of ds n)) ns).
Proof.
  intro A. induction ns as [|n ns IH]; simpl; [right; reflexivity|].
  destruct (dlookup d (NTable n)) as [c|] eqn:E; [|left; reflexivity].
  destruct c; try (left; reflexivity).
  destruct (A _ _ E) as [Hb|Hn]; [discriminate|].
  simpl in Hn. unfold table_of. destruct (tlookup n (d_tables ds)) as [u|]; simpl in Hn; [|discriminate].
  inversion Hn; subst.
  destruct IH as [IH|IH]; rewrite IH; [left|right]; reflexivity.
Qed.

Lemma all_new_load ds s : all_new ds s -> load s = LFail \/ load s = canon ds.
Proof.
  intro A. destruct s as [d|]; [|left; reflexivity].
  rewrite load_spec. unfold load_dir. simpl in A.
  destruct (dlookup d NSchema) as [c|] eqn:E; [|left; reflexivity].
  destruct c as [s| | |]; try (left; reflexivity).
  destruct (A _ _ E) as [Hb|Hn]; [discriminate|]. simpl in Hn. inversion Hn; subst s.
  destruct (read_tables_new ds d (s_ents (d_schema ds)) A) as [H1|H1]; rewrite H1; [left; reflexivity|].
  destruct (read_tables_new ds d (s_rels (d_schema ds)) A) as [H2|H2]; rewrite H2; [left; reflexivity|].
  right. unfold canon, s_names. rewrite map_app. reflexivity.
Qed.

(* ---- the write part of save ---------------------------------------------------------------- *)

Definition write_effects (ds : dataset) (ws : list save_step) : list eff :=
  flat_map (fun st => expand_step ds [] None st) ws.

Lemma save_run_writes ds perm ws s :
  forallb is_write_step ws = true -> save_run ds perm ws s = write_effects ds ws.
Proof.
  revert s. induction ws as [|st ws IH]; intros s H; simpl; [reflexivity|].
  simpl in H. apply andb_true_iff in H. destruct H as [H1 H2].
  rewrite IH by exact H2. destruct st; try discriminate; reflexivity.
Qed.

Lemma write_effects_new ds ws :
  NoDup (map fst (d_tables ds)) -> forallb is_write_step ws = true -> Forall (new_write ds) (write_effects ds ws).
Proof.
  intros ND H. unfold write_effects. induction ws as [|st ws IH]; simpl; [constructor|].
  simpl in H. apply andb_true_iff in H. destruct H as [H1 H2].
  apply Forall_app. split; [|apply IH, H2].
  destruct st; try discriminate; simpl.
  - constructor; [|constructor]. exists NSchema, (FSchema (d_schema ds)). split; reflexivity.
  - apply Forall_forall. intros e He. apply in_map_iff in He. destruct He as [[n t] [<- Hin]].
    exists (NTable n), (FTable t). split; [reflexivity|]. simpl.
    rewrite (tlookup_in n t _ ND Hin). reflexivity.
  - constructor; [|constructor]. exists NSummary, FText. split; reflexivity.
Qed.

(* what save's effect list looks like when its shape is the safe one *)
Definition removal (old : fs) (perm : list fname) : list eff :=
  match old with Some _ => map EUnlink perm ++ [ERmdir] | None => [] end.

Lemma safe_save_effects ds perm steps old :
  safe_save_b steps = true ->
  exists ws, forallb is_write_step ws = true /\ steps = SRmtreeIfExists :: SMkdir :: ws /\
    save_run ds perm steps old = removal old perm ++ [EMkdir] ++ write_effects ds ws.
Proof.
  intro H. destruct steps as [|[] [|[] ws]]; try discriminate.
  exists ws. split; [exact H|]. split; [reflexivity|].
  simpl. rewrite save_run_writes by exact H. reflexivity.
Qed.

Lemma removal_nowrite old perm e : In e (removal old perm) -> is_write e = false.
Proof.
  destruct old; simpl; [|intros []]. intro H. apply in_app_or in H. destruct H as [H|[<-|[]]]; [|reflexivity].
  apply in_map_iff in H. destruct H as [f [<- _]]. reflexivity.
Qed.

Lemma removal_run old perm : run old (removal old perm) = None.
Proof.
  destruct old as [d|]; simpl; [|reflexivity].
  rewrite run_app. destruct (run_unlinks d perm) as [d' [R _]]. rewrite R. reflexivity.
Qed.

Lemma removal_prefix d perm k :
  k < length (removal (Some d) perm) -> exists d', run (Some d) (firstn k (removal (Some d) perm)) = Some d' /\ sub d' d.
Proof.
  simpl. rewrite app_length, map_length. simpl. intro L.
  rewrite firstn_app, map_length. replace (k - length perm) with 0 by lia. simpl. rewrite app_nil_r.
  rewrite firstn_map. apply run_unlinks.
Qed.

(* ---- the trichotomy ------------------------------------------------------------------------ *)

Definition third (old s : fs) : Prop := load s = load old /\ untouched old s.

Lemma crash_outcomes_gen steps old ds perm k trunc :
  safe_save_b steps = true -> wf_dataset ds ->
  let s := crash_state old (save_run ds perm steps old) k trunc in
  load s = LFail \/ load s = canon ds \/ third old s.
Proof.
  intros Hs [ND _] s. subst s.
  destruct (safe_save_effects ds perm steps old Hs) as [ws [Hw [_ ->]]].
  set (R := removal old perm). set (W := write_effects ds ws).
  destruct (Nat.lt_ge_cases k (length R)) as [L|L].
  - (* during the removal *)
    rewrite crash_state_app_l by exact L.
    rewrite crash_state_nowrite by (apply removal_nowrite).
    subst R. destruct old as [d|]; [|simpl in L; lia].
    destruct (removal_prefix d perm k L) as [d' [-> S]].
    destruct (sub_load d' d S) as [H|H]; [left; exact H|right; right; exact H].
  - replace k with (length R + (k - length R)) by lia.
    rewrite crash_state_app_r. subst R. rewrite removal_run.
    destruct (k - length (removal old perm)) as [|j] eqn:Ej.
    + (* the directory has just been removed *)
      left. unfold crash_state. simpl. destruct trunc; reflexivity.
    + change (S j) with (length [EMkdir] + j). rewrite crash_state_app_r. simpl run.
      assert (A : all_new ds (crash_state (Some []) W j trunc)).
      { apply all_new_crash; [intros f c H; discriminate|apply write_effects_new; assumption]. }
      destruct (all_new_load ds _ A) as [H|H]; [left; exact H|right; left; exact H].
Qed.

(* ---- a completed save loads as the dataset saved ------------------------------------------- *)

Lemma run_writes_present ds es f c :
  Forall (new_write ds) es -> newc ds f = Some c ->
  forall d, (dlookup d f = Some c \/ In (EWrite f c) es) ->
  exists d', run (Some d) es = Some d' /\ dlookup d' f = Some c.
Proof.
  intros F N. induction es as [|e es IH]; intros d H; simpl.
  - destruct H as [H|[]]. exists d. split; [reflexivity|exact H].
  - inversion F as [|? ? [g [c' [-> N']]] F']; subst. simpl.
    apply IH; [exact F'|].
    destruct (fname_eqb g f) eqn:E.
    + apply fname_eqb_eq in E. subst g. left. rewrite dlookup_dset, fname_eqb_refl. congruence.
    + destruct H as [H|[H|H]].
      * left. rewrite dlookup_dset, E. exact H.
      * inversion H; subst. rewrite fname_eqb_refl in E. discriminate.
      * right. exact H.
Qed.

Lemma existsb_step_in st steps : existsb (step_eqb st) steps = true -> In st steps.
Proof.
  induction steps as [|x steps IH]; simpl; [discriminate|].
  intro H. apply orb_true_iff in H. destruct H as [H|H]; [|right; apply IH, H].
  left. destruct st, x; try discriminate; reflexivity.
Qed.

Lemma in_write_effects ds ws st e : In st ws -> In e (expand_step ds [] None st) -> In e (write_effects ds ws).
Proof.
  intros H1 H2. unfold write_effects. apply in_flat_map. exists st. split; assumption.
Qed.

Lemma read_tables_present d ds ns :
  (forall n, In n ns -> dlookup d (NTable n) = Some (FTable (table_of ds n))) ->
  read_tables d ns = Some (map (fun n => (n, table_of ds n)) ns).
Proof.
  induction ns as [|n ns IH]; intro H; simpl; [reflexivity|].
  rewrite (H n) by (left; reflexivity). rewrite IH by (intros m Hm; apply H; right; exact Hm). reflexivity.
Qed.

Lemma save_load_gen steps old ds perm :
  safe_save_b steps = true -> complete_save_b steps = true -> wf_dataset ds ->
  load (run old (save_run ds perm steps old)) = canon ds.
Proof.
  intros Hs Hc [ND Hall].
  destruct (safe_save_effects ds perm steps old Hs) as [ws [Hw [-> ->]]].
  rewrite run_app, removal_run, run_app. simpl run at 2.
  pose proof (write_effects_new ds ws ND Hw) as F.
  unfold complete_save_b in Hc. apply andb_true_iff in Hc. destruct Hc as [Hc1 Hc2].
  apply existsb_step_in in Hc1, Hc2.
  assert (Hsw : In SWriteSchema ws) by (destruct Hc1 as [E|[E|E]]; [discriminate|discriminate|exact E]).
  assert (Htw : In SWriteTables ws) by (destruct Hc2 as [E|[E|E]]; [discriminate|discriminate|exact E]).
  (* every file load needs is present with the new content *)
  assert (P : forall f c, newc ds f = Some c -> In (EWrite f c) (write_effects ds ws) ->
              exists d', run (Some []) (write_effects ds ws) = Some d' /\ dlookup d' f = Some c).
  { intros f c N Hin. apply (run_writes_present ds _ f c F N). right. exact Hin. }
  destruct (P NSchema (FSchema (d_schema ds)) eq_refl) as [d' [Rd Ls]].
  { apply (in_write_effects ds ws SWriteSchema); [exact Hsw|left; reflexivity]. }
  rewrite Rd, load_spec. unfold load_dir. rewrite Ls.
  assert (T : forall n, In n (s_names (d_schema ds)) -> dlookup d' (NTable n) = Some (FTable (table_of ds n))).
  { intros n Hn. apply Hall in Hn. apply in_map_iff in Hn. destruct Hn as [[m t] [Em Hin]]. simpl in Em. subst m.
    assert (Et : table_of ds n = t) by (unfold table_of; rewrite (tlookup_in n t _ ND Hin); reflexivity).
    rewrite Et.
    destruct (P (NTable n) (FTable t)) as [d'' [Rd' L]].
    - simpl. rewrite (tlookup_in n t _ ND Hin). reflexivity.
    - apply (in_write_effects ds ws SWriteTables); [exact Htw|].
      simpl. apply in_map_iff. exists (n, t). split; [reflexivity|exact Hin].
    - rewrite Rd in Rd'. inversion Rd'; subst. exact L. }
  rewrite (read_tables_present d' ds (s_ents (d_schema ds))) by (intros n Hn; apply T; unfold s_names; apply in_or_app; left; exact Hn).
  rewrite (read_tables_present d' ds (s_rels (d_schema ds))) by (intros n Hn; apply T; unfold s_names; apply in_or_app; right; exact Hn).
  unfold canon, s_names. rewrite map_app. reflexivity.
Qed.

(* ---- specialised to the generated list ------------------------------------------------------ *)

Lemma save_steps_safe : safe_save_b save_steps = true.
Proof. reflexivity. Qed.
Lemma save_steps_complete : complete_save_b save_steps = true.
Proof. reflexivity. Qed.

Lemma crash_outcomes_l : forall old ds perm k trunc,
  wf_dataset ds ->
  let s := save_crash old ds perm k trunc in
  load s = LFail \/ load s = canon ds \/ (load s = load old /\ untouched old s).
Proof. intros. apply crash_outcomes_gen; [exact save_steps_safe|assumption]. Qed.

Lemma never_mixture_l : forall old ds perm k trunc sc ts,
  wf_dataset ds ->
  load (save_crash old ds perm k trunc) = LOk sc ts ->
  LOk sc ts = canon ds \/ (LOk sc ts = load old /\ untouched old (save_crash old ds perm k trunc)).
Proof.
  intros old ds perm k trunc sc ts W H.
  destruct (crash_outcomes_l old ds perm k trunc W) as [F|[N|[O U]]].
  - rewrite F in H. discriminate.
  - left. rewrite <- H. exact N.
  - right. split; [rewrite <- H; exact O|exact U].
Qed.

Lemma save_load_id_l : forall old ds perm, wf_dataset ds -> load (save_done old ds perm) = canon ds.
Proof. intros. apply save_load_gen; [exact save_steps_safe|exact save_steps_complete|assumption]. Qed.

(* the loaded container has the schema saved and, for every class of the schema, the table saved *)
Lemma canon_tables ds n : In n (s_names (d_schema ds)) ->
  match canon ds with LOk s ts => s = d_schema ds /\ In (n, table_of ds n) ts | LFail => False end.
Proof.
  intro H. unfold canon. split; [reflexivity|]. apply in_map_iff. exists n. split; [reflexivity|exact H].
Qed.

(* without the removal step the statement is false: the witness the mutation test reproduces *)
Definition ds_old : dataset := mkDataset (mkSchema 1 [0] [1]) [(0, 10%Z); (1, 11%Z)].
Definition ds_new : dataset := mkDataset (mkSchema 2 [0] [1]) [(0, 20%Z); (1, 21%Z)].
Lemma no_removal_mixes :
  let old := run None (save_run ds_old [] [SMkdir; SWriteSchema; SWriteTables; SWriteSummary] None) in
  let s := crash_state old (save_run ds_new [] [SMkdir; SWriteSchema; SWriteTables; SWriteSummary] old) 2 false in
  load s = LOk (d_schema ds_new) [(0, 10%Z); (1, 11%Z)].
Proof. vm_compute. reflexivity. Qed.
