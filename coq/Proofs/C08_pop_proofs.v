(* C08 -- popularity: definitions of the three variants (specification), the verified checker for the
   cumulative-share variant (order among tied counts is free), strict monotonicity in the count, and
   the time-bounded count. *)
From Coq Require Import ZArith QArith Qabs List Bool Arith Lia Lqa Setoid Morphisms Sorted Permutation.
From LK Require Import Lib.QLib Lib.SortPerm Model.C08_bias.
Import ListNotations.
Open Scope Q_scope.

(* ---------------- small facts ---------------- *)
Lemma Qofnat_le a b : (a <= b)%nat -> Qofnat a <= Qofnat b.
Proof. intro H. unfold Qofnat. rewrite <- Zle_Qle. lia. Qed.
Lemma Qofnat_lt a b : (a < b)%nat -> Qofnat a < Qofnat b.
Proof. intro H. unfold Qofnat. rewrite <- Zlt_Qlt. lia. Qed.
Lemma Qdiv_le_mono a b t : 0 < t -> a <= b -> a / t <= b / t.
Proof. intros Ht H. unfold Qdiv. apply Qmult_le_compat_r; [exact H|]. apply Qlt_le_weak, Qinv_lt_0_compat, Ht. Qed.
Lemma Qdiv_lt_mono a b t : 0 < t -> a < b -> a / t < b / t.
Proof. intros Ht H. unfold Qdiv. apply Qmult_lt_compat_r; [apply Qinv_lt_0_compat, Ht|exact H]. Qed.

Lemma Forall2_nth_error {A B} (R : A -> B -> Prop) l1 l2 i a :
  Forall2 R l1 l2 -> nth_error l1 i = Some a -> exists b, nth_error l2 i = Some b /\ R a b.
Proof.
  intro F. revert i. induction F as [|x y l1 l2 Rxy F IH]; intros [|i] H; simpl in *; try discriminate.
  - inversion H; subst. eauto.
  - apply IH. exact H.
Qed.

Lemma Forall2_imp {A B} (R R' : A -> B -> Prop) l1 l2 :
  (forall a b, R a b -> R' a b) -> Forall2 R l1 l2 -> Forall2 R' l1 l2.
Proof. intros H F. induction F; constructor; auto. Qed.

Lemma Forall2_map_same {A B} (R : A -> B -> Prop) (f : A -> B) l :
  (forall x, In x l -> R x (f x)) -> Forall2 R l (map f l).
Proof. induction l as [|x l IH]; intro H; simpl; constructor; [apply H; left; reflexivity|apply IH; intros; apply H; right; assumption]. Qed.

Lemma all2_Forall2 {A B} (f : A -> B -> bool) l1 l2 :
  all2 f l1 l2 = true <-> Forall2 (fun a b => f a b = true) l1 l2.
Proof.
  revert l2; induction l1 as [|x l1 IH]; intros [|y l2]; simpl; split; intro H; try discriminate; try constructor;
    try (inversion H; fail).
  - apply andb_true_iff in H. tauto.
  - apply andb_true_iff in H. apply IH. tauto.
  - inversion H; subst. apply andb_true_iff. split; [assumption|apply IH; assumption].
Qed.

(* ---------------- the variants' definitions ---------------- *)
(* average rank: (number of smaller counts) + (size of the tie group + 1) / 2 *)
Definition rank_def (counts : list nat) (c : nat) : Q :=
  Qofnat (n_less c counts) + (Qofnat (n_equal c counts) + 1) / 2.

Definition le_fst (a b : nat * Q) : Prop := (fst a <= fst b)%nat.
(* l, read in order, carries running total / total (running total starting from acc) *)
Definition shares (total : nat) (l : list (nat * Q)) (acc : nat) : Prop :=
  Forall2 (fun p c => snd p == Qofnat c / Qofnat total) l (cumsum_from acc (map fst l)).

(* cumulative share: some ordering of the (count, score) pairs by ascending count in which every score
   is the running total of counts divided by the total.  Scores are rationals up to ==, so their
   canonical representatives (Qred) are used to make "same pairs in another order" a list permutation.
   With no interactions at all (total 0) every score is NaN. *)
Definition QuantSpec (counts : list nat) (scores : list (option Q)) : Prop :=
  length scores = length counts /\
  if Nat.eqb (nsum counts) 0 then Forall (fun s => s = None) scores
  else exists ss, scores = map Some ss /\
       exists l, Permutation l (combine counts (map Qred ss)) /\ StronglySorted le_fst l /\
                 shares (nsum counts) l 0.

Definition PopSpec (v : variant) (counts : list nat) (scores : list (option Q)) : Prop :=
  match v with
  | VCount => Forall2 (fun c s => exists q, s = Some q /\ q == Qofnat c) counts scores
  | VRank => Forall2 (fun c s => exists q, s = Some q /\ q == rank_def counts c) counts scores
  | VQuantile => QuantSpec counts scores
  end.

(* ---------------- average rank ---------------- *)
Lemma sum_seq s m : Qsum (map Qofnat (seq s m)) == Qofnat m * Qofnat s + Qofnat m * (Qofnat m - 1) / 2.
Proof.
  revert s; induction m as [|m IH]; intro s; cbn [seq map Qsum].
  - unfold Qofnat. simpl. field.
  - rewrite IH, !Qofnat_S. field.
Qed.

Lemma rank_score_def counts c : (0 < n_equal c counts)%nat -> rank_score counts c == rank_def counts c.
Proof.
  intro H. unfold rank_score, rank_def. rewrite seq_length, sum_seq, Qofnat_S.
  pose proof (Qofnat_pos _ H). field. lra.
Qed.

Lemma n_equal_in c counts : In c counts -> (0 < n_equal c counts)%nat.
Proof.
  unfold n_equal. induction counts as [|x l IH]; [intros []|]; intros [E|I]; simpl.
  - subst. rewrite Nat.eqb_refl. simpl. lia.
  - destruct (Nat.eqb x c); simpl; [lia|apply IH, I].
Qed.

Lemma less_equal_le c1 c2 counts : (c1 < c2)%nat -> (n_less c1 counts + n_equal c1 counts <= n_less c2 counts)%nat.
Proof.
  intro H. unfold n_less, n_equal. induction counts as [|x l IH]; simpl; [lia|].
  destruct (Nat.ltb_spec x c1), (Nat.eqb_spec x c1), (Nat.ltb_spec x c2); simpl; lia.
Qed.

Lemma rank_def_mono counts c1 c2 : In c1 counts -> In c2 counts -> (c1 < c2)%nat ->
  rank_def counts c1 < rank_def counts c2.
Proof.
  intros I1 I2 H. unfold rank_def.
  pose proof (Qofnat_le _ _ (less_equal_le c1 c2 counts H)) as L. rewrite Qofnat_add in L.
  pose proof (Qofnat_pos _ (n_equal_in _ _ I1)). pose proof (Qofnat_pos _ (n_equal_in _ _ I2)).
  unfold Qdiv. change (/ 2) with (1 # 2). lra.
Qed.

(* insertion sort is a sorted permutation; sorted permutations are unique: Lib/SortPerm.v *)

(* ---------------- the order used by the checker ---------------- *)
Lemma pair_leb_total a b : pair_leb a b = true \/ pair_leb b a = true.
Proof.
  unfold pair_leb. destruct (lt_eq_lt_dec (fst a) (fst b)) as [[L|E]|L].
  - left. apply orb_true_iff. left. apply Nat.ltb_lt, L.
  - rewrite E, !Nat.eqb_refl, Nat.ltb_irrefl. simpl.
    destruct (Qlt_le_dec (snd b) (snd a)) as [H|H].
    + right. apply Qle_bool_iff. lra.
    + left. apply Qle_bool_iff. exact H.
  - right. apply orb_true_iff. left. apply Nat.ltb_lt, L.
Qed.

Lemma pair_leb_spec a b : pair_leb a b = true <-> ((fst a < fst b)%nat \/ (fst a = fst b /\ snd a <= snd b)).
Proof.
  unfold pair_leb. rewrite orb_true_iff, andb_true_iff, Nat.ltb_lt, Nat.eqb_eq, Qle_bool_iff. tauto.
Qed.

Lemma pair_leb_trans a b c : pair_leb a b = true -> pair_leb b c = true -> pair_leb a c = true.
Proof.
  rewrite !pair_leb_spec. intros [H|[H H']] [K|[K K']].
  - left; lia.
  - left; lia.
  - left; lia.
  - right. split; [lia|lra].
Qed.

Lemma Qred_canon a b : Qred a = a -> Qred b = b -> a == b -> a = b.
Proof. intros Ha Hb E. rewrite <- Ha, <- Hb. apply Qred_complete, E. Qed.

Lemma pair_leb_antisym a b : Qred (snd a) = snd a -> Qred (snd b) = snd b ->
  pair_leb a b = true -> pair_leb b a = true -> a = b.
Proof.
  intros Ra Rb. rewrite !pair_leb_spec. intros [H|[H H']] [K|[K K']]; try lia.
  destruct a as [a1 a2], b as [b1 b2]; simpl in *. subst b1. f_equal.
  apply Qred_canon; try assumption. lra.
Qed.

Lemma in_combine_red (c : nat) (s : Q) (counts : list nat) (ss : list Q) : In (c, s) (combine counts (map Qred ss)) -> Qred s = s.
Proof.
  intro I. apply in_combine_r in I. apply in_map_iff in I. destruct I as [x [<- _]].
  apply Qred_complete, Qred_correct.
Qed.

(* ---------------- cumulative shares along a count-sorted list ---------------- *)
Lemma shares_lower T acc l : (0 < T)%nat -> shares T l acc ->
  Forall (fun p => Qofnat (acc + fst p) / Qofnat T <= snd p) l.
Proof.
  intro HT. pose proof (Qofnat_pos _ HT) as HTq. revert acc.
  induction l as [|x r IH]; intros acc S; [constructor|].
  unfold shares in S. cbn [map cumsum_from] in S. inversion S as [|? ? ? ? Hx Hr]; subst.
  constructor; [rewrite Hx; apply Qle_refl|].
  specialize (IH (acc + fst x)%nat Hr). eapply Forall_impl; [|exact IH].
  intros p Hp. cbv beta in Hp. eapply Qle_trans; [|exact Hp].
  apply Qdiv_le_mono; [exact HTq|]. apply Qofnat_le. lia.
Qed.

Lemma spec_lex_sorted T l : (0 < T)%nat -> forall acc, StronglySorted le_fst l -> shares T l acc ->
  StronglySorted (fun a b => pair_leb a b = true) l.
Proof.
  intro HT. pose proof (Qofnat_pos _ HT) as HTq.
  induction l as [|x r IH]; intros acc S Sh; [constructor|].
  inversion S as [|? ? S' F]; subst.
  unfold shares in Sh. cbn [map cumsum_from] in Sh. inversion Sh as [|? ? ? ? Hx Hr]; subst.
  constructor; [apply (IH (acc + fst x)%nat S' Hr)|].
  pose proof (shares_lower T _ r HT Hr) as Low.
  rewrite Forall_forall in *. intros y Iy. apply pair_leb_spec.
  specialize (F y Iy). specialize (Low y Iy). unfold le_fst in F. cbv beta in Low.
  destruct (Nat.eq_dec (fst x) (fst y)) as [E|N]; [right|left; lia].
  split; [exact E|]. rewrite Hx. eapply Qle_trans; [|exact Low].
  apply Qdiv_le_mono; [exact HTq|]. apply Qofnat_le. lia.
Qed.

Lemma spec_mono T l : (0 < T)%nat -> forall acc, StronglySorted le_fst l -> shares T l acc ->
  forall a b, In a l -> In b l -> (fst a < fst b)%nat -> snd a < snd b.
Proof.
  intro HT. pose proof (Qofnat_pos _ HT) as HTq.
  induction l as [|x r IH]; intros acc S Sh a b Ia Ib Hab; [destruct Ia|].
  inversion S as [|? ? S' F]; subst.
  unfold shares in Sh. cbn [map cumsum_from] in Sh. inversion Sh as [|? ? ? ? Hx Hr]; subst.
  pose proof (shares_lower T _ r HT Hr) as Low. rewrite Forall_forall in F, Low.
  destruct Ia as [<-|Ia], Ib as [<-|Ib].
  - lia.
  - specialize (Low b Ib). cbv beta in Low. rewrite Hx. eapply Qlt_le_trans; [|exact Low].
    apply Qdiv_lt_mono; [exact HTq|]. apply Qofnat_lt. lia.
  - specialize (F a Ia). unfold le_fst in F. lia.
  - exact (IH (acc + fst x)%nat S' Hr a b Ia Ib Hab).
Qed.

(* ---------------- the checker is sound and complete ---------------- *)
Lemma sequence_q_some scores ss : sequence_q scores = Some ss <-> scores = map Some ss.
Proof.
  revert ss; induction scores as [|[x|] r IH]; intros ss; simpl.
  - split; intro H; [inversion H; reflexivity|destruct ss; [reflexivity|discriminate]].
  - destruct (sequence_q r) as [t|] eqn:E; simpl; split; intro H.
    + inversion H; subst. simpl. f_equal. apply IH. reflexivity.
    + destruct ss as [|y t']; [discriminate|]. simpl in H. inversion H; subst.
      f_equal. f_equal. assert (Some t = Some t') by (apply IH; reflexivity). congruence.
    + discriminate.
    + destruct ss as [|y t']; [discriminate|]. simpl in H. inversion H; subst.
      assert (None = Some t') by (apply IH; reflexivity). discriminate.
  - split; intro H; [discriminate|]. destruct ss; discriminate.
Qed.

Lemma sorted_le_fst l : StronglySorted (fun a b => pair_leb a b = true) l -> StronglySorted le_fst l.
Proof.
  induction 1 as [|x r S IH F]; constructor; [exact IH|].
  eapply Forall_impl; [|exact F]. intros y Hy. apply pair_leb_spec in Hy. unfold le_fst. lia.
Qed.

Lemma nsum_pos counts : Nat.eqb (nsum counts) 0 = false -> (0 < nsum counts)%nat.
Proof. intro H. apply Nat.eqb_neq in H. lia. Qed.

Lemma quantile_ok_iff counts scores :
  quantile_ok_b Qeq_bool counts scores = true <-> QuantSpec counts scores.
Proof.
  unfold quantile_ok_b, QuantSpec. destruct (Nat.eqb (nsum counts) 0) eqn:T0.
  - rewrite andb_true_iff, Nat.eqb_eq, forallb_forall, Forall_forall.
    split; intros [L H]; (split; [exact L|]); intros s Is; specialize (H s Is).
    + destruct s; [discriminate|reflexivity].
    + subst s. reflexivity.
  - pose proof (nsum_pos _ T0) as HT. split.
    + destruct (sequence_q scores) as [ss|] eqn:E; [|discriminate].
      apply sequence_q_some in E. rewrite andb_true_iff, Nat.eqb_eq. intros [L H].
      split; [subst scores; rewrite map_length; exact L|].
      exists ss. split; [exact E|].
      exists (isort pair_leb (combine counts (map Qred ss))).
      split; [apply isort_perm|]. split.
      * apply sorted_le_fst, isort_sorted; [apply pair_leb_total|apply pair_leb_trans].
      * unfold shares. apply all2_Forall2 in H. eapply Forall2_imp; [|exact H].
        intros p c Hc. apply Qeq_bool_iff, Hc.
    + intros [L [ss [E [l [P [S Sh]]]]]].
      assert (E' : sequence_q scores = Some ss) by (apply sequence_q_some, E). rewrite E'.
      apply andb_true_iff. split; [apply Nat.eqb_eq; subst scores; rewrite map_length in L; exact L|].
      assert (U : l = isort pair_leb (combine counts (map Qred ss))).
      { apply (sorted_perm_unique pair_leb pair_leb_total).
        - intros [a1 a2] [b1 b2] Ia Ib. apply pair_leb_antisym; cbn [snd].
          + eapply in_combine_red, Permutation_in; [exact P|exact Ia].
          + eapply in_combine_red, Permutation_in; [exact P|exact Ib].
        - eapply spec_lex_sorted; eassumption.
        - apply isort_sorted; [apply pair_leb_total|apply pair_leb_trans].
        - rewrite P. symmetry. apply isort_perm. }
      rewrite <- U. apply all2_Forall2. unfold shares in Sh. eapply Forall2_imp; [|exact Sh].
      intros p c Hc. apply Qeq_bool_iff, Hc.
Qed.

(* ---------------- the model inhabits the definitions ---------------- *)
Definition cnt_leb (a b : nat * nat) : bool := Nat.leb (snd a) (snd b).
Lemma cnt_leb_total a b : cnt_leb a b = true \/ cnt_leb b a = true.
Proof. unfold cnt_leb. destruct (Nat.leb_spec (snd a) (snd b)); [left; reflexivity|right; apply Nat.leb_le; lia]. Qed.
Lemma cnt_leb_trans a b c : cnt_leb a b = true -> cnt_leb b c = true -> cnt_leb a c = true.
Proof. unfold cnt_leb. rewrite !Nat.leb_le. lia. Qed.

Lemma lookup_nodup {B} (tbl : list (nat * B)) j k v :
  NoDup (map fst tbl) -> nth_error tbl j = Some (k, v) -> lookup_nat k tbl = Some v.
Proof.
  revert j; induction tbl as [|[k0 v0] tbl IH]; intros [|j] ND H; simpl in H; try discriminate.
  - inversion H; subst. unfold lookup_nat. simpl. rewrite Nat.eqb_refl. reflexivity.
  - inversion ND as [|? ? NI ND']; subst. unfold lookup_nat. simpl.
    destruct (Nat.eqb_spec k0 k) as [E|N].
    + exfalso. apply NI. subst k0. apply nth_error_In in H. apply (in_map fst) in H. exact H.
    + apply (IH j ND' H).
Qed.

Lemma map_fst_combine {A B} (l1 : list A) (l2 : list B) : length l1 = length l2 -> map fst (combine l1 l2) = l1.
Proof. revert l2; induction l1 as [|x l1 IH]; intros [|y l2] L; simpl in *; try discriminate; [reflexivity|]. rewrite IH by lia. reflexivity. Qed.

Lemma Forall2_nth {A B} (R : A -> B -> Prop) l1 l2 :
  length l1 = length l2 ->
  (forall j a b, nth_error l1 j = Some a -> nth_error l2 j = Some b -> R a b) -> Forall2 R l1 l2.
Proof.
  revert l2; induction l1 as [|x l1 IH]; intros [|y l2] L H; simpl in L; try discriminate; constructor.
  - apply (H 0%nat); reflexivity.
  - apply IH; [lia|]. intros j a b Ha Hb. apply (H (S j)); assumption.
Qed.

Lemma combine_reindex (ss0 : list Q) : forall (counts : list nat) (ss : list Q) (s : nat),
  length ss = length counts ->
  (forall j, (j < length ss)%nat -> nth (s + j) ss0 0 = nth j ss 0) ->
  map (fun p : nat * nat => (snd p, Qred (nth (fst p) ss0 0))) (combine (seq s (length counts)) counts)
  = combine counts (map Qred ss).
Proof.
  induction counts as [|c counts IH]; intros ss s L H; [reflexivity|].
  destruct ss as [|x ss]; [discriminate|]. simpl in L. cbn [length seq combine map fst snd].
  f_equal.
  - f_equal. f_equal. specialize (H 0%nat ltac:(simpl; lia)). rewrite Nat.add_0_r in H. exact H.
  - apply IH; [lia|]. intros j Hj. specialize (H (S j) ltac:(simpl; lia)).
    rewrite <- plus_n_Sm in H. exact H.
Qed.

Lemma nth_map_seq {B} (f : nat -> B) n i d : (i < n)%nat -> nth i (map f (seq 0 n)) d = f i.
Proof.
  intro H. rewrite (nth_indep _ d (f 0%nat)) by (rewrite map_length, seq_length; exact H).
  rewrite (map_nth f (seq 0 n) 0%nat i). rewrite seq_nth by exact H. reflexivity.
Qed.

Lemma cumsum_from_length acc l : length (cumsum_from acc l) = length l.
Proof. revert acc; induction l as [|x l IH]; intro acc; simpl; [reflexivity|]. rewrite IH. reflexivity. Qed.

Lemma sorted_map_fst (g : nat * nat -> nat * Q) l :
  (forall p, fst (g p) = snd p) ->
  StronglySorted (fun a b => cnt_leb a b = true) l -> StronglySorted le_fst (map g l).
Proof.
  intros Hg S. induction S as [|x r S IH F]; simpl; constructor; [exact IH|].
  rewrite Forall_forall in *. intros y Iy. apply in_map_iff in Iy. destruct Iy as [z [<- Iz]].
  specialize (F z Iz). unfold cnt_leb in F. apply Nat.leb_le in F. unfold le_fst. rewrite !Hg. exact F.
Qed.

Lemma quantile_model_spec counts : QuantSpec counts (quantile_scores counts).
Proof.
  unfold QuantSpec, quantile_scores.
  set (n := length counts). set (idx := combine (seq 0 n) counts).
  set (sorted := isort (fun a b : nat * nat => Nat.leb (snd a) (snd b)) idx).
  set (tbl := combine (map fst sorted) (cumsum (map snd sorted))).
  set (T := nsum counts).
  split; [rewrite map_length, seq_length; reflexivity|].
  destruct (Nat.eqb T 0) eqn:T0.
  - apply Forall_forall. intros s Is. apply in_map_iff in Is. destruct Is as [i [<- _]].
    unfold share. rewrite T0. destruct (lookup_nat i tbl); reflexivity.
  - assert (P : Permutation sorted idx) by apply isort_perm.
    assert (Lidx : length idx = n) by (unfold idx; rewrite combine_length, seq_length; fold n; lia).
    assert (Fidx : map fst idx = seq 0 n).
    { unfold idx, n. clear. generalize 0%nat. induction counts as [|c l IH]; intro s; simpl; [reflexivity|]. rewrite IH. reflexivity. }
    assert (Pf : Permutation (map fst sorted) (seq 0 n)) by (rewrite <- Fidx; apply Permutation_map, P).
    assert (ND : NoDup (map fst sorted)).
    { eapply Permutation_NoDup; [symmetry; exact Pf|apply seq_NoDup]. }
    assert (Ltbl : length (cumsum (map snd sorted)) = length (map fst sorted)).
    { unfold cumsum. rewrite cumsum_from_length, !map_length. reflexivity. }
    assert (NDt : NoDup (map fst tbl)).
    { unfold tbl. rewrite map_fst_combine by (symmetry; exact Ltbl). exact ND. }
    set (f := fun i => match lookup_nat i tbl with Some c => Qofnat c / Qofnat T | None => 0 end).
    exists (map f (seq 0 n)). split.
    + rewrite map_map. apply map_ext_in. intros i Ii. unfold f, share. fold T. rewrite T0.
      assert (I : In i (map fst tbl)).
      { unfold tbl. rewrite map_fst_combine by (symmetry; exact Ltbl).
        eapply Permutation_in; [symmetry; exact Pf|exact Ii]. }
      apply in_map_iff in I. destruct I as [[k v] [E I]]. simpl in E. subst k.
      apply In_nth_error in I. destruct I as [j Hj]. rewrite (lookup_nodup tbl j i v NDt Hj). reflexivity.
    + set (g := fun p : nat * nat => (snd p, Qred (nth (fst p) (map f (seq 0 n)) 0))).
      exists (map g sorted). split; [|split].
      * rewrite <- (combine_reindex (map f (seq 0 n)) counts (map f (seq 0 n)) 0).
        -- apply Permutation_map. exact P.
        -- rewrite map_length, seq_length. reflexivity.
        -- intros j _. reflexivity.
      * apply sorted_map_fst; [reflexivity|].
        apply (isort_sorted cnt_leb cnt_leb_total cnt_leb_trans).
      * unfold shares. rewrite map_map. cbn [g fst].
        change (cumsum_from 0 (map (fun x : nat * nat => snd x) sorted)) with (cumsum (map snd sorted)).
        apply Forall2_nth; [rewrite map_length; unfold cumsum; rewrite cumsum_from_length, map_length; reflexivity|].
        intros j a c Ha Hc. rewrite nth_error_map in Ha.
        destruct (nth_error sorted j) as [[i ci]|] eqn:Ej; [|discriminate]. inversion Ha; subst a.
        cbn [g fst snd]. rewrite Qred_correct.
        assert (Ii : (i < n)%nat).
        { assert (In i (seq 0 n)) as I.
          { eapply Permutation_in; [exact Pf|]. apply nth_error_In in Ej. apply (in_map fst) in Ej. exact Ej. }
          apply in_seq in I. lia. }
        rewrite nth_map_seq by exact Ii. unfold f.
        assert (Ht : nth_error tbl j = Some (i, c)).
        { unfold tbl. clear - Ej Hc. revert j Ej Hc. generalize (cumsum (map snd sorted)) as cs.
          induction sorted as [|p l IH]; intros cs [|j] Ej Hc; simpl in *; try discriminate.
          - destruct cs; [discriminate|]. inversion Ej; inversion Hc; subst. reflexivity.
          - destruct cs; [discriminate|]. simpl in Hc. apply IH; assumption. }
        rewrite (lookup_nodup tbl j i c NDt Ht). reflexivity.
Qed.

Lemma pop_variants_definition_l : forall v counts, PopSpec v counts (pop_scores v counts).
Proof.
  intros [| |] counts; simpl.
  - apply Forall2_map_same. intros c _. eexists; split; reflexivity.
  - apply Forall2_map_same. intros c Ic. eexists; split; [reflexivity|].
    apply rank_score_def, n_equal_in, Ic.
  - apply quantile_model_spec.
Qed.

(* ---------------- strict monotonicity in the count ---------------- *)
Lemma nth_error_combine {A B} (l1 : list A) (l2 : list B) i a b :
  nth_error l1 i = Some a -> nth_error l2 i = Some b -> In (a, b) (combine l1 l2).
Proof.
  revert l2 i; induction l1 as [|x l1 IH]; intros [|y l2] [|i] Ha Hb; simpl in *; try discriminate.
  - inversion Ha; inversion Hb; subst. left; reflexivity.
  - right. eapply IH; eassumption.
Qed.

Lemma nsum_ge counts i c : nth_error counts i = Some c -> (c <= nsum counts)%nat.
Proof.
  revert i; induction counts as [|x l IH]; intros [|i] H; simpl in *; try discriminate.
  - inversion H; subst. lia.
  - specialize (IH i H). lia.
Qed.

Lemma pop_strictly_monotone_l : forall v counts scores, PopSpec v counts scores ->
  forall i j ci cj, nth_error counts i = Some ci -> nth_error counts j = Some cj -> (ci < cj)%nat ->
  exists si sj, nth_error scores i = Some (Some si) /\ nth_error scores j = Some (Some sj) /\ si < sj.
Proof.
  intros [| |] counts scores Sp i j ci cj Hi Hj Hlt; simpl in Sp.
  - destruct (Forall2_nth_error _ _ _ _ _ Sp Hi) as [si' [Ei [si [-> Qi]]]].
    destruct (Forall2_nth_error _ _ _ _ _ Sp Hj) as [sj' [Ej [sj [-> Qj]]]].
    exists si, sj. split; [exact Ei|]. split; [exact Ej|]. rewrite Qi, Qj. apply Qofnat_lt, Hlt.
  - destruct (Forall2_nth_error _ _ _ _ _ Sp Hi) as [si' [Ei [si [-> Qi]]]].
    destruct (Forall2_nth_error _ _ _ _ _ Sp Hj) as [sj' [Ej [sj [-> Qj]]]].
    exists si, sj. split; [exact Ei|]. split; [exact Ej|]. rewrite Qi, Qj.
    apply rank_def_mono; [eapply nth_error_In; eassumption|eapply nth_error_In; eassumption|exact Hlt].
  - destruct Sp as [L Sp].
    assert (HT : (0 < nsum counts)%nat) by (pose proof (nsum_ge _ _ _ Hj); lia).
    destruct (Nat.eqb_spec (nsum counts) 0) as [Z|_]; [lia|].
    destruct Sp as [ss [E [l [P [S Sh]]]]]. subst scores. rewrite map_length in L.
    assert (exists si, nth_error ss i = Some si) as [si Ei].
    { destruct (nth_error ss i) eqn:X; [eauto|]. apply nth_error_None in X.
      assert (i < length counts)%nat by (apply nth_error_Some; congruence). lia. }
    assert (exists sj, nth_error ss j = Some sj) as [sj Ej].
    { destruct (nth_error ss j) eqn:X; [eauto|]. apply nth_error_None in X.
      assert (j < length counts)%nat by (apply nth_error_Some; congruence). lia. }
    exists si, sj. rewrite !nth_error_map, Ei, Ej. split; [reflexivity|]. split; [reflexivity|].
    assert (Ia : In (ci, Qred si) l).
    { eapply Permutation_in; [symmetry; exact P|]. eapply nth_error_combine; [exact Hi|].
      rewrite nth_error_map, Ei. reflexivity. }
    assert (Ib : In (cj, Qred sj) l).
    { eapply Permutation_in; [symmetry; exact P|]. eapply nth_error_combine; [exact Hj|].
      rewrite nth_error_map, Ej. reflexivity. }
    pose proof (spec_mono _ l HT 0%nat S Sh _ _ Ia Ib Hlt) as M. cbn [snd] in M.
    rewrite !Qred_correct in M. exact M.
Qed.

(* ---------------- unknown items ---------------- *)
Lemma unknown_unscored_l : forall item_scores items k,
  nth_error items k = Some None -> nth_error (pop_call item_scores items) k = Some None.
Proof. intros sc items k H. unfold pop_call. rewrite nth_error_map, H. reflexivity. Qed.

Lemma known_scored_l : forall item_scores items k i,
  nth_error items k = Some (Some i) -> nth_error (pop_call item_scores items) k = Some (nth i item_scores None).
Proof. intros sc items k i H. unfold pop_call. rewrite nth_error_map, H. reflexivity. Qed.

(* ---------------- time-bounded counts ---------------- *)
(* the instant a stored time denotes, in seconds *)
Definition seconds (rep : trep) (t : Q) : Q :=
  match rep with TNum => t | TDate r => t / r end.
Definition rep_ok (rep : trep) : Prop := match rep with TNum => True | TDate r => 0 < r end.

Lemma after_cutoff_iff rep cutoff t : rep_ok rep -> after_cutoff rep cutoff t = true <-> cutoff < seconds rep t.
Proof.
  destruct rep as [|r]; unfold after_cutoff, seconds, rep_ok; intro P; rewrite Qltb_lt; [tauto|].
  assert (N : ~ r == 0) by (intro Z; rewrite Z in P; apply (Qlt_irrefl 0 P)).
  split; intro H.
  - apply (Qmult_lt_r _ _ r P). setoid_replace (t / r * r) with t by (field; exact N). exact H.
  - apply (Qmult_lt_r _ _ r P) in H. setoid_replace (t / r * r) with t in H by (field; exact N). exact H.
Qed.

Lemma after_cutoff_ltb rep cutoff t : rep_ok rep -> after_cutoff rep cutoff t = Qltb cutoff (seconds rep t).
Proof.
  intro P. destruct (Qltb cutoff (seconds rep t)) eqn:X.
  - apply after_cutoff_iff; [exact P|]. apply Qltb_lt, X.
  - destruct (after_cutoff rep cutoff t) eqn:Y; [|reflexivity].
    apply after_cutoff_iff in Y; [|exact P]. apply Qltb_lt in Y. congruence.
Qed.

Lemma time_bounded_counts_l : forall ni rep cutoff log, rep_ok rep ->
  length (tb_counts ni rep cutoff log) = ni /\
  forall i, (i < ni)%nat ->
    nth i (tb_counts ni rep cutoff log) 0%nat
    = length (filter (fun e => Nat.eqb (fst e) i && Qltb cutoff (seconds rep (snd e))) log).
Proof.
  intros ni rep cutoff log P. unfold tb_counts. split; [rewrite map_length, seq_length; reflexivity|].
  intros i Hi. rewrite nth_map_seq by exact Hi.
  induction log as [|e log IH]; simpl; [reflexivity|].
  rewrite (after_cutoff_ltb rep cutoff (snd e) P). destruct (Qltb cutoff (seconds rep (snd e))); simpl.
  - destruct (Nat.eqb (fst e) i); simpl; rewrite IH; reflexivity.
  - rewrite andb_false_r. exact IH.
Qed.

(* any date-time resolution storing the same instants gives the counts of the numeric representation *)
Lemma seconds_same r z : 0 < r -> seconds (TDate r) (z * r) == seconds TNum z.
Proof. intro P. unfold seconds. field. intro Z. rewrite Z in P. apply (Qlt_irrefl 0 P). Qed.

Lemma time_repr_irrelevant_l : forall ni cutoff r (log : list (nat * Q)), 0 < r ->
  tb_counts ni (TDate r) cutoff (map (fun e => (fst e, snd e * r)) log) = tb_counts ni TNum cutoff log.
Proof.
  intros ni cutoff r log P. unfold tb_counts. apply map_ext. intro i.
  induction log as [|e log IH]; cbn [map filter fst snd]; [reflexivity|].
  rewrite (after_cutoff_ltb (TDate r) cutoff (snd e * r) P), (after_cutoff_ltb TNum cutoff (snd e) I).
  assert (E : Qltb cutoff (seconds (TDate r) (snd e * r)) = Qltb cutoff (seconds TNum (snd e))).
  { unfold Qltb. rewrite (seconds_same r (snd e) P). reflexivity. }
  rewrite E. destruct (Qltb cutoff (seconds TNum (snd e))); cbn [filter fst snd]; [|exact IH].
  destruct (Nat.eqb (fst e) i); cbn [length]; rewrite IH; reflexivity.
Qed.

(* ---- the cutoff is an instant, however it is written ---- *)

Lemma Qltb_compat a a' t : a == a' -> Qltb a t = Qltb a' t.
Proof. intro E. unfold Qltb. rewrite E. reflexivity. Qed.

Lemma after_cutoff_compat rep a a' t : a == a' -> after_cutoff rep a t = after_cutoff rep a' t.
Proof.
  intro E. destruct rep as [|r]; unfold after_cutoff; apply Qltb_compat; [exact E|]. rewrite E. reflexivity.
Qed.

Lemma cutoff_same_instant_l : forall ni rep c1 c2 log, cut_instant c1 == cut_instant c2 ->
  tb_counts ni rep (cut_instant c1) log = tb_counts ni rep (cut_instant c2) log.
Proof.
  intros ni rep c1 c2 log E. unfold tb_counts.
  rewrite (filter_ext _ _ (fun e => after_cutoff_compat rep _ _ (snd e) E)). reflexivity.
Qed.

(* an interaction between the instant and the clock reading taken as UTC: kept by the cutoff's instant when the
   offset is positive (and dropped by the misreading), dropped when it is negative (and kept by the misreading) *)
Lemma cutoff_offset_counts_l : forall c t,
  (cut_instant c < t -> t <= c_wall c ->
     after_cutoff TNum (cut_instant c) t = true /\ after_cutoff TNum (c_wall c) t = false) /\
  (c_wall c < t -> t <= cut_instant c ->
     after_cutoff TNum (cut_instant c) t = false /\ after_cutoff TNum (c_wall c) t = true).
Proof.
  intros c t. unfold after_cutoff. split; intros A B; split;
    first [apply Qltb_lt; assumption | apply Qltb_nlt; assumption].
Qed.

Lemma cutoff_misread_shift_l : forall c, cut_instant {| c_wall := c_wall c; c_off := 0 |} == cut_instant c + c_off c.
Proof. intro c. unfold cut_instant. cbn. ring. Qed.
