(* C06 -- the statements of Props/C06.v, proved for the GENERATED functions by transporting the
   model-level results along Proofs/C06_gen.v. *)
From Coq Require Import ZArith QArith Qpower Qabs List Bool Lia Lqa Permutation Sorted Setoid Morphisms.
From LK Require Import Lib.QLib Lib.RankLib Model.C06_ranking Gen.C06_metrics
  Proofs.C06_gen Proofs.C06_model Proofs.C06_defs Proofs.C06_bounds Proofs.C06_ideal Proofs.C06_swap.
Import ListNotations.
Open Scope Q_scope.

Lemma exc_le_eq a a' b b' : exc_eq a a' -> exc_eq b b' -> exc_le a' b' -> exc_le a b.
Proof.
  destruct a as [e|[|x|x]], a' as [e'|[|x'|x']], b as [f|[|y|y]], b' as [f'|[|y'|y']]; cbn; try tauto; try congruence.
  intros E1 E2 H. rewrite E1, E2. exact H.
Qed.

(* ---- definitions ---- *)
Lemma truncate_first_k_l : forall k recs,
  truncate k recs = if trunc_ok k recs then Ret (trunc_il k recs) else Raise EValue.
Proof. exact truncate_nf. Qed.

Lemma with_topk_unfold_l : forall k recs f,
  with_topk k recs f = if trunc_ok k recs then f (topk k (il_ids recs)) else Raise EValue.
Proof. exact with_topk_nf. Qed.

Lemma hit_eq_definition_l : forall k recs t,
  hit_measure_list k recs t = hit_model k recs t /\
  forall L, existsb (rel t) L = true <-> exists i, In i L /\ In i (tl_ids t).
Proof. intros. split; [apply hit_gen|intro L; apply hit_iff]. Qed.

Lemma precision_eq_definition_l : forall k recs t,
  precision_measure_list k recs t = precision_model k recs t.
Proof. exact precision_gen. Qed.

Lemma recall_eq_definition_l : forall k recs t,
  recall_measure_list k recs t = recall_model k recs t.
Proof. exact recall_gen. Qed.

Lemma hit_count_is_intersection_size_l : forall t L, NoDup L ->
  (ngood t L <= length L)%nat /\ (ngood t L <= tl_len t)%nat /\
  forall X, NoDup X -> (forall i, In i X <-> In i L /\ In i (tl_ids t)) -> length X = ngood t L.
Proof.
  intros t L ND. split; [apply ngood_le_length|]. split; [apply ngood_le_test, ND|apply ngood_set, ND].
Qed.

Lemma recip_eq_definition_l : forall k recs t,
  exc_eq (recip_measure_list k recs t) (recip_model k recs t) /\
  (forall L p, (p < length L)%nat -> rel t (nth p L 0%Z) = true ->
     (forall j, (j < p)%nat -> rel t (nth j L 0%Z) = false) -> rr_from 1 t L = 1 / Qofnat (1 + p)) /\
  (forall L, (forall i, In i L -> rel t i = false) -> rr_from 1 t L = 0).
Proof.
  intros. split; [apply recip_gen|]. split; [intros L p; apply rr_first|intro L; apply rr_none].
Qed.

Lemma rbp_eq_definition_l : forall k g nrm recs t,
  exc_eq (rbp_measure_list k g nrm recs t) (rbp_model g nrm k recs t).
Proof. intros. apply rbp_gen. Qed.

Lemma dcg_eq_definition_l : forall k disc graded recs t,
  exc_eq (dcg_measure_list k disc graded recs t) (dcg_model disc graded k recs t).
Proof. intros. apply dcg_gen. Qed.

Lemma ndcg_eq_definition_l : forall k disc graded recs t,
  exc_eq (ndcg_measure_list k disc graded recs t) (ndcg_model disc graded k recs t).
Proof. intros. apply ndcg_gen. Qed.

(* the normaliser of nDCG is the largest DCG any duplicate-free ranking of at most k items reaches *)
Lemma ideal_dcg_is_maximum_l : forall disc k t L,
  disc_mono disc -> nonneg_gains t -> NoDup L -> valid_k k ->
  (match k with Some n => length L <= n | None => True end)%nat ->
  dcg_of disc (scores_graded t L) <= dcg_of disc (ideal_gains k (map snd (tl_items t))).
Proof. exact ideal_gains_bound. Qed.

Lemma pop_eq_definition_l : forall counts k recs t,
  pop_measure_list k (pop_item_ranks counts) recs t = pop_model counts k recs t /\
  (forall i, 0 <= item_quantile counts i <= 1) /\
  (forall i, ~ In i (map fst counts) -> item_quantile counts i = 0) /\
  (forall i, count_of counts i = 0%nat -> item_quantile counts i = 0) /\
  (forall i j, (count_of counts i <= count_of counts j)%nat -> item_quantile counts i <= item_quantile counts j) /\
  (forall c, In c (pos_counts counts) -> 0 < quantile counts c) /\
  (forall c, In c (pos_counts counts) -> (forall x, In x (pos_counts counts) -> (x <= c)%nat) ->
             count_eq (pos_counts counts) c = 1%nat -> quantile counts c == 1).
Proof.
  intros. split; [apply pop_gen|]. split; [apply item_quantile_range|].
  split; [intros i H; unfold item_quantile; rewrite count_of_absent by exact H; reflexivity|].
  split; [intros i H; unfold item_quantile; rewrite H; reflexivity|].
  split; [intros i j H; apply quantile_mono, H|].
  split; [intros c H; apply quantile_range, H|apply quantile_unique_max].
Qed.

(* ---- consequences ---- *)
Lemma normalised_in_unit_interval_l : forall k recs t,
  trunc_ok k recs = true -> NoDup (il_ids recs) -> tl_len t <> 0%nat -> valid_k k ->
  (* recall *)
  exc_in 0 1 (recall_measure_list k recs t) /\
  (* nDCG, binary gain *)
  (forall disc, disc_mono disc -> exc_in 0 1 (ndcg_measure_list k disc false recs t)) /\
  (* nDCG, graded gain *)
  (forall disc, disc_mono disc -> tl_has_gain t = true -> nonneg_gains t ->
     (exists e, In e (tl_items t) /\ 0 < snd e) -> exc_in 0 1 (ndcg_measure_list k disc true recs t)) /\
  (* normalised RBP *)
  (forall g, 0 <= g -> g <= 1 -> topk k (il_ids recs) <> [] -> exc_in 0 1 (rbp_measure_list k g true recs t)).
Proof.
  intros k recs t OK ND NE VK. split; [rewrite recall_gen; apply recall_in_unit; assumption|].
  split; [intros disc DM; eapply exc_in_eq; [apply ndcg_gen|apply ndcg_binary_in_unit; assumption]|].
  split.
  - intros disc DM HG NN PG. eapply exc_in_eq; [apply ndcg_gen|apply ndcg_graded_in_unit; assumption].
  - intros g G0 G1 NL. eapply exc_in_eq; [apply rbp_gen|apply rbp_norm_in_unit; assumption].
Qed.

Lemma ideal_scores_one_l : forall k recs t,
  trunc_ok k recs = true -> NoDup (tl_ids t) -> tl_len t <> 0%nat -> valid_k k ->
  (ideal_ranking_bin t (il_ids recs) ->
     exc_eq (recall_measure_list k recs t) (Ret (RVal 1)) /\
     (forall disc, exc_eq (ndcg_measure_list k disc false recs t) (Ret (RVal 1))) /\
     (forall g, 0 <= g -> exc_eq (rbp_measure_list k g true recs t) (Ret (RVal 1)))) /\
  (ideal_ranking t (il_ids recs) -> tl_has_gain t = true -> nonneg_gains t ->
     (exists e, In e (tl_items t) /\ 0 < snd e) ->
     forall disc, exc_eq (ndcg_measure_list k disc true recs t) (Ret (RVal 1))).
Proof.
  intros k recs t OK NDt NE VK. split.
  - intro ID. split; [rewrite recall_gen; apply recall_ideal; assumption|].
    split.
    + intro disc. eapply exc_eq_trans; [apply ndcg_gen|apply ndcg_binary_ideal; assumption].
    + intros g G0. eapply exc_eq_trans; [apply rbp_gen|apply rbp_norm_ideal; assumption].
  - intros ID HG NN PG disc. eapply exc_eq_trans; [apply ndcg_gen|apply ndcg_graded_ideal; assumption].
Qed.

Lemma swap_up_monotone_l : forall k recs t ids' x y,
  swapped (il_ids recs) ids' x y ->
  let recs' := recs_with recs ids' in
  (* binary relevance: x irrelevant, y relevant *)
  (rel t x = false -> rel t y = true ->
     exc_le (hit_measure_list k recs t) (hit_measure_list k recs' t) /\
     exc_le (precision_measure_list k recs t) (precision_measure_list k recs' t) /\
     exc_le (recall_measure_list k recs t) (recall_measure_list k recs' t) /\
     exc_le (recip_measure_list k recs t) (recip_measure_list k recs' t) /\
     (forall g nrm, 0 <= g -> g <= 1 ->
        exc_le (rbp_measure_list k g nrm recs t) (rbp_measure_list k g nrm recs' t)) /\
     (forall disc, disc_mono disc ->
        exc_le (dcg_measure_list k disc false recs t) (dcg_measure_list k disc false recs' t) /\
        exc_le (ndcg_measure_list k disc false recs t) (ndcg_measure_list k disc false recs' t))) /\
  (* graded gain: y has at least the gain of x (an item outside the test data has gain 0) *)
  (nonneg_gains t -> gain_of (tl_items t) x 0 <= gain_of (tl_items t) y 0 ->
     forall disc, disc_mono disc ->
       exc_le (dcg_measure_list k disc true recs t) (dcg_measure_list k disc true recs' t) /\
       exc_le (ndcg_measure_list k disc true recs t) (ndcg_measure_list k disc true recs' t)).
Proof.
  intros k recs t ids' x y SW recs'. split.
  - intros RX RY.
    split; [rewrite !hit_gen; apply (hit_swap k recs t ids' x y SW RX RY)|].
    split; [rewrite !precision_gen; apply (precision_swap k recs t ids' x y SW RX RY)|].
    split; [rewrite !recall_gen; apply (recall_swap k recs t ids' x y SW RX RY)|].
    split; [eapply exc_le_eq; [apply recip_gen|apply recip_gen|apply (recip_swap k recs t ids' x y SW RX RY)]|].
    split.
    + intros g nrm G0 G1. eapply exc_le_eq; [apply rbp_gen|apply rbp_gen|].
      apply (rbp_swap k recs t ids' x y SW RX RY g nrm G0 G1).
    + intros disc DM. split; (eapply exc_le_eq; [apply dcg_gen || apply ndcg_gen|apply dcg_gen || apply ndcg_gen|]).
      * apply (dcg_binary_swap k recs t ids' x y SW RX RY disc DM).
      * apply (ndcg_binary_swap k recs t ids' x y SW RX RY disc DM).
  - intros NN G disc DM. split; (eapply exc_le_eq; [apply dcg_gen || apply ndcg_gen|apply dcg_gen || apply ndcg_gen|]).
    + apply (dcg_graded_swap k recs t ids' x y SW disc DM NN G).
    + apply (ndcg_graded_swap k recs t ids' x y SW disc DM NN G).
Qed.

(* an item outside the test data has gain 0, so it can always be exchanged upwards with a test item *)
Lemma irrelevant_gain_zero_l : forall t x, ~ In x (tl_ids t) -> gain_of (tl_items t) x 0 = 0.
Proof. intros t x H. apply gain_of_absent. exact H. Qed.

(* a non-decreasing discount satisfies the hypothesis used above *)
Lemma nondecreasing_discount_ok_l : forall disc, (forall r, disc r <= disc (S r)) -> disc_mono disc.
Proof. exact disc_mono_of_nondecreasing. Qed.

Lemma discount_hypothesis_holds_l :
  (forall disc, (forall r, disc r <= disc (S r)) -> disc_mono disc) /\
  disc_mono (tbl_disc_ext log2_table) /\
  (forall t x, ~ In x (tl_ids t) -> gain_of (tl_items t) x 0 = 0).
Proof.
  split; [exact disc_mono_of_nondecreasing|]. split; [|exact irrelevant_gain_zero_l].
  apply tbl_disc_ext_mono. vm_compute. reflexivity.
Qed.

Ltac nodup_z := repeat (constructor; [cbn; intuition congruence|]); constructor.

Lemma c06_nonvacuous_l :
  let recs := {| il_ordered := true; il_ids := [1; 2; 3; 4; 5]%Z |} in
  let t := {| tl_items := [(2%Z, 2); (9%Z, 5); (5%Z, 1)]; tl_has_gain := true |} in
  let ideal := {| il_ordered := true; il_ids := [9; 2; 5; 7]%Z |} in
  let k := Some 4%nat in
  let disc := tbl_disc_ext log2_table in
  trunc_ok k recs = true /\ NoDup (il_ids recs) /\ NoDup (tl_ids t) /\ tl_len t <> 0%nat /\ valid_k k /\
  nonneg_gains t /\ disc_mono disc /\ (exists e, In e (tl_items t) /\ 0 < snd e) /\
  ideal_ranking t (il_ids ideal) /\ ideal_ranking_bin t (il_ids ideal) /\
  swapped (il_ids recs) [2; 1; 3; 4; 5]%Z 1%Z 2%Z /\ rel t 1%Z = false /\ rel t 2%Z = true /\
  exc_eq (recall_measure_list k recs t) (Ret (RVal (1 # 3))) /\
  exc_eq (recall_measure_list k ideal t) (Ret (RVal 1)) /\
  exc_eq (rbp_measure_list k (1 # 2) true recs t) (Ret (RVal (2 # 7))) /\
  exc_in 0 1 (ndcg_measure_list k disc true recs t) /\
  exc_eq (ndcg_measure_list k disc true ideal t) (Ret (RVal 1)).
Proof.
  cbv zeta.
  split; [reflexivity|]. split; [cbn; nodup_z|]. split; [cbn; nodup_z|].
  split; [cbn; discriminate|]. split; [unfold valid_k; discriminate|].
  split; [intros e [<-|[<-|[<-|[]]]]; cbn; lra|].
  split; [apply discount_hypothesis_holds_l|].
  split; [exists (9%Z, 5); split; [cbn; auto|cbn; lra]|].
  split.
  { exists [9; 2; 5]%Z, [7]%Z. split; [reflexivity|]. split; [cbn; apply perm_swap|].
    split; [cbn; intros i [<-|[]]; intuition discriminate|].
    cbn. repeat constructor; unfold Qge'; lra. }
  split.
  { exists [9; 2; 5]%Z, [7]%Z. split; [reflexivity|]. split; [cbn; apply perm_swap|].
    cbn; intros i [<-|[]]; intuition discriminate. }
  split; [exists [], [], [3; 4; 5]%Z; split; reflexivity|].
  split; [reflexivity|]. split; [reflexivity|].
  split; [vm_compute; reflexivity|]. split; [vm_compute; reflexivity|]. split; [vm_compute; reflexivity|].
  split; [vm_compute; split; discriminate|]. vm_compute. reflexivity.
Qed.
