(* C17 -- the history invariant (every attribute column, decoded, is the supplied value of each table
   row's entity) and the read-back theorem for every layout, selection and order of additions. *)
From Coq Require Import ZArith List Bool Arith Lia.
From LK Require Import Model.C17_attributes Proofs.C17_align.
Import ListNotations.
Open Scope Z_scope.

(* ---------------------------------------------------------------- the specification side *)
Fixpoint assocZ {A} (i : Z) (ps : list (Z * A)) : option A :=
  match ps with [] => None | (k, v) :: t => if Z.eqb i k then Some v else assocZ i t end.
(* the value supplied for entity i (None: none supplied, or a null) *)
Definition value_of {A} (ids : list Z) (vals : list (option A)) (i : Z) : option A :=
  join (assocZ i (combine ids vals)).

Lemma assocZ_notin {A} i ids (vals : list A) : ~ In i ids -> assocZ i (combine ids vals) = None.
Proof.
  revert vals. induction ids as [|k t IH]; intros [|v vs] H; cbn [combine assocZ]; try reflexivity.
  destruct (Z.eqb_spec i k) as [->|NE]; [exfalso; apply H; left; reflexivity|].
  apply IH. intro I. apply H. right. exact I.
Qed.

(* ---------------------------------------------------------------- identifiers and row numbers *)
Lemma index_of_nth x l k : index_of x l = Some k -> nth k l 0 = x /\ (k < length l)%nat.
Proof.
  revert k. induction l as [|y t IH]; intros k; cbn [index_of]; [discriminate|].
  destruct (Z.eqb_spec x y) as [->|NE].
  - intro E. injection E as <-. cbn. split; [reflexivity|lia].
  - destruct (index_of x t) as [j|]; cbn [option_map]; [|discriminate].
    intro E. injection E as <-. destruct (IH j eq_refl) as [A B]. cbn [nth length]. split; [exact A|lia].
Qed.

Lemma index_of_nodup l : NoDup l -> forall k, (k < length l)%nat -> index_of (nth k l 0) l = Some k.
Proof.
  induction 1 as [|y t NI ND IH]; intros k H; cbn [length] in H; [lia|].
  destruct k as [|k]; cbn [nth index_of].
  - rewrite Z.eqb_refl. reflexivity.
  - destruct (Z.eqb_spec (nth k t 0) y) as [E|NE].
    + exfalso. apply NI. rewrite <- E. apply nth_In. lia.
    + rewrite IH by lia. reflexivity.
Qed.

Lemma index_of_in x l : In x l -> exists k, index_of x l = Some k.
Proof.
  induction l as [|y t IH]; cbn [In index_of]; [intros []|].
  intros [->|I]; [rewrite Z.eqb_refl; eexists; reflexivity|].
  destruct (Z.eqb x y); [eexists; reflexivity|]. destruct (IH I) as [k ->]. eexists. reflexivity.
Qed.

Definition resolved (rows : list Z) (ids : list Z) (nums : list nat) : Prop :=
  Forall2 (fun i k => index_of i rows = Some k) ids nums.

Lemma resolve_spec rows ids nums : resolve rows ids = Ok nums -> resolved rows ids nums.
Proof.
  revert nums. induction ids as [|i t IH]; intros nums; cbn [resolve].
  - intro E. injection E as <-. constructor.
  - destruct (index_of i rows) as [k|] eqn:I; [|discriminate].
    destruct (resolve rows t) as [ks|]; cbn [bind]; [|discriminate].
    intro E. injection E as <-. constructor; [exact I|apply IH; reflexivity].
Qed.

Lemma select_spec rows ids sel : select_rows rows ids = Ok sel -> resolved rows ids sel.
Proof.
  revert sel. induction ids as [|i t IH]; intros sel; cbn [select_rows].
  - intro E. injection E as <-. constructor.
  - destruct (index_of i rows) as [k|] eqn:I; [|discriminate].
    destruct (select_rows rows t) as [ks|]; cbn [bind]; [|discriminate].
    intro E. injection E as <-. constructor; [exact I|apply IH; reflexivity].
Qed.

Lemma resolved_length rows ids nums : resolved rows ids nums -> length ids = length nums.
Proof. induction 1; cbn [length]; congruence. Qed.

Lemma resolved_bound rows ids nums : resolved rows ids nums -> Forall (fun r => (r < length rows)%nat) nums.
Proof. induction 1 as [|i k is ks H _ IH]; constructor; [apply (index_of_nth _ _ _ H)|exact IH]. Qed.

Lemma resolved_in rows ids nums : resolved rows ids nums -> incl ids rows.
Proof.
  induction 1 as [|i k is ks H _ IH]; [intros x []|].
  intros x [<-|I]; [|apply IH; exact I]. destruct (index_of_nth _ _ _ H) as [<- B]. apply nth_In. exact B.
Qed.

Lemma resolved_nodup rows ids nums : resolved rows ids nums -> NoDup ids -> NoDup nums.
Proof.
  induction 1 as [|i k is ks H F IH]; intro ND; [constructor|].
  apply NoDup_cons_iff in ND. destruct ND as [NI ND]. constructor; [|apply IH; exact ND].
  intro I. apply NI. clear IH ND NI.
  induction F as [|j m js ms Hj _ IHF]; [destruct I|].
  destruct I as [->|I]; [left|right; apply IHF; exact I].
  destruct (index_of_nth _ _ _ H) as [<- _]. destruct (index_of_nth _ _ _ Hj) as [<- _]. reflexivity.
Qed.

(* looking a row up among the resolved numbers = looking its entity up among the identifiers *)
Lemma bridge {A} rows ids nums (vals : list A) r :
  resolved rows ids nums -> NoDup rows -> (r < length rows)%nat ->
  lookupn r (combine nums vals) = assocZ (nth r rows 0) (combine ids vals).
Proof.
  intros F ND Hr. revert vals. induction F as [|i k is ks H _ IH]; intros [|v vs]; cbn [combine lookupn assocZ]; try reflexivity.
  destruct (index_of_nth _ _ _ H) as [E B].
  destruct (Nat.eqb_spec r k) as [->|NE].
  - rewrite E, Z.eqb_refl. reflexivity.
  - destruct (Z.eqb_spec (nth r rows 0) i) as [E2|NE2].
    + exfalso. apply NE. pose proof (index_of_nodup rows ND r Hr) as X. rewrite E2, H in X. congruence.
    + apply IH.
Qed.

Lemma map_seq_nth {B} (f : Z -> B) rows : map (fun r => f (nth r rows 0)) (seq 0 (length rows)) = map f rows.
Proof.
  induction rows as [|x t IH]; [reflexivity|]. cbn [length seq map nth]. f_equal.
  rewrite <- seq_shift, map_map. exact IH.
Qed.

(* a placed column, decoded, is the supplied value of each row's entity *)
Lemma column_spec {A} rows ids nums (vals : list (option A)) :
  resolved rows ids nums -> NoDup rows ->
  map (fun r => join (lookupn r (combine nums vals))) (seq 0 (length rows)) = map (value_of ids vals) rows.
Proof.
  intros F ND. rewrite <- (map_seq_nth (value_of ids vals) rows). apply map_ext_in. intros r Hr. apply in_seq in Hr.
  unfold value_of. rewrite (bridge rows ids nums vals r F ND) by lia. reflexivity.
Qed.

(* ---------------------------------------------------------------- reading at a selection *)
Lemma take_all {B} (d : B) col : take d col (seq 0 (length col)) = col.
Proof.
  unfold take. induction col as [|x t IH]; [reflexivity|]. cbn [length seq map nth]. f_equal.
  rewrite <- seq_shift, map_map. exact IH.
Qed.

Lemma take_selected {B} (f : Z -> option B) rows ids sel :
  resolved rows ids sel -> take None (map f rows) sel = map f ids.
Proof.
  unfold take. induction 1 as [|i k is ks H _ IH]; [reflexivity|]. cbn [map]. f_equal; [|exact IH].
  destruct (index_of_nth _ _ _ H) as [E Bk].
  rewrite (nth_indep _ None (f 0)) by (rewrite map_length; exact Bk). rewrite map_nth, E. reflexivity.
Qed.

(* ---------------------------------------------------------------- dense vectors: chunking the value buffer *)
Definition vec_ok (size : nat) (o : option (list elem)) : Prop := forall v, o = Some v -> length v = size.

Lemma chunk_cons {A} f size (v rest : list A) : length v = size -> (1 <= size)%nat ->
  chunk (S f) size (v ++ rest) = v :: chunk f size rest.
Proof.
  intros L S1. cbn [chunk]. destruct (v ++ rest) eqn:E.
  - exfalso. destruct v; [cbn in L; lia|discriminate].
  - rewrite <- E. rewrite firstn_app, firstn_all2 by lia. rewrite skipn_app, skipn_all2 by lia.
    replace (size - length v)%nat with 0%nat by lia. cbn [firstn skipn app]. rewrite app_nil_r. reflexivity.
Qed.

Lemma chunk_nil {A} f size : chunk f size (@nil A) = [].
Proof. destruct f; reflexivity. Qed.

Lemma chunk_valid size (col : list (option (list elem))) extra :
  (1 <= size)%nat -> Forall (vec_ok size) col ->
  chunk (length col + extra) size (flat_values col) = flat_map (fun o => match o with Some v => [v] | None => [] end) col.
Proof.
  intros S1 F. revert extra. induction F as [|o t Ho Ht IH]; intro extra.
  - unfold flat_values. cbn. apply chunk_nil.
  - unfold flat_values. cbn [map concat flat_map length]. destruct o as [v|].
    + fold (flat_values t). cbn [plus]. rewrite (chunk_cons _ size v _ (Ho v eq_refl) S1). cbn [app]. f_equal. apply IH.
    + cbn [app]. fold (flat_values t). replace (S (length t) + extra)%nat with (length t + S extra)%nat by lia. apply IH.
Qed.

Lemma rwm_false {A} k m (vals : list (option A)) :
  replace_with_mask (repeat false k ++ m) vals = repeat None k ++ replace_with_mask m vals.
Proof. induction k as [|k IH]; cbn [repeat app replace_with_mask]; [reflexivity|]. rewrite IH. reflexivity. Qed.

Lemma rwm_true {A} (v : list A) m (rest : list (option A)) :
  replace_with_mask (repeat true (length v) ++ m) (map Some v ++ rest) = map Some v ++ replace_with_mask m rest.
Proof. induction v as [|x t IH]; cbn [length repeat app map replace_with_mask]; [reflexivity|]. rewrite IH. reflexivity. Qed.

Definition unopt (l : list (option elem)) : list elem := map (fun o : option elem => match o with Some e => e | None => (None : elem) end) l.

Lemma unopt_app a b : unopt (a ++ b) = unopt a ++ unopt b.
Proof. apply map_app. Qed.
Lemma unopt_some v : unopt (map Some v) = v.
Proof. unfold unopt. rewrite map_map. apply map_id. Qed.
Lemma unopt_none k : unopt (repeat None k) = repeat None k.
Proof. induction k as [|k IH]; cbn [repeat unopt map]; [reflexivity|]. fold (unopt (repeat None k)). rewrite IH. reflexivity. Qed.

Lemma replace_vectors_spec size (col : list (option (list elem))) :
  (1 <= size)%nat -> Forall (vec_ok size) col ->
  replace_vectors size (map is_some col) (flat_map (fun o => match o with Some v => [v] | None => [] end) col) = col.
Proof.
  intros S1 F. unfold replace_vectors. fold (unopt).
  (* generalise the fuel of chunk *)
  assert (G : forall extra,
     map (fun p : bool * list elem => if fst p then Some (snd p) else None)
       (combine (map is_some col)
          (chunk (length (map is_some col) + extra) size
             (unopt (replace_with_mask (flat_map (fun b => repeat b size) (map is_some col))
                       (map Some (concat (flat_map (fun o => match o with Some v => [v] | None => [] end) col))))))) = col).
  { induction F as [|o t Ho Ht IH]; intro extra; [reflexivity|].
    cbn [map flat_map length]. destruct o as [v|]; cbn [is_some].
    - specialize (Ho v eq_refl). cbn [app concat]. rewrite map_app.
      replace (repeat true size) with (repeat true (length v)) by (rewrite Ho; reflexivity). rewrite rwm_true.
      rewrite unopt_app, unopt_some. cbn [plus].
      rewrite (chunk_cons _ size v _ Ho S1). cbn [combine map fst snd]. f_equal. apply IH.
    - cbn [app]. rewrite rwm_false, unopt_app, unopt_none. cbn [plus].
      rewrite chunk_cons; [|apply repeat_length|exact S1]. cbn [combine map fst snd]. f_equal. apply IH. }
  specialize (G 0%nat). rewrite Nat.add_0_r in G. exact G.
Qed.

Lemma vec_reconstruct size (col : list (option (list elem))) :
  (1 <= size)%nat -> Forall (vec_ok size) col ->
  (if forallb is_some col then map Some (chunk (length col) size (flat_values col))
   else replace_vectors size (map is_some col) (chunk (length col) size (flat_values col))) = col.
Proof.
  intros S1 F. pose proof (chunk_valid size col 0 S1 F) as CV. rewrite Nat.add_0_r in CV. rewrite CV.
  destruct (forallb is_some col) eqn:AV.
  - clear CV. induction col as [|o t IH]; [reflexivity|]. cbn [forallb] in AV. apply andb_true_iff in AV. destruct AV as [A B].
    destruct o; [|discriminate]. cbn [flat_map app map]. f_equal. inversion F; subst. apply IH; assumption.
  - apply replace_vectors_spec; assumption.
Qed.

(* ---------------------------------------------------------------- histories *)
Inductive supplied :=
| SupScalar (ids : list Z) (vals : list elem)
| SupList (ids : list Z) (lists : list (option (list elem)))
| SupVector (ids : list Z) (size : nat) (vecs : list (option (list elem))) (dims : option (list Z))
| SupSparse (ids : list Z) (ncol : nat) (csr : list (list (nat * Z))) (dims : option (list Z)).

Definition sup_of (o : op) : list (nat * supplied) :=
  match o with
  | OEntities _ => []
  | OScalar n ids v => [(n, SupScalar ids v)]
  | OList n ids l => [(n, SupList ids l)]
  | OVector n ids s v d => [(n, SupVector ids s v d)]
  | OSparse n ids c m d => [(n, SupSparse ids c m d)]
  end.
(* what the accepted calls of a history supplied, per attribute name *)
Fixpoint history (t : table) (ops : list op) : list (nat * supplied) :=
  match ops with
  | [] => []
  | o :: r => match step t o with Ok t' => sup_of o ++ history t' r | Err _ => history t r end
  end.

(* what a caller owes *)
Definition op_wf (o : op) : Prop :=
  match o with
  | OEntities _ => True
  | OScalar _ ids v => NoDup ids /\ length v = length ids
  | OList _ ids l => NoDup ids /\ length l = length ids
  | OVector _ ids s v _ => NoDup ids /\ length v = length ids /\ (1 <= s)%nat /\ Forall (vec_ok s) v
  | OSparse _ ids _ m _ => NoDup ids /\ length m = length ids
  end.

Definition matches (t : table) (a : attr) (s : supplied) : Prop :=
  match s with
  | SupScalar ids vals => (exists v, a_col a = CScalar v) /\ col_scalar (a_col a) = map (value_of ids vals) (t_rows t)
  | SupList ids lists => (exists la p, a_col a = CList la p) /\ col_lists (a_col a) = map (value_of ids lists) (t_rows t)
  | SupVector ids size vecs dims =>
      ((exists vs p, a_col a = CVecFixed size vs p) \/ (exists la p, a_col a = CVecList size la p)) /\
      col_lists (a_col a) = map (value_of ids vecs) (t_rows t) /\ a_dims a = dims /\
      (1 <= size)%nat /\ Forall (vec_ok size) vecs
  | SupSparse ids ncol csr dims =>
      (exists la p, a_col a = CSparse ncol la p) /\
      col_sparse (a_col a) = map (value_of ids (map Some csr)) (t_rows t) /\ a_dims a = dims
  end.
Definition sup_ids (s : supplied) : list Z :=
  match s with SupScalar i _ | SupList i _ | SupVector i _ _ _ | SupSparse i _ _ _ => i end.

Record inv (t : table) (H : list (nat * supplied)) : Prop := mk_inv {
  inv_rows : NoDup (t_rows t);
  inv_attrs : forall name s, In (name, s) H ->
              exists a, find_attr t name = Some a /\ matches t a s /\ incl (sup_ids s) (t_rows t);
  inv_names : forall a, In a (t_attrs t) -> exists s, In (a_name a, s) H
}.

(* ---------------------------------------------------------------- entities *)
Lemma in_insertZ x y l : In x (insertZ y l) <-> x = y \/ In x l.
Proof.
  induction l as [|z t IH]; cbn [insertZ In]; [intuition|].
  destruct (y <=? z); cbn [In]; [intuition|]. rewrite IH. intuition.
Qed.
Lemma in_sortZ x l : In x (sortZ l) <-> In x l.
Proof.
  induction l as [|y t IH]; cbn [sortZ fold_right In]; [reflexivity|]. fold (sortZ t). rewrite in_insertZ, IH. intuition.
Qed.
Lemma insertZ_length y l : length (insertZ y l) = S (length l).
Proof. induction l as [|z t IH]; cbn [insertZ length]; [reflexivity|]. destruct (y <=? z); cbn [length]; [reflexivity|]. rewrite IH. reflexivity. Qed.
Lemma sortZ_length l : length (sortZ l) = length l.
Proof. induction l as [|y t IH]; cbn [sortZ fold_right length]; [reflexivity|]. fold (sortZ t). rewrite insertZ_length, IH. reflexivity. Qed.
Lemma insertZ_nodup y l : NoDup l -> ~ In y l -> NoDup (insertZ y l).
Proof.
  induction 1 as [|z t NI ND IH]; intro H; cbn [insertZ]; [constructor; [intros []|constructor]|].
  destruct (y <=? z).
  - constructor; [exact H|constructor; assumption].
  - constructor.
    + intro I. apply in_insertZ in I. destruct I as [->|I]; [apply H; left; reflexivity|contradiction].
    + apply IH. intro I. apply H. right. exact I.
Qed.
Lemma sortZ_nodup l : NoDup l -> NoDup (sortZ l).
Proof.
  induction 1 as [|y t NI ND IH]; cbn [sortZ fold_right]; [constructor|]. fold (sortZ t).
  apply insertZ_nodup; [exact IH|]. intro I. apply NI. apply in_sortZ. exact I.
Qed.
Lemma nodupZ_spec l : nodupZ l = true -> NoDup l.
Proof.
  induction l as [|x t IH]; cbn [nodupZ]; [constructor|]. intro H. apply andb_true_iff in H. destruct H as [A B].
  constructor; [|apply IH; exact B]. intro I. apply negb_true_iff in A.
  assert (X : existsb (Z.eqb x) t = true) by (apply existsb_exists; exists x; split; [exact I|apply Z.eqb_refl]). congruence.
Qed.

Lemma find_attr_map t name (f : attr -> attr) :
  (forall a, a_name (f a) = a_name a) ->
  find (fun a => Nat.eqb (a_name a) name) (map f (t_attrs t)) = option_map f (find_attr t name).
Proof.
  intro FN. unfold find_attr. induction (t_attrs t) as [|a r IH]; [reflexivity|]. cbn [map find]. rewrite FN.
  destruct (Nat.eqb (a_name a) name); [reflexivity|exact IH].
Qed.

Lemma pad_nulls_app {A} p k : @pad_nulls A (p + k) = pad_nulls p ++ pad_nulls k.
Proof. unfold pad_nulls. apply repeat_app. Qed.

Lemma values_of_fresh {A} ids (vals : list (option A)) (new : list Z) :
  (forall x, In x new -> ~ In x ids) -> map (value_of ids vals) new = pad_nulls (length new).
Proof.
  intro H. induction new as [|x t IH]; [reflexivity|]. cbn [map length pad_nulls repeat]. f_equal.
  - unfold value_of. rewrite assocZ_notin; [reflexivity|apply H; left; reflexivity].
  - apply IH. intros y I. apply H. right. exact I.
Qed.

Lemma inv_add_entities t H ids t' : inv t H -> add_entities t ids = Ok t' -> inv t' H.
Proof.
  intros [IR IA IN]. unfold add_entities.
  destruct (nodupZ ids) eqn:ND; cbn [negb]; [|discriminate].
  destruct (existsb (fun i => existsb (Z.eqb i) (t_rows t)) ids) eqn:EX; [discriminate|].
  intro E. injection E as <-.
  assert (FRESH : forall x, In x (sortZ ids) -> ~ In x (t_rows t)).
  { intros x I J. apply (proj1 (in_sortZ _ _)) in I.
    assert (X : existsb (fun i => existsb (Z.eqb i) (t_rows t)) ids = true).
    { apply existsb_exists. exists x. split; [exact I|]. apply existsb_exists. exists x. split; [exact J|apply Z.eqb_refl]. }
    congruence. }
  constructor; cbn [t_rows t_attrs].
  - (* rows stay distinct *)
    apply nodupZ_spec in ND. apply sortZ_nodup in ND. clear -IR ND FRESH.
    induction IR as [|x r NI NDr IH]; [exact ND|]. cbn [app]. constructor.
    + intro I. apply in_app_or in I. destruct I as [I|I]; [contradiction|]. apply (FRESH x I). left. reflexivity.
    + apply IH. intros y I J. apply (FRESH y I). right. exact J.
  - intros name s I. destruct (IA name s I) as [a [FA [M INC]]].
    set (f := fun a => {| a_name := a_name a; a_col := pad_col (length ids) (a_col a); a_dims := a_dims a |}).
    exists (f a). split; [|split].
    + unfold find_attr. cbn [t_attrs]. rewrite (find_attr_map t name f ltac:(reflexivity)), FA. reflexivity.
    + assert (FR : forall x, In x (sortZ ids) -> ~ In x (sup_ids s)) by (intros x J K; apply (FRESH x J); apply INC; exact K).
      destruct s as [sids vals|sids lists|sids size vecs dims|sids ncol csr dims]; cbn [matches sup_ids f a_col a_dims t_rows] in *;
        rewrite map_app, (values_of_fresh _ _ _ FR), sortZ_length.
      * destruct M as [[v Ev] M]. rewrite Ev in *. cbn [pad_col col_scalar] in *. split; [eexists; reflexivity|]. rewrite M. reflexivity.
      * destruct M as [[la [p Ev]] M]. rewrite Ev in *. cbn [pad_col col_lists] in *. split; [eexists; eexists; reflexivity|].
        rewrite pad_nulls_app, app_assoc, M. reflexivity.
      * destruct M as [[[vs [p Ev]]|[la [p Ev]]] [M [D W]]]; rewrite Ev in *; cbn [pad_col col_lists] in *.
        -- split; [left; eexists; eexists; reflexivity|]. split; [|split; assumption]. rewrite pad_nulls_app, app_assoc, M. reflexivity.
        -- split; [right; eexists; eexists; reflexivity|]. split; [|split; assumption]. rewrite pad_nulls_app, app_assoc, M. reflexivity.
      * destruct M as [[la [p Ev]] [M D]]. rewrite Ev in *. cbn [pad_col col_sparse] in *. split; [eexists; eexists; reflexivity|].
        split; [|exact D]. rewrite pad_nulls_app, app_assoc, M. reflexivity.
    + intros x J. apply in_or_app. left. apply INC. exact J.
  - intros a I. apply in_map_iff in I. destruct I as [a0 [<- I]]. cbn [a_name]. apply IN. exact I.
Qed.

(* ---------------------------------------------------------------- attributes *)
Lemma has_attr_false t name : has_attr t name = false -> find_attr t name = None.
Proof.
  unfold has_attr, find_attr. induction (t_attrs t) as [|a r IH]; [reflexivity|]. cbn [existsb find].
  destruct (Nat.eqb (a_name a) name); [discriminate|exact IH].
Qed.

Lemma find_add_attr t name c dims name' :
  find_attr (add_attr t name c dims) name' =
  match find_attr t name' with
  | Some a => Some a
  | None => if Nat.eqb name name' then Some {| a_name := name; a_col := c; a_dims := dims |} else None
  end.
Proof.
  unfold find_attr, add_attr. cbn [t_attrs]. induction (t_attrs t) as [|a r IH]; cbn [app find a_name]; [reflexivity|].
  destruct (Nat.eqb (a_name a) name'); [reflexivity|exact IH].
Qed.

Lemma inv_add_attr t H name c dims s :
  inv t H -> has_attr t name = false ->
  matches (add_attr t name c dims) {| a_name := name; a_col := c; a_dims := dims |} s ->
  incl (sup_ids s) (t_rows t) ->
  inv (add_attr t name c dims) (H ++ [(name, s)]).
Proof.
  intros [IR IA IN] HA M INC. constructor; cbn [add_attr t_rows t_attrs].
  - exact IR.
  - intros name' s' I. apply in_app_or in I. destruct I as [I|[E|[]]].
    + destruct (IA name' s' I) as [a [FA [Ma INCa]]]. exists a. split; [rewrite find_add_attr, FA; reflexivity|].
      split; [|exact INCa]. destruct s'; exact Ma.
    + injection E as <- <-. eexists. split; [rewrite find_add_attr, (has_attr_false t name HA), Nat.eqb_refl; reflexivity|].
      split; [exact M|exact INC].
  - intros a I. apply in_app_or in I. destruct I as [I|[<-|[]]].
    + destruct (IN a I) as [s' J]. exists s'. apply in_or_app. left. exact J.
    + exists s. apply in_or_app. right. left. reflexivity.
Qed.

Theorem inv_step t H o t' : inv t H -> op_wf o -> step t o = Ok t' -> inv t' (H ++ sup_of o).
Proof.
  intros I W. destruct o as [ids|name ids vals|name ids lists|name ids size vecs dims|name ids ncol csr dims]; cbn [step sup_of].
  - rewrite app_nil_r. apply inv_add_entities. exact I.
  - unfold add_scalar. destruct (has_attr t name) eqn:HA; [discriminate|].
    destruct (resolve (t_rows t) ids) as [nums|] eqn:R; cbn [bind]; [|discriminate]. intro E. injection E as <-.
    apply resolve_spec in R. destruct W as [ND LEN].
    apply inv_add_attr; [exact I|exact HA| |apply (resolved_in _ _ _ R)].
    cbn [matches a_col col_scalar add_attr t_rows]. split; [eexists; reflexivity|].
    rewrite place_scalar_correct_l;
      [apply (column_spec _ _ _ vals R (inv_rows _ _ I))|apply (resolved_nodup _ _ _ R ND)|apply (resolved_bound _ _ _ R)|].
    rewrite LEN. apply (resolved_length _ _ _ R).
  - unfold add_list. destruct (has_attr t name) eqn:HA; [discriminate|].
    destruct (resolve (t_rows t) ids) as [nums|] eqn:R; cbn [bind]; [|discriminate]. intro E. injection E as <-.
    apply resolve_spec in R. destruct W as [ND LEN].
    apply inv_add_attr; [exact I|exact HA| |apply (resolved_in _ _ _ R)].
    cbn [matches a_col col_lists add_attr t_rows]. split; [eexists; eexists; reflexivity|].
    unfold pad_nulls. cbn [repeat]. rewrite app_nil_r.
    rewrite expand_align_correct_l; [apply (column_spec _ _ _ lists R (inv_rows _ _ I))|apply (resolved_nodup _ _ _ R ND)|apply (resolved_bound _ _ _ R)].
  - unfold add_vector. destruct (has_attr t name) eqn:HA; [discriminate|].
    destruct (resolve (t_rows t) ids) as [nums|] eqn:R; cbn [bind]; [|discriminate].
    apply resolve_spec in R. destruct W as [ND [LEN [S1 VOK]]].
    destruct (forallb (fun r => memn r nums) (seq 0 (length (t_rows t))) && forallb is_some vecs) eqn:FULL; intro E; injection E as <-.
    + apply andb_true_iff in FULL. destruct FULL as [FR FV].
      apply inv_add_attr; [exact I|exact HA| |apply (resolved_in _ _ _ R)].
      cbn [matches a_col a_dims col_lists add_attr t_rows]. split; [left; eexists; eexists; reflexivity|].
      split; [|split; [reflexivity|split; assumption]].
      unfold pad_nulls. cbn [repeat]. rewrite app_nil_r.
      rewrite (place_fixed_correct_l (length (t_rows t)));
        [apply (column_spec _ _ _ vecs R (inv_rows _ _ I))|apply (resolved_nodup _ _ _ R ND)|apply (resolved_bound _ _ _ R)| |exact FR|exact FV].
      rewrite LEN. apply (resolved_length _ _ _ R).
    + apply inv_add_attr; [exact I|exact HA| |apply (resolved_in _ _ _ R)].
      cbn [matches a_col a_dims col_lists add_attr t_rows]. split; [right; eexists; eexists; reflexivity|].
      split; [|split; [reflexivity|split; assumption]].
      unfold pad_nulls. cbn [repeat]. rewrite app_nil_r.
      rewrite expand_align_correct_l; [apply (column_spec _ _ _ vecs R (inv_rows _ _ I))|apply (resolved_nodup _ _ _ R ND)|apply (resolved_bound _ _ _ R)].
  - unfold add_sparse. destruct (has_attr t name) eqn:HA; [discriminate|].
    destruct (resolve (t_rows t) ids) as [nums|] eqn:R; cbn [bind]; [|discriminate]. intro E. injection E as <-.
    apply resolve_spec in R. destruct W as [ND LEN].
    apply inv_add_attr; [exact I|exact HA| |apply (resolved_in _ _ _ R)].
    cbn [matches a_col a_dims col_sparse add_attr t_rows]. split; [eexists; eexists; reflexivity|]. split; [|reflexivity].
    unfold pad_nulls. cbn [repeat]. rewrite app_nil_r.
    rewrite expand_align_correct_l; [apply (column_spec _ _ _ (map Some csr) R (inv_rows _ _ I))|apply (resolved_nodup _ _ _ R ND)|apply (resolved_bound _ _ _ R)].
Qed.

Theorem inv_run ops : forall t H, inv t H -> Forall op_wf ops -> inv (fst (run t ops)) (H ++ history t ops).
Proof.
  induction ops as [|o r IH]; intros t H I W; cbn [run history fst].
  - rewrite app_nil_r. exact I.
  - inversion W as [|o' r' Wo Wr]; subst. destruct (step t o) as [t'|e] eqn:S.
    + specialize (IH t' (H ++ sup_of o) (inv_step t H o t' I Wo S) Wr).
      destruct (run t' r) as [tf out]. cbn [fst] in *. rewrite app_assoc. exact IH.
    + specialize (IH t H I Wr). destruct (run t r) as [tf out]. cbn [fst] in *. exact IH.
Qed.

Lemma inv_empty : inv empty_table [].
Proof. constructor; cbn; [constructor|intros ? ? []|intros ? []]. Qed.

(* ---------------------------------------------------------------- reading back *)
Definition sel_ok (t : table) (ids : option (list Z)) (sel : option (list nat)) : Prop :=
  match ids, sel with
  | None, None => True
  | Some i, Some s => select_rows (t_rows t) i = Ok s
  | _, _ => False
  end.
Definition asked (t : table) (ids : option (list Z)) : list Z := match ids with Some i => i | None => t_rows t end.

Lemma read_col {B} t (f : Z -> option B) ids sel :
  sel_ok t ids sel -> take None (map f (t_rows t)) (selection t sel) = map f (asked t ids).
Proof.
  destruct ids as [i|], sel as [s|]; cbn [sel_ok selection asked]; try contradiction.
  - intro S. apply take_selected. apply select_spec. exact S.
  - intros _. rewrite <- (map_length f (t_rows t)). apply take_all.
Qed.

Theorem attr_read_back_l ops name s ids sel :
  Forall op_wf ops ->
  let t := fst (run empty_table ops) in
  In (name, s) (history empty_table ops) -> sel_ok t ids sel ->
  exists a, find_attr t name = Some a /\
    match s with
    | SupScalar sids vals => read_scalar t (a_col a) sel = map (value_of sids vals) (asked t ids)
    | SupList sids lists => read_lists t (a_col a) sel = map (value_of sids lists) (asked t ids)
    | SupVector sids size vecs dims =>
        read_vectors t (a_col a) sel = map (value_of sids vecs) (asked t ids) /\
        vec_size (a_col a) = Some size /\ a_dims a = dims
    | SupSparse sids ncol csr dims =>
        read_sparse_lists t (a_col a) sel = map (value_of sids (map Some csr)) (asked t ids) /\
        vec_size (a_col a) = Some ncol /\ a_dims a = dims
    end.
Proof.
  intros W t I SO. pose proof (inv_run ops empty_table [] inv_empty W) as INV. cbn [app] in INV. fold t in INV.
  destruct (inv_attrs _ _ INV name s I) as [a [FA [M INC]]]. exists a. split; [exact FA|].
  destruct s as [sids vals|sids lists|sids size vecs dims|sids ncol csr dims]; cbn [matches] in M.
  - destruct M as [_ M]. unfold read_scalar. rewrite M. apply read_col. exact SO.
  - destruct M as [_ M]. unfold read_lists. rewrite M. apply read_col. exact SO.
  - destruct M as [K [M [D [S1 VOK]]]].
    assert (RL : read_lists t (a_col a) sel = map (value_of sids vecs) (asked t ids)).
    { unfold read_lists. rewrite M. apply read_col. exact SO. }
    destruct K as [[vs [p E]]|[la [p E]]]; rewrite E in *; cbn [vec_size read_vectors]; (split; [|split; [reflexivity|exact D]]).
    + exact RL.
    + rewrite RL. apply vec_reconstruct; [exact S1|].
      apply Forall_forall. intros o Ho. apply in_map_iff in Ho. destruct Ho as [i [<- _]].
      unfold value_of. intros v Ev.
      assert (G : forall l : list (Z * option (list elem)), (forall p, In p l -> vec_ok size (snd p)) -> join (assocZ i l) = Some v -> length v = size).
      { clear. induction l as [|[k x] r IH]; cbn [assocZ join]; [discriminate|]. intros Hl.
        destruct (Z.eqb i k); [cbn [join]; intro E; apply (Hl (k, x) (or_introl eq_refl)); exact E|].
        apply IH. intros p Hp. apply Hl. right. exact Hp. }
      apply (G (combine sids vecs)); [|exact Ev]. intros [qi qv] Hq. apply in_combine_r in Hq.
      rewrite Forall_forall in VOK. apply VOK. exact Hq.
  - destruct M as [[la [p E]] [M D]]. rewrite E in *. cbn [vec_size]. split; [|split; [reflexivity|exact D]].
    unfold read_sparse_lists. rewrite M. apply read_col. exact SO.
Qed.

(* an attribute that no accepted call supplied cannot be read *)
Theorem no_phantom_attribute_l ops name :
  Forall op_wf ops -> (forall s, ~ In (name, s) (history empty_table ops)) ->
  find_attr (fst (run empty_table ops)) name = None.
Proof.
  intros W NH. pose proof (inv_run ops empty_table [] inv_empty W) as INV. cbn [app] in INV.
  destruct (find_attr (fst (run empty_table ops)) name) as [a|] eqn:F; [|reflexivity]. exfalso.
  unfold find_attr in F. apply find_some in F. destruct F as [IA EN]. apply Nat.eqb_eq in EN.
  destruct (inv_names _ _ INV a IA) as [s J]. rewrite EN in J. apply (NH s J).
Qed.

(* drop_null keeps exactly the selected entities that have a value *)
Lemma drop_null_spec t c sel (col : list bool) :
  col_valid c = col -> drop_null t c sel = filter (fun k => nth k col false) (selection t sel).
Proof. intros <-. reflexivity. Qed.

(* ---------------------------------------------------------------- drop_null *)
Lemma filter_resolved {B} (f : Z -> option B) rows ids sel :
  resolved rows ids sel ->
  take 0 rows (filter (fun k => nth k (map is_some (map f rows)) false) sel) = filter (fun i => is_some (f i)) ids.
Proof.
  unfold take. induction 1 as [|i k is ks H _ IH]; [reflexivity|]. cbn [filter].
  destruct (index_of_nth _ _ _ H) as [E Bk].
  assert (N : nth k (map is_some (map f rows)) false = is_some (f i)).
  { rewrite map_map. rewrite (nth_indep _ false (is_some (f 0))) by (rewrite map_length; exact Bk).
    rewrite (map_nth (fun x => is_some (f x))), E. reflexivity. }
  rewrite N. destruct (is_some (f i)); cbn [map]; [rewrite E, IH; reflexivity|exact IH].
Qed.

Lemma filter_all {B} (f : Z -> option B) rows :
  take 0 rows (filter (fun k => nth k (map is_some (map f rows)) false) (seq 0 (length rows))) = filter (fun i => is_some (f i)) rows.
Proof.
  assert (G : forall pre, take 0 (pre ++ rows)
     (filter (fun k => nth k (map is_some (map f (pre ++ rows))) false) (seq (length pre) (length rows)))
     = filter (fun i => is_some (f i)) rows).
  { induction rows as [|x t IH]; intro pre; [reflexivity|]. cbn [length seq filter].
    assert (N : nth (length pre) (map is_some (map f (pre ++ x :: t))) false = is_some (f x)).
    { rewrite map_map, map_app, app_nth2 by (rewrite map_length; lia). rewrite map_length, Nat.sub_diag. reflexivity. }
    rewrite N. specialize (IH (pre ++ [x])). rewrite <- app_assoc, app_length in IH. cbn [app length] in IH.
    replace (length pre + 1)%nat with (S (length pre)) in IH by lia.
    destruct (is_some (f x)); unfold take in *; cbn [map]; [|exact IH].
    rewrite IH. f_equal. rewrite app_nth2 by lia. rewrite Nat.sub_diag. reflexivity. }
  apply (G []).
Qed.

Theorem drop_null_correct_l ops name s ids sel :
  Forall op_wf ops ->
  let t := fst (run empty_table ops) in
  In (name, s) (history empty_table ops) -> sel_ok t ids sel ->
  exists a, find_attr t name = Some a /\
    sel_ids t (drop_null t (a_col a) sel) =
    match s with
    | SupScalar sids vals => filter (fun i => is_some (value_of sids vals i)) (asked t ids)
    | SupList sids lists => filter (fun i => is_some (value_of sids lists i)) (asked t ids)
    | SupVector sids _ vecs _ => filter (fun i => is_some (value_of sids vecs i)) (asked t ids)
    | SupSparse sids _ csr _ => filter (fun i => is_some (value_of sids (map Some csr) i)) (asked t ids)
    end.
Proof.
  intros W t I SO. pose proof (inv_run ops empty_table [] inv_empty W) as INV. cbn [app] in INV. fold t in INV.
  destruct (inv_attrs _ _ INV name s I) as [a [FA [M INC]]]. exists a. split; [exact FA|].
  assert (G : forall B (f : Z -> option B), col_valid (a_col a) = map is_some (map f (t_rows t)) ->
              sel_ids t (drop_null t (a_col a) sel) = filter (fun i => is_some (f i)) (asked t ids)).
  { intros B f CV. unfold sel_ids, drop_null. rewrite CV.
    destruct ids as [i|], sel as [sl|]; cbn [sel_ok selection asked] in *; try contradiction.
    - apply filter_resolved. apply select_spec. exact SO.
    - apply filter_all. }
  destruct s as [sids vals|sids lists|sids size vecs dims|sids ncol csr dims]; cbn [matches] in M.
  - destruct M as [[v E] M]. apply G. rewrite E in *. cbn [col_valid col_scalar] in *. rewrite M. reflexivity.
  - destruct M as [[la [p E]] M]. apply G. rewrite E in *. cbn [col_valid]. rewrite M. reflexivity.
  - destruct M as [[[vs [p E]]|[la [p E]]] [M _]]; apply G; rewrite E in *; cbn [col_valid]; rewrite M; reflexivity.
  - destruct M as [[la [p E]] [M _]]. apply G. rewrite E in *. cbn [col_valid]. rewrite M. reflexivity.
Qed.
