(* C02 -- bodies that catch the failure of a lazy input (TryForce): which bodies of the first-order
   syntax do not catch, and a concrete run in which a failure is caught and the failed node is asked
   for again (used by the Example of Props/C02.v). *)
From Coq Require Import ZArith List Bool Arith Lia.
From LK Require Import Model.C02_runner Proofs.C02_basic.
Import ListNotations.

Fixpoint bp_nocatch (b : bprog) : bool :=
  match b with
  | BRet _ | BRaise _ => true
  | BForce _ k => bp_nocatch k
  | BTryForce _ _ _ => false
  | BIfNone _ t e => bp_nocatch t && bp_nocatch e
  end.

Lemma interp_nocatch : forall b, bp_nocatch b = true -> forall args forced, nocatch (interp b args forced).
Proof.
  induction b as [e|k|i k IH|i k IHk e IHe|a t IHt e IHe]; intros H args forced; simpl in *.
  - constructor.
  - constructor.
  - constructor. intros v. apply IH, H.
  - discriminate.
  - apply andb_prop in H. destruct H as [H1 H2]. destruct (is_none (atom_val args forced a)); auto.
Qed.

Lemma body_of_nocatch b : bp_nocatch b = true -> forall a, nocatch (body_of b a).
Proof. intros H a. apply interp_nocatch, H. Qed.

Lemma fallback_nocatch : forall a, nocatch (fallback_body a).
Proof. intros a. unfold fallback_body. destruct (nth 0 a None); constructor. intros v. constructor. Qed.

(* node 0 raises; node 1 takes it lazily, catches whatever forcing it raises and returns 7 (or 1 + the
   value); node 2 takes node 0 eagerly.  Requests below: [1; 0] and [1; 1; 2]. *)
Definition lazy_src (s : name) : param :=
  {| p_src := Some s; p_lazy := true; p_typed := true; p_nullable := false; p_ty := TInt |}.
Definition eager_src (s : name) : param :=
  {| p_src := Some s; p_lazy := false; p_typed := true; p_nullable := false; p_ty := TInt |}.
Definition catch_graph : graph :=
  [ (0, Comp [] (body_of (BRaise 5)));
    (1, Comp [lazy_src 0] (body_of (BTryForce 0 (BRet (BLin 1 [(1%Z, AForced 0)])) (BRet (BLin 7 [])))));
    (2, Comp [eager_src 0] (body_of (BRet (BAtom (AArg 0))))) ].

Lemma catch_example :
  (* the consumer caught the failure and returned its own value; asking for the failed node afterwards
     gives the runner's "previously failed" error; node 0 ran once *)
  pipeline_run catch_graph [] 5 [1] = Values [Some (VInt 7)] /\
  pipeline_run catch_graph [] 5 [1; 0] = Raised EFailed /\
  rev (log (fst (run_all catch_graph [] 5 [1; 0]))) = [1; 0] /\
  pipeline_run catch_graph [] 5 [1; 1; 2] = Raised EFailed /\
  rev (log (fst (run_all catch_graph [] 5 [1; 1; 2]))) = [1; 0] /\
  (* without a catching consumer in front, the component's own exception reaches the caller *)
  pipeline_run catch_graph [] 5 [2; 1] = Raised (EComp 5) /\
  stat (fst (run_all catch_graph [] 5 [1; 0])) 0 = Failed (EComp 5) /\
  stat (fst (run_all catch_graph [] 5 [1; 0])) 1 = Finished.
Proof. repeat split; vm_compute; reflexivity. Qed.
