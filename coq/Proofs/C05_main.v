(* C05 -- the statements of Props/C05.v, assembled from the lemma files. *)
From Coq Require Import ZArith QArith List Bool Lia Permutation Arith PeanoNat.
From LK Require Import Lib.SplitLib Lib.PyRoundZ Gen.C05_holdout Model.C05_split
     Proofs.C05_records Proofs.C05_holdout Proofs.C05_users Proofs.C05_temporal.
Import ListNotations.

Lemma no_shared_of_cases (recs : list rec) (f : fold) :
  NoDup (map pair_of recs) ->
  (Permutation (f_train f ++ test_recs f) recs \/ f_train f = []) ->
  forall r1 r2, In r1 (f_train f) -> In r2 (test_recs f) -> pair_of r1 <> pair_of r2.
Proof.
  intros N [P|E] r1 r2 H1 H2; [exact (partition_no_shared_pair _ _ _ P N r1 r2 H1 H2)|]. rewrite E in H1. destruct H1.
Qed.

Lemma pair_is_partition_records_l :
  forall recs size repeats (disjoint test_only : bool) draws fs,
  NoDup (map pair_of recs) ->
  sample_records recs size repeats disjoint test_only draws = Folds fs ->
  forall f, In f fs ->
    (forall r, In r (test_recs f) -> In r recs) /\
    (Permutation (f_train f ++ test_recs f) recs \/ (test_only = true /\ f_train f = [])) /\
    (forall r1 r2, In r1 (f_train f) -> In r2 (test_recs f) -> pair_of r1 <> pair_of r2).
Proof.
  intros recs size repeats disjoint test_only draws fs N E f Hf.
  destruct (records_pairs_l _ _ _ _ _ _ _ E f Hf) as [[C S] X]. split; [exact S|]. split.
  - destruct test_only; [|left; apply X; reflexivity]. destruct C as [P|T]; [left; exact P|right; split; [reflexivity|exact T]].
  - apply (no_shared_of_cases recs f N C).
Qed.

Lemma crossfold_records_once_main :
  forall recs perm k (test_only : bool),
  NoDup (map pair_of recs) -> Permutation perm (seq 0 (length recs)) -> (0 < k)%Z ->
  exists folds, crossfold_records recs k test_only perm = Folds folds /\
    length folds = Z.to_nat k /\
    Permutation (concat (map test_recs folds)) recs /\
    (forall j, (j < Z.to_nat k)%nat ->
       length (test_recs (nth j folds (mkFold [] []))) =
       (length recs / Z.to_nat k + (if j <? length recs mod Z.to_nat k then 1 else 0))%nat) /\
    (forall f, In f folds ->
       (test_only = false -> Permutation (f_train f ++ test_recs f) recs) /\
       (test_only = true -> f_train f = []) /\
       (forall r, In r (test_recs f) -> In r recs) /\
       (forall r1 r2, In r1 (f_train f) -> In r2 (test_recs f) -> pair_of r1 <> pair_of r2)).
Proof.
  intros recs perm k test_only N P Hk. destruct (crossfold_records_once_l recs perm k test_only P Hk) as [folds [E [L [C [S A]]]]].
  exists folds. split; [exact E|]. split; [exact L|]. split; [exact C|]. split; [exact S|].
  intros f Hf. destruct (A f Hf) as [A1 [A2 A3]]. split; [exact A1|]. split; [exact A2|]. split; [exact A3|].
  apply (no_shared_of_cases recs f N). destruct test_only; [right; apply A2; reflexivity|left; apply A1; reflexivity].
Qed.

Lemma user_splitters_are_sections_l {F} (rm : Z -> F -> option Z) :
  forall recs users h (test_only : bool) hds fs,
  (forall k perm, crossfold_users rm recs users k h test_only perm hds = Folds fs ->
     (0 < k)%Z /\ split_sections rm recs users h test_only (array_split perm (Z.to_nat k)) hds = Folds fs /\
     (Permutation perm (seq 0 (length users)) -> forall s, In s (array_split perm (Z.to_nat k)) -> valid_idx (length users) s)) /\
  (forall size repeats (disjoint : bool) draws,
     sample_users rm recs users size repeats disjoint test_only h draws hds = Folds fs ->
     exists secs eff, (eff = test_only \/ eff = false) /\
       split_sections rm recs users h eff secs hds = Folds fs /\
       ((disjoint = true -> repeats <> None -> Permutation (nth 0 draws []) (seq 0 (length users))) ->
        ((disjoint = false \/ repeats = None) -> forall i, valid_idx (length users) (nth i draws [])) ->
        forall s, In s secs -> valid_idx (length users) s)).
Proof.
  intros recs users h test_only hds fs. split.
  - intros k perm E. destruct (crossfold_users_sections rm _ _ _ _ _ _ _ _ E) as [Hk S]. split; [exact Hk|]. split; [exact S|].
    intros P. apply (sections_valid perm (length users)); [exact P|]. apply array_split_concat. lia.
  - intros size repeats disjoint draws E. destruct (sample_users_sections rm _ _ _ _ _ _ _ _ _ _ E) as [secs [U S]].
    exists secs, (user_test_only (Z.of_nat (length users)) size repeats disjoint test_only).
    split; [apply user_test_only_cases|]. split; [exact S|]. intros PD VD. exact (user_sections_valid _ _ _ _ _ _ PD VD U).
Qed.

Lemma temporal_cut_l :
  forall c off recs cuts endt fs j x,
  split_global_time c off recs cuts endt = Folds fs -> nth_error cuts j = Some x ->
  let t := conv c off x in
  let t2 := next_cut (map (conv c off) cuts) (option_map (conv c off) endt) j in
  length fs = length cuts /\
  exists f, nth_error fs j = Some f /\
    f_train f = filter (fun r => Qlt_b (tq r) t) recs /\
    Permutation (test_recs f) (filter (fun r => Qle_b t (tq r) && match t2 with None => true | Some e => Qlt_b (tq r) e end) recs) /\
    (forall r, In r (f_train f) <-> In r recs /\ (tq r < t)%Q) /\
    (forall r, In r (test_recs f) <-> In r recs /\ (t <= tq r)%Q /\ match t2 with None => True | Some e => (tq r < e)%Q end) /\
    (t2 = None -> Permutation (f_train f ++ test_recs f) recs) /\
    (forall e, t2 = Some e -> (t <= e)%Q ->
       Permutation (f_train f ++ test_recs f ++ filter (fun r => Qle_b e (tq r)) recs) recs).
Proof.
  intros c off recs cuts endt fs j x E Hx t t2. unfold split_global_time in E.
  assert (fs = time_folds recs (map (conv c off) cuts) (option_map (conv c off) endt)) as Efs by (destruct c; inversion E; reflexivity).
  subst fs. split; [rewrite time_folds_length, map_length; reflexivity|].
  assert (nth_error (map (conv c off) cuts) j = Some t) as Ht by (rewrite nth_error_map, Hx; reflexivity).
  exists (time_fold recs t t2). split; [apply time_folds_nth; exact Ht|].
  destruct (time_fold_spec recs t t2) as [A [B [C D]]]. split; [exact A|]. split; [exact B|]. split; [exact C|]. split; [exact D|]. split.
  - intro N. rewrite N. apply time_fold_partition.
  - intros e N Le. rewrite N. apply time_fold_partition_bounded. exact Le.
Qed.

Lemma frames_list_records_l :
  forall l : list rec,
  Permutation (concat (map snd (group_by_user l))) l /\
  NoDup (map fst (group_by_user l)) /\
  (forall u g, In (u, g) (group_by_user l) -> g <> [] /\ forall r, In r g -> ru r = u /\ In r l) /\
  (forall (test_only : bool) recs idx,
     f_test (make_pair test_only recs idx) = group_by_user (take_mask dflt (in_idx idx) recs)) /\
  (forall f, train_df f = f_train f /\ test_size f = length (test_recs f)).
Proof.
  intro l. split; [apply group_by_user_flat|]. destruct (group_by_user_keys l) as [K G]. split; [exact K|]. split; [exact G|].
  split; [reflexivity|]. intro f. split; reflexivity.
Qed.

Lemma library_checkers_l :
  (forall n perm, is_perm_b n perm = true <-> Permutation perm (seq 0 n)) /\
  (forall len n draw, choice_ok_b len n draw = true <-> valid_idx len draw /\ Z.of_nat (length draw) = n) /\
  (forall draw a n, ((0 <= n <= a)%Z -> valid_idx (Z.to_nat a) draw /\ Z.of_nat (length draw) = n) -> choice_ok_at (np_choice draw) a n) /\
  (forall col o, argsort_ok_b col o = true <-> argsort_ok (fun _ => o) col).
Proof.
  split; [exact is_perm_b_iff|]. split; [exact choice_ok_b_iff|]. split; [exact np_choice_ok|exact argsort_ok_b_iff].
Qed.

Lemma rounded_fraction_l :
  forall m e, (e < 0 -> 2 * Z.abs (round_half_even m e * 2 ^ (- e) - m) <= 2 ^ (- e))%Z /\
              (0 <= e -> round_half_even m e = m * 2 ^ e)%Z.
Proof. intros m e. split; [apply round_half_even_nearest|apply round_half_even_exact]. Qed.
