(* C10 -- the seeded sample order of FunkSVD training (Model/C10_funksvd.v: in_order, is_order):
   an accepted order visits every stored sample exactly once, and the order matters. *)
From Coq Require Import ZArith QArith List Bool Lia Permutation PeanoNat.
From LK Require Import Lib.QLib Model.C10_funksvd Proofs.C10_funksvd_proofs.
Import ListNotations.

Lemma is_order_spec n order : is_order n order = true <->
  length order = n /\ (forall j, (j < n)%nat -> In j order).
Proof.
  unfold is_order. rewrite andb_true_iff, Nat.eqb_eq, forallb_forall. split.
  - intros [Hl Hall]. split; [exact Hl|]. intros j Hj.
    assert (Hin : In j (seq 0 n)) by (apply in_seq; lia).
    apply Hall in Hin. apply existsb_exists in Hin. destruct Hin as [x [Hx Heq]].
    apply Nat.eqb_eq in Heq. subst x. exact Hx.
  - intros [Hl Hall]. split; [exact Hl|]. intros j Hj. apply in_seq in Hj.
    apply existsb_exists. exists j. split; [apply Hall; lia | apply Nat.eqb_refl].
Qed.

Lemma is_order_perm n order : is_order n order = true -> Permutation (seq 0 n) order.
Proof.
  intros H. apply is_order_spec in H. destruct H as [Hl Hall].
  apply NoDup_Permutation_bis.
  - apply seq_NoDup.
  - rewrite seq_length. lia.
  - intros j Hj. apply in_seq in Hj. apply Hall. lia.
Qed.

Lemma in_order_seq_from {A} (d : A) : forall (l pre : list A),
  map (fun j => nth j (pre ++ l) d) (seq (length pre) (length l)) = l.
Proof.
  induction l as [|x l IH]; intros pre; [reflexivity|].
  cbn [length seq map]. f_equal.
  - rewrite app_nth2 by lia. now rewrite Nat.sub_diag.
  - specialize (IH (pre ++ [x])). rewrite <- app_assoc in IH. cbn [app] in IH.
    rewrite app_length in IH. cbn [length] in IH. rewrite Nat.add_1_r in IH. exact IH.
Qed.

Lemma in_order_identity {A} (d : A) l : in_order d l (seq 0 (length l)) = l.
Proof. exact (in_order_seq_from d l []). Qed.

Theorem in_order_visits_once {A} (d : A) stored order : is_order (length stored) order = true ->
  Permutation (in_order d stored order) stored /\ length (in_order d stored order) = length stored.
Proof.
  intros H. split.
  - rewrite <- (in_order_identity d stored) at 2. unfold in_order.
    apply Permutation_map. apply Permutation_sym. now apply is_order_perm.
  - unfold in_order. rewrite map_length. apply is_order_spec in H. tauto.
Qed.

(* what the case files evaluate: funksvd_seeded_agree = seeded_ok no_sample (the bit-for-bit float run) *)
Theorem seeded_ok_spec {A} (d : A) agree stored order :
  seeded_ok d agree stored order = true <->
  is_order (length stored) order = true /\ agree (in_order d stored order) = true.
Proof. unfold seeded_ok. now rewrite andb_true_iff. Qed.

(* for every arithmetic instance: training over the seeded order is feature-wise SGD over a list that holds every
   stored sample exactly once *)
Theorem seeded_train_is_featurewise (Ar : arith) p nfeat nusers nitems (d : sample Ar) stored order f :
  (f < nfeat)%nat -> is_order (length stored) order = true ->
  let smps := in_order d stored order in
  Permutation smps stored /\
  nth_error (train_cols Ar p nfeat nusers nitems nfeat smps) f = Some (proj Ar f (train Ar p nfeat nusers nitems smps)).
Proof.
  intros Hf Ho smps. split.
  - exact (proj1 (in_order_visits_once d stored order Ho)).
  - now apply train_is_featurewise.
Qed.

(* an order is rejected when an index is missing, repeated or out of range *)
Lemma is_order_examples :
  is_order 3 [2; 0; 1]%nat = true /\ is_order 3 [2; 0; 0]%nat = false /\ is_order 3 [0; 1]%nat = false /\
  is_order 3 [0; 1; 3]%nat = false /\ is_order 0 [] = true.
Proof. repeat split; vm_compute; reflexivity. Qed.

(* the order matters: two samples of one user, visited in the two possible orders, leave different features (Q reading)
   -- so a training whose order does not come from the seed cannot be told from the features alone to be right *)
Lemma order_matters :
  let p : params q_arith := Build_params q_arith 1 (1 # 10) (1 # 100) None (1 # 10) in
  let stored : list (sample q_arith) := [(0%nat, 0%nat, 4, 3); (0%nat, 1%nat, 2, 3)] in
  let a := train q_arith p 1 1 2 (in_order (0%nat, 0%nat, 0, 0) stored [0; 1]%nat) in
  let b := train q_arith p 1 1 2 (in_order (0%nat, 0%nat, 0, 0) stored [1; 0]%nat) in
  Qeq_bool (get2 q_arith (fst a) 0 0) (get2 q_arith (fst b) 0 0) = false.
Proof. vm_compute. reflexivity. Qed.
