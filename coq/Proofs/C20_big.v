(* C20 -- the deterministic part of the "plentiful" clause, for matrices of every size the number types
   allow: a DataWarning needs an observed cell of a REQUESTED row.  A call whose rows have no interaction
   at all never warns, on every draw stream -- also when n_rows * n_cols exceeds 2^32 and the data of OTHER
   rows sits at cells whose row-major / shifted cell numbers coincide modulo a word size with cells of
   the requested rows.  This rests on the combined key being injective on numbers below 2^32
   (key_injective_l, over the GENERATED word width and shift). *)
From Coq Require Import ZArith List Bool Lia.
From LK Require Import Gen.C20_shape Model.C20_sampling Proofs.C20_key Proofs.C20_resample Proofs.C20_sample.
Import ListNotations.
Open Scope Z_scope.

Lemma zsum_all_zero l : Forall (fun x => x = 0) l -> zsum l = 0.
Proof. induction 1 as [|x r Hx _ IH]; cbn; lia. Qed.

Lemma count_true_all_false l : Forall (fun b => b = false) l -> count_true l = 0.
Proof.
  unfold count_true. induction 1 as [|b r Hb _ IH]; [reflexivity|]. subst b. cbn [filter]. exact IH.
Qed.

Lemma free_rows_never_warned_l m w att n rows ds out warns rest :
  wf m -> rows_ok rows -> draws_ok m w ds ->
  sample m w true att n rows ds = Ok (out, warns, rest) ->
  (forall r c, In r rows -> ~ observed m r c) ->
  warns = [].
Proof.
  intros Hwf Hrows Hds H Hfree.
  destruct (sample_account _ _ _ _ _ _ _ _ _ H) as [A [P _]].
  assert (Forall (Forall (fun c => 0 <= c < m_ncols m)) out) as Hrange.
  { apply (sample_Forall _ _ _ _ _ _ _ _ _ _ _ H). unfold draws_ok in Hds.
    eapply Forall_impl; [|exact Hds]. intros d Hd. apply col_of_range; assumption. }
  apply zsum_pos_nil; [exact P|]. rewrite <- A. unfold observed_cells.
  apply zsum_all_zero. rewrite Forall_map, Forall_forall. intros col Hcol.
  apply count_true_all_false. unfold check_negatives. rewrite Forall_map, Forall_forall.
  intros [r c] Hin. cbn [fst snd].
  destruct (mem_z (key r c) (rc_index m)) eqn:E; [|reflexivity]. exfalso.
  pose proof (in_combine_l _ _ _ _ Hin) as Hr. pose proof (in_combine_r _ _ _ _ Hin) as Hc.
  rewrite Forall_forall in Hrange. specialize (Hrange _ Hcol). rewrite Forall_forall in Hrange.
  specialize (Hrange _ Hc).
  unfold rows_ok in Hrows. rewrite Forall_forall in Hrows. specialize (Hrows _ Hr).
  destruct Hwf as [Hn32 Hp].
  apply (Hfree r c Hr). apply (proj1 (mem_observed m r c (conj Hn32 Hp) Hrows ltac:(lia))). exact E.
Qed.
