(* C16 -- the round trip ItemList.from_arrow(l.to_arrow(columns=cols)) for a caller-supplied schema in any
   order: what was requested comes back under the same name, item by item. *)
From Coq Require Import ZArith List Bool Arith Lia.
From LK Require Import Model.C16_itemlist Proofs.C16_base Proofs.C16_wf Proofs.C16_ops Proofs.C16_rows.
Import ListNotations.
Open Scope Z_scope.

Lemma in_lookup {A} k (v : A) d : NoDup (map fst d) -> In (k, v) d -> lookup k d = Some v.
Proof.
  induction d as [|[k0 v0] r IH]; cbn [map fst lookup]; [intros _ []|].
  intros ND [E|I].
  - injection E as -> ->. rewrite Nat.eqb_refl. reflexivity.
  - inversion ND as [|? ? NI ND']. subst. destruct (Nat.eqb_spec k k0) as [->|]; [|apply IH; assumption].
    exfalso. apply NI. apply in_map_iff. exists (k0, v). split; [reflexivity|exact I].
Qed.

Definition arrow_col (vs : list val) : farg := FArr {| a_kind := KArrow; a_shape := [length vs]; a_data := vs |}.

Lemma nonull_not_null vs : nonull vs -> vs <> [] -> forallb is_vnull vs = false.
Proof.
  intros H NE. destruct vs as [|v r]; [congruence|]. cbn [forallb]. inversion H as [|? ? Hv _]. subst.
  destruct v; cbn [is_vnull andb]; try reflexivity. congruence.
Qed.

(* Arrow columns read back as fields: every column that holds a value for each of n > 0 items is kept as it is *)
Lemma other_fields_arrow n fs o f :
  (0 < n)%nat -> Forall (fentry_ok n) fs ->
  other_fields n (map (fun e => (fst e, arrow_col (snd e))) fs) = Ok o ->
  f <> F_SCORE -> f <> F_RANK -> lookup f o = lookup f fs.
Proof.
  intros NP FO. revert o. induction fs as [|[f0 vs] r IH]; intros o; cbn [map other_fields fst snd lookup].
  - intros E _ _. injection E as <-. reflexivity.
  - inversion FO as [|? ? HF FO']. subst. destruct HF as [HL HN]. cbn [fst snd] in HL, HN. specialize (IH FO').
    destruct (Nat.eqb f0 F_SCORE || Nat.eqb f0 F_RANK) eqn:K.
    + intros E NS NR. rewrite (IH _ E NS NR). destruct (Nat.eqb_spec f f0) as [->|]; [|reflexivity].
      exfalso. apply orb_true_iff in K. destruct K as [K|K]; apply Nat.eqb_eq in K; congruence.
    + unfold arrow_col at 1. cbn [array_is_null a_kind is_arrow andb a_shape a_data].
      rewrite (nonull_not_null vs HN) by (intro E0; subst vs; cbn in HL; lia).
      destruct (check_1d [length vs] (Some n)); [|discriminate].
      destruct (other_fields n _) as [rest|] eqn:R; cbn [bind]; [|discriminate].
      intros E NS NR. injection E as <-. cbn [lookup]. rewrite (to_np_id vs HN).
      destruct (Nat.eqb f f0); [reflexivity|]. apply IH; [reflexivity|exact NS|exact NR].
Qed.

Theorem columns_round_trip_l env l cols kv l' x :
  env_ok env -> wf env l -> (0 < len l)%nat -> via_arrow_cols env l cols kv = (l', Ok x) ->
  len x = len l /\ vocab x = (if kv then vocab l else None) /\
  ordered x = (has_name F_RANK cols && ordered l) /\
  (In CId cols -> get_ids env x = get_ids env l) /\
  (In CNum cols -> get_nums env x MNegative = get_nums env l MError) /\
  (forall f, f <> F_RANK -> get_field x f = if has_name f cols then get_field l f else None).
Proof.
  intros EO W NP. unfold via_arrow_cols.
  assert (NZ : (len l =? 0)%nat = false) by (apply Nat.eqb_neq; lia). rewrite NZ.
  destruct (arrow_cols env l cols t_none) as [l1 rt] eqn:T.
  intro E. injection E as <- E. destruct rt as [t|e]; cbn [bind] in E; [|discriminate].
  destruct (negb (is_some (t_ids t)) && negb (is_some (t_nums t))) eqn:SOME; [discriminate|].
  destruct (arrow_cols_gen env l EO cols l t_none l1 (Ok t) W (same_view_refl env l) T) as [_ [_ S]].
  destruct (S t eq_refl) as [A [B [C [D [N R]]]]]. specialize (N (NoDup_nil _)). specialize (R eq_refl).
  set (voc := if kv then vocab l else None) in *.
  (* every stored column has one value per item *)
  assert (FO : Forall (fentry_ok (len l)) (t_fields t)).
  { apply Forall_forall. intros [f vs] I. pose proof (in_lookup f vs _ N I) as L.
    destruct (Nat.eq_dec f F_RANK) as [->|NF]; [congruence|].
    rewrite (D f NF) in L. destruct (has_name f cols && is_some (get_field l f)); [|discriminate].
    unfold get_field in L. apply lookup_in in L. pose proof (wf_fields _ _ W) as WF. rewrite Forall_forall in WF. apply (WF _ L). }
  (* phase 1 *)
  destruct (construct_none_view env _ x E) as [k [P1 [HL [HI [HN HV]]]]].
  assert (LI : forall i, t_ids t = Some i -> length i = len l).
  { intros i Ei. destruct (has_id cols); [|rewrite A in Ei; discriminate]. destruct A as [i' [G Ei']].
    assert (i' = i) by congruence. subst. apply (get_ids_length env l i W G). }
  assert (LN : forall n, t_nums t = Some n -> length n = len l).
  { intros n En. destruct (has_num cols); [|rewrite B in En; discriminate]. destruct B as [n' [G En']].
    assert (n' = n) by congruence. subst. apply (co_len_nums _ _ (coherent_of_wf env l EO W) n MError G). }
  destruct (phase1_np env (table_args t voc KArrow) k (t_ids t) (t_nums t)) as [KI [KN [KLI KLN]]].
  { reflexivity. }
  { reflexivity. }
  { intros i n Ei En. rewrite (LI i Ei), (LN n En). reflexivity. }
  { destruct (t_ids t), (t_nums t); cbn in SOME; try discriminate; [left|left|right]; discriminate. }
  { exact P1. }
  assert (LEN : len x = len l).
  { rewrite HL. destruct (t_ids t) as [i|] eqn:Ei.
    - rewrite (KLI i eq_refl). apply LI. reflexivity.
    - destruct (t_nums t) as [n|] eqn:En; [|cbn in SOME; discriminate]. rewrite (KLN n eq_refl). apply LN. reflexivity. }
  split; [exact LEN|]. split; [rewrite HV; reflexivity|].
  (* phase 2: ordered flag and fields, read off the constructor *)
  assert (RK : t_rank t = if has_name F_RANK cols && ordered l then Some (seq1 (len l)) else None).
  { pose proof (co_ranks _ _ (coherent_of_wf env l EO W)) as CR.
    destruct (has_name F_RANK cols); cbn [andb]; [rewrite C; exact CR|exact C]. }
  assert (P2 : ordered x = (has_name F_RANK cols && ordered l) /\
               exists o, other_fields (len l) (map (fun e => (fst e, arrow_col (snd e))) (t_fields t)) = Ok o /\
                 fields x = match lookup F_SCORE (t_fields t) with Some vs => [(F_SCORE, map to_np vs)] | None => [] end ++ o).
  { revert E. unfold construct. rewrite P1. cbn [bind]. rewrite <- HL, LEN.
    unfold score_arr, rank_phase, eff_fields, ordered0. cbn [table_args c_scores c_fields c_ordered].
    rewrite RK. destruct (has_name F_RANK cols && ordered l).
    - cbn [app lookup F_SCORE F_RANK Nat.eqb].
      rewrite (lookup_map (fun vs => FArr {| a_kind := KArrow; a_shape := [length vs]; a_data := vs |})).
      cbn [a_shape]. rewrite ?map_length, ?seq1_length.
      assert (C1 : check_1d [len l] (Some (len l)) = true) by (apply check_1d_some; reflexivity). rewrite C1.
      destruct (lookup F_SCORE (t_fields t)) as [vs|] eqn:LS; cbn [option_map bind score_field a_shape a_data].
      + destruct (check_1d [length vs] (Some (len l))); cbn [bind]; [|discriminate].
        cbn [other_fields Nat.eqb orb F_RANK F_SCORE].
        fold (arrow_col). 
        match goal with |- context [other_fields (len l) ?M] => destruct (other_fields (len l) M) as [o|] eqn:OF end; cbn [bind]; [|discriminate].
        intro E. injection E as <-. cbn [ordered fields fst snd]. split; [reflexivity|]. exists o. split; [exact OF|reflexivity].
      + cbn [other_fields Nat.eqb orb F_RANK F_SCORE].
        match goal with |- context [other_fields (len l) ?M] => destruct (other_fields (len l) M) as [o|] eqn:OF end; cbn [bind]; [|discriminate].
        intro E. injection E as <-. cbn [ordered fields fst snd]. split; [reflexivity|]. exists o. split; [exact OF|reflexivity].
    - cbn [app].
      rewrite !(lookup_map (fun vs => FArr {| a_kind := KArrow; a_shape := [length vs]; a_data := vs |})), R.
      destruct (lookup F_SCORE (t_fields t)) as [vs|] eqn:LS; cbn [option_map bind score_field a_shape a_data].
      + destruct (check_1d [length vs] (Some (len l))); cbn [bind]; [|discriminate].
        match goal with |- context [other_fields (len l) ?M] => destruct (other_fields (len l) M) as [o|] eqn:OF end; cbn [bind]; [|discriminate].
        intro E. injection E as <-. cbn [ordered fields fst snd]. split; [reflexivity|]. exists o. split; [exact OF|reflexivity].
      + match goal with |- context [other_fields (len l) ?M] => destruct (other_fields (len l) M) as [o|] eqn:OF end; cbn [bind]; [|discriminate].
        intro E. injection E as <-. cbn [ordered fields fst snd]. split; [reflexivity|]. exists o. split; [exact OF|reflexivity]. }
  destruct P2 as [ORD [o [OF FL]]]. split; [exact ORD|].
  split; [|split].
  - intro I. apply has_id_in in I. rewrite I in A. destruct A as [i [G Ei]].
    unfold get_ids at 1. rewrite HI, KI, Ei. symmetry. exact G.
  - intro I. apply has_num_in in I. rewrite I in B. destruct B as [n [G En]].
    unfold get_nums at 1, raw_nums. rewrite HN, KN, En. cbn [bind apply_missing]. symmetry. exact G.
  - intros f NF. unfold get_field at 1. rewrite FL, lookup_app.
    assert (TF : lookup f (t_fields t) = if has_name f cols then get_field l f else None).
    { rewrite (D f NF). destruct (has_name f cols); cbn [andb]; [|reflexivity]. destruct (get_field l f); reflexivity. }
    destruct (Nat.eq_dec f F_SCORE) as [->|NS].
    + rewrite <- TF. destruct (lookup F_SCORE (t_fields t)) as [vs|] eqn:LS; cbn [lookup Nat.eqb F_SCORE].
      * f_equal. apply to_np_id. apply lookup_in in LS. rewrite Forall_forall in FO. apply (FO _ LS).
      * apply (other_fields_noscore _ _ _ OF).
    + match goal with |- match lookup f ?P with _ => _ end = _ => set (pre := P) end.
      assert (L0 : lookup f pre = None).
      { unfold pre. destruct (lookup F_SCORE (t_fields t)); cbn [lookup]; [|reflexivity]. destruct (Nat.eqb_spec f F_SCORE); [congruence|reflexivity]. }
      rewrite L0, <- TF. apply (other_fields_arrow (len l) (t_fields t) o f NP FO OF NS NF).
Qed.
