(* C04 -- lemmas about the shared scatter mechanism (Model/C04_scatter.v). *)
From Coq Require Import ZArith QArith Qabs List Bool Lia Lqa Permutation.
From LK Require Import Lib.QLib Model.C04_scatter.
Import ListNotations.
Open Scope Q_scope.

Section Scatter.
Variable F : Type.
Notation entry := (entry F).
Notation scored := (scored F).

Definition strip (s : scored) : entry := (sid s, sfields s).

(* ---- alignment ---- *)
Lemma scatter_aligned_l vocab f (items : list entry) :
  map strip (scatter vocab f items) = items /\ length (scatter vocab f items) = length items.
Proof.
  unfold scatter. split; [|apply map_length].
  rewrite map_map. rewrite <- (map_id items) at 2. apply map_ext. intros [i x]. reflexivity.
Qed.

Lemma fill_length nums : forall vals, length (fill nums vals) = length nums.
Proof.
  induction nums as [|[k|] nums IH]; intro vals; cbn [fill length]; [reflexivity| |rewrite IH; reflexivity].
  destruct vals; cbn [length]; rewrite IH; reflexivity.
Qed.

Lemma with_scores_aligned (items : list entry) : forall scores, length scores = length items ->
  map strip (with_scores items scores) = items /\ length (with_scores items scores) = length items.
Proof.
  unfold with_scores. induction items as [|[i x] items IH]; intros [|s scores] L; cbn in L; try discriminate.
  - split; reflexivity.
  - destruct (IH scores ltac:(lia)) as [A B]. cbn [combine map length]. split; [f_equal; exact A|f_equal; exact B].
Qed.

(* whatever the kernel returns (even of the wrong length), the result lists the input items in
   the input order with their fields, one score per item *)
Lemma mask_scatter_aligned_l vocab kernel (items : list entry) :
  map strip (mask_scatter vocab kernel items) = items /\
  length (mask_scatter vocab kernel items) = length items.
Proof.
  unfold mask_scatter. apply with_scores_aligned.
  rewrite fill_length. unfold numbers. apply map_length.
Qed.

(* ---- a pointwise kernel scattered through the mask is the pointwise scatter ---- *)
Lemma fill_pointwise (g : nat -> option Q) nums :
  fill nums (map g (known nums)) = map (fun o => match o with Some k => g k | None => None end) nums.
Proof.
  induction nums as [|[k|] nums IH]; cbn [fill known flat_map map app]; [reflexivity| |].
  - fold (known nums). rewrite IH. reflexivity.
  - fold (known nums). rewrite IH. reflexivity.
Qed.

Lemma mask_scatter_pointwise_l vocab kernel g (items : list entry) :
  (forall ks, kernel ks = map g ks) -> mask_scatter vocab kernel items = scatter vocab g items.
Proof.
  intro K. unfold mask_scatter, scatter, with_scores. rewrite K, fill_pointwise. unfold numbers.
  rewrite map_map. induction items as [|[i x] items IH]; [reflexivity|].
  cbn [map combine]. f_equal. exact IH.
Qed.

(* ---- the score of an item depends on the model and that item only ---- *)
Lemma scatter_In vocab f (items : list entry) s :
  In s (scatter vocab f items) -> sscore s = score1 vocab f (sid s) /\ In (strip s) items.
Proof.
  unfold scatter. intro H. apply in_map_iff in H. destruct H as [[i x] [<- Hin]]. split; [reflexivity|exact Hin].
Qed.
Lemma scatter_app vocab f (a b : list entry) :
  scatter vocab f (a ++ b) = scatter vocab f a ++ scatter vocab f b.
Proof. apply map_app. Qed.
Lemma scatter_perm vocab f (a b : list entry) :
  Permutation a b -> Permutation (scatter vocab f a) (scatter vocab f b).
Proof. apply Permutation_map. Qed.
Lemma scatter_sublist vocab f (a b : list entry) it :
  In it a -> In it b ->
  In (fst it, snd it, score1 vocab f (fst it)) (scatter vocab f a) /\
  In (fst it, snd it, score1 vocab f (fst it)) (scatter vocab f b).
Proof. intros Ha Hb. unfold scatter. split; apply in_map_iff; exists it; auto. Qed.

(* ---- unknown items ---- *)
Lemma unknown_is_missing_scatter vocab f (items : list entry) s :
  In s (scatter vocab f items) -> number vocab (sid s) = None -> sscore s = None.
Proof. intros H N. destruct (scatter_In _ _ _ _ H) as [E _]. rewrite E. unfold score1. rewrite N. reflexivity. Qed.

Lemma fill_unknown vocab (items : list entry) : forall vals s,
  In s (with_scores items (fill (numbers vocab items) vals)) -> number vocab (sid s) = None -> sscore s = None.
Proof.
  unfold with_scores, numbers.
  induction items as [|[i x] items IH]; intros vals s H N; [cbn in H; destruct H|].
  cbn [map fst] in H. destruct (number vocab i) eqn:E; cbn [fill] in H.
  - destruct vals as [|v vs]; cbn [combine map In] in H; destruct H as [<-|H].
    + cbn in N. congruence.
    + eapply IH; eassumption.
    + cbn in N. congruence.
    + eapply IH; eassumption.
  - cbn [combine map In] in H. destruct H as [<-|H]; [reflexivity|]. eapply IH; eassumption.
Qed.

Lemma mask_scatter_unknown vocab kernel (items : list entry) s :
  In s (mask_scatter vocab kernel items) -> number vocab (sid s) = None -> sscore s = None.
Proof. unfold mask_scatter. apply fill_unknown. Qed.
End Scatter.

(* ---- multiply-first shortcut ---- *)
Lemma mult_first_equiv_l emb uf good : dot_then_select emb uf good = select_then_dot emb uf good.
Proof.
  unfold dot_then_select, select_then_dot. rewrite map_map. apply map_ext. intro k.
  change 0 with ((fun e => qdot e uf) []). rewrite map_nth. reflexivity.
Qed.

(* ---- the checks are inhabited by the scatter mechanism ---- *)
Definition obs_of {F} (l : list (scored F)) : obs := map (fun s => (sid s, sscore s)) l.

Lemma obs_of_scatter {F} vocab f (items : list (entry F)) :
  obs_of (scatter vocab f items) = map (fun it => (fst it, score1 vocab f (fst it))) items.
Proof. unfold obs_of, scatter. rewrite map_map. reflexivity. Qed.

Lemma ids_eqb_refl l : ids_eqb l l = true.
Proof. unfold ids_eqb. induction l as [|x l IH]; cbn; [reflexivity|]. rewrite Z.eqb_refl, IH. reflexivity. Qed.

Lemma lookup_scatter {F} vocab f (items : list (entry F)) i :
  In i (map fst items) -> lookup i (obs_of (scatter vocab f items)) = Some (score1 vocab f i).
Proof.
  rewrite obs_of_scatter. induction items as [|[j x] items IH]; cbn [map fst In lookup]; [tauto|].
  destruct (Z.eqb_spec i j) as [->|Ne]; [reflexivity|]. intros [E|Hin]; [congruence|]. apply IH. exact Hin.
Qed.

Lemma score_close_refl s : score_close 0 s s = true.
Proof.
  destruct s as [q|]; [|reflexivity]. cbn [score_close]. apply Qle_bool_iff.
  setoid_replace (q - q) with 0 by ring. rewrite Qmult_0_l. cbn. lra.
Qed.

Lemma same_b_refl (o : obs) : same_b o o = true.
Proof.
  unfold same_b. induction o as [|[i s] o IH]; cbn [all2 fst snd]; [reflexivity|].
  rewrite Z.eqb_refl, IH. destruct s as [q|]; [|reflexivity].
  assert (E : Qeq_bool q q = true) by (apply Qeq_bool_iff; reflexivity). rewrite E. reflexivity.
Qed.

Theorem scatter_passes_checks_l {F} vocab f (items items' : list (entry F)) :
  incl (map fst items') (map fst items) ->
  aligned_b (map fst items) (obs_of (scatter vocab f items)) = true /\
  aligned_b (map fst items') (obs_of (scatter vocab f items')) = true /\
  unknown_ok UMissing vocab (obs_of (scatter vocab f items)) = true /\
  same_b (obs_of (scatter vocab f items)) (obs_of (scatter vocab f items)) = true /\
  consistent_b 0 (obs_of (scatter vocab f items)) (obs_of (scatter vocab f items')) = true.
Proof.
  intro Inc. split; [|split; [|split; [|split]]].
  - rewrite obs_of_scatter. unfold aligned_b. rewrite map_map. cbn [fst]. apply ids_eqb_refl.
  - rewrite obs_of_scatter. unfold aligned_b. rewrite map_map. cbn [fst]. apply ids_eqb_refl.
  - rewrite obs_of_scatter. unfold unknown_ok. apply forallb_forall. intros e He.
    apply in_map_iff in He. destruct He as [it [<- _]].
    cbn [fst snd]. unfold score1. destruct (number vocab (fst it)); reflexivity.
  - apply same_b_refl.
  - unfold consistent_b. apply forallb_forall. intros e He.
    rewrite (obs_of_scatter vocab f items') in He. apply in_map_iff in He. destruct He as [it [<- Hit]].
    cbn [fst snd]. rewrite lookup_scatter.
    + apply score_close_refl.
    + apply Inc. apply in_map. exact Hit.
Qed.

(* ---- and sound: answers passing the exact checks are explained by ONE score function of the
   item identifier (read off the base call) ---- *)
Definition score_fun (base : obs) (i : Z) : option Q :=
  match lookup i base with Some s => s | None => None end.
Definition opt_eq (a b : option Q) : Prop :=
  match a, b with None, None => True | Some x, Some y => x == y | _, _ => False end.

Lemma score_close_exact a b : score_close 0 a b = true -> opt_eq a b.
Proof.
  destruct a as [x|], b as [y|]; cbn [score_close opt_eq]; try discriminate; [|auto].
  intro H. apply Qle_bool_iff in H. rewrite Qmult_0_l in H.
  assert (Qabs (x - y) <= 0) as H0 by lra.
  apply Qabs_Qle_condition in H0. lra.
Qed.

Theorem checks_sound_l (base other : obs) (cands' : list Z) :
  aligned_b cands' other = true -> consistent_b 0 base other = true ->
  Forall2 (fun i s => opt_eq s (score_fun base i)) cands' (map snd other).
Proof.
  unfold aligned_b, ids_eqb, consistent_b. revert cands'.
  induction other as [|[j s] other IH]; intros [|i cands'] A Cn; cbn [map all2 fst] in A; try discriminate.
  - constructor.
  - apply andb_true_iff in A. destruct A as [Eij A]. apply Z.eqb_eq in Eij. subst j.
    cbn [forallb fst snd] in Cn. apply andb_true_iff in Cn. destruct Cn as [C1 Cn].
    cbn [map snd]. constructor; [|apply IH; assumption].
    unfold score_fun. destruct (lookup i base) as [sb|]; [|discriminate].
    apply score_close_exact. exact C1.
Qed.
