(* C01 -- row pointers: value_counts -> row sizes (shifted by one) -> cumulative sum, and the slices they
   delimit in a table sorted by row number. *)
From Coq Require Import ZArith List Bool Arith Lia Sorting.Sorted Sorting.Permutation.
From LK Require Import Model.C01_dataset Proofs.C01_sort.
Import ListNotations.
Open Scope nat_scope.

Definition cnt (x : nat) (col : list nat) : nat := length (filter (Nat.eqb x) col).
Definition below (r : nat) (col : list nat) : nat := length (filter (fun x => x <? r) col).

Fixpoint vc_get (x : nat) (vc : list (nat * nat)) : nat :=
  match vc with [] => 0 | (y, c) :: r => if Nat.eqb x y then c else vc_get x r end.

Lemma vc_get_bump x y vc : vc_get x (bump y vc) = vc_get x vc + (if Nat.eqb x y then 1 else 0).
Proof.
  induction vc as [|[k c] r IH]; cbn.
  - destruct (Nat.eqb x y); lia.
  - destruct (Nat.eqb_spec y k) as [->|Nyk]; cbn.
    + destruct (Nat.eqb_spec x k); lia.
    + destruct (Nat.eqb_spec x k) as [->|Nxk].
      * destruct (Nat.eqb_spec k y); [congruence|lia].
      * exact IH.
Qed.

Lemma bump_keys y vc k : In k (map fst (bump y vc)) <-> k = y \/ In k (map fst vc).
Proof.
  induction vc as [|[k0 c] r IH]; cbn; [intuition|].
  destruct (Nat.eqb_spec y k0) as [->|N]; cbn; [intuition|]. rewrite IH. intuition.
Qed.
Lemma bump_NoDup y vc : NoDup (map fst vc) -> NoDup (map fst (bump y vc)).
Proof.
  induction vc as [|[k0 c] r IH]; cbn; intro H; [repeat constructor; intros []|].
  inversion H; subst. destruct (Nat.eqb_spec y k0) as [->|N]; cbn; [constructor; assumption|].
  constructor; [|apply IH; assumption]. rewrite bump_keys. intros [E|E]; [congruence|contradiction].
Qed.

Lemma fold_bump x col : forall vc,
  vc_get x (fold_left (fun vc y => bump y vc) col vc) = vc_get x vc + cnt x col.
Proof.
  unfold cnt. induction col as [|y r IH]; intro vc; cbn; [lia|].
  rewrite IH, vc_get_bump. destruct (Nat.eqb x y); cbn; lia.
Qed.
Lemma value_counts_get x col : vc_get x (value_counts col) = cnt x col.
Proof. unfold value_counts. rewrite fold_bump. reflexivity. Qed.

Lemma fold_bump_keys col : forall vc,
  NoDup (map fst vc) ->
  NoDup (map fst (fold_left (fun vc y => bump y vc) col vc)) /\
  forall k, In k (map fst (fold_left (fun vc y => bump y vc) col vc)) -> In k (map fst vc) \/ In k col.
Proof.
  induction col as [|y r IH]; intros vc H; cbn; [auto|].
  destruct (IH (bump y vc) (bump_NoDup y vc H)) as [N K]. split; [exact N|].
  intros k Hk. destruct (K k Hk) as [A|A]; [|auto]. apply bump_keys in A. destruct A; auto.
Qed.
Lemma value_counts_keys col : NoDup (map fst (value_counts col)) /\ forall k, In k (map fst (value_counts col)) -> In k col.
Proof.
  destruct (fold_bump_keys col [] ltac:(constructor)) as [N K]. split; [exact N|].
  intros k Hk. destruct (K k Hk) as [[]|A]; exact A.
Qed.

(* ---- scatter of the counts, shifted by one ---- *)
Lemma set_nth_length k v l : length (set_nth k v l) = length l.
Proof. revert k; induction l as [|x r IH]; intros k; [destruct k; reflexivity|]. destruct k; cbn; [reflexivity|rewrite IH; reflexivity]. Qed.
Lemma nth_set_nth j k v l : nth j (set_nth k v l) 0 = if Nat.eqb j k && (k <? length l) then v else nth j l 0.
Proof.
  revert j k. induction l as [|x r IH]; intros j k.
  - destruct k; cbn; rewrite andb_false_r; reflexivity.
  - destruct k as [|k]; destruct j as [|j]; cbn; try reflexivity.
    rewrite IH. replace (S k <? S (length r)) with (k <? length r) by reflexivity. reflexivity.
Qed.

Lemma fold_set_nth : forall vc a,
  NoDup (map fst vc) -> (forall p, In p vc -> S (fst p) < length a) ->
  length (fold_left (fun a p => set_nth (S (fst p)) (snd p) a) vc a) = length a /\
  nth 0 (fold_left (fun a p => set_nth (S (fst p)) (snd p) a) vc a) 0 = nth 0 a 0 /\
  forall j, nth (S j) (fold_left (fun a p => set_nth (S (fst p)) (snd p) a) vc a) 0 =
            if existsb (Nat.eqb j) (map fst vc) then vc_get j vc else nth (S j) a 0.
Proof.
  induction vc as [|[k c] r IH]; intros a Hn Hb; cbn [fold_left]; [cbn; auto|].
  inversion Hn; subst. cbn [fst snd].
  assert (S k < length a) as Hk by (apply (Hb (k, c)); left; reflexivity).
  destruct (IH (set_nth (S k) c a) H2) as [L [Z N]].
  { intros p Hp. rewrite set_nth_length. apply Hb. right. exact Hp. }
  rewrite set_nth_length in L. split; [exact L|]. split.
  { rewrite Z, nth_set_nth. reflexivity. }
  intro j. rewrite N, nth_set_nth. cbn [map fst existsb vc_get].
  assert ((S k <? length a) = true) as Ek by (apply Nat.ltb_lt; exact Hk). rewrite Ek, andb_true_r.
  change (Nat.eqb (S j) (S k)) with (Nat.eqb j k).
  assert (existsb (Nat.eqb k) (map fst r) = false) as E.
  { apply not_true_is_false. intro E. apply existsb_exists in E. destruct E as [y [Hy Ey]]. apply Nat.eqb_eq in Ey. subst. contradiction. }
  destruct (Nat.eqb_spec j k) as [->|Njk]; cbn [orb]; [rewrite E; reflexivity|reflexivity].
Qed.

Lemma vc_get_absent j vc : existsb (Nat.eqb j) (map fst vc) = false -> vc_get j vc = 0.
Proof.
  induction vc as [|[k c] r IH]; cbn; [reflexivity|]. intro H. apply orb_false_iff in H. destruct H as [A B].
  rewrite A. apply IH. exact B.
Qed.

Lemma row_sizes_spec n vc :
  NoDup (map fst vc) -> (forall k, In k (map fst vc) -> k < n) ->
  length (row_sizes n vc) = S n /\ nth 0 (row_sizes n vc) 0 = 0 /\
  forall j, j < n -> nth (S j) (row_sizes n vc) 0 = vc_get j vc.
Proof.
  intros Hn Hb. unfold row_sizes.
  destruct (fold_set_nth vc (repeat 0 (S n)) Hn) as [L [Z N]].
  { intros p Hp. rewrite repeat_length. apply -> Nat.succ_lt_mono. apply Hb. apply in_map. exact Hp. }
  rewrite repeat_length in L. split; [exact L|]. split; [rewrite Z; reflexivity|].
  intros j Hj. rewrite N. destruct (existsb (Nat.eqb j) (map fst vc)) eqn:E; [reflexivity|].
  rewrite vc_get_absent by exact E. apply nth_repeat.
Qed.

(* ---- cumulative sums ---- *)
Fixpoint nsum (l : list nat) : nat := match l with [] => 0 | x :: r => x + nsum r end.
Lemma cumsum_length l : forall acc, length (cumsum_from acc l) = length l.
Proof. induction l as [|x r IH]; intro acc; cbn; [reflexivity|rewrite IH; reflexivity]. Qed.
Lemma cumsum_nth l : forall acc k, k < length l -> nth k (cumsum_from acc l) 0 = acc + nsum (firstn (S k) l).
Proof.
  induction l as [|x r IH]; intros acc k L; [cbn in L; lia|].
  rewrite firstn_cons. cbn [cumsum_from nsum]. destruct k as [|k]; [cbn [nth firstn nsum]; lia|].
  cbn in L. cbn [nth]. rewrite IH by lia. lia.
Qed.
Lemma nsum_firstn_S l : forall k, k < length l -> nsum (firstn (S k) l) = nsum (firstn k l) + nth k l 0.
Proof.
  induction l as [|x r IH]; intros k L; [cbn in L; lia|].
  rewrite firstn_cons. cbn [nsum]. destruct k as [|k]; [cbn; lia|].
  cbn in L. rewrite firstn_cons. cbn [nsum nth]. rewrite IH by lia. lia.
Qed.

Lemma below_S r col : below (S r) col = below r col + cnt r col.
Proof.
  unfold below, cnt. induction col as [|x l IH]; [reflexivity|]. cbn [filter].
  destruct (Nat.ltb_spec x (S r)); destruct (Nat.ltb_spec x r); destruct (Nat.eqb_spec r x); cbn [length]; lia.
Qed.
Lemma below_all n col : (forall x, In x col -> x < n) -> below n col = length col.
Proof.
  unfold below. induction col as [|x l IH]; intro H; [reflexivity|]. cbn [filter].
  replace (x <? n) with true by (symmetry; apply Nat.ltb_lt; apply H; left; reflexivity).
  cbn [length]. rewrite IH; [reflexivity|]. intros y Hy. apply H. right. exact Hy.
Qed.
Lemma below_mono r col : below r col <= below (S r) col.
Proof. rewrite below_S. lia. Qed.

(* the row pointers count the records of smaller rows *)
Lemma row_ptrs_below n tbl :
  (forall r, In r tbl -> r_u r < n) ->
  length (row_ptrs n tbl) = S n /\ forall r, r <= n -> nth r (row_ptrs n tbl) 0 = below r (map r_u tbl).
Proof.
  intro Hb. unfold row_ptrs. set (col := map r_u tbl).
  destruct (value_counts_keys col) as [Nk Kk].
  destruct (row_sizes_spec n (value_counts col) Nk) as [L [Z N]].
  { intros k Hk. apply Kk in Hk. unfold col in Hk. apply in_map_iff in Hk. destruct Hk as [x [<- Hx]]. apply Hb. exact Hx. }
  split; [rewrite cumsum_length; exact L|].
  induction r as [|r IH]; intro Hr.
  - rewrite cumsum_nth by lia. destruct (row_sizes n (value_counts col)) as [|z rest]; [discriminate|].
    cbn in Z. subst z. cbn. unfold below. clear. induction col; cbn; auto.
  - rewrite cumsum_nth by lia. rewrite nsum_firstn_S by lia. rewrite cumsum_nth in IH by lia.
    cbn [plus] in *. rewrite IH by lia. rewrite N by lia. rewrite value_counts_get, below_S. reflexivity.
Qed.

(* ---- slices of a list sorted by key ---- *)
Section Sorted.
  Context {A : Type} (k : A -> nat).

  Lemma sorted_split r l : StronglySorted (by_key k) l ->
    l = filter (fun x => k x <? r) l ++ filter (fun x => negb (k x <? r)) l.
  Proof.
    induction 1 as [|x t Ht IH Hall]; [reflexivity|]. cbn [filter]. destruct (Nat.ltb_spec (k x) r); cbn [negb app].
    - f_equal. exact IH.
    - assert (filter (fun y => k y <? r) t = []) as E.
      { clear -Hall H. induction t as [|y t IH]; [reflexivity|]. inversion Hall; subst. cbn [filter].
        unfold by_key in H2. replace (k y <? r) with false by (symmetry; apply Nat.ltb_ge; lia). apply IH. assumption. }
      rewrite E in *. cbn [app] in *. f_equal. exact IH.
  Qed.

  Lemma filter_sorted (f : A -> bool) l : StronglySorted (by_key k) l -> StronglySorted (by_key k) (filter f l).
  Proof.
    induction 1 as [|x t Ht IH Hall]; cbn [filter]; [constructor|]. destruct (f x); [|exact IH].
    constructor; [exact IH|]. rewrite Forall_forall in *. intros y Hy. apply filter_In in Hy. apply Hall. tauto.
  Qed.

  Lemma sorted_firstn r l : StronglySorted (by_key k) l ->
    firstn (length (filter (fun x => k x <? r) l)) l = filter (fun x => k x <? r) l /\
    skipn (length (filter (fun x => k x <? r) l)) l = filter (fun x => negb (k x <? r)) l.
  Proof.
    intro H. pose proof (sorted_split r l H) as E. split.
    - rewrite E at 2. rewrite firstn_app, Nat.sub_diag, firstn_all. cbn [firstn]. apply app_nil_r.
    - rewrite E at 2. rewrite skipn_app, Nat.sub_diag, skipn_all. reflexivity.
  Qed.

  (* the slice [#(key < r), #(key < r+1)) is exactly the records with key r *)
  Lemma sorted_slice r l : StronglySorted (by_key k) l ->
    slice l (length (filter (fun x => k x <? r) l)) (length (filter (fun x => k x <? S r) l)) = filter (fun x => Nat.eqb (k x) r) l.
  Proof.
    intro H. unfold slice. destruct (sorted_firstn r l H) as [_ Sk]. rewrite Sk.
    set (b := filter (fun x => negb (k x <? r)) l).
    assert (StronglySorted (by_key k) b) as Hb by (apply filter_sorted; exact H).
    destruct (sorted_firstn (S r) b Hb) as [Fb _].
    assert (forall (f g : A -> bool) l0, filter f (filter g l0) = filter (fun x => g x && f x) l0) as FF.
    { intros f g l0. induction l0 as [|x t IH]; [reflexivity|]. cbn [filter]. destruct (g x); cbn [filter andb]; [destruct (f x); rewrite IH; reflexivity|exact IH]. }
    assert (filter (fun x => k x <? S r) b = filter (fun x => Nat.eqb (k x) r) l) as E1.
    { unfold b. rewrite FF. apply filter_ext. intro x.
      destruct (Nat.ltb_spec (k x) r); destruct (Nat.ltb_spec (k x) (S r)); destruct (Nat.eqb_spec (k x) r); cbn [negb andb]; try reflexivity; lia. }
    assert (length (filter (fun x => k x <? S r) l) - length (filter (fun x => k x <? r) l) = length (filter (fun x => k x <? S r) b)) as E2.
    { rewrite (sorted_split r l H) at 1. rewrite filter_app, app_length. fold b.
      assert (filter (fun x => k x <? S r) (filter (fun x => k x <? r) l) = filter (fun x => k x <? r) l) as E3.
      { rewrite FF. apply filter_ext. intro x. destruct (Nat.ltb_spec (k x) r); destruct (Nat.ltb_spec (k x) (S r)); cbn [andb]; try reflexivity; lia. }
      rewrite E3. lia. }
    rewrite E2, Fb. exact E1.
  Qed.
End Sorted.

Lemma below_filter r (tbl : list rec) : below r (map r_u tbl) = length (filter (fun x => r_u x <? r) tbl).
Proof.
  unfold below. induction tbl as [|x t IH]; [reflexivity|]. cbn [map filter]. destruct (r_u x <? r); cbn [length]; rewrite IH; reflexivity.
Qed.

(* row_ptrs_correct: for a table sorted by row whose row numbers are < n *)
Lemma row_ptrs_correct_l n tbl :
  StronglySorted (by_key r_u) tbl -> (forall r, In r tbl -> r_u r < n) ->
  let p := row_ptrs n tbl in
  length p = S n /\ nth 0 p 0 = 0 /\ nth n p 0 = length tbl /\
  (forall r, r < n -> nth r p 0 <= nth (S r) p 0) /\
  (forall r, r < n -> slice tbl (nth r p 0) (nth (S r) p 0) = filter (fun x => Nat.eqb (r_u x) r) tbl).
Proof.
  intros Hs Hb. cbv zeta. destruct (row_ptrs_below n tbl Hb) as [L P].
  split; [exact L|]. split; [rewrite P by lia; unfold below; clear; induction (map r_u tbl); cbn; auto|].
  split.
  { rewrite P by lia. rewrite below_all; [apply map_length|].
    intros x Hx. apply in_map_iff in Hx. destruct Hx as [y [<- Hy]]. apply Hb. exact Hy. }
  split.
  { intros r Hr. rewrite !P by lia. apply below_mono. }
  intros r Hr. rewrite !P by lia. rewrite !below_filter. apply sorted_slice. exact Hs.
Qed.
