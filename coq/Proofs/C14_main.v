(* C14 -- main lemmas by induction over histories. *)
From Coq Require Import String List Bool Arith Lia.
From LK Require Import Lib.StrDict Lib.StrDictFacts Gen.C14_alias Model.C14_heap Proofs.C14_heap Proofs.C14_frozen.
Import ListNotations.
Open Scope list_scope.

Fixpoint hist_ok (s : state) (ops : list op) : Prop :=
  match ops with [] => True | o :: r => op_ok s o /\ hist_ok (step s o) r end.
Definition never_trains (j : nat) (ops : list op) : Prop := Forall (fun o => ~ trains o j) ops.

Lemma run_cons s o ops : run s (o :: ops) = run (step s o) ops.
Proof. reflexivity. Qed.

Theorem ownership_l : forall ops s, inv s -> inv (run s ops).
Proof.
  induction ops as [|o ops IH]; intros s I; [exact I|]. rewrite run_cons. apply IH. apply (step_frame_inv s o I).
Qed.

Theorem dataset_frozen_l : forall ops s j d, inv s -> nth_error (st_dsets s) j = Some d ->
  nth_error (st_dsets (run s ops)) j = Some d /\ obs_d (run s ops) d = obs_d s d.
Proof.
  induction ops as [|o ops IH]; intros s j d I Hd; [split; [exact Hd|reflexivity]|].
  rewrite run_cons. destruct (step_frame_inv s o I) as [I' [F _]].
  destruct (frame_frozen_d _ _ F j d Hd) as [Hd' E].
  destruct (IH _ j d I' Hd') as [Hd'' E']. split; [exact Hd''|]. rewrite E', E. reflexivity.
Qed.

Lemma step_frozen_p s o j p : inv s -> op_ok s o -> ~ trains o j -> nth_error (st_pipes s) j = Some p ->
  nth_error (st_pipes (step s o)) j = Some p /\ obs_p (step s o) p = obs_p s p.
Proof.
  intros I OK NT Hp. destruct (step_frame_inv s o I) as [_ [[FP [_ FH]] FI]].
  split; [apply FP; exact Hp|]. apply obs_p_stable.
  - intros r Hr. apply FH. eapply in_frefs_pipe; eassumption.
  - intros r Hr. apply (FI j p Hp r Hr).
    destruct o as [| | | | | | | | |jt label codes| | | | | | | |]; try exact Logic.I. cbn [op_ok trains] in *.
    destruct (nth_error (st_pipes s) jt) as [q|] eqn:Eq; [|exact Logic.I].
    intro Ht. apply (OK q eq_refl j p (fun X => NT (eq_sym X)) Hp r Ht Hr).
Qed.

Theorem pipeline_frozen_l : forall ops s j p, inv s -> hist_ok s ops -> never_trains j ops -> nth_error (st_pipes s) j = Some p ->
  nth_error (st_pipes (run s ops)) j = Some p /\ obs_p (run s ops) p = obs_p s p.
Proof.
  induction ops as [|o ops IH]; intros s j p I HK NT Hp; [split; [exact Hp|reflexivity]|].
  rewrite run_cons. destruct HK as [OK HK]. inversion NT as [|? ? NT1 NT2]; subst.
  destruct (step_frozen_p s o j p I OK NT1 Hp) as [Hp' E].
  destruct (IH _ j p (proj1 (step_frame_inv s o I)) HK NT2 Hp') as [Hp'' E']. split; [exact Hp''|]. rewrite E', E. reflexivity.
Qed.

(* the configuration of a built pipeline never changes, whatever happens (also when it is trained itself) *)
Theorem pipeline_config_frozen_l : forall ops s j p, inv s -> nth_error (st_pipes s) j = Some p ->
  nth_error (st_pipes (run s ops)) j = Some p /\
  po_edges (obs_p (run s ops) p) = po_edges (obs_p s p) /\ po_name (obs_p (run s ops) p) = po_name (obs_p s p) /\
  po_aliases (obs_p (run s ops) p) = po_aliases (obs_p s p) /\ po_default (obs_p (run s ops) p) = po_default (obs_p s p).
Proof.
  induction ops as [|o ops IH]; intros s j p I Hp; [repeat split; exact Hp|].
  rewrite run_cons. destruct (step_frame_inv s o I) as [I' [[FP [_ FH]] _]].
  destruct (IH _ j p I' (FP j p Hp)) as [Hp'' [E1 [E2 [E3 E4]]]]. split; [exact Hp''|].
  destruct (obs_p_config_stable s (step s o) p) as [G1 [G2 [G3 G4]]].
  { intros r Hr. apply FH. eapply in_frefs_pipe; eassumption. }
  rewrite E1, E2, E3, E4. repeat split; assumption.
Qed.

(* running never writes; training writes component instances only *)
Theorem run_train_readonly_l s j label codes :
  step s (PRun j) = s /\
  st_heap (step s (PTrain j label codes)) = st_heap s /\ st_dsets (step s (PTrain j label codes)) = st_dsets s /\
  st_pipes (step s (PTrain j label codes)) = st_pipes s.
Proof. cbn [step]. destruct (nth_error (st_pipes s) j); repeat split; reflexivity. Qed.

Theorem dataset_frozen_from_init_l : forall ops1 ops2 j d,
  nth_error (st_dsets (run init ops1)) j = Some d ->
  nth_error (st_dsets (run (run init ops1) ops2)) j = Some d /\
  obs_d (run (run init ops1) ops2) d = obs_d (run init ops1) d.
Proof. intros ops1 ops2 j d H. apply dataset_frozen_l; [apply ownership_l; apply init_inv|exact H]. Qed.

Theorem pipeline_frozen_from_init_l : forall ops1 ops2 j p,
  nth_error (st_pipes (run init ops1)) j = Some p ->
  hist_ok (run init ops1) ops2 -> never_trains j ops2 ->
  nth_error (st_pipes (run (run init ops1) ops2)) j = Some p /\
  obs_p (run (run init ops1) ops2) p = obs_p (run init ops1) p.
Proof. intros ops1 ops2 j p H HK NT. apply pipeline_frozen_l; [apply ownership_l; apply init_inv|exact HK|exact NT|exact H]. Qed.

Theorem pipeline_config_frozen_from_init_l : forall ops1 ops2 j p,
  nth_error (st_pipes (run init ops1)) j = Some p ->
  let s1 := run init ops1 in let s2 := run s1 ops2 in
  nth_error (st_pipes s2) j = Some p /\
  po_edges (obs_p s2 p) = po_edges (obs_p s1 p) /\ po_name (obs_p s2 p) = po_name (obs_p s1 p) /\
  po_aliases (obs_p s2 p) = po_aliases (obs_p s1 p) /\ po_default (obs_p s2 p) = po_default (obs_p s1 p).
Proof. intros ops1 ops2 j p H. cbv zeta. apply pipeline_config_frozen_l; [apply ownership_l; apply init_inv|exact H]. Qed.

(* the scan of every component __call__ (Gen/C14_alias.v) finds no statement writing through an ItemList parameter *)
Lemma no_itemlist_writes_l : itemlist_param_writes = [].
Proof. reflexivity. Qed.

(* the alias table the proofs rely on, as extracted from the source *)
Lemma alias_table_l : from_pipeline_edges = Copy /\ build_wiring = Copy /\ dsb_init_schema = Copy /\ build_container_schema = Copy /\
  build_instances_fresh = true /\ connect_creates_fresh = true /\ clear_inputs_fresh = true /\ clone_via_config = true /\
  connect_resolves_alias = true.
Proof. repeat split; reflexivity. Qed.

(* the scan of every function that is handed a built dataset / container / pipeline finds no statement writing through it *)
Lemma no_source_writes_l : source_param_writes = [].
Proof. reflexivity. Qed.

(* a component may be named by its node name or by any alias of it: connect() edits the same wiring dictionary and the
   resulting state is the same *)
Lemma connect_alias_l : forall s i b a t f,
  nth_error (st_pblds s) i = Some b -> dget a (p_aliases b) = Some t -> dget t (p_aliases b) = None ->
  step s (PBWire i a f) = step s (PBWire i t f).
Proof.
  intros s i b a t f Eb Ea Et. cbn [step]. rewrite Eb. cbv zeta. unfold resolve. rewrite Ea, Et. reflexivity.
Qed.

(* connect() on the builder just obtained from modify(), the component named by any string (node name or ALIAS of the pipeline):
   the pipeline is observed unchanged *)
Lemma connect_alias_frozen_l : forall s j p a f, inv s -> nth_error (st_pipes s) j = Some p ->
  let s1 := step s (PModify j) in
  let s2 := step s1 (PBWire (length (st_pblds s)) a f) in
  nth_error (st_pipes s2) j = Some p /\
  po_edges (obs_p s2 p) = po_edges (obs_p s p) /\ po_aliases (obs_p s2 p) = po_aliases (obs_p s p).
Proof.
  intros s j p a f I Hp. cbv zeta.
  destruct (pipeline_config_frozen_l [PModify j; PBWire (length (st_pblds s)) a f] s j p I Hp) as [H1 [H2 [_ [H3 _]]]].
  cbn [run fold_left] in *. repeat split; assumption.
Qed.

(* the scan of every method of a built dataset / container / pipeline finds no statement writing through the parts that describe it *)
Lemma no_self_description_writes_l : self_description_writes = [].
Proof. reflexivity. Qed.

(* ---- histories that train nothing (every derivation is one: modify, clone, from_config, builder calls) ---- *)
Definition trains_nothing (ops : list op) : Prop := Forall (fun o => match o with PTrain _ _ _ => False | _ => True end) ops.

Lemma trains_nothing_hist_ok : forall ops s, trains_nothing ops -> hist_ok s ops.
Proof.
  induction ops as [|o ops IH]; intros s H; [exact Logic.I|]. inversion H as [|? ? H1 H2]; subst. split; [|apply IH; exact H2].
  destruct o; try exact Logic.I. destruct H1.
Qed.

Lemma trains_nothing_never_trains : forall ops j, trains_nothing ops -> never_trains j ops.
Proof.
  intros ops j H. unfold never_trains. eapply Forall_impl; [|exact H]. intros o Ho. destruct o; cbn [trains]; try (intros []). destruct Ho.
Qed.

Lemma from_config_trains_nothing i o : trains_nothing (from_config_ops i o).
Proof.
  unfold from_config_ops, trains_nothing. constructor; [exact Logic.I|].
  apply Forall_app. split; [apply Forall_forall; intros x Hx; apply in_map_iff in Hx; destruct Hx as [? [<- _]]; exact Logic.I|].
  apply Forall_app. split; [apply Forall_forall; intros x Hx; apply in_map_iff in Hx; destruct Hx as [? [<- _]]; exact Logic.I|].
  repeat constructor.
Qed.

(* a builder made from the pipeline's own configuration document (and, more generally, any history that trains nothing) leaves
   the pipeline exactly as it was: nodes with their instance states, wiring, aliases, default, name *)
Theorem from_config_frozen_l : forall ops1 j p i,
  nth_error (st_pipes (run init ops1)) j = Some p ->
  let s1 := run init ops1 in let s2 := run s1 (from_config_ops i (obs_p s1 p)) in
  nth_error (st_pipes s2) j = Some p /\ obs_p s2 p = obs_p s1 p.
Proof.
  intros ops1 j p i H. cbv zeta. apply pipeline_frozen_from_init_l; [exact H| |].
  - apply trains_nothing_hist_ok. apply from_config_trains_nothing.
  - apply trains_nothing_never_trains. apply from_config_trains_nothing.
Qed.

(* "replacing ... components": the builder obtained from modify() has a node rebound to ANY component -- another instance of the class the
   node already runs, an instance of another class, a class with settings, a function, an input, a literal (`ns`) --, is rewired by any
   edit, is built, and the original and the derivative are run: the pipeline is exactly what it was (nodes with their instances and the
   state these were trained to, wiring, aliases, default, name).  replace_component rebinds the BUILDER's entry for the name; it writes
   nothing through the node it found there. *)
Theorem modify_replace_frozen_l : forall ops1 j p name ns f,
  nth_error (st_pipes (run init ops1)) j = Some p ->
  let s1 := run init ops1 in let i := length (st_pblds s1) in
  let s2 := run s1 [PModify j; PBNode i name ns; PBWire i name f; PBuild i; PRun j; PRun (length (st_pipes s1))] in
  nth_error (st_pipes s2) j = Some p /\ obs_p s2 p = obs_p s1 p.
Proof.
  intros ops1 j p name ns f H. cbv zeta. apply pipeline_frozen_from_init_l; [exact H| |].
  - apply trains_nothing_hist_ok. repeat constructor.
  - apply trains_nothing_never_trains. repeat constructor.
Qed.

(* the scan of every method of PipelineBuilder finds no statement writing through a node object reached from the builder's node table
   (nodes are shared with the pipeline modify() was called on and with every pipeline built from the builder) *)
Lemma no_shared_node_writes_l : shared_node_writes = [].
Proof. reflexivity. Qed.
