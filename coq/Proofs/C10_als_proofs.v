(* C10 -- the ALS half-step, its verified checker, fold-in and scoring (Model/C10_als.v).
   * resid_ok 0 / halfstep_ok 0 are sound and complete for "every row with data solves its
     system exactly, rows without data are unchanged" (halfstep_spec), and the half-step run with
     an exact solver inhabits it;
   * rows are independent of one another and of the previous values of rows with data;
   * with an exact solver every updated row minimises its regularised objective (explicit:
     squared error with ridge lam * count; implicit: confidence-weighted objective over all items);
   * fold-in builds the same system as a training row; scores are dot products plus biases. *)
From Coq Require Import ZArith QArith Qabs List Bool Lia Lqa Setoid Morphisms.
From LK Require Import Lib.QLib Model.C10_als Proofs.C10_ls.
Import ListNotations.
Open Scope Q_scope.

(* ---------------------------------------------------------------- norms *)
Lemma Qmaxq_ge_l a b : a <= Qmaxq a b.
Proof. unfold Qmaxq. destruct (Qle_bool a b) eqn:E; [apply Qle_bool_iff in E; exact E|lra]. Qed.
Lemma Qmaxq_ge_r a b : b <= Qmaxq a b.
Proof.
  unfold Qmaxq. destruct (Qle_bool a b) eqn:E; [lra|].
  destruct (Qlt_le_dec a b) as [L|L]; [|exact L].
  assert (Qle_bool a b = true) by (apply Qle_bool_iff; lra). congruence.
Qed.
Lemma Qmaxq_cases a b : Qmaxq a b = a \/ Qmaxq a b = b.
Proof. unfold Qmaxq. destruct (Qle_bool a b); auto. Qed.

Lemma vnorm_nonneg v : 0 <= vnorm v.
Proof. induction v as [|a v IH]; cbn; [lra|]. pose proof (Qmaxq_ge_r (Qabs a) (vnorm v)). fold (vnorm v) in *. lra. Qed.

Lemma vnorm_zero_iff v : vnorm v <= 0 <-> Forall (fun a => a == 0) v.
Proof.
  induction v as [|a v IH]; cbn [vnorm fold_right]; [split; [constructor|lra]|].
  fold (vnorm v). split.
  - intro H. pose proof (Qmaxq_ge_l (Qabs a) (vnorm v)). pose proof (Qmaxq_ge_r (Qabs a) (vnorm v)).
    pose proof (Qabs_nonneg a). constructor.
    + assert (Qabs a <= 0) as Ha by lra. apply Qabs_Qle_condition in Ha. lra.
    + apply IH. lra.
  - intro F. inversion F as [|? ? Ha Fv]; subst. apply IH in Fv.
    destruct (Qmaxq_cases (Qabs a) (vnorm v)) as [E|E]; rewrite E; [|exact Fv].
    rewrite Ha. cbn. lra.
Qed.

Lemma vsub_zero_iff a : forall b, length a = length b ->
  (Forall (fun q => q == 0) (vsub a b) <-> veq a b).
Proof.
  induction a as [|x a IH]; intros [|y b] L; cbn in L; try discriminate.
  - split; constructor.
  - unfold vsub; cbn [zipw]. fold (vsub a b). split; intro H.
    + inversion H as [|? ? Hx Hr]; subst. rewrite qsub_eq in Hx. constructor; [lra|]. apply IH; [lia|exact Hr].
    + inversion H as [|? ? ? ? Hx Hr]; subst. constructor; [rewrite qsub_eq; lra|]. apply IH; [lia|exact Hr].
Qed.

(* ---------------------------------------------------------------- exact residual check *)
Definition solves (Ay : mat * vec) (x : vec) : Prop :=
  length x = length (snd Ay) /\ length (fst Ay) = length (snd Ay) /\ veq (matvec (fst Ay) x) (snd Ay).

Lemma matvec_length A x : length (matvec A x) = length A.
Proof. apply map_length. Qed.

Theorem resid_ok_exact sc A x y : resid_ok 0 sc A x y = true <-> solves (A, y) x.
Proof.
  unfold resid_ok, solves. cbn [fst snd]. rewrite !andb_true_iff, !Nat.eqb_eq, Qle_bool_iff.
  split.
  - intros [[L1 L2] H]. repeat split; try assumption.
    apply vsub_zero_iff; [rewrite matvec_length; exact L2|].
    apply vnorm_zero_iff. lra.
  - intros [L1 [L2 H]]. repeat split; try assumption.
    apply vsub_zero_iff in H; [|rewrite matvec_length; exact L2].
    apply vnorm_zero_iff in H. lra.
Qed.

Lemma veqb_iff a : forall b, veqb a b = true <-> veq a b.
Proof.
  unfold veqb. induction a as [|x a IH]; intros [|y b]; cbn [all2]; try (split; [discriminate|intro H; inversion H]).
  - split; constructor.
  - rewrite andb_true_iff, Qeq_bool_iff, IH. split; [intros [? ?]; constructor; assumption|intro H; inversion H; subst; auto].
Qed.

(* ---------------------------------------------------------------- half-step specification *)
Inductive Forall3 {A B C} (R : A -> B -> C -> Prop) : list A -> list B -> list C -> Prop :=
| F3_nil : Forall3 R [] [] []
| F3_cons a b c la lb lc : R a b c -> Forall3 R la lb lc -> Forall3 R (a :: la) (b :: lb) (c :: lc).

Definition row_spec (sys : srow -> mat * vec) (old : vec) (row : srow) (new : vec) : Prop :=
  match row with
  | [] => veq new old                       (* no data: previous values *)
  | _ => solves (sys row) new               (* data: exact solution of the row's system *)
  end.
Definition halfstep_spec (sys : srow -> mat * vec) (left : mat) (rows : list srow) (left' : mat) : Prop :=
  Forall3 (row_spec sys) left rows left'.

Lemma row_ok_exact sys sc old row new : row_ok 0 sys sc old row new = true <-> row_spec sys old row new.
Proof.
  unfold row_ok, row_spec. destruct row as [|cv row]; [apply veqb_iff|].
  rewrite resid_ok_exact. destruct (sys (cv :: row)); reflexivity.
Qed.

Lemma all3_iff {A B C} (f : A -> B -> C -> bool) (R : A -> B -> C -> Prop) :
  (forall a b c, f a b c = true <-> R a b c) ->
  forall la lb lc, all3 f la lb lc = true <-> Forall3 R la lb lc.
Proof.
  intro H. induction la as [|a la IH]; intros [|b lb] [|c lc]; cbn [all3];
    try (split; [discriminate|intro K; inversion K]).
  - split; constructor.
  - rewrite andb_true_iff, H, IH. split; [intros [? ?]; constructor; assumption|intro K; inversion K; subst; auto].
Qed.

(* the checker is sound and complete for the specification *)
Theorem halfstep_ok_exact sys sc left rows left' :
  halfstep_ok 0 sys sc left rows left' = true <-> halfstep_spec sys left rows left'.
Proof. apply all3_iff. intros. apply row_ok_exact. Qed.

Lemma Forall3_nth {A B C} (R : A -> B -> C -> Prop) la lb lc : Forall3 R la lb lc ->
  forall i a b c, nth_error la i = Some a -> nth_error lb i = Some b -> nth_error lc i = Some c -> R a b c.
Proof.
  induction 1 as [|a0 b0 c0 la lb lc H F IH]; intros [|i] a b c Ha Hb Hc; cbn in *; try discriminate.
  - congruence.
  - eapply IH; eassumption.
Qed.
Lemma Forall3_length {A B C} (R : A -> B -> C -> Prop) la lb lc : Forall3 R la lb lc ->
  length la = length lb /\ length lc = length lb.
Proof. induction 1 as [|? ? ? ? ? ? _ _ [I1 I2]]; cbn; [auto|split; congruence]. Qed.

(* ---------------------------------------------------------------- the half-step as a function *)
Section Solver.
Variable solve : mat -> vec -> vec.

Lemma halfstep_nth sys : forall left rows i,
  nth_error (halfstep solve sys left rows) i =
  match nth_error left i, nth_error rows i with
  | Some old, Some row => Some (row_update solve sys old row)
  | _, _ => None
  end.
Proof.
  unfold halfstep. induction left as [|o left IH]; intros [|r rows] [|i]; cbn [zipw nth_error]; try reflexivity.
  - destruct (nth_error left i); reflexivity.
  - apply IH.
Qed.

(* row i of the result is a function of row i of the matrix (and of the old row i only when
   that row has no data): other rows, and the other rows' previous values, do not matter *)
Theorem halfstep_rows_independent_l sys left1 left2 rows1 rows2 i :
  nth_error rows1 i = nth_error rows2 i -> nth_error left1 i = nth_error left2 i ->
  nth_error (halfstep solve sys left1 rows1) i = nth_error (halfstep solve sys left2 rows2) i.
Proof. intros Hr Hl. rewrite !halfstep_nth, Hl. unfold srow in *. destruct (nth_error left2 i); [rewrite Hr|]; reflexivity. Qed.

Theorem halfstep_row_with_data sys left rows i row old :
  nth_error rows i = Some row -> row <> [] -> nth_error left i = Some old ->
  nth_error (halfstep solve sys left rows) i = Some (solve (fst (sys row)) (snd (sys row))).
Proof.
  intros Hr Hne Hl. rewrite halfstep_nth, Hl. unfold srow in *. rewrite Hr. destruct row; [contradiction|reflexivity].
Qed.

Theorem empty_rows_kept_l sys left rows i :
  nth_error rows i = Some [] -> nth_error (halfstep solve sys left rows) i = nth_error left i.
Proof. intro Hr. rewrite halfstep_nth. unfold srow in *. destruct (nth_error left i); [rewrite Hr|]; reflexivity. Qed.

(* contract of the linear solver on the systems that arise *)
Definition solver_exact_on (sys : srow -> mat * vec) (rows : list srow) : Prop :=
  forall row, In row rows -> row <> [] -> solves (sys row) (solve (fst (sys row)) (snd (sys row))).

Lemma veq_refl a : veq a a.
Proof. induction a; constructor; [reflexivity|assumption]. Qed.

Theorem halfstep_inhabits_spec sys : forall left rows, length left = length rows ->
  solver_exact_on sys rows -> halfstep_spec sys left rows (halfstep solve sys left rows).
Proof.
  unfold halfstep_spec, halfstep.
  induction left as [|o left IH]; intros [|r rows] L S; cbn in L; try discriminate; cbn [zipw]; constructor.
  - unfold row_spec, row_update. destruct r as [|cv r]; [apply veq_refl|].
    apply S; [left; reflexivity|discriminate].
  - apply IH; [lia|]. intros row Hin. apply S. right. exact Hin.
Qed.

Corollary halfstep_passes_checker sys sc left rows : length left = length rows ->
  solver_exact_on sys rows -> halfstep_ok 0 sys sc left rows (halfstep solve sys left rows) = true.
Proof. intros L S. apply halfstep_ok_exact, halfstep_inhabits_spec; assumption. Qed.
End Solver.

(* rows without data keep their values in anything the checker accepts, at every tolerance *)
Theorem empty_rows_kept_checked tol sys sc : forall left rows left' i old new,
  halfstep_ok tol sys sc left rows left' = true ->
  nth_error rows i = Some [] -> nth_error left i = Some old -> nth_error left' i = Some new -> veq new old.
Proof.
  unfold halfstep_ok. induction left as [|o left IH]; intros [|r rows] [|n left'] [|i] old new H Hr Hl Hn;
    cbn in *; try discriminate.
  - apply andb_true_iff in H. destruct H as [H _]. injection Hr as ->. injection Hl as ->. injection Hn as ->.
    apply veqb_iff. exact H.
  - apply andb_true_iff in H. destruct H as [_ H]. eapply IH; eassumption.
Qed.

(* ---------------------------------------------------------------- optimality of accepted half-steps *)
Lemma solves_length_explicit k lam other row x : Forall (fun o => length o = k) other ->
  solves (row_system_explicit k lam other row) x -> length x = k.
Proof.
  intros F [L _]. unfold row_system_explicit, normal_eq_explicit in L. cbn [snd] in L.
  rewrite mtv_length in L by (apply select_lengths; exact F). exact L.
Qed.
Lemma solves_length_implicit k O' other row x : Forall (fun o => length o = k) other ->
  solves (row_system_implicit k O' other row) x -> length x = k.
Proof.
  intros F [L _]. unfold row_system_implicit, normal_eq_implicit in L. cbn [snd] in L.
  rewrite mtv_length in L by (apply select_lengths; exact F). exact L.
Qed.

(* the objective of row `row` against the other side's embeddings *)
Definition row_obj_explicit (k : nat) (lam : Q) (other : mat) (row : srow) (x : vec) : Q :=
  obj_explicit (select k other (map fst row)) (map snd row) (lam * Qofnat (length row)) x.

Theorem halfstep_explicit_optimal k lam other left rows left' :
  Forall (fun o => length o = k) other -> 0 <= lam ->
  halfstep_spec (row_system Explicit k lam other) left rows left' ->
  forall i row new, nth_error rows i = Some row -> row <> [] -> nth_error left' i = Some new ->
    length new = k /\
    forall x', length x' = k -> row_obj_explicit k lam other row new <= row_obj_explicit k lam other row x'.
Proof.
  intros FO Hlam Sp i row new Hr Hne Hn.
  destruct (Forall3_length _ _ _ _ Sp) as [L1 L2].
  destruct (nth_error left i) as [old|] eqn:Hl.
  2:{ apply nth_error_None in Hl. assert (i < length rows)%nat as Hi by (apply nth_error_Some; congruence).
      unfold srow, mat, vec in *. lia. }
  pose proof (Forall3_nth _ _ _ _ Sp i old row new Hl Hr Hn) as R.
  unfold row_spec in R. destruct row as [|cv row]; [contradiction|]. cbn [row_system] in R.
  pose proof (solves_length_explicit _ _ _ _ _ FO R) as Lk. split; [exact Lk|].
  intros x' Lx'. unfold row_obj_explicit.
  destruct R as [_ [_ R]].
  pose proof (explicit_solution_minimises k lam (select k other (map fst (cv :: row))) (map snd (cv :: row)) new) as T.
  assert (Hlen : length (select k other (map fst (cv :: row))) = length (cv :: row))
    by (unfold select; rewrite !map_length; reflexivity).
  rewrite <- Hlen.
  apply T; try assumption.
  - apply select_lengths; exact FO.
  - rewrite map_length. symmetry. exact Hlen.
Qed.

Definition row_obj_implicit (k : nat) (lam : Q) (other : mat) (row : srow) (x : vec) : Q :=
  obj_implicit other row lam x.

Theorem halfstep_implicit_optimal k lam other left rows left' :
  Forall (fun o => length o = k) other -> 0 <= lam ->
  Forall (fun row => NoDup (map fst row) /\ Forall (fun c => (c < length other)%nat) (map fst row)
                     /\ Forall (fun v => 0 <= v) (map snd row)) rows ->
  halfstep_spec (row_system Implicit k lam other) left rows left' ->
  forall i row new, nth_error rows i = Some row -> row <> [] -> nth_error left' i = Some new ->
    length new = k /\
    forall x', length x' = k -> row_obj_implicit k lam other row new <= row_obj_implicit k lam other row x'.
Proof.
  intros FO Hlam WF Sp i row new Hr Hne Hn.
  destruct (Forall3_length _ _ _ _ Sp) as [L1 L2].
  destruct (nth_error left i) as [old|] eqn:Hl.
  2:{ apply nth_error_None in Hl. assert (i < length rows)%nat as Hi by (apply nth_error_Some; congruence).
      unfold srow, mat, vec in *. lia. }
  pose proof (Forall3_nth _ _ _ _ Sp i old row new Hl Hr Hn) as R.
  rewrite Forall_forall in WF. destruct (WF row (nth_error_In _ _ Hr)) as [ND [RG W]].
  unfold row_spec in R. destruct row as [|cv row]; [contradiction|]. cbn [row_system] in R.
  pose proof (solves_length_implicit _ _ _ _ _ FO R) as Lk. split; [exact Lk|].
  intros x' Lx'. unfold row_obj_implicit. destruct R as [_ [_ R]].
  eapply implicit_solution_minimises; eassumption.
Qed.

(* ---------------------------------------------------------------- fold-in *)
Theorem foldin_is_same_system_explicit k lam items row :
  foldin_system_explicit k lam items row = row_system_explicit k lam items row.
Proof.
  unfold foldin_system_explicit, row_system_explicit, normal_eq_explicit, select.
  rewrite !map_length. reflexivity.
Qed.
Theorem foldin_is_same_system_implicit k OtOr items row :
  foldin_system_implicit k OtOr items row = row_system_implicit k OtOr items row.
Proof. reflexivity. Qed.

(* the folded-in embedding is what a training half-step would compute for a row with these entries *)
Theorem foldin_is_row_update_explicit solve k lam items row : row <> [] ->
  foldin_explicit solve k lam items row = row_update solve (row_system Explicit k lam items) (vzero k) row.
Proof.
  intro Hne. unfold foldin_explicit, row_update. destruct row; [contradiction|].
  rewrite foldin_is_same_system_explicit. reflexivity.
Qed.
Theorem foldin_is_row_update_implicit solve k lam items row old : row <> [] ->
  foldin_implicit solve k (otor k lam items) items row = row_update solve (row_system Implicit k lam items) old row.
Proof. intro Hne. unfold foldin_implicit, row_update. destruct row; [contradiction|reflexivity]. Qed.

Lemma number_from_spec vocab i : forall s n, number_from s vocab i = Some n ->
  (s <= n < s + length vocab)%nat /\ nth_error vocab (n - s) = Some i.
Proof.
  induction vocab as [|j vocab IH]; intros s n H; cbn in H; [discriminate|].
  destruct (Z.eqb_spec i j) as [->|Ne].
  - injection H as <-. rewrite Nat.sub_diag. cbn. split; [lia|reflexivity].
  - destruct (IH _ _ H) as [R E]. cbn [length]. split; [lia|].
    replace (n - s)%nat with (S (n - S s)) by lia. exact E.
Qed.
Lemma number_spec vocab i n : number vocab i = Some n -> (n < length vocab)%nat /\ nth_error vocab n = Some i.
Proof. intro H. destruct (number_from_spec vocab i 0 n H) as [R E]. rewrite Nat.sub_0_r in E. split; [lia|exact E]. Qed.
Lemma number_none vocab i : number vocab i = None -> ~ In i vocab.
Proof.
  unfold number. generalize 0%nat. induction vocab as [|j vocab IH]; intros s H; cbn in *; [tauto|].
  destruct (Z.eqb_spec i j); [discriminate|]. intros [E|Hin]; [congruence|]. exact (IH _ H Hin).
Qed.

(* only the known items of a history enter the system, each with its vocabulary number *)
Theorem foldin_uses_known_items vocab h :
  map fst (known_rows vocab h) =
  flat_map (fun ir => match number vocab (fst ir) with Some n => [n] | None => [] end) h
  /\ Forall (fun n => (n < length vocab)%nat) (map fst (known_rows vocab h)).
Proof.
  unfold known_rows. split.
  - induction h as [|ir h IH]; [reflexivity|]. cbn [flat_map]. rewrite map_app, IH.
    destruct (number vocab (fst ir)); reflexivity.
  - induction h as [|ir h IH]; [constructor|]. cbn [flat_map]. rewrite map_app. apply Forall_app. split; [|exact IH].
    destruct (number vocab (fst ir)) eqn:E; [|constructor]. constructor; [|constructor].
    apply (number_spec _ _ _ E).
Qed.
Theorem foldin_explicit_items b damp vocab h :
  map fst (foldin_rows_explicit b damp vocab h) = map fst (known_rows vocab h).
Proof.
  unfold foldin_rows_explicit, known_rows. cbv zeta. generalize (foldin_user_bias b damp vocab h) as ub. intro ub.
  induction h as [|ir h IH]; [reflexivity|].
  cbn [flat_map]. rewrite !map_app, IH. destruct (number vocab (fst ir)); reflexivity.
Qed.
Theorem foldin_implicit_items w ur vocab h :
  map fst (foldin_rows_implicit w ur vocab h) = map fst (known_rows vocab h).
Proof. unfold foldin_rows_implicit. rewrite map_map. reflexivity. Qed.

(* ---------------------------------------------------------------- scoring *)
Theorem score_is_dot_plus_bias_explicit vocab k items b u ub cands :
  map fst (score_explicit vocab k items b u ub cands) = cands /\
  forall j i, nth_error cands j = Some i ->
    nth_error (score_explicit vocab k items b u ub cands) j =
    Some (i, match number vocab i with
             | Some n => Some (dot (nth n items (vzero k)) u + (b_global b + nth n (b_item b) 0 + ub))
             | None => None
             end).
Proof.
  unfold score_explicit. split.
  - rewrite map_map. cbn [fst]. apply map_id.
  - intros j i H. rewrite nth_error_map, H. reflexivity.
Qed.
Theorem score_is_dot_implicit vocab k items u cands :
  map fst (score_implicit vocab k items u cands) = cands /\
  forall j i, nth_error cands j = Some i ->
    exists s, nth_error (score_implicit vocab k items u cands) j = Some (i, s) /\
      match number vocab i, s with
      | Some n, Some v => v == dot (nth n items (vzero k)) u
      | None, None => True
      | _, _ => False
      end.
Proof.
  unfold score_implicit. split.
  - rewrite map_map. cbn [fst]. apply map_id.
  - intros j i H. rewrite nth_error_map, H. cbn [option_map]. eexists. split; [reflexivity|].
    unfold score_item. destruct (number vocab i); [ring|exact I].
Qed.
