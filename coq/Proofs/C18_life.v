(* C18 -- object lifetimes: a training that keeps nothing outside the component cannot tell where a dataset object
   lives, which objects were dropped before it was built, or which models are still alive; a training that keeps a
   table keyed by the identity of the data can. *)
From Coq Require Import ZArith List Bool Lia.
From Coq Require String.
Import String.StringSyntax.
From LK Require Import Model.C18_retrain Proofs.C18_proofs Proofs.C18_main.
Import ListNotations.
Local Open Scope string_scope.

Section Life.
  Context {D S : Type}.
  Variable fit : D -> S -> store -> fitres.

  Lemma train_life_nokeep : forall fr x o c (m : memo D),
    train_life fit false fr x o (c, m) = (train fit fr (ob_data x) o c, m).
  Proof.
    intros fr x o c m. unfold train_life, train. cbn [fst snd data_seen].
    destruct (guard_holds (fr_guard fr) c && negb (o_retrain o)); reflexivity.
  Qed.

  (* lifetimes are invisible: the addresses of the dataset objects play no part and the table is left as it was *)
  Lemma run_life_nokeep : forall fr (h : list (dobj D * opts S)) c (m : memo D),
    run_life fit false fr h (c, m) = (run fit fr (contents h) c, m).
  Proof.
    intros fr h. induction h as [|[x o] t IH]; intros c m; [reflexivity|].
    cbn [run_life contents map run fst snd]. rewrite train_life_nokeep. apply IH.
  Qed.

  (* in particular two lifetime histories over the same contents end in the same component, whatever addresses their
     objects had *)
  Lemma addresses_irrelevant : forall fr (h1 h2 : list (dobj D * opts S)) c m1 m2,
    contents h1 = contents h2 ->
    fst (run_life fit false fr h1 (c, m1)) = fst (run_life fit false fr h2 (c, m2)).
  Proof. intros fr h1 h2 c m1 m2 H. rewrite !run_life_nokeep. cbn [fst]. rewrite H. reflexivity. Qed.

  Lemma life_retrain_fresh_nokeep : forall fr, frame_ok fr = true ->
    forall (h : list (dobj D * opts S)) x o m, o_retrain o = true ->
    forall a, lookup a (fst (run_life fit false fr (h ++ [(x, o)]) ([], m))) = lookup a (train fit fr (ob_data x) o []).
  Proof.
    intros fr Hok h x o m Hr a. rewrite run_life_nokeep. cbn [fst].
    unfold contents. rewrite map_app. cbn [map fst snd].
    apply retrain_whole_store; [apply frame_ok_closed; exact Hok|exact Hr].
  Qed.
End Life.

(* the counter-model: training keeps a table keyed by the identity of the data.  Dataset A (content 1) lives at address 7,
   is trained on and dropped; dataset B (content 2) is allocated at the same address.  Retraining on B -- and even a
   freshly constructed component trained on B -- come out with the model of A. *)
Definition life_frame : frame := mkFrame "Demo" "" (GHasAttr "items_") ["items_"] ["items_"] ["items_"] [] [] [].
Definition life_fit (d : Z) (_ : unit) (_ : store) : fitres := mkFit (fun _ => d) (fun _ => false).
Definition life_history : list (dobj Z * opts unit) := [(mkObj 7 1%Z, mkOpts true tt); (mkObj 7 2%Z, mkOpts true tt)].

Lemma identity_keyed_table_is_stale_l :
  frame_ok life_frame = true /\
  lookup "items_" (fst (run_life life_fit true life_frame life_history ([], []))) = Some 1%Z /\
  lookup "items_" (fst (train_life life_fit true life_frame (mkObj 7 2%Z) (mkOpts true tt)
                          ([], snd (run_life life_fit true life_frame [(mkObj 7 1%Z, mkOpts true tt)] ([], []))))) = Some 1%Z /\
  lookup "items_" (train life_fit life_frame 2%Z (mkOpts true tt) []) = Some 2%Z /\
  (* with both objects alive (different addresses) nothing shows *)
  lookup "items_" (fst (run_life life_fit true life_frame [(mkObj 7 1%Z, mkOpts true tt); (mkObj 8 2%Z, mkOpts true tt)] ([], []))) = Some 2%Z.
Proof. repeat split; vm_compute; reflexivity. Qed.
