(* C01 -- which columns the views carry, for every choice of column names (over the definitions regenerated from source in
   Gen/C01_columns.v). *)
From Coq Require Import String List Bool.
From LK Require Import Gen.C01_columns.
Import ListNotations.

(* the attribute columns of an input frame: its columns other than the id columns of the relationship's entities *)
Definition frame_attrs (entities frame_cols : list string) : list string :=
  filter (fun c => negb (mem_s c (map id_col_name entities))) frame_cols.

Lemma mem_s_In : forall x l, mem_s x l = true <-> In x l.
Proof.
  intros x l. unfold mem_s. rewrite existsb_exists. split.
  - intros [y [Hy He]]. apply String.eqb_eq in He. subst. exact Hy.
  - intro H. exists x. split; [exact H | apply String.eqb_refl].
Qed.

Lemma mem_s_false : forall x l, mem_s x l = false <-> ~ In x l.
Proof.
  intros x l. rewrite <- mem_s_In. destruct (mem_s x l); split; intro H.
  - discriminate.
  - exfalso. apply H. reflexivity.
  - intro H'. discriminate.
  - reflexivity.
Qed.

Lemma filter_none : forall (f : string -> bool) l, (forall x, In x l -> f x = false) -> filter f l = [].
Proof.
  intros f l. induction l as [|a l IH]; intro H; [reflexivity|]. cbn [filter].
  rewrite (H a (or_introl eq_refl)). apply IH. intros x Hx. apply H. right. exact Hx.
Qed.

Lemma filter_all : forall (f : string -> bool) l, (forall x, In x l -> f x = true) -> filter f l = l.
Proof.
  intros f l. induction l as [|a l IH]; intro H; [reflexivity|]. cbn [filter].
  rewrite (H a (or_introl eq_refl)). f_equal. apply IH. intros x Hx. apply H. right. exact Hx.
Qed.

Lemma stored_cols_eq : forall entities frame_cols,
  stored_cols entities frame_cols = (link_cols entities ++ frame_attrs entities frame_cols)%list.
Proof. reflexivity. Qed.

Section Names.
  Variables entities frame_cols : list string.
  (* no attribute column is called like one of the relationship's own link columns *)
  Hypothesis Hdistinct : forall a, In a (frame_attrs entities frame_cols) -> ~ In a (link_cols entities).

  Lemma nonlink_of_stored :
    filter (fun c => negb (mem_s c (link_cols entities))) (stored_cols entities frame_cols) = frame_attrs entities frame_cols.
  Proof.
    rewrite stored_cols_eq, filter_app, filter_none, filter_all; [reflexivity| |].
    - intros x Hx. apply negb_true_iff, mem_s_false. apply Hdistinct. exact Hx.
    - intros x Hx. apply negb_false_iff, mem_s_In. exact Hx.
  Qed.

  Lemma ids_view_cols_l :
    ids_view_cols entities (stored_cols entities frame_cols) = (map id_col_name entities ++ frame_attrs entities frame_cols)%list.
  Proof. unfold ids_view_cols. rewrite nonlink_of_stored. reflexivity. Qed.

  Lemma attribute_names_l :
    attribute_names entities (stored_cols entities frame_cols) = frame_attrs entities frame_cols.
  Proof. unfold attribute_names. exact nonlink_of_stored. Qed.

  Lemma select_one : forall cols tbl a, In a tbl -> select_cols cols [a] tbl = Some (cols ++ [a])%list.
  Proof.
    intros cols tbl a Ha. unfold select_cols. cbn [forallb]. rewrite (proj2 (mem_s_In a tbl) Ha). reflexivity.
  Qed.

  Lemma select_unknown : forall cols tbl a, ~ In a tbl -> select_cols cols [a] tbl = None.
  Proof.
    intros cols tbl a Ha. unfold select_cols. cbn [forallb]. rewrite (proj2 (mem_s_false a tbl) Ha). reflexivity.
  Qed.

  Lemma views_carry_every_attribute_l :
    ids_view_cols entities (stored_cols entities frame_cols) = (map id_col_name entities ++ frame_attrs entities frame_cols)%list /\
    stored_cols entities frame_cols = (link_cols entities ++ frame_attrs entities frame_cols)%list /\
    attribute_names entities (stored_cols entities frame_cols) = frame_attrs entities frame_cols /\
    forall a, In a (frame_attrs entities frame_cols) ->
      select_cols (link_cols entities) [a] (stored_cols entities frame_cols) = Some (link_cols entities ++ [a])%list /\
      select_cols (map id_col_name entities) [a] (ids_view_cols entities (stored_cols entities frame_cols))
        = Some (map id_col_name entities ++ [a])%list.
  Proof.
    split; [exact ids_view_cols_l|]. split; [apply stored_cols_eq|]. split; [exact attribute_names_l|].
    intros a Ha. split; apply select_one.
    - rewrite stored_cols_eq. apply in_or_app. right. exact Ha.
    - rewrite ids_view_cols_l. apply in_or_app. right. exact Ha.
  Qed.
End Names.
