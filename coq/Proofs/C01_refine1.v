(* C01 -- lemmas for the refinement of the number-based builder model to the identifier-level specification. *)
From Coq Require Import ZArith List Bool Arith Lia Sorting.Sorted Sorting.Permutation.
From LK Require Import Model.C01_dataset Proofs.C01_vocab.
Import ListNotations.
Open Scope Z_scope.

Definition dec (users items : vocab) (r : rec) : irow := (term users (r_u r), term items (r_i r), r_a r).
Definition same_set (a b : list Z) : Prop := forall x, In x a <-> In x b.
Definition same_opt (a b : option (list Z)) : Prop := is_none a = is_none b /\ same_set (opt_vocab a) (opt_vocab b).
Definition valid (users items : vocab) (r : rec) : Prop := (r_u r < length users)%nat /\ (r_i r < length items)%nat.

Lemma same_set_refl a : same_set a a.
Proof. intro x. tauto. Qed.
Lemma same_opt_refl a : same_opt a a.
Proof. split; [reflexivity|apply same_set_refl]. Qed.

Lemma s_known_same v v' x : same_set (opt_vocab v) (opt_vocab v') -> known (opt_vocab v) x = s_known v' x.
Proof.
  intro H. unfold s_known. destruct (mem_z x (opt_vocab v')) eqn:E.
  - apply known_In, H, mem_z_In. exact E.
  - apply not_true_is_false. intro K. apply known_In, H, mem_z_In in K. congruence.
Qed.
Lemma mem_known v x : mem_z x v = known v x.
Proof.
  destruct (known v x) eqn:E.
  - apply mem_z_In, known_In. exact E.
  - apply mem_z_false. intro H. apply known_In in H. congruence.
Qed.

Lemma has_dup_z_spec l : has_dup_z l = false <-> NoDup l.
Proof.
  unfold has_dup_z. rewrite negb_false_iff, Nat.eqb_eq. apply dedup_z_length_eq.
Qed.

(* (a) add_entities against its identifier-level reading *)
Lemma s_add_entities_err v new pol :
  (exists e, s_add_entities v new pol = Err e) <->
  (~ NoDup new \/ (pol = DupError /\ exists x, In x new /\ In x (opt_vocab v))).
Proof.
  unfold s_add_entities. destruct (has_dup_z new) eqn:D.
  - split; [intros _|intros _; eauto]. left. intro H. apply has_dup_z_spec in H. congruence.
  - apply has_dup_z_spec in D. destruct (existsb (s_known v) new && is_dup_error pol) eqn:E.
    + split; [intros _|intros _; eauto]. right. apply andb_true_iff in E. destruct E as [E1 E2].
      split; [destruct pol; [reflexivity|discriminate]|]. apply existsb_exists in E1. destruct E1 as [x [Hx Kx]].
      exists x. split; [exact Hx|apply mem_z_In; exact Kx].
    + split; [intros [e He]; discriminate|]. intros [H|[-> [x [Hx Hc]]]]; [contradiction|].
      exfalso. cbn in E. rewrite andb_true_r in E.
      assert (existsb (s_known v) new = true) as C; [|congruence].
      apply existsb_exists. exists x. split; [exact Hx|apply mem_z_In; exact Hc].
Qed.

Lemma add_entities_only_edata v new pol e : add_entities v new pol = Err e -> e = EData.
Proof.
  unfold add_entities. destruct (_ <? _)%nat; [intro H; inversion H; reflexivity|].
  destruct (_ && _); intro H; inversion H; reflexivity.
Qed.
Lemma s_add_entities_only_edata v new pol e : s_add_entities v new pol = Err e -> e = EData.
Proof.
  unfold s_add_entities. destruct (has_dup_z new); [intro H; inversion H; reflexivity|].
  destruct (_ && _); intro H; inversion H; reflexivity.
Qed.

Lemma add_entities_refines v v' new pol :
  same_opt v v' -> NoDup (opt_vocab v) ->
  match add_entities v new pol, s_add_entities v' new pol with
  | Ok w, Ok w' => same_opt w w' /\ NoDup (opt_vocab w) /\ prefix (opt_vocab v) (opt_vocab w) /\ w <> None
  | Err e, Err e' => e = e'
  | _, _ => False
  end.
Proof.
  intros [Hn Hs] Hnd.
  pose proof (add_entities_err v new pol) as A. pose proof (s_add_entities_err v' new pol) as B.
  assert ((exists e, add_entities v new pol = Err e) <-> (exists e, s_add_entities v' new pol = Err e)) as AB.
  { rewrite A, B. split; (intros [H|[P [x [Hx Hc]]]]; [left; exact H|right; split; [exact P|exists x; split; [exact Hx|apply Hs; exact Hc]]]). }
  destruct (add_entities v new pol) as [w|e] eqn:E1; destruct (s_add_entities v' new pol) as [w'|e'] eqn:E2.
  - destruct (add_entities_ok _ _ _ _ E1 Hnd) as [fresh [-> [Asc [Nd [Nn [Fr _]]]]]].
    unfold s_add_entities in E2. destruct (has_dup_z new); [discriminate|]. destruct (_ && _); [discriminate|].
    inversion E2; subst. split; [|split; [exact Nd|split; [exists fresh; reflexivity|discriminate]]].
    split; [reflexivity|]. cbn [opt_vocab]. intro x. rewrite !in_app_iff, Fr, filter_In, negb_true_iff.
    rewrite <- (s_known_same v v' x Hs). split.
    + intros [H|[H1 H2]]; [left; apply Hs; exact H|right; split; [exact H1|]].
      destruct (known (opt_vocab v) x) eqn:K; [apply known_In in K; contradiction|reflexivity].
    + intros [H|[H1 H2]]; [left; apply Hs; exact H|right; split; [exact H1|]].
      intro K. apply known_In in K. congruence.
  - exfalso. destruct AB as [_ AB]. destruct (AB (ex_intro _ e' eq_refl)) as [e He]. discriminate.
  - exfalso. destruct AB as [AB _]. destruct (AB (ex_intro _ e eq_refl)) as [e0 He]. discriminate.
  - rewrite (add_entities_only_edata _ _ _ _ E1), (s_add_entities_only_edata _ _ _ _ E2). reflexivity.
Qed.

(* (b) decoding is stable under growth of the vocabularies *)
Lemma dec_stable U I U' I' tbl :
  prefix U U' -> prefix I I' -> Forall (valid U I) tbl -> map (dec U' I') tbl = map (dec U I) tbl.
Proof.
  intros PU PI F. apply map_ext_in. intros r Hr. rewrite Forall_forall in F. destruct (F r Hr) as [Lu Li].
  unfold dec, term. rewrite (prefix_nth _ _ _ PU Lu), (prefix_nth _ _ _ PI Li). reflexivity.
Qed.
Lemma valid_grow U I U' I' tbl : prefix U U' -> prefix I I' -> Forall (valid U I) tbl -> Forall (valid U' I') tbl.
Proof.
  intros [cu ->] [ci ->] F. eapply Forall_impl; [|exact F]. intros r [A B]. unfold valid. rewrite !app_length. lia.
Qed.

(* (c) resolution of one entity column *)
Definition all_some (l : list (option nat)) : bool := forallb (fun o => match o with Some _ => true | None => false end) l.

Lemma forallb_map' {A B} (f : B -> bool) (g : A -> B) l : forallb f (map g l) = forallb (fun x => f (g x)) l.
Proof. induction l as [|x r IH]; cbn; [reflexivity|rewrite IH; reflexivity]. Qed.
Lemma forallb_ext' {A} (f g : A -> bool) l : (forall x, In x l -> f x = g x) -> forallb f l = forallb g l.
Proof.
  induction l as [|x r IH]; intro H; cbn; [reflexivity|]. rewrite (H x (or_introl eq_refl)), IH; [reflexivity|].
  intros y Hy. apply H. right. exact Hy.
Qed.
Lemma existsb_ext' {A} (f g : A -> bool) l : (forall x, In x l -> f x = g x) -> existsb f l = existsb g l.
Proof.
  induction l as [|x r IH]; intro H; cbn; [reflexivity|]. rewrite (H x (or_introl eq_refl)), IH; [reflexivity|].
  intros y Hy. apply H. right. exact Hy.
Qed.
Lemma existsb_map' {A B} (f : B -> bool) (g : A -> B) l : existsb f (map g l) = existsb (fun x => f (g x)) l.
Proof. induction l as [|x r IH]; cbn; [reflexivity|rewrite IH; reflexivity]. Qed.

Lemma resolve_all_some t ids : all_some (map (resolve t) ids) = forallb (known t) ids.
Proof.
  unfold all_some. rewrite forallb_map'. apply forallb_ext'. intros x _. unfold known, resolve. destruct (index_of x t); reflexivity.
Qed.

Lemma link_class_unfold v ids p :
  link_class v ids p =
  let v1 := match p with MInsert => match add_entities v (dedup_z ids) DupUpdate with Ok t => t | Err _ => v end | _ => v end in
  match v1 with
  | None => Err EData
  | Some t => if all_some (map (resolve t) ids) then Ok (v1, map (resolve t) ids)
              else match p with MError => Err EData | _ => Ok (v1, map (resolve t) ids) end
  end.
Proof. reflexivity. Qed.

Lemma link_refines v v' ids p :
  same_opt v v' -> NoDup (opt_vocab v) ->
  match link_class v ids p, s_link v' ids p with
  | Ok (v1, nums), Ok v1' =>
      same_opt v1 v1' /\ NoDup (opt_vocab v1) /\ prefix (opt_vocab v) (opt_vocab v1) /\ v1 <> None /\
      nums = map (resolve (opt_vocab v1)) ids
  | Err e, Err e' => e = e'
  | _, _ => False
  end.
Proof.
  intros Hso Hnd. rewrite link_class_unfold. unfold s_link. destruct p.
  - (* insert *)
    pose proof (add_entities_refines v v' (dedup_z ids) DupUpdate Hso Hnd) as AR.
    destruct (add_entities v (dedup_z ids) DupUpdate) as [w|e] eqn:E1.
    2:{ exfalso. assert (exists e, add_entities v (dedup_z ids) DupUpdate = Err e) as X by eauto.
        apply add_entities_err in X. destruct X as [X|[X _]]; [apply X, dedup_z_NoDup|discriminate]. }
    destruct (add_entities_ok _ _ _ _ E1 Hnd) as [fresh [-> [Asc [Nd [Nn [Fr _]]]]]].
    cbv zeta. cbn [opt_vocab].
    assert (forall x, In x ids -> In x (opt_vocab v ++ fresh)) as Hall.
    { intros x Hx. rewrite in_app_iff, Fr, dedup_z_In. destruct (known (opt_vocab v) x) eqn:K.
      - left. apply known_In. exact K.
      - right. split; [exact Hx|]. intro C. apply known_In in C. congruence. }
    assert (all_some (map (resolve (opt_vocab v ++ fresh)) ids) = true) as AS.
    { rewrite resolve_all_some. apply forallb_forall. intros x Hx. apply known_In, Hall. exact Hx. }
    rewrite AS.
    set (w' := Some (opt_vocab v' ++ filter (fun x => negb (s_known v' x)) (dedup_z ids))).
    assert (same_opt (Some (opt_vocab v ++ fresh)) w') as SO.
    { split; [reflexivity|]. destruct Hso as [_ Hs]. unfold w'. cbn [opt_vocab]. intro x.
      rewrite !in_app_iff, Fr, filter_In, negb_true_iff, <- (s_known_same v v' x Hs). split.
      - intros [H|[H1 H2]]; [left; apply Hs; exact H|right; split; [exact H1|]].
        destruct (known (opt_vocab v) x) eqn:K; [apply known_In in K; contradiction|reflexivity].
      - intros [H|[H1 H2]]; [left; apply Hs; exact H|right; split; [exact H1|]].
        intro K. apply known_In in K. congruence. }
    assert (forallb (s_known w') ids = true) as FS.
    { apply forallb_forall. intros x Hx. rewrite <- (s_known_same (Some (opt_vocab v ++ fresh)) w' x (proj2 SO)).
      apply known_In. cbn [opt_vocab]. apply Hall. exact Hx. }
    fold w'. rewrite FS. split; [exact SO|]. split; [exact Nd|]. split; [exists fresh; reflexivity|]. split; [discriminate|reflexivity].
  - (* filter *)
    cbv zeta. destruct Hso as [Hn Hs]. destruct v as [t|], v' as [t'|]; try discriminate; [|reflexivity].
    cbn [opt_vocab] in *. rewrite resolve_all_some.
    assert (forallb (known t) ids = forallb (s_known (Some t')) ids) as FE.
    { apply forallb_ext'. intros x _. apply (s_known_same (Some t) (Some t') x Hs). }
    rewrite <- FE. destruct (forallb (known t) ids);
      (split; [split; [reflexivity|exact Hs]|split; [exact Hnd|split; [apply prefix_refl|split; [discriminate|reflexivity]]]]).
  - (* error *)
    cbv zeta. destruct Hso as [Hn Hs]. destruct v as [t|], v' as [t'|]; try discriminate; [|reflexivity].
    cbn [opt_vocab] in *. rewrite resolve_all_some.
    assert (forallb (known t) ids = forallb (s_known (Some t')) ids) as FE.
    { apply forallb_ext'. intros x _. apply (s_known_same (Some t) (Some t') x Hs). }
    rewrite <- FE. destruct (forallb (known t) ids); [|reflexivity].
    split; [split; [reflexivity|exact Hs]|split; [exact Hnd|split; [apply prefix_refl|split; [discriminate|reflexivity]]]].
Qed.

(* (d) the resolved and masked records decode to the input rows whose identifiers are known *)
Lemma zip_recs_dec U I rows :
  map (dec U I) (zip_recs (map (resolve U) (map uid_of rows)) (map (resolve I) (map iid_of rows)) rows)
  = filter (fun r => known U (uid_of r) && known I (iid_of r)) rows /\
  Forall (valid U I) (zip_recs (map (resolve U) (map uid_of rows)) (map (resolve I) (map iid_of rows)) rows).
Proof.
  induction rows as [|[[u i] a] rows [IH1 IH2]]; [split; constructor|].
  cbn [map zip_recs filter uid_of iid_of fst snd].
  assert (forall V x, known V x = match resolve V x with Some _ => true | None => false end) as KR by reflexivity.
  rewrite (KR U u), (KR I i).
  destruct (resolve U u) as [un|] eqn:Eu; destruct (resolve I i) as [inn|] eqn:Ei; cbn [andb]; try (split; assumption).
  destruct (index_of_Some _ _ _ Eu) as [Lu Nu]. destruct (index_of_Some _ _ _ Ei) as [Li Ni].
  split.
  - cbn [map]. rewrite IH1. unfold dec, term, r_u, r_i, r_a. cbn [fst snd]. rewrite Nu, Ni. reflexivity.
  - constructor; [split; assumption|exact IH2].
Qed.

(* (e) repeated pairs are detected on numbers exactly when they are repeated on identifiers *)
Lemma nth_inj U n k : NoDup U -> (n < length U)%nat -> (k < length U)%nat -> nth n U 0 = nth k U 0 -> n = k.
Proof.
  intros Hn Ln Lk E. pose proof (index_of_nth U Hn n Ln) as A. pose proof (index_of_nth U Hn k Lk) as B.
  rewrite E in A. congruence.
Qed.

Lemma pair_eqb_dec U I a b : NoDup U -> NoDup I -> valid U I a -> valid U I b ->
  nat_pair_eqb (fst a) (fst b) = id_pair_eqb (fst (dec U I a)) (fst (dec U I b)).
Proof.
  intros NU NI [Au Ai] [Bu Bi]. unfold nat_pair_eqb, id_pair_eqb, dec, term, r_u, r_i in *. cbn [fst snd].
  destruct a as [[au ai] aa], b as [[bu bi] ba]. cbn [fst snd] in *.
  destruct (Nat.eqb_spec au bu) as [->|Nu]; destruct (Nat.eqb_spec ai bi) as [->|Ni]; cbn [andb].
  - rewrite !Z.eqb_refl. reflexivity.
  - rewrite Z.eqb_refl. cbn [andb]. symmetry. apply Z.eqb_neq. intro E. apply Ni. exact (nth_inj I _ _ NI Ai Bi E).
  - symmetry. apply andb_false_iff. left. apply Z.eqb_neq. intro E. apply Nu. exact (nth_inj U _ _ NU Au Bu E).
  - symmetry. apply andb_false_iff. left. apply Z.eqb_neq. intro E. apply Nu. exact (nth_inj U _ _ NU Au Bu E).
Qed.

Lemma has_dup_dec U I tbl : NoDup U -> NoDup I -> Forall (valid U I) tbl ->
  has_dup_pair (map fst tbl) = has_dup_idpair (map fst (map (dec U I) tbl)).
Proof.
  intros NU NI. induction 1 as [|x r Hx Hr IH]; [reflexivity|]. cbn [map has_dup_pair has_dup_idpair]. rewrite IH. f_equal.
  rewrite !existsb_map'. apply existsb_ext'. intros y Hy. apply pair_eqb_dec; try assumption.
  rewrite Forall_forall in Hr. apply Hr. exact Hy.
Qed.

(* (f) filters commute with decoding *)
Lemma filter_dec U I (f : rec -> bool) (g : irow -> bool) tbl :
  (forall r, In r tbl -> f r = g (dec U I r)) -> map (dec U I) (filter f tbl) = filter g (map (dec U I) tbl).
Proof.
  induction tbl as [|x r IH]; intro H; [reflexivity|]. cbn [filter map]. rewrite <- (H x (or_introl eq_refl)).
  destruct (f x); cbn [map]; rewrite IH; try reflexivity; intros y Hy; apply H; right; exact Hy.
Qed.

Lemma resolve_eqb U n x : NoDup U -> (n < length U)%nat ->
  match resolve U x with Some u => Nat.eqb u n | None => false end = Z.eqb (nth n U 0) x.
Proof.
  intros NU Ln. unfold resolve. destruct (index_of x U) as [u|] eqn:E.
  - destruct (index_of_Some _ _ _ E) as [Lu Nu]. destruct (Nat.eqb_spec u n) as [->|Ne].
    + symmetry. apply Z.eqb_eq. exact Nu.
    + symmetry. apply Z.eqb_neq. intro C. apply Ne. rewrite <- Nu in C. symmetry. exact (nth_inj U _ _ NU Ln Lu C).
  - symmetry. apply Z.eqb_neq. intro C. apply index_of_None in E. apply E. rewrite <- C. apply nth_In. exact Ln.
Qed.
