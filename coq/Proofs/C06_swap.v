(* C06 -- exchanging an item with a more relevant item ranked below it never lowers a metric. *)
From Coq Require Import ZArith QArith Qpower Qabs List Bool Lia Lqa Permutation Sorted Setoid Morphisms.
From LK Require Import Lib.QLib Lib.RankLib Model.C06_ranking Proofs.C06_model Proofs.C06_bounds.
Import ListNotations.
Open Scope Q_scope.

(* ids' is ids with x (earlier) and y (later) exchanged *)
Definition swapped (ids ids' : list Z) (x y : Z) : Prop :=
  exists A B C, ids = A ++ x :: B ++ y :: C /\ ids' = A ++ y :: B ++ x :: C.
Definition recs_with (recs : ilist) (ids' : list Z) : ilist :=
  {| il_ordered := il_ordered recs; il_ids := ids' |}.

Lemma swapped_length ids ids' x y : swapped ids ids' x y -> length ids = length ids'.
Proof. intros (A & B & C & -> & ->). rewrite !app_length. cbn. rewrite !app_length. cbn. lia. Qed.

Lemma topk_swapped_length k ids ids' x y : swapped ids ids' x y -> length (topk k ids) = length (topk k ids').
Proof. intro S. pose proof (swapped_length _ _ _ _ S). destruct k; cbn; [rewrite !firstn_length|]; lia. Qed.

Lemma swapped_pdom (g : Z -> Q) k ids ids' x y :
  swapped ids ids' x y -> g x <= g y -> pdom (map g (topk k ids)) (map g (topk k ids')).
Proof.
  intros (A & B & C & -> & ->) L.
  assert (P : pdom (map g (A ++ x :: B ++ y :: C)) (map g (A ++ y :: B ++ x :: C))).
  { rewrite !map_app. cbn [map]. rewrite !map_app. cbn [map]. apply swap_prefix, L. }
  destruct k as [n|]; cbn [topk]; [|exact P]. rewrite <- !firstn_map. apply pdom_firstn, P.
Qed.

Lemma pdom_total a b : length a = length b -> pdom a b -> Qsum a <= Qsum b.
Proof.
  intros Len P. specialize (P (length a)). rewrite firstn_all in P. rewrite Len, firstn_all in P. exact P.
Qed.

Lemma np_div_mono a b c : a <= b -> 0 <= c -> exc_le (Ret (np_div a c)) (Ret (np_div b c)).
Proof.
  intros Hab Hc. unfold np_div. destruct (Qeq_bool c 0) eqn:E; cbn; [exact I|].
  apply Qeq_bool_neq in E. assert (0 < c) by (destruct (Qlt_le_dec 0 c); [assumption|exfalso; apply E; lra]).
  unfold Qdiv. apply Qmult_le_compat_r; [exact Hab|]. apply Qlt_le_weak, Qinv_lt_0_compat. assumption.
Qed.

Section Swap.
  Variables (k : option nat) (recs : ilist) (t : tlist) (ids' : list Z) (x y : Z).
  Hypothesis SW : swapped (il_ids recs) ids' x y.
  Let recs' := recs_with recs ids'.
  Let L := topk k (il_ids recs).
  Let L' := topk k ids'.

  Lemma with_topk_swap (f f' : list Z -> exc res) :
    exc_le (f L) (f' L') -> exc_le (with_topk k recs f) (with_topk k recs' f').
  Proof.
    intro H. unfold with_topk, recs', recs_with. cbn [il_ordered il_ids].
    destruct k as [n|]; [destruct (il_ordered recs); [exact H|reflexivity]|exact H].
  Qed.

  Lemma len_eq : length L = length L'.
  Proof. apply (topk_swapped_length k _ _ x y SW). Qed.

  (* ---- weighted sums of a per-item gain ---- *)
  Lemma wsum_swap (w : nat -> Q) (g : Z -> Q) :
    (forall r, 0 <= w r) -> (forall r, w (S r) <= w r) -> (forall i, 0 <= g i) -> g x <= g y ->
    wsum w 1 (map g L) <= wsum w 1 (map g L').
  Proof.
    intros W0 W1 G0 Gxy. apply wsum_pdom; try assumption.
    - intros q Hq. apply in_map_iff in Hq. destruct Hq as (i & <- & _). apply G0.
    - apply (swapped_pdom g k _ _ x y SW Gxy).
  Qed.

  Lemma total_swap (g : Z -> Q) : g x <= g y -> Qsum (map g L) <= Qsum (map g L').
  Proof.
    intro Gxy. apply pdom_total; [rewrite !map_length; apply len_eq|].
    apply (swapped_pdom g k _ _ x y SW Gxy).
  Qed.

  Lemma gain_nonneg : nonneg_gains t -> forall i, 0 <= gain_of (tl_items t) i 0.
  Proof.
    intros NN i. apply (scores_graded_nonneg t [i] NN). left. reflexivity.
  Qed.
  Lemma relq_nonneg : forall i, 0 <= relq t i.
  Proof. intro i. unfold relq. destruct (rel t i); cbn; lra. Qed.

  (* ---- graded DCG / nDCG ---- *)
  Lemma dcg_graded_swap disc :
    disc_mono disc -> nonneg_gains t -> gain_of (tl_items t) x 0 <= gain_of (tl_items t) y 0 ->
    exc_le (dcg_model disc true k recs t) (dcg_model disc true k recs' t).
  Proof.
    intros DM NN G. unfold dcg_model. apply with_topk_swap. destruct (tl_has_gain t); [|reflexivity].
    cbn. unfold dcg_of, scores_graded. rewrite !ranksum_wsum.
    apply wsum_swap; [apply dweight_nonneg|apply dweight_noninc, DM|apply gain_nonneg, NN|exact G].
  Qed.

  Lemma ndcg_graded_swap disc :
    disc_mono disc -> nonneg_gains t -> gain_of (tl_items t) x 0 <= gain_of (tl_items t) y 0 ->
    exc_le (ndcg_model disc true k recs t) (ndcg_model disc true k recs' t).
  Proof.
    intros DM NN G. unfold ndcg_model. apply with_topk_swap. destruct (tl_has_gain t); [|reflexivity].
    apply np_div_mono.
    - unfold dcg_of, scores_graded. rewrite !ranksum_wsum.
      apply wsum_swap; [apply dweight_nonneg|apply dweight_noninc, DM|apply gain_nonneg, NN|exact G].
    - unfold dcg_of. rewrite ranksum_wsum. apply wsum_nonneg; [apply dweight_nonneg|].
      unfold ideal_gains. destruct k as [n|]; [destruct (Nat.eqb n 0)|];
        intros q Hq; try (apply In_firstn in Hq); eapply sorted_gains_nonneg; eauto.
  Qed.

  (* ---- binary metrics: x irrelevant, y relevant ---- *)
  Hypothesis RX : rel t x = false.
  Hypothesis RY : rel t y = true.

  Lemma relq_xy : relq t x <= relq t y.
  Proof. unfold relq. rewrite RX, RY. cbn. lra. Qed.

  Lemma dcg_binary_swap disc : disc_mono disc ->
    exc_le (dcg_model disc false k recs t) (dcg_model disc false k recs' t).
  Proof.
    intros DM. unfold dcg_model. apply with_topk_swap. cbn.
    unfold dcg_of, scores_binary. rewrite !ranksum_wsum.
    apply wsum_swap; [apply dweight_nonneg|apply dweight_noninc, DM|apply relq_nonneg|apply relq_xy].
  Qed.

  Lemma ndcg_binary_swap disc : disc_mono disc ->
    exc_le (ndcg_model disc false k recs t) (ndcg_model disc false k recs' t).
  Proof.
    intros DM. unfold ndcg_model. apply with_topk_swap. apply np_div_mono.
    - unfold dcg_of, scores_binary. rewrite !ranksum_wsum.
      apply wsum_swap; [apply dweight_nonneg|apply dweight_noninc, DM|apply relq_nonneg|apply relq_xy].
    - apply bigsum_nonneg. intro i. apply dweight_nonneg.
  Qed.

  Lemma rbp_swap g nrm : 0 <= g -> g <= 1 ->
    exc_le (rbp_model g nrm k recs t) (rbp_model g nrm k recs' t).
  Proof.
    intros G0 G1. unfold rbp_model. apply with_topk_swap.
    destruct (Nat.eqb (tl_len t) 0); [exact I|].
    assert (S1 : rbp_sum g t L <= rbp_sum g t L').
    { unfold rbp_sum. rewrite !ranksum_wsum.
      apply wsum_swap; [intro r; apply pw_nonneg, G0|apply pw_noninc; assumption|apply relq_nonneg|apply relq_xy]. }
    destruct nrm.
    - unfold rbp_max. rewrite <- len_eq. apply np_div_mono; [exact S1|].
      apply bigsum_nonneg. intro i. apply pw_nonneg, G0.
    - cbn. apply Qmult_le_compat_r; [exact S1|lra].
  Qed.

  Lemma ngood_swap : (ngood t L <= ngood t L')%nat.
  Proof.
    pose proof (total_swap (relq t) relq_xy) as H. rewrite <- !ngood_Qsum in H.
    unfold Qofnat in H. rewrite <- Zle_Qle in H. lia.
  Qed.

  Lemma Qofnat_le a b : (a <= b)%nat -> Qofnat a <= Qofnat b.
  Proof. intro H. unfold Qofnat. rewrite <- Zle_Qle. lia. Qed.

  Lemma precision_swap : exc_le (precision_model k recs t) (precision_model k recs' t).
  Proof.
    unfold precision_model. apply with_topk_swap. rewrite <- len_eq.
    destruct (Nat.eqb (length L) 0); [exact I|].
    apply np_div_mono; [apply Qofnat_le, ngood_swap|apply Qofnat_nonneg].
  Qed.

  Lemma recall_swap : exc_le (recall_model k recs t) (recall_model k recs' t).
  Proof.
    unfold recall_model. apply with_topk_swap.
    apply np_div_mono; [apply Qofnat_le, ngood_swap|apply Qofnat_nonneg].
  Qed.

  Lemma hit_swap : exc_le (hit_model k recs t) (hit_model k recs' t).
  Proof.
    unfold hit_model. destruct (Nat.eqb (tl_len t) 0); [exact I|]. apply with_topk_swap.
    destruct (existsb (rel t) L) eqn:E.
    - apply existsb_rel_pos in E. pose proof (total_swap (relq t) relq_xy) as H.
      assert (E' : existsb (rel t) L' = true) by (apply existsb_rel_pos; lra).
      rewrite E'. cbn. lra.
    - destruct (existsb (rel t) L'); cbn; lra.
  Qed.
End Swap.

(* ---- reciprocal rank ---- *)
Lemma Qofnat_inv_le a b : (0 < a)%nat -> (a <= b)%nat -> 1 / Qofnat b <= 1 / Qofnat a.
Proof.
  intros Ha Hab. assert (Pa : 0 < Qofnat a) by (apply Qofnat_pos; lia).
  assert (Pb : 0 < Qofnat b) by (apply Qofnat_pos; lia).
  apply Qle_shift_div_l; [exact Pa|].
  assert (E : 1 / Qofnat b * Qofnat a == Qofnat a / Qofnat b) by (unfold Qdiv; ring).
  rewrite E. apply Qle_shift_div_r; [exact Pb|]. unfold Qofnat. rewrite Qmult_1_l, <- Zle_Qle. lia.
Qed.

Lemma rr_from_le t r M : (0 < r)%nat -> rr_from r t M <= 1 / Qofnat r /\ 0 <= rr_from r t M.
Proof.
  revert r. induction M as [|i M IH]; intros r Hr; cbn.
  - split; [|lra]. apply Qle_shift_div_l; [apply Qofnat_pos, Hr|lra].
  - assert (P : 0 < Qofnat r) by (apply Qofnat_pos, Hr).
    destruct (rel t i).
    + split; [lra|]. apply Qle_shift_div_l; [exact P|lra].
    + destruct (IH (S r) ltac:(lia)) as [U Lo]. split; [|exact Lo].
      eapply Qle_trans; [exact U|]. apply Qofnat_inv_le; lia.
Qed.

Lemma rr_swap_firstn t x y A B C : rel t x = false -> rel t y = true ->
  forall n r, (0 < r)%nat ->
  rr_from r t (firstn n (A ++ x :: B ++ y :: C)) <= rr_from r t (firstn n (A ++ y :: B ++ x :: C)).
Proof.
  intros RX RY. induction A as [|a A IH]; intros n r Hr.
  - destruct n as [|n]; cbn; [lra|]. rewrite RX, RY.
    eapply Qle_trans; [apply (rr_from_le t (S r)); lia|]. apply Qofnat_inv_le; lia.
  - destruct n as [|n]; cbn; [lra|]. destruct (rel t a); [lra|]. apply IH. lia.
Qed.

Lemma recip_swap k recs t ids' x y :
  swapped (il_ids recs) ids' x y -> rel t x = false -> rel t y = true ->
  exc_le (recip_model k recs t) (recip_model k (recs_with recs ids') t).
Proof.
  intros SW RX RY. unfold recip_model. destruct (Nat.eqb (tl_len t) 0); [exact I|].
  apply (with_topk_swap k recs ids'). cbn.
  pose proof (swapped_length _ _ _ _ SW) as Len.
  destruct SW as (A & B & C & E1 & E2).
  assert (H : forall n, rr_from 1 t (firstn n (il_ids recs)) <= rr_from 1 t (firstn n ids')).
  { intro n. rewrite E1, E2. apply rr_swap_firstn; try assumption. lia. }
  destruct k as [n|]; cbn [topk]; [apply H|].
  specialize (H (length (il_ids recs))). rewrite firstn_all in H. rewrite Len, firstn_all in H. exact H.
Qed.
