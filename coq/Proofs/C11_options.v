(* C11 -- one TrainingOptions object reused for several trainings (added after seed C11-8 was missed). *)
From Coq Require Import ZArith List Bool Lia.
From LK Require Import Model.C11_seeds Gen.C11_rng.
Import ListNotations.

Section Options.
  Context {S G M : Type}.
  Variable mk : S -> G.

  Lemma train_all_fresh : forall (ts : list (G -> M * G)) seed slot,
    train_all mk FreshPerCall seed slot ts = train_fresh mk seed ts.
  Proof.
    induction ts as [|t ts IH]; intros seed slot; [reflexivity|].
    cbn [train_all train_one train_fresh map]. f_equal. apply IH.
  Qed.
End Options.

(* counter-model: the generator is a counter, a training draws two values and reports their sum *)
Definition demo_mk (seed : Z) : Z := (seed * 10)%Z.
Definition demo_training (g : Z) : Z * Z := ((g + (g + 1))%Z, (g + 2)%Z).

Lemma memoised_options_carry_state :
  train_all demo_mk Memoised 42%Z None [demo_training; demo_training]
  <> train_fresh demo_mk 42%Z [demo_training; demo_training].
Proof. vm_compute. discriminate. Qed.

Lemma generated_options_plan_fresh : training_options_plan = FreshPerCall.
Proof. reflexivity. Qed.

Lemma reused_options_equal_fresh_l :
  training_options_plan = FreshPerCall /\
  (forall (S G M : Type) (mk : S -> G) (seed : S) (slot : option G) (ts : list (G -> M * G)),
     train_all mk training_options_plan seed slot ts = train_fresh mk seed ts) /\
  train_all demo_mk Memoised 42%Z None [demo_training; demo_training]
  <> train_fresh demo_mk 42%Z [demo_training; demo_training].
Proof.
  split; [exact generated_options_plan_fresh|split; [|exact memoised_options_carry_state]].
  intros S G M mk seed slot ts. rewrite generated_options_plan_fresh. apply train_all_fresh.
Qed.
