(* C14 -- heap lemmas: allocation only extends the heap, in-place edits touch one cell, copying
   according to the alias table yields fresh references. *)
From Coq Require Import String List Bool Arith Lia.
From LK Require Import Lib.StrDict Lib.StrDictFacts Gen.C14_alias Model.C14_heap.
Import ListNotations.
Open Scope list_scope.

Definition ext (h h' : heap) : Prop := exists e, h' = h ++ e.
Lemma ext_refl h : ext h h.
Proof. exists []. rewrite app_nil_r. reflexivity. Qed.
Lemma ext_trans a b c : ext a b -> ext b c -> ext a c.
Proof. intros [e ->] [f ->]. exists (e ++ f). rewrite app_assoc. reflexivity. Qed.
Lemma ext_len h h' : ext h h' -> length h <= length h'.
Proof. intros [e ->]. rewrite app_length. lia. Qed.
Lemma ext_get h h' r : ext h h' -> r < length h -> hget h' r = hget h r.
Proof. intros [e ->] L. unfold hget. apply nth_error_app1. exact L. Qed.

Lemma alloc_ext h c : ext h (fst (alloc h c)).
Proof. exists [c]. reflexivity. Qed.
Lemma alloc_ref h c : snd (alloc h c) = length h.
Proof. reflexivity. Qed.
Lemma alloc_len h c : length (fst (alloc h c)) = S (length h).
Proof. cbn. rewrite app_length. cbn. lia. Qed.

Lemma hset_len h : forall r c, length (hset h r c) = length h.
Proof. induction h as [|x h IH]; intros [|r] c; cbn; try reflexivity. rewrite IH. reflexivity. Qed.
Lemma hget_hset_other h : forall r r' c, r' <> r -> hget (hset h r c) r' = hget h r'.
Proof.
  unfold hget. induction h as [|x h IH]; intros [|r] [|r'] c Hne; cbn; try reflexivity; try congruence.
  apply IH. congruence.
Qed.
Lemma hedit_len h r f : length (hedit h r f) = length h.
Proof. unfold hedit. destruct (hget h r); [apply hset_len|reflexivity]. Qed.
Lemma hget_hedit_other h r r' f : r' <> r -> hget (hedit h r f) r' = hget h r'.
Proof. intro Hne. unfold hedit. destruct (hget h r); [apply hget_hset_other; exact Hne|reflexivity]. Qed.

(* a reference taken under mode Copy is fresh *)
Definition fresh (h h' : heap) (r : ref) : Prop := length h <= r < length h'.

Lemma take_copy h r : let (h', r') := take Copy h r in ext h h' /\ fresh h h' r'.
Proof.
  unfold take, hcopy, alloc, fresh. cbn [copies]. cbv iota. split; [eexists; reflexivity|].
  rewrite app_length. cbn. lia.
Qed.

Lemma take_all_copy : forall rs h, let (h', rs') := take_all Copy h rs in
  ext h h' /\ (forall r, In r (vals rs') -> fresh h h' r) /\ keys rs' = keys rs.
Proof.
  induction rs as [|[n r] rs IH]; intro h; cbn [take_all].
  - split; [apply ext_refl|]. split; [intros ? []|reflexivity].
  - pose proof (take_copy h r) as T. destruct (take Copy h r) as [h1 r1]. destruct T as [E1 F1].
    specialize (IH h1). destruct (take_all Copy h1 rs) as [h2 rs']. destruct IH as [E2 [F2 K2]].
    split; [eapply ext_trans; eassumption|]. split.
    + intros x [<-|Hx]; unfold fresh in *; cbn [fst snd].
      * pose proof (ext_len _ _ E2). lia.
      * specialize (F2 x Hx). pose proof (ext_len _ _ E1). lia.
    + unfold keys in *. cbn [map fst]. rewrite K2. reflexivity.
Qed.

Lemma wiring_for_copy edges : forall nodes h, let (h', es) := wiring_for Copy h edges nodes in
  ext h h' /\ (forall r, In r (vals es) -> fresh h h' r).
Proof.
  induction nodes as [|[n k] nodes IH]; intro h; cbn [wiring_for].
  - split; [apply ext_refl|intros ? []].
  - destruct (is_comp k).
    + cbn [copies].
      set (a := match dget n edges with
                | Some r => alloc h (sort_kv match hget h r with Some c => c | None => [] end)
                | None => alloc h [] end).
      assert (Ha : ext h (fst a) /\ snd a = length h /\ length (fst a) = S (length h)).
      { unfold a. destruct (dget n edges); (split; [apply alloc_ext|split; [apply alloc_ref|apply alloc_len]]). }
      destruct a as [h1 r1]. cbn [fst snd] in Ha. destruct Ha as [E1 [R1 L1]].
      specialize (IH h1). destruct (wiring_for Copy h1 edges nodes) as [h2 es]. destruct IH as [E2 F2].
      split; [eapply ext_trans; eassumption|].
      intros x [<-|Hx]; unfold fresh in *; cbn [fst snd].
      * pose proof (ext_len _ _ E2). lia.
      * specialize (F2 x Hx). lia.
    + apply IH.
Qed.

(* instantiation on the instance heap *)
Lemma instantiate_spec : forall nodes ih, let (ih', nodes') := instantiate ih nodes in
  ext ih ih' /\ keys nodes' = keys nodes /\
  (forall r, In r (flat_map (fun nk => match snd nk with PInst _ r => [r] | _ => [] end) nodes') ->
             In r (flat_map (fun nk => match snd nk with PInst _ r => [r] | _ => [] end) nodes) \/ fresh ih ih' r).
Proof.
  induction nodes as [|[n k] nodes IH]; intro ih; cbn [instantiate].
  - split; [apply ext_refl|]. split; [reflexivity|intros ? []].
  - destruct k as [|v|code r0|code].
    + specialize (IH ih). destruct (instantiate ih nodes) as [ih2 rest]. destruct IH as [E [K F]].
      split; [exact E|]. split; [unfold keys in *; cbn [map fst]; rewrite K; reflexivity|]. cbn. exact F.
    + specialize (IH ih). destruct (instantiate ih nodes) as [ih2 rest]. destruct IH as [E [K F]].
      split; [exact E|]. split; [unfold keys in *; cbn [map fst]; rewrite K; reflexivity|]. cbn. exact F.
    + specialize (IH ih). destruct (instantiate ih nodes) as [ih2 rest]. destruct IH as [E [K F]].
      split; [exact E|]. split; [unfold keys in *; cbn [map fst]; rewrite K; reflexivity|]. cbn. intros r [<-|Hr]; [left; left; reflexivity|].
      destruct (F r Hr); auto.
    + destruct (alloc ih []) as [ih1 r1] eqn:Ea. specialize (IH ih1). destruct (instantiate ih1 nodes) as [ih2 rest]. destruct IH as [E [K F]].
      assert (E0 : ext ih ih1 /\ r1 = length ih /\ length ih1 = S (length ih)).
      { unfold alloc in Ea. injection Ea as <- <-. repeat split; [exists [[]]; reflexivity|rewrite app_length; cbn; lia]. }
      destruct E0 as [E0 [R1 L1]].
      split; [eapply ext_trans; eassumption|]. split; [unfold keys in *; cbn [map fst]; rewrite K; reflexivity|]. cbn.
      intros r [<-|Hr].
      * right. unfold fresh. pose proof (ext_len _ _ E) as L. lia.
      * destruct (F r Hr) as [X|X]; [left; exact X|right]. unfold fresh in *. lia.
Qed.

Lemma reinstantiate_spec : forall nodes ih, let (ih', nodes') := reinstantiate ih nodes in
  ext ih ih' /\ keys nodes' = keys nodes /\
  (forall r, In r (flat_map (fun nk => match snd nk with PInst _ r => [r] | _ => [] end) nodes') -> fresh ih ih' r).
Proof.
  induction nodes as [|[n k] nodes IH]; intro ih; cbn [reinstantiate].
  - split; [apply ext_refl|]. split; [reflexivity|intros ? []].
  - destruct k as [|v|code r0|code].
    + specialize (IH ih). destruct (reinstantiate ih nodes) as [ih2 rest]. destruct IH as [E [K F]].
      split; [exact E|]. split; [unfold keys in *; cbn [map fst]; rewrite K; reflexivity|]. cbn. exact F.
    + specialize (IH ih). destruct (reinstantiate ih nodes) as [ih2 rest]. destruct IH as [E [K F]].
      split; [exact E|]. split; [unfold keys in *; cbn [map fst]; rewrite K; reflexivity|]. cbn. exact F.
    + destruct (alloc ih []) as [ih1 r1] eqn:Ea. specialize (IH ih1). destruct (reinstantiate ih1 nodes) as [ih2 rest]. destruct IH as [E [K F]].
      assert (E0 : ext ih ih1 /\ r1 = length ih /\ length ih1 = S (length ih)).
      { unfold alloc in Ea. injection Ea as <- <-. repeat split; [exists [[]]; reflexivity|rewrite app_length; cbn; lia]. }
      destruct E0 as [E0 [R1 L1]].
      split; [eapply ext_trans; eassumption|]. split; [unfold keys in *; cbn [map fst]; rewrite K; reflexivity|]. cbn.
      intros r [<-|Hr]; unfold fresh in *.
      * pose proof (ext_len _ _ E) as L. lia.
      * specialize (F r Hr). lia.
    + destruct (alloc ih []) as [ih1 r1] eqn:Ea. specialize (IH ih1). destruct (reinstantiate ih1 nodes) as [ih2 rest]. destruct IH as [E [K F]].
      assert (E0 : ext ih ih1 /\ r1 = length ih /\ length ih1 = S (length ih)).
      { unfold alloc in Ea. injection Ea as <- <-. repeat split; [exists [[]]; reflexivity|rewrite app_length; cbn; lia]. }
      destruct E0 as [E0 [R1 L1]].
      split; [eapply ext_trans; eassumption|]. split; [unfold keys in *; cbn [map fst]; rewrite K; reflexivity|]. cbn.
      intros r [<-|Hr]; unfold fresh in *.
      * pose proof (ext_len _ _ E) as L. lia.
      * specialize (F r Hr). lia.
Qed.

Lemma train_all_len rs label : forall ih, length (train_all ih rs label) = length ih.
Proof.
  unfold train_all. induction rs as [|r rs IH]; intro ih; cbn [fold_left]; [reflexivity|]. rewrite IH. apply hset_len.
Qed.
Lemma train_all_other rs label r' : ~ In r' rs -> forall ih, hget (train_all ih rs label) r' = hget ih r'.
Proof.
  unfold train_all. induction rs as [|r rs IH]; intros Hn ih; cbn [fold_left]; [reflexivity|].
  cbn in Hn. rewrite IH by tauto. apply hget_hset_other. intro X. apply Hn. left. symmetry. exact X.
Qed.

(* lists of objects *)
Lemma nth_lset_same {X} (l : list X) : forall i x, i < length l -> nth_error (lset l i x) i = Some x.
Proof. induction l as [|y l IH]; intros [|i] x L; cbn in *; try lia; [reflexivity|apply IH; lia]. Qed.
Lemma in_lset {X} (l : list X) : forall i x y, In y (lset l i x) -> y = x \/ In y l.
Proof.
  induction l as [|z l IH]; intros [|i] x y H; cbn in *; try tauto.
  - destruct H as [<-|H]; auto.
  - destruct H as [<-|H]; auto. destruct (IH _ _ _ H); auto.
Qed.
Lemma in_flat_map_lset {X Y} (f : X -> list Y) l i x y : In y (flat_map f (lset l i x)) -> In y (f x) \/ In y (flat_map f l).
Proof.
  rewrite !in_flat_map. intros [z [Hz Hy]]. destruct (in_lset _ _ _ _ Hz) as [->|Hz']; [left; exact Hy|right; exists z; auto].
Qed.
Lemma nth_error_app_old {X} (l : list X) x j y : nth_error l j = Some y -> nth_error (l ++ [x]) j = Some y.
Proof. intro H. rewrite nth_error_app1; [exact H|]. apply nth_error_Some. congruence. Qed.
