(* C16 -- rows stay together under subsetting, existing lists are never changed, wrong shapes are
   rejected, and the main invariant over operation sequences. *)
From Coq Require Import ZArith List Bool Arith Lia.
From LK Require Import Model.C16_itemlist Proofs.C16_base Proofs.C16_wf Proofs.C16_ops.
Import ListNotations.
Open Scope Z_scope.

(* ---------------------------------------------------------------- coherent_preserved *)
Theorem coherent_preserved_l env ops :
  env_ok env -> ops_ok env [] ops -> Forall (coherent env) (run env [] ops).
Proof.
  intros EO OK. eapply Forall_impl; [|apply (run_wf env ops [] EO (Forall_nil _) OK)].
  intros l W. apply coherent_of_wf; assumption.
Qed.

(* ---------------------------------------------------------------- rows_stay_together *)
Lemma construct_none_view env a l :
  construct env None a = Ok l ->
  exists k, phase1 env None a = Ok k /\ len l = k_len k /\ ids l = k_ids k /\ nums l = k_nums k /\ vocab l = c_vocab a.
Proof.
  unfold construct. destruct (phase1 env None a) as [k|]; cbn [bind]; [|discriminate].
  destruct (score_arr _ _ _); cbn [bind]; [|discriminate].
  destruct (rank_phase _ _ _ _); cbn [bind]; [|discriminate].
  destruct (score_field _ _); cbn [bind]; [|discriminate].
  destruct (other_fields _ _); cbn [bind]; [|discriminate].
  intro E. injection E as <-. exists k. cbn. unfold vocab0. destruct (c_vocab a); repeat split; reflexivity.
Qed.

(* phase 1 of a call without a source list and with well-formed 1-D arrays *)
Lemma ids_len_np i : ids_len (znp1 i) = Ok (length i).
Proof. unfold ids_len, znp1. cbn [z_shape z_badtype]. destruct (length i); reflexivity. Qed.
Lemma nums_len_np n known : nums_len (znp1 n) known = if check_1d [length n] known then Ok (length n) else Err EType.
Proof. unfold nums_len, znp1. cbn [z_shape]. destruct (length n); reflexivity. Qed.
Lemma if_len0 (zs : list Z) : (if (length zs =? 0)%nat then [] else zs) = zs.
Proof. destruct zs; reflexivity. Qed.

Lemma phase1_np env a k (oi on : option (list Z)) :
  c_ids a = option_map znp1 oi -> c_nums a = option_map znp1 on ->
  (forall i n, oi = Some i -> on = Some n -> length i = length n) ->
  (oi <> None \/ on <> None) ->
  phase1 env None a = Ok k ->
  k_ids k = oi /\ k_nums k = on /\ (forall i, oi = Some i -> k_len k = length i) /\ (forall n, on = Some n -> k_len k = length n).
Proof.
  intros CI CN LEN SOME. unfold phase1, ids_step, nums_step, vocab_step, ranks_step.
  rewrite base_state_none, CI, CN.
  destruct oi as [i|]; destruct on as [n|]; cbn [option_map is_some orb].
  - specialize (LEN i n eq_refl eq_refl).
    rewrite ids_len_np. cbn [bind fst snd]. rewrite nums_len_np.
    assert (C : check_1d [length n] (Some (length i)) = true) by (apply check_1d_some; congruence).
    rewrite C. cbn [bind fst snd src_of is_some andb negb z_data znp1]. rewrite !if_len0.
    intro E. injection E as <-. cbn [k_ids k_nums k_len fst snd].
    repeat split; intros ? E; injection E as <-; congruence.
  - rewrite ids_len_np. cbn [bind fst snd src_of is_some z_data znp1]. rewrite if_len0.
    intro E. injection E as <-. cbn [k_ids k_nums k_len fst snd]. repeat split; try discriminate.
    intros ? E. injection E as <-. reflexivity.
  - cbn [bind fst snd]. rewrite nums_len_np. cbn [check_1d length Nat.leb].
    cbn [bind fst snd src_of is_some andb negb z_data znp1]. rewrite if_len0.
    intro E. injection E as <-. cbn [k_ids k_nums k_len fst snd]. repeat split; try discriminate.
    intros ? E. injection E as <-. reflexivity.
  - exfalso. destruct SOME; congruence.
Qed.

Lemma other_fields_lookup n (g : list val -> list val) fs others f :
  other_fields n (map (fun e => (fst e, FArr (np1 (g (snd e))))) fs) = Ok others ->
  f <> F_SCORE -> f <> F_RANK ->
  lookup f others = option_map (fun vs => map to_np (g vs)) (lookup f fs).
Proof.
  intros H NS NR. revert others H. induction fs as [|[f0 vs] r IH]; intros others; cbn [map other_fields fst snd lookup].
  - intro E. injection E as <-. reflexivity.
  - destruct (Nat.eqb f0 F_SCORE || Nat.eqb f0 F_RANK) eqn:K.
    + intro E. rewrite (IH _ E). destruct (Nat.eqb_spec f f0) as [->|]; [|reflexivity].
      exfalso. apply orb_true_iff in K. destruct K as [K|K]; apply Nat.eqb_eq in K; congruence.
    + cbn [array_is_null np1 a_kind is_arrow andb a_shape a_data].
      destruct (check_1d [length (g vs)] (Some n)); [|discriminate].
      destruct (other_fields n _) as [rest|] eqn:R; cbn [bind]; [|discriminate].
      intro E. injection E as <-. cbn [lookup]. destruct (Nat.eqb f f0); [reflexivity|]. apply IH. reflexivity.
Qed.

Lemma other_fields_noscore n eff fs : other_fields n eff = Ok fs -> lookup F_SCORE fs = None.
Proof.
  revert fs. induction eff as [|[f d] r IH]; intros fs; cbn [other_fields].
  - intro E. injection E as <-. reflexivity.
  - destruct (Nat.eqb f F_SCORE || Nat.eqb f F_RANK) eqn:K; [apply IH|].
    destruct d as [|x]; [apply IH|].
    destruct (array_is_null x); [apply IH|].
    destruct (check_1d (a_shape x) (Some n)); [|discriminate].
    destruct (other_fields n r) as [rest|]; cbn [bind]; [|discriminate].
    intro E. injection E as <-. cbn [lookup]. apply orb_false_iff in K. destruct K as [K _].
    rewrite Nat.eqb_sym, K. apply IH. reflexivity.
Qed.

Theorem rows_stay_together_l env l s l' :
  env_ok env -> wf env l -> subset env l s = Ok l' ->
  exists sigma, sel_idx (len l) s = Ok sigma /\ Forall (fun k => (k < len l)%nat) sigma /\
    len l' = length sigma /\ ordered l' = ordered l /\ vocab l' = vocab l /\
    (forall i, get_ids env l = Ok i -> get_ids env l' = Ok (pick 0 sigma i)) /\
    (forall n, get_nums env l MNegative = Ok n -> get_nums env l' MNegative = Ok (pick 0 sigma n)) /\
    (forall f, f <> F_RANK -> get_field l' f = option_map (pick VNaN sigma) (get_field l f)).
Proof.
  intros EO W. unfold subset. destruct (sel_idx (len l) s) as [sigma|] eqn:S; cbn [bind]; [|discriminate].
  intro C. exists sigma. split; [reflexivity|].
  pose proof (sel_idx_bound _ _ _ S) as B. split; [exact B|].
  pose proof (construct_wf env None _ l' EO ltac:(discriminate) (subset_args_ok env l sigma W B) C) as W'.
  destruct (construct_none_view env _ l' C) as [k [P1 [HL [HI [HN HV]]]]].
  destruct (phase1_np env (subset_args l sigma) k (option_map (pick 0 sigma) (ids l)) (option_map (pick 0 sigma) (nums l))) as [KI [KN [LI LN]]].
  { cbn [subset_args c_ids]. destruct (ids l); reflexivity. }
  { cbn [subset_args c_nums]. destruct (nums l); reflexivity. }
  { intros i n. destruct (ids l), (nums l); cbn [option_map]; try discriminate. intros E1 E2. injection E1 as <-. injection E2 as <-.
    rewrite !pick_length. reflexivity. }
  { destruct (wf_some _ _ W) as [H|H]; [left|right]; destruct (ids l), (nums l); cbn [option_map]; congruence. }
  { exact P1. }
  assert (LEN : len l' = length sigma).
  { rewrite HL. destruct (wf_some _ _ W) as [H|H].
    - destruct (ids l) as [i|] eqn:I; [|congruence]. rewrite (LI _ eq_refl). apply pick_length.
    - destruct (nums l) as [n|] eqn:N; [|congruence]. rewrite (LN _ eq_refl). apply pick_length. }
  split; [exact LEN|].
  (* ordered, vocabulary: read off the constructor *)
  assert (ORD : ordered l' = ordered l /\ exists o, other_fields (length sigma) (c_fields (subset_args l sigma)) = Ok o /\
                   fields l' = match lookup F_SCORE (fields l) with
                   | Some vs => [(F_SCORE, map to_np (pick VNaN sigma vs))] | None => [] end ++ o).
  { revert C. unfold construct. rewrite P1. cbn [bind]. rewrite <- HL, LEN.
    unfold score_arr, rank_phase, eff_fields. cbn [subset_args c_scores c_fields c_ordered].
    rewrite !(lookup_map (fun vs => FArr (np1 (pick VNaN sigma vs)))), (wf_norank _ _ W). cbn [option_map].
    destruct (lookup F_SCORE (fields l)) as [vs|] eqn:LS; cbn [option_map bind score_field np1 a_shape a_data].
    - destruct (check_1d [length (pick VNaN sigma vs)] (Some (length sigma))); cbn [bind]; [|discriminate].
      destruct (other_fields (length sigma) _) as [o|]; cbn [bind]; [|discriminate].
      intro E. injection E as <-. cbn. unfold ordered0. cbn. split; [reflexivity|]. exists o. split; reflexivity.
    - destruct (other_fields (length sigma) _) as [o|]; cbn [bind]; [|discriminate].
      intro E. injection E as <-. cbn. unfold ordered0. cbn. split; [reflexivity|]. exists o. split; reflexivity. }
  destruct ORD as [ORD [o [OF FL]]]. split; [exact ORD|]. split; [rewrite HV; reflexivity|].
  assert (VOC : vocab l' = vocab l) by (rewrite HV; reflexivity).
  split; [|split].
  - (* identifiers *)
    intros i. unfold get_ids. rewrite HI, KI, HN, KN, VOC.
    destruct (ids l) as [i0|] eqn:I; cbn [option_map].
    + intro E. injection E as <-. reflexivity.
    + destruct (vocab l) as [v|]; [|discriminate]. destruct (nums l) as [ns|] eqn:N; [|discriminate]. cbn [option_map].
      unfold vids. destruct (forallb (in_range (venv env v)) ns) eqn:F; [|discriminate].
      intro E. injection E as <-.
      assert (BN : Forall (fun k => (k < length ns)%nat) sigma) by (rewrite (wf_nums _ _ W ns N); exact B).
      assert (F' : forallb (in_range (venv env v)) (pick 0 sigma ns) = true).
      { apply forallb_forall. intros x Hx. unfold pick in Hx. apply in_map_iff in Hx. destruct Hx as [j [<- Hj]].
        rewrite forallb_forall in F. apply F. apply nth_In. rewrite Forall_forall in BN. apply BN. exact Hj. }
      rewrite F'. f_equal. symmetry. apply (pick_map (vterm (venv env v)) 0 0 sigma ns BN).
  - (* numbers *)
    intros n. unfold get_nums, raw_nums. rewrite HI, KI, HN, KN, VOC.
    destruct (nums l) as [n0|] eqn:N; cbn [option_map bind apply_missing].
    + intro E. injection E as <-. reflexivity.
    + destruct (vocab l) as [v|]; [|discriminate]. destruct (ids l) as [i0|] eqn:I; [|discriminate]. cbn [option_map bind apply_missing].
      intro E. injection E as <-. f_equal. unfold vnums. symmetry.
      apply (pick_map (vnum (venv env v)) 0 0 sigma i0). rewrite (wf_ids _ _ W i0 I). exact B.
  - (* fields *)
    intros f NR. unfold get_field. rewrite FL, lookup_app.
    pose proof (wf_fields _ _ W) as WF. rewrite Forall_forall in WF.
    destruct (Nat.eq_dec f F_SCORE) as [->|NS].
    + destruct (lookup F_SCORE (fields l)) as [vs|] eqn:LS; cbn [lookup Nat.eqb F_SCORE option_map].
      * f_equal. apply to_np_id. apply pick_nonull. apply lookup_in in LS. apply (WF _ LS).
      * apply (other_fields_noscore _ _ _ OF).
    + match goal with |- match lookup f ?P with _ => _ end = _ => set (pre := P) end.
      assert (L0 : lookup f pre = None).
      { unfold pre. destruct (lookup F_SCORE (fields l)); cbn [lookup]; [|reflexivity]. destruct (Nat.eqb_spec f F_SCORE); [congruence|reflexivity]. }
      rewrite L0. cbn [subset_args c_fields] in OF.
      rewrite (other_fields_lookup _ (pick VNaN sigma) _ _ f OF NS NR).
      destruct (lookup f (fields l)) as [vs|] eqn:LF; cbn [option_map]; [|reflexivity].
      f_equal. apply to_np_id. apply pick_nonull. apply lookup_in in LF. apply (WF _ LF).
Qed.

(* ---------------------------------------------------------------- source_unchanged *)
Lemma push_keeps ls r k l : nth_error ls k = Some l -> nth_error (fst (push ls r)) k = Some l.
Proof.
  intro E. unfold push. destruct r; cbn [fst]; [|exact E]. rewrite nth_error_app1; [exact E|].
  apply nth_error_Some. congruence.
Qed.

Lemma update_view env ls j x k l :
  (forall y, nth_error ls j = Some y -> same_view env y x) ->
  nth_error ls k = Some l -> exists l', nth_error (update j x ls) k = Some l' /\ same_view env l l'.
Proof.
  intros V E. destruct (Nat.eq_dec k j) as [->|NE].
  - exists x. split; [eapply nth_error_update_same; exact E|]. apply V. exact E.
  - exists l. split; [rewrite nth_error_update_other by exact NE; exact E|apply same_view_refl].
Qed.

Theorem source_unchanged_l env ls o k l :
  env_ok env -> Forall (wf env) ls -> nth_error ls k = Some l ->
  exists l', nth_error (fst (step env ls o)) k = Some l' /\ observe env l' = observe env l.
Proof.
  intros EO H E.
  assert (NTH : forall j y, nth_error ls j = Some y -> wf env y).
  { intros j y Ey. rewrite Forall_forall in H. apply H. eapply nth_error_In. exact Ey. }
  assert (DONE : forall ls', (exists l', nth_error ls' k = Some l' /\ same_view env l l') ->
                 exists l', nth_error ls' k = Some l' /\ observe env l' = observe env l).
  { intros ls' [l' [A B]]. exists l'. split; [exact A|apply same_view_observe; exact B]. }
  assert (KEEP : forall r, exists l', nth_error (fst (push ls r)) k = Some l' /\ observe env l' = observe env l).
  { intro r. exists l. split; [apply push_keeps; exact E|reflexivity]. }
  assert (UPD : forall j x r, (forall y, nth_error ls j = Some y -> same_view env y x) ->
                 exists l', nth_error (fst (push (update j x ls) r)) k = Some l' /\ observe env l' = observe env l).
  { intros j x r V. destruct (update_view env ls j x k l V E) as [l' [A B]]. exists l'. split; [apply push_keeps; exact A|apply same_view_observe; exact B]. }
  destruct o as [a|j a|j s|j|j m|j|j v m|j|j wi wn|j wi wn|j cols kv]; cbn [step].
  - apply KEEP.
  - destruct (nth_error ls (j mod length ls)); [apply KEEP|exists l; split; [exact E|reflexivity]].
  - destruct (nth_error ls (j mod length ls)); [apply KEEP|exists l; split; [exact E|reflexivity]].
  - destruct (nth_error ls (j mod length ls)) as [y|] eqn:N; [|exists l; split; [exact E|reflexivity]].
    pose proof (force_ids_view env y (NTH _ _ N)) as V. destruct (force_ids env y) as [y' r]. cbn [fst] in *.
    apply DONE. apply update_view; [|exact E]. intros y0 E0. rewrite N in E0. injection E0 as <-. exact V.
  - destruct (nth_error ls (j mod length ls)) as [y|] eqn:N; [|exists l; split; [exact E|reflexivity]].
    pose proof (force_nums_view env y m (NTH _ _ N)) as V. destruct (force_nums env y m) as [y' r]. cbn [fst] in *.
    apply DONE. apply update_view; [|exact E]. intros y0 E0. rewrite N in E0. injection E0 as <-. exact V.
  - destruct (nth_error ls (j mod length ls)) as [y|] eqn:N; [|exists l; split; [exact E|reflexivity]].
    cbn [fst]. apply DONE. apply update_view; [|exact E]. intros y0 E0. rewrite N in E0. injection E0 as <-. apply force_ranks_view.
  - destruct (nth_error ls (j mod length ls)) as [y|] eqn:N; [|exists l; split; [exact E|reflexivity]].
    destruct (same_vocab (vocab y) v).
    + pose proof (force_nums_view env y m (NTH _ _ N)) as V. destruct (force_nums env y m) as [y' r]. cbn [fst] in *.
      apply DONE. apply update_view; [|exact E]. intros y0 E0. rewrite N in E0. injection E0 as <-. exact V.
    + pose proof (force_ids_view env y (NTH _ _ N)) as V. destruct (force_ids env y) as [y' r]. cbn [fst] in *.
      apply DONE. apply update_view; [|exact E]. intros y0 E0. rewrite N in E0. injection E0 as <-. exact V.
  - destruct (nth_error ls (j mod length ls)); [apply KEEP|exists l; split; [exact E|reflexivity]].
  - destruct (nth_error ls (j mod length ls)) as [y|] eqn:N; [|exists l; split; [exact E|reflexivity]].
    destruct (via_df env y wi wn) as [y' r] eqn:V.
    destruct (via_df_wf env y wi wn y' r EO (NTH _ _ N) V) as [_ [SV _]].
    apply UPD. intros y0 E0. rewrite N in E0. injection E0 as <-. exact SV.
  - destruct (nth_error ls (j mod length ls)) as [y|] eqn:N; [|exists l; split; [exact E|reflexivity]].
    destruct (via_arrow env y wi wn) as [y' r] eqn:V.
    destruct (via_arrow_wf env y wi wn y' r EO (NTH _ _ N) V) as [_ [SV _]].
    apply UPD. intros y0 E0. rewrite N in E0. injection E0 as <-. exact SV.
  - destruct (nth_error ls (j mod length ls)) as [y|] eqn:N; [|exists l; split; [exact E|reflexivity]].
    destruct (via_arrow_cols env y cols kv) as [y' r] eqn:V.
    destruct (via_arrow_cols_wf env y cols kv y' r EO (NTH _ _ N) V) as [_ [SV _]].
    apply UPD. intros y0 E0. rewrite N in E0. injection E0 as <-. exact SV.
Qed.

(* ---------------------------------------------------------------- columns_by_name *)
Lemma existsb_in_col (p : col -> bool) (c : col) cols :
  (forall d, p d = true <-> d = c) -> (existsb p cols = true <-> In c cols).
Proof.
  intro P. rewrite existsb_exists. split.
  - intros [d [I Pd]]. apply P in Pd. subst d. exact I.
  - intro I. exists c. split; [exact I|apply P; reflexivity].
Qed.
Lemma has_id_in cols : has_id cols = true <-> In CId cols.
Proof. apply existsb_in_col. intros [| |g]; split; try discriminate; try reflexivity. Qed.
Lemma has_num_in cols : has_num cols = true <-> In CNum cols.
Proof. apply existsb_in_col. intros [| |g]; split; try discriminate; try reflexivity. Qed.
Lemma has_name_in f cols : has_name f cols = true <-> In (CName f) cols.
Proof.
  apply existsb_in_col. intros [| |g]; split; try discriminate.
  - intro H. apply Nat.eqb_eq in H. congruence.
  - intro H. injection H as ->. apply Nat.eqb_refl.
Qed.

(* to_arrow(columns=cols) of a well-formed list, cols in ANY order: the identifier column holds the
   list's identifiers, the number column its numbers, the rank column its ranks (nulls if unordered),
   the column named f the field f (nulls if the list has no such field); nothing else is there *)
Theorem columns_by_name_l env l cols l' t :
  env_ok env -> wf env l -> arrow_cols env l cols t_none = (l', Ok t) ->
  observe env l' = observe env l /\
  (In CId cols -> exists i, get_ids env l = Ok i /\ t_ids t = Some i) /\ (~ In CId cols -> t_ids t = None) /\
  (In CNum cols -> exists n, get_nums env l MError = Ok n /\ t_nums t = Some n) /\ (~ In CNum cols -> t_nums t = None) /\
  (In (CName F_RANK) cols -> t_rank t = get_ranks l) /\ (~ In (CName F_RANK) cols -> t_rank t = None) /\
  (forall f, f <> F_RANK ->
     (In (CName f) cols -> lookup f (t_fields t) = get_field l f) /\ (~ In (CName f) cols -> lookup f (t_fields t) = None)).
Proof.
  intros EO W E. destruct (arrow_cols_gen env l EO cols l t_none l' (Ok t) W (same_view_refl env l) E) as [_ [V S]].
  destruct (S t eq_refl) as [A [B [C [D _]]]].
  split; [apply same_view_observe; exact V|].
  split; [|split; [|split; [|split; [|split; [|split]]]]].
  - intro I. apply has_id_in in I. rewrite I in A. exact A.
  - intro I. destruct (has_id cols) eqn:H; [exfalso; apply I; apply has_id_in; exact H|exact A].
  - intro I. apply has_num_in in I. rewrite I in B. exact B.
  - intro I. destruct (has_num cols) eqn:H; [exfalso; apply I; apply has_num_in; exact H|exact B].
  - intro I. apply has_name_in in I. rewrite I in C. exact C.
  - intro I. destruct (has_name F_RANK cols) eqn:H; [exfalso; apply I; apply has_name_in; exact H|exact C].
  - intros f NF. rewrite (D f NF). split.
    + intro I. apply has_name_in in I. rewrite I. cbn [andb]. destruct (get_field l f); reflexivity.
    + intro I. destruct (has_name f cols) eqn:H; [exfalso; apply I; apply has_name_in; exact H|reflexivity].
Qed.

(* ---------------------------------------------------------------- bad_shapes_rejected *)
Lemma other_fields_shapes n eff fs f x :
  other_fields n eff = Ok fs -> In (f, FArr x) eff -> f <> F_SCORE -> f <> F_RANK -> array_is_null x = false ->
  a_shape x = [n].
Proof.
  revert fs. induction eff as [|[f0 d] r IH]; intros fs; cbn [other_fields In]; [contradiction|].
  intros H [HI|HI] NS NR NN.
  - injection HI as -> ->.
    destruct (Nat.eqb_spec f F_SCORE); [congruence|]. destruct (Nat.eqb_spec f F_RANK); [congruence|].
    cbn [orb] in H. rewrite NN in H. destruct (check_1d (a_shape x) (Some n)) eqn:C; [|discriminate].
    apply check_1d_some. exact C.
  - destruct (Nat.eqb f0 F_SCORE || Nat.eqb f0 F_RANK); [eapply IH; eassumption|].
    destruct d as [|y]; [eapply IH; eassumption|].
    destruct (array_is_null y); [eapply IH; eassumption|].
    destruct (check_1d (a_shape y) (Some n)); [|discriminate].
    destruct (other_fields n r) as [rest|] eqn:R; cbn [bind] in H; [|discriminate].
    eapply IH; [reflexivity|eassumption..].
Qed.

Theorem bad_shapes_rejected_l env src a l :
  construct env src a = Ok l ->
  (* every field that is kept (given, or inherited from the source list) has exactly one value per item *)
  (forall f x, In (f, FArr x) (eff_fields src a) -> f <> F_SCORE -> f <> F_RANK -> array_is_null x = false ->
               a_shape x = [len l]) /\
  (forall x, c_scores a = SArr x -> a_shape x = [len l]) /\
  (forall x, c_scores a = SNone -> lookup F_SCORE (eff_fields src a) = Some (FArr x) -> a_shape x = [len l]) /\
  (forall x, lookup F_RANK (c_fields a) = Some (FArr x) -> c_ordered a <> Some false -> a_shape x = [len l]) /\
  (forall z, c_ids a = Some z -> (z_badtype z = false /\ z_shape z = [len l]) \/ (len l = 0%nat /\ exists r, z_shape z = 0%nat :: r)) /\
  (forall z, c_nums a = Some z -> z_shape z = [len l] \/ (len l = 0%nat /\ exists r, z_shape z = 0%nat :: r)).
Proof.
  unfold construct.
  destruct (phase1 env src a) as [k|] eqn:P1; cbn [bind]; [|discriminate].
  destruct (score_arr (k_len k) (eff_fields src a) a) as [sc|] eqn:SC; cbn [bind]; [|discriminate].
  destruct (rank_phase a (ordered0 src a) (k_ranks k) (k_len k)) as [rk|] eqn:RK; cbn [bind]; [|discriminate].
  destruct (score_field (k_len k) sc) as [scf|] eqn:SF; cbn [bind]; [|discriminate].
  destruct (other_fields (k_len k) (eff_fields src a)) as [others|] eqn:OF; cbn [bind]; [|discriminate].
  intro E. injection E as <-. cbn [len].
  split; [intros f x HI NS NR NN; apply (other_fields_shapes _ _ _ f x OF HI NS NR NN)|].
  split.
  { intros x CS. revert SC SF. unfold score_arr, score_field. rewrite CS.
    destruct (has_key F_SCORE (c_fields a)); [discriminate|]. intro E. injection E as <-.
    destruct (check_1d (a_shape x) (Some (k_len k))) eqn:C; [|discriminate]. intros _. apply check_1d_some. exact C. }
  split.
  { intros x CS L. revert SC SF. unfold score_arr, score_field. rewrite CS, L. intro E. injection E as <-.
    destruct (check_1d (a_shape x) (Some (k_len k))) eqn:C; [|discriminate]. intros _. apply check_1d_some. exact C. }
  split.
  { intros x L NO. revert RK. unfold rank_phase. rewrite L.
    assert (G : (if check_1d (a_shape x) (Some (k_len k)) then Ok (true, Some (map val_Z (a_data x))) else Err EType) = Ok rk ->
                a_shape x = [k_len k]).
    { destruct (check_1d (a_shape x) (Some (k_len k))) eqn:C; [|discriminate]. intros _. apply check_1d_some. exact C. }
    destruct (c_ordered a) as [[|]|]; try exact G. congruence. }
  (* identifiers and numbers *)
  revert P1. unfold phase1, ids_step, nums_step.
  destruct (c_ids a) as [zi|] eqn:CI.
  - destruct (ids_len zi) as [ni|] eqn:LI; cbn [bind]; [|discriminate].
    assert (SI : (z_badtype zi = false /\ z_shape zi = [ni]) \/ (ni = 0%nat /\ exists r, z_shape zi = 0%nat :: r)).
    { revert LI. unfold ids_len.
      destruct (z_shape zi) as [|m r]; cbn beta iota; [discriminate|].
      destruct m as [|m']; cbn beta iota.
      - intro E. injection E as <-. right. split; [reflexivity|]. eexists. reflexivity.
      - destruct r; [|discriminate]. destruct (z_badtype zi); [discriminate|]. intro E. injection E as <-. left. split; reflexivity. }
    destruct (c_nums a) as [zn|] eqn:CN.
    + cbn [fst snd]. destruct (nums_len zn (Some ni)) as [nn|] eqn:LN; cbn [bind]; [|discriminate].
      cbn [bind fst snd]. destruct (vocab_step env src a _ _); cbn [bind]; [|discriminate]. intro E. injection E as <-. cbn [k_len snd].
      assert (EQ : nn = ni /\ (z_shape zn = [nn] \/ (nn = 0%nat /\ exists r, z_shape zn = 0%nat :: r))).
      { revert LN. unfold nums_len. destruct (z_shape zn) as [|m r]; cbn beta iota; [discriminate|].
        destruct m as [|m]; cbn beta iota.
        - destruct (check_1d [0%nat] (Some ni)) eqn:C; [|discriminate]. intro E. injection E as <-.
          apply check_1d_some in C. split; [congruence|]. right. split; [reflexivity|]. eexists. reflexivity.
        - destruct (check_1d (S m :: r) (Some ni)) eqn:C; [|discriminate]. intro E. injection E as <-.
          apply check_1d_some in C. split; [congruence|]. left. injection C as _ ->. reflexivity. }
      destruct EQ as [-> SN]. split; [intros z E; injection E as <-; exact SI|intros z E; injection E as <-; exact SN].
    + cbn [bind fst snd]. destruct (vocab_step env src a _ _); cbn [bind]; [|discriminate]. intro E. injection E as <-. cbn [k_len snd].
      split; [intros z E; injection E as <-; exact SI|discriminate].
  - destruct (c_nums a) as [zn|] eqn:CN.
    + cbn [bind]. destruct (nums_len zn _) as [nn|] eqn:LN; cbn [bind]; [|discriminate].
      cbn [bind fst snd]. destruct (vocab_step env src a _ _); cbn [bind]; [|discriminate]. intro E. injection E as <-. cbn [k_len snd].
      split; [discriminate|]. intros z E. injection E as <-.
      revert LN. unfold nums_len. destruct (z_shape zn) as [|m r]; cbn beta iota; [discriminate|].
      destruct m as [|m]; cbn beta iota.
      * destruct (check_1d [0%nat] _); [|discriminate]. intro E. injection E as <-. right. split; [reflexivity|]. eexists. reflexivity.
      * destruct (check_1d (S m :: r) (snd (base_state src a))) eqn:C; [|discriminate]. intro E. injection E as <-. left.
        destruct (snd (base_state src a)) as [q|].
        -- apply check_1d_some in C. injection C as _ ->. reflexivity.
        -- cbn [check_1d] in C. destruct r; [reflexivity|]. cbn in C. discriminate.
    + intros _. split; discriminate.
Qed.

(* a concrete conversion with the columns in a non-canonical order (score, rank, item_id, rating, foo) *)
Lemma c16_columns_example_l :
  let env := [[10; 11; 12; 13]] in
  let l := {| len := 3%nat; ids := Some [11; 99; 13]; nums := None; vocab := Some 0%nat; ordered := true; ranks := None;
              fields := [(0%nat, [VZ 4; VZ 8; VNaN]); (2%nat, [VZ 1; VZ 2; VZ 3])] |} in
  let cols := [CName 0%nat; CName 1%nat; CId; CName 2%nat; CName 3%nat] in
  env_ok env /\ wf env l /\
  exists l' t, arrow_cols env l cols t_none = (l', Ok t) /\
    t_ids t = Some [11; 99; 13] /\ t_nums t = None /\ t_rank t = Some [1; 2; 3] /\
    lookup 0%nat (t_fields t) = Some [VZ 4; VZ 8; VNaN] /\ lookup 2%nat (t_fields t) = Some [VZ 1; VZ 2; VZ 3] /\
    lookup 3%nat (t_fields t) = None /\
    exists l2 x, via_arrow_cols env l cols true = (l2, Ok x) /\ (0 < len l)%nat /\ ordered x = true /\
      get_ids env x = Ok [11; 99; 13] /\ get_field x 2%nat = Some [VZ 1; VZ 2; VZ 3] /\ get_field x 3%nat = None.
Proof.
  cbv zeta. split; [|split].
  - repeat (constructor; [repeat (constructor; [cbn; intuition discriminate|]); constructor|]). constructor.
  - constructor; cbn [len ids nums vocab ordered ranks fields].
    + intros i E. injection E as <-. reflexivity.
    + discriminate.
    + left. discriminate.
    + repeat constructor; discriminate.
    + reflexivity.
    + repeat constructor; cbn; intuition discriminate.
    + discriminate.
    + discriminate.
  - eexists _, _. split; [vm_compute; reflexivity|]. repeat split.
    eexists _, _. split; [vm_compute; reflexivity|]. repeat split. cbn. lia.
Qed.
