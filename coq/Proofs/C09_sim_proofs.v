(* C09 -- similarity side: symmetry, no self-similarity, values within [threshold, 1] (Cauchy-Schwarz),
   truncation keeps the most similar, block size is irrelevant.  All statements are about the exact
   signed squared cosine of Model/C09_knn.v. *)
From Coq Require Import ZArith QArith Qabs List Bool Arith Lia Lqa Setoid Morphisms Sorted Permutation.
From LK Require Import Lib.QLib Lib.SortPerm Model.C09_knn.
Import ListNotations.
Open Scope Q_scope.

(* ---------------- booleans over Q ---------------- *)
Lemma Qltb_compat a a' b b' : a == a' -> b == b' -> Qltb a b = Qltb a' b'.
Proof. intros Ha Hb. unfold Qltb. rewrite Ha, Hb. reflexivity. Qed.
Lemma Qleb_compat a a' b b' : a == a' -> b == b' -> Qleb a b = Qleb a' b'.
Proof. intros Ha Hb. unfold Qleb. rewrite Ha, Hb. reflexivity. Qed.
Lemma Qleb_total a b : Qleb a b = true \/ Qleb b a = true.
Proof. rewrite !Qleb_le. destruct (Qlt_le_dec b a); [right; lra|left; assumption]. Qed.
Lemma Qleb_trans a b c : Qleb a b = true -> Qleb b c = true -> Qleb a c = true.
Proof. rewrite !Qleb_le. intros; lra. Qed.

(* ---------------- dot products ---------------- *)
Lemma dot_sym a b : dot a b == dot b a.
Proof. revert b; induction a as [|x a IH]; intros [|y b]; simpl; try reflexivity. rewrite IH. ring. Qed.

Lemma dot_self_nonneg a : 0 <= dot a a.
Proof. induction a as [|x a IH]; simpl; [lra|]. assert (0 <= x * x) by (destruct (Qlt_le_dec x 0); nra). lra. Qed.

(* 0 <= sum_k (t a_k - b_k)^2, written out *)
Lemma quad_nonneg a b t : 0 <= t * t * dot a a - 2 * t * dot a b + dot b b.
Proof.
  revert b; induction a as [|x a IH]; intros [|y b]; simpl.
  - lra.
  - pose proof (dot_self_nonneg (y :: b)) as H. simpl in H. lra.
  - pose proof (dot_self_nonneg (x :: a)) as H. simpl in H.
    assert (T : 0 <= t * t) by (destruct (Qlt_le_dec t 0); nra).
    pose proof (Qmult_le_0_compat _ _ T H). lra.
  - specialize (IH b).
    assert (S : 0 <= (t * x - y) * (t * x - y)) by (destruct (Qlt_le_dec (t * x - y) 0); nra).
    setoid_replace (t * t * (x * x + dot a a) - 2 * t * (x * y + dot a b) + (y * y + dot b b))
      with ((t * x - y) * (t * x - y) + (t * t * dot a a - 2 * t * dot a b + dot b b)) by ring.
    lra.
Qed.

Lemma cauchy_schwarz a b : dot a b * dot a b <= dot a a * dot b b.
Proof.
  pose proof (dot_self_nonneg a) as HA. pose proof (dot_self_nonneg b) as HB.
  destruct (Qlt_le_dec 0 (dot a a)) as [P|Z].
  - pose proof (quad_nonneg a b (dot a b / dot a a)) as H.
    assert (E : dot a b / dot a a * (dot a b / dot a a) * dot a a - 2 * (dot a b / dot a a) * dot a b + dot b b
                == dot b b - dot a b * dot a b / dot a a) by (field; lra).
    rewrite E in H.
    assert (dot a b * dot a b / dot a a <= dot b b) by lra.
    apply (Qmult_le_compat_r _ _ (dot a a)) in H0; [|lra].
    assert (E2 : dot a b * dot a b / dot a a * dot a a == dot a b * dot a b) by (field; lra).
    rewrite E2 in H0. lra.
  - assert (A0 : dot a a == 0) by lra.
    destruct (Qeq_dec (dot a b) 0) as [C0|C1]; [rewrite C0, A0; lra|].
    exfalso.
    assert (P : 0 < dot a b * dot a b) by (destruct (Qlt_le_dec 0 (dot a b)); nra).
    pose proof (quad_nonneg a b ((dot b b + 1) / (2 * dot a b))) as H.
    rewrite A0 in H.
    assert (E : (dot b b + 1) / (2 * dot a b) * ((dot b b + 1) / (2 * dot a b)) * 0
                - 2 * ((dot b b + 1) / (2 * dot a b)) * dot a b + dot b b == - (1)) by (field; exact C1).
    rewrite E in H. lra.
Qed.

Lemma sdot_sym V i j : sdot V i j == sdot V j i.
Proof. apply dot_sym. Qed.

Lemma sq_sym V i j : sq V i j == sq V j i.
Proof.
  unfold sq. rewrite (sdot_sym V i j).
  setoid_replace (n2 V i * n2 V j) with (n2 V j * n2 V i) by ring. reflexivity.
Qed.

Lemma qualifies_sym V min2 i j : qualifies V min2 i j = qualifies V min2 j i.
Proof.
  unfold qualifies. rewrite (Nat.eqb_sym j i).
  rewrite (Qltb_compat 0 0 _ _ (Qeq_refl 0) (sdot_sym V i j)).
  rewrite (Qleb_compat (min2 * (n2 V i * n2 V j)) (min2 * (n2 V j * n2 V i))
                       (sdot V i j * sdot V i j) (sdot V j i * sdot V j i)).
  - reflexivity.
  - ring.
  - rewrite (sdot_sym V i j). reflexivity.
Qed.

(* ---------------- membership in a similarity row ---------------- *)
Lemma in_cands V min2 i j : In j (cands V min2 i) <-> (j < length V)%nat /\ qualifies V min2 i j = true.
Proof. unfold cands. rewrite filter_In, in_seq. intuition lia. Qed.

Lemma firstn_incl {A} n (l : list A) x : In x (firstn n l) -> In x l.
Proof. revert n; induction l as [|y l IH]; intros [|n] H; simpl in *; try tauto. destruct H; [left; assumption|right; eauto]. Qed.

Lemma sim_cols_incl V min2 save i j : In j (sim_cols V min2 save i) -> In j (cands V min2 i).
Proof.
  unfold sim_cols. destruct save as [m|]; [|tauto].
  destruct (Nat.ltb m (length (cands V min2 i))); [|tauto].
  intro H. apply (Permutation_in _ (isort_perm _ _)) in H. apply firstn_incl in H.
  apply (Permutation_in _ (isort_perm _ _)) in H. exact H.
Qed.

Lemma sim_row_in V min2 save i j s :
  In (j, s) (sim_row V min2 save i) <-> In j (sim_cols V min2 save i) /\ s = sq V i j.
Proof.
  unfold sim_row. rewrite in_map_iff. split.
  - intros [x [E I]]. inversion E; subst. auto.
  - intros [I ->]. exists j. auto.
Qed.

(* the learned model is symmetric when neighbours are not truncated *)
Lemma sim_symmetric_l : forall V min2 i j s, (i < length V)%nat ->
  In (j, s) (sim_row V min2 None i) -> exists s', In (i, s') (sim_row V min2 None j) /\ s == s'.
Proof.
  intros V min2 i j s Hi H. apply sim_row_in in H. destruct H as [I ->].
  unfold sim_cols in I. apply in_cands in I. destruct I as [Hj Q].
  exists (sq V j i). split; [|apply sq_sym].
  apply sim_row_in. split; [|reflexivity]. unfold sim_cols. apply in_cands. split; [exact Hi|].
  rewrite qualifies_sym. exact Q.
Qed.

(* never relates an item to itself *)
Lemma no_self_l : forall V min2 save i s, ~ In (i, s) (sim_row V min2 save i).
Proof.
  intros V min2 save i s H. apply sim_row_in in H. destruct H as [I _].
  apply sim_cols_incl, in_cands in I. destruct I as [_ Q]. unfold qualifies in Q.
  rewrite Nat.eqb_refl in Q. discriminate.
Qed.

(* every stored (squared) similarity lies in [min_sim^2, 1] and belongs to a positive dot product *)
Lemma sims_in_threshold_one_l : forall V min2 save i j s,
  In (j, s) (sim_row V min2 save i) -> 0 < sdot V i j /\ min2 <= s /\ s <= 1.
Proof.
  intros V min2 save i j s H. apply sim_row_in in H. destruct H as [I ->].
  apply sim_cols_incl, in_cands in I. destruct I as [_ Q]. unfold qualifies in Q.
  apply andb_true_iff in Q. destruct Q as [Q Q3]. apply andb_true_iff in Q. destruct Q as [_ Q2].
  apply Qltb_lt in Q2. apply Qleb_le in Q3.
  assert (CS : sdot V i j * sdot V i j <= n2 V i * n2 V j) by exact (cauchy_schwarz (vrow V i) (vrow V j)).
  assert (P : 0 < sdot V i j * sdot V i j) by nra.
  assert (N : 0 < n2 V i * n2 V j) by lra.
  split; [exact Q2|]. unfold sq. split.
  - apply Qle_shift_div_l; [exact N|exact Q3].
  - apply Qle_shift_div_r; [exact N|lra].
Qed.

(* ---------------- truncation ---------------- *)
Lemma skipn_incl {A} m (l : list A) x : In x (skipn m l) -> In x l.
Proof. revert m; induction l as [|y l IH]; intros [|m] H; simpl in *; try tauto. right; eauto. Qed.

Lemma sorted_firstn_skipn {A} (R : A -> A -> Prop) (l : list A) : StronglySorted R l ->
  forall m x y, In x (firstn m l) -> In y (skipn m l) -> R x y.
Proof.
  induction 1 as [|a l S IH F]; intros [|m] x y Hx Hy; simpl in *; try tauto.
  destruct Hx as [<-|Hx].
  - rewrite Forall_forall in F. apply F. eapply (skipn_incl m). exact Hy.
  - eapply IH; eassumption.
Qed.


Lemma NoDup_app_l {A} (l1 l2 : list A) : NoDup (l1 ++ l2) -> NoDup l1.
Proof.
  induction l1 as [|x l1 IH]; simpl; intro H; [constructor|].
  inversion H as [|? ? N H']; subst. constructor; [|apply IH, H'].
  intro I. apply N. apply in_or_app. left; exact I.
Qed.
Lemma NoDup_firstn {A} m (l : list A) : NoDup l -> NoDup (firstn m l).
Proof. intro H. rewrite <- (firstn_skipn m l) in H. apply NoDup_app_l in H. exact H. Qed.

Lemma in_skipn_of {A} m (l : list A) x : In x l -> ~ In x (firstn m l) -> In x (skipn m l).
Proof. intros I N. rewrite <- (firstn_skipn m l) in I. apply in_app_or in I. tauto. Qed.

Lemma nat_leb_total a b : Nat.leb a b = true \/ Nat.leb b a = true.
Proof. destruct (Nat.leb_spec a b); [left; reflexivity|right; apply Nat.leb_le; lia]. Qed.
Lemma nat_leb_trans a b c : Nat.leb a b = true -> Nat.leb b c = true -> Nat.leb a c = true.
Proof. rewrite !Nat.leb_le. lia. Qed.

Lemma seq_sorted s n : StronglySorted (fun a b => Nat.leb a b = true) (seq s n).
Proof.
  revert s; induction n as [|n IH]; intro s; simpl; constructor; [apply IH|].
  apply Forall_forall. intros x Hx. apply in_seq in Hx. apply Nat.leb_le. lia.
Qed.
Lemma sorted_filter {A} (R : A -> A -> Prop) f (l : list A) : StronglySorted R l -> StronglySorted R (filter f l).
Proof.
  induction 1 as [|x l S IH F]; simpl; [constructor|].
  destruct (f x); [|exact IH]. constructor; [exact IH|].
  rewrite Forall_forall in *. intros y Hy. apply filter_In in Hy. apply F. tauto.
Qed.

Lemma desc_sq_total V i a b : desc_sq V i a b = true \/ desc_sq V i b a = true.
Proof. unfold desc_sq. apply Qleb_total. Qed.
Lemma desc_sq_trans V i a b c : desc_sq V i a b = true -> desc_sq V i b c = true -> desc_sq V i a c = true.
Proof. unfold desc_sq. intros H K. eapply Qleb_trans; eassumption. Qed.

Lemma cands_nodup V min2 i : NoDup (cands V min2 i).
Proof. unfold cands. apply NoDup_filter, seq_NoDup. Qed.

(* truncated rows keep the most similar neighbours, column-sorted *)
Lemma truncation_l : forall V min2 m i,
  let c := cands V min2 i in
  let K := sim_cols V min2 (Some m) i in
  NoDup K /\ incl K c /\ length K = Nat.min m (length c) /\
  StronglySorted (fun a b => Nat.leb a b = true) K /\
  forall k d, In k K -> In d c -> ~ In d K -> sq V i d <= sq V i k.
Proof.
  intros V min2 m i c K. subst K. unfold sim_cols. fold c.
  destruct (Nat.ltb_spec m (length c)) as [L|L].
  - set (s := isort (desc_sq V i) c).
    assert (Ps : Permutation s c) by apply isort_perm.
    assert (Ss : StronglySorted (fun a b => desc_sq V i a b = true) s)
      by (apply isort_sorted; [apply desc_sq_total|apply desc_sq_trans]).
    assert (NDs : NoDup s) by (eapply Permutation_NoDup; [symmetry; exact Ps|apply cands_nodup]).
    set (K := isort Nat.leb (firstn m s)).
    assert (PK : Permutation K (firstn m s)) by apply isort_perm.
    split; [eapply Permutation_NoDup; [symmetry; exact PK|apply NoDup_firstn, NDs]|].
    split; [intros x Hx; apply (Permutation_in _ PK) in Hx; apply firstn_incl in Hx;
            apply (Permutation_in _ Ps) in Hx; exact Hx|].
    split; [rewrite (Permutation_length PK), firstn_length, (Permutation_length Ps); reflexivity|].
    split; [apply isort_sorted; [apply nat_leb_total|apply nat_leb_trans]|].
    intros k d Hk Hd Nd.
    apply (Permutation_in _ PK) in Hk.
    assert (Hd' : In d (skipn m s)).
    { apply in_skipn_of; [apply (Permutation_in _ (Permutation_sym Ps)), Hd|].
      intro X. apply Nd. apply (Permutation_in _ (Permutation_sym PK)), X. }
    pose proof (sorted_firstn_skipn _ s Ss m k d Hk Hd') as D. unfold desc_sq in D. apply Qleb_le in D. exact D.
  - split; [apply cands_nodup|]. split; [intros x Hx; exact Hx|].
    split; [lia|]. split; [unfold c, cands; apply sorted_filter, seq_sorted|].
    intros k d _ Hd Nd. contradiction.
Qed.

(* ---------------- blocks ---------------- *)
Lemma chunks_concat : forall fuel s n bs, (0 < bs)%nat -> (n - s <= fuel)%nat ->
  concat (map (fun c : nat * nat => seq (fst c) (snd c - fst c)) (chunks fuel s n bs)) = seq s (n - s).
Proof.
  induction fuel as [|f IH]; intros s n bs Hb Hf; simpl.
  - replace (n - s)%nat with 0%nat by lia. reflexivity.
  - destruct (Nat.ltb_spec s n) as [L|L].
    + cbn [map concat fst snd]. rewrite IH by lia.
      destruct (Nat.le_gt_cases (s + bs) n) as [A|A].
      * rewrite Nat.min_l by lia. replace (s + bs - s)%nat with bs by lia.
        replace (n - s)%nat with (bs + (n - (s + bs)))%nat by lia. rewrite seq_app. reflexivity.
      * rewrite Nat.min_r by lia. replace (n - (s + bs))%nat with 0%nat by lia. simpl. apply app_nil_r.
    + replace (n - s)%nat with 0%nat by lia. reflexivity.
Qed.

Lemma block_size_irrelevant_l : forall {A} (row : nat -> A) n bs, (0 < bs)%nat ->
  sim_blocks row n bs = map row (seq 0 n).
Proof.
  intros A row n bs Hb. unfold sim_blocks, sim_block.
  rewrite <- (map_map (fun c : nat * nat => seq (fst c) (snd c - fst c)) (map row)).
  rewrite <- concat_map. rewrite chunks_concat by lia. rewrite Nat.sub_0_r. reflexivity.
Qed.
