(* C17 -- lemmas about the physical layout of supplied arrays (Model/C17_layout.v):
   a strided view shows buf[off + i*s0 + j*s1] at (i, j); flattening its LOGICAL rows and cutting the
   result into vectors of the row length gives the rows back, whatever the strides (so each entity gets its
   own row of a Fortran-ordered / transposed / strided / reversed matrix); flatten() of a sliced list array is
   the range of the child values that starts at the offset of the first list of the slice. *)
From Coq Require Import ZArith List Bool Arith Lia.
From LK Require Import Model.C17_attributes Model.C17_layout Proofs.C17_align Proofs.C17_read.
Import ListNotations.
Local Open Scope nat_scope.

Lemma nd1_length {A} (d : A) buf off st n : length (nd1 d buf off st n) = n.
Proof. unfold nd1. rewrite map_length, seq_length. reflexivity. Qed.

Lemma nd_rows_length {A} (d : A) buf off s0 s1 n m : length (nd_rows d buf off s0 s1 n m) = n.
Proof. unfold nd_rows. rewrite map_length, seq_length. reflexivity. Qed.

Lemma nd_rows_row_length {A} (d : A) buf off s0 s1 n m :
  Forall (fun r => length r = m) (nd_rows d buf off s0 s1 n m).
Proof. unfold nd_rows. apply Forall_forall. intros r H. apply in_map_iff in H. destruct H as [i [E _]]. subst. apply nd1_length. Qed.

Theorem nd_rows_nth_l {A} (d : A) buf off s0 s1 n m i j : i < n -> j < m ->
  nth j (nth i (nd_rows d buf off s0 s1 n m) []) d = buf_at d buf (off + Z.of_nat i * s0 + Z.of_nat j * s1)%Z.
Proof.
  intros Hi Hj. unfold nd_rows. rewrite (nth_map_seq _ n i [] Hi). unfold nd1. rewrite (nth_map_seq _ m j d Hj). reflexivity.
Qed.

Lemma chunk_rows {A} m (rows : list (list A)) : 1 <= m -> Forall (fun r => length r = m) rows ->
  forall extra, chunk (length rows + extra) m (concat rows) = rows.
Proof.
  intros M F. induction F as [|r t Hr Ht IH]; intro extra.
  - cbn. apply chunk_nil.
  - cbn [concat length plus]. rewrite (chunk_cons _ m r _ Hr M). f_equal. apply IH.
Qed.

Theorem ravel_chunk_l {A} (d : A) buf off s0 s1 n m : 1 <= m ->
  chunk n m (ravel (nd_rows d buf off s0 s1 n m)) = nd_rows d buf off s0 s1 n m.
Proof.
  intro M. unfold ravel.
  pose proof (chunk_rows m (nd_rows d buf off s0 s1 n m) M (nd_rows_row_length d buf off s0 s1 n m) 0) as H.
  rewrite nd_rows_length, Nat.add_0_r in H. exact H.
Qed.

Theorem dense_from_numpy_rows_l buf off s0 s1 n m : 1 <= m ->
  dense_from_numpy buf off s0 s1 n m = map Some (nd_rows None buf off s0 s1 n m).
Proof. intro M. unfold dense_from_numpy. rewrite ravel_chunk_l by exact M. reflexivity. Qed.

(* ---------------------------------------------------------------- list arrays *)
Theorem la_window_full_l {A} (la : listarray A) : la_window la 0 (length (la_null la)) = la_decode la.
Proof. reflexivity. Qed.

Lemma firstn_skipn_plus {A} p : forall q (ys : list A), firstn p ys ++ firstn q (skipn p ys) = firstn (p + q) ys.
Proof.
  induction p as [|p IH]; intros q ys; [reflexivity|].
  destruct ys as [|y t]; cbn [firstn skipn plus app].
  - destruct q; reflexivity.
  - f_equal. apply IH.
Qed.

Lemma skipn_plus {A} q : forall p (ys : list A), skipn p (skipn q ys) = skipn (q + p) ys.
Proof.
  induction q as [|q IH]; intros p ys; [reflexivity|].
  destruct ys as [|y t]; cbn [skipn plus]; [apply skipn_nil|apply IH].
Qed.

Lemma slice_app {A} (xs : list A) a b c : a <= b -> b <= c -> slice xs a b ++ slice xs b c = slice xs a c.
Proof.
  intros H1 H2. unfold slice.
  assert (E : skipn b xs = skipn (b - a) (skipn a xs)).
  { rewrite skipn_plus. replace (a + (b - a)) with b by lia. reflexivity. }
  rewrite E, firstn_skipn_plus. replace (b - a + (c - b)) with (c - a) by lia. reflexivity.
Qed.

Lemma flat_values_app {A} (a b : list (option (list A))) : flat_values (a ++ b) = flat_values a ++ flat_values b.
Proof. unfold flat_values. rewrite map_app, concat_app. reflexivity. Qed.

Lemma la_window_S {A} (la : listarray A) o n :
  la_window la o (S n) = la_window la o n ++
    [if nth (o + n) (la_null la) true then None
     else Some (slice (la_values la) (nth (o + n) (la_offsets la) 0) (nth (S (o + n)) (la_offsets la) 0))].
Proof. unfold la_window. rewrite seq_S, map_app. reflexivity. Qed.

Lemma offsets_monotone (offs : list nat) o n :
  (forall r, r < n -> nth (o + r) offs 0 <= nth (S (o + r)) offs 0) -> nth o offs 0 <= nth (o + n) offs 0.
Proof.
  induction n as [|n IH]; intro H.
  - rewrite Nat.add_0_r. lia.
  - assert (H1 : nth o offs 0 <= nth (o + n) offs 0) by (apply IH; intros r Hr; apply H; lia).
    specialize (H n (Nat.lt_succ_diag_r n)). replace (o + S n) with (S (o + n)) by lia. lia.
Qed.

Theorem la_flatten_contiguous_l {A} (la : listarray A) o n :
  (forall r, r < n -> nth (o + r) (la_null la) true = false) ->
  (forall r, r < n -> nth (o + r) (la_offsets la) 0 <= nth (S (o + r)) (la_offsets la) 0) ->
  la_flatten la o n = slice (la_values la) (nth o (la_offsets la) 0) (nth (o + n) (la_offsets la) 0).
Proof.
  induction n as [|n IH]; intros Hn Hm.
  - unfold la_flatten, la_window, flat_values, slice. cbn. rewrite Nat.add_0_r, Nat.sub_diag. reflexivity.
  - unfold la_flatten in *. rewrite la_window_S, flat_values_app.
    rewrite IH; [|intros r Hr; apply Hn; lia|intros r Hr; apply Hm; lia].
    rewrite (Hn n (Nat.lt_succ_diag_r n)). unfold flat_values at 1. cbn [map concat]. rewrite app_nil_r.
    replace (o + S n) with (S (o + n)) by lia.
    apply slice_app.
    + apply offsets_monotone. intros r Hr. apply Hm. lia.
    + apply Hm. lia.
Qed.

(* non-vacuity / meaning of the decoders on concrete buffers: the same 3 x 2 matrix held row-major,
   column-major (Fortran order, = a transposed view), as every second row / column of a larger base, and as a
   reversed view; a list array sliced at 1 *)
Lemma c17_layout_examples :
  let rows := [[1; 2]; [3; 4]; [5; 6]]%Z in
  nd_rows 0%Z [1; 2; 3; 4; 5; 6]%Z 0 2 1 3 2 = rows /\
  nd_rows 0%Z [1; 3; 5; 2; 4; 6]%Z 0 1 3 3 2 = rows /\
  nd_rows 0%Z [1; 9; 2; 9; 9; 9; 9; 9; 3; 9; 4; 9; 9; 9; 9; 9; 5; 9; 6; 9]%Z 0 8 2 3 2 = rows /\
  nd_rows 0%Z [6; 5; 4; 3; 2; 1]%Z 5 (-2) (-1) 3 2 = rows /\
  chunk 3 2 (ravel (nd_rows 0%Z [1; 3; 5; 2; 4; 6]%Z 0 1 3 3 2)) = rows /\
  chunk 3 2 [1; 3; 5; 2; 4; 6]%Z <> rows /\
  let la := mk_la [0; 1; 3; 3; 4] [7; 1; 2; 3]%Z [false; false; false; false] in
  la_window la 1 3 = [Some [1; 2]; Some []; Some [3]]%Z /\ la_flatten la 1 3 = [1; 2; 3]%Z /\ la_values la <> la_flatten la 1 3.
Proof. cbv zeta. repeat split; try (vm_compute; reflexivity); vm_compute; discriminate. Qed.
