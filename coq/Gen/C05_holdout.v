(* GENERATED on every run by harness/translate/c05.py from
   src/lenskit/splitting/holdout.py -- do not edit.
   Each function is the `__call__` body of the class of the same name.  Library calls are
   parameters: round_mul len f = round(len * f); choice a n = rng.choice(a, n, replace=False)
   (None: numpy raised ValueError); argsort = np.argsort.  `len` is len(items); `col` is
   items.field(self.field); the result lists the selected positions of `items`. *)
From Coq Require Import ZArith List Bool.
From LK Require Import Lib.SplitLib.
Import ListNotations.
Open Scope Z_scope.


Definition SampleN_call {F : Type} (round_mul : Z -> F -> option Z) (choice : Z -> Z -> option (list nat)) (argsort : list Z -> list nat) (self_n : Z) (len : Z) (col : option (list Z)) : hres :=
  if (len <=? self_n) then HOk (all_idx len)
  else match choice len self_n with
  | None => HErr EValue
  | Some sel =>
  HOk sel
  end.

Definition SampleFrac_call {F : Type} (round_mul : Z -> F -> option Z) (choice : Z -> Z -> option (list nat)) (argsort : list Z -> list nat) (self_fraction : F) (len : Z) (col : option (list Z)) : hres :=
  match round_mul len self_fraction with
  | None => HErr EValue
  | Some n =>
  match choice len n with
  | None => HErr EValue
  | Some sel =>
  HOk sel
  end
  end.

Definition LastN_call {F : Type} (round_mul : Z -> F -> option Z) (choice : Z -> Z -> option (list nat)) (argsort : list Z -> list nat) (self_n : Z) (len : Z) (col : option (list Z)) : hres :=
  if (len <=? self_n) then HOk (all_idx len)
  else match col with
  | None => HErr EType
  | Some col_1 =>
  let ordered := argsort col_1 in
  HOk (py_slice ordered (Some ((Z.of_nat (length ordered)) - self_n)) None)
  end.

Definition LastFrac_call {F : Type} (round_mul : Z -> F -> option Z) (choice : Z -> Z -> option (list nat)) (argsort : list Z -> list nat) (self_fraction : F) (len : Z) (col : option (list Z)) : hres :=
  match round_mul len self_fraction with
  | None => HErr EValue
  | Some n =>
  if (len <=? n) then HOk (all_idx len)
  else match col with
  | None => HErr EType
  | Some col_1 =>
  let ordered := argsort col_1 in
  HOk (py_slice ordered (Some (Z.max ((Z.of_nat (length ordered)) - n) (0))) None)
  end
  end.
