(* GENERATED on every run by harness/translate/c02.py from
   src/lenskit/pipeline/runner.py, src/lenskit/pipeline/_impl.py and src/lenskit/pipeline/builder.py -- do not edit. *)
From Coq Require Import List String Bool.
Import ListNotations.
Open Scope string_scope.

(* Pipeline.run_all: `runner = PipelineRunner(self, kwargs)` in a local, then runner.run(node) per requested node *)
Definition runner_fresh_per_run : bool := true.
Definition pipeline_methods_assigning_self : list string := [].
(* PipelineRunner.__init__ *)
Definition init_all_pending : bool := true.
Definition init_state_empty : bool := true.
(* members of the pipeline the runner reads (it assigns to none) *)
Definition pipeline_members_used : list string := ["name"; "node"; "node_input_connections"; "nodes"].
(* PipelineRunner.run *)
Definition status_dispatch : list (string * string) := [("finished", "return state if required or present else None"); ("in-progress", "raise PipelineError"); ("failed", "raise RuntimeError")].
Definition status_writes : list string := ["in-progress"; "finished"; "failed"].
Definition handler_reraises_same_exception : bool := true.
(* PipelineBuilder.connect: for each keyword wiring k=n, the tests on n in order and the node name stored *)
Definition connect_wiring : list (string * string) := [("isinstance(n, Node)", "cast(Node[Any], n).name"); ("else", "self.literal(n).name")].
Definition default_connection_body : list string := ["if not isinstance(node, Node): node = self.literal(node)"; "self._default_connections[name] = node.name"].
