(* GENERATED on every run by harness/translate/c04.py from the scorer sources under
   src/lenskit -- do not edit. *)
From Coq Require Import String List.
From LK Require Import Model.C04_scatter.
Import ListNotations.
Open Scope string_scope.

Definition sites : list site :=
  [ ReturnCopy "basic/bias.py" "BiasScorer.__call__" true
  ; LookupItems "basic/bias.py" "BiasModel.compute_for_items" SCandidates PNegative
  ; LookupItems "basic/bias.py" "BiasModel.compute_for_items" SHistory PNegative
  ; LookupUser "basic/bias.py" "BiasModel.compute_for_items" PNone
  ; LookupItems "basic/popularity.py" "PopScorer.__call__" SCandidates PNegative
  ; ReturnCopy "basic/popularity.py" "PopScorer.__call__" true
  ; Guarded "basic/history.py" "KnownRatingScorer.__call__" "row_items behind `in row_vocabulary`"
  ; Reindex "basic/history.py" "KnownRatingScorer.__call__"
  ; ReturnCopy "basic/history.py" "KnownRatingScorer.__call__" true
  ; ReturnCopy "knn/item.py" "ItemKNNScorer.__call__" true
  ; LookupItems "knn/item.py" "ItemKNNScorer.__call__" SHistory PNegative
  ; LookupItems "knn/item.py" "ItemKNNScorer.__call__" SCandidates PNegative
  ; ReturnCopy "knn/item.py" "ItemKNNScorer.__call__" true
  ; ReturnCopy "knn/user.py" "UserKNNScorer.__call__" true
  ; ReturnCopy "knn/user.py" "UserKNNScorer.__call__" true
  ; ReturnCopy "knn/user.py" "UserKNNScorer.__call__" true
  ; LookupItems "knn/user.py" "UserKNNScorer.__call__" SCandidates PNegative
  ; Reindex "knn/user.py" "UserKNNScorer.__call__"
  ; ReturnCopy "knn/user.py" "UserKNNScorer.__call__" true
  ; LookupUser "knn/user.py" "UserKNNScorer._get_user_data" PNone
  ; LookupItems "knn/user.py" "UserKNNScorer._get_user_data" SHistory PNegative
  ; LookupUser "als/_common.py" "ALSBase.__call__" PNone
  ; ReturnCopy "als/_common.py" "ALSBase.__call__" true
  ; LookupItems "als/_common.py" "ALSBase.__call__" SCandidates PNegative
  ; ReturnCopy "als/_common.py" "ALSBase.__call__" true
  ; ReturnCopy "als/_common.py" "ALSBase.finalize_scores" true
  ; LookupItems "als/_explicit.py" "BiasedMFScorer.new_user_embedding" SHistory PNegative
  ; ReturnCopy "als/_explicit.py" "BiasedMFScorer.finalize_scores" true
  ; LookupItems "als/_implicit.py" "ImplicitMFScorer.new_user_embedding" SHistory PNegative
  ; LookupUser "funksvd.py" "FunkSVDScorer.__call__" PNone
  ; ReturnCopy "funksvd.py" "FunkSVDScorer.__call__" true
  ; LookupItems "funksvd.py" "FunkSVDScorer.__call__" SCandidates PNegative
  ; ReturnCopy "funksvd.py" "FunkSVDScorer.__call__" true
  ; LookupUser "sklearn/svd.py" "BiasedSVDScorer.__call__" PNone
  ; ReturnCopy "sklearn/svd.py" "BiasedSVDScorer.__call__" true
  ; LookupItems "sklearn/svd.py" "BiasedSVDScorer.__call__" SCandidates PNegative
  ; ReturnCopy "sklearn/svd.py" "BiasedSVDScorer.__call__" true
  ; LookupUser "flexmf/_base.py" "FlexMFScorerBase.__call__" PNone
  ; ReturnCopy "flexmf/_base.py" "FlexMFScorerBase.__call__" true
  ; LookupItems "flexmf/_base.py" "FlexMFScorerBase.__call__" SCandidates PNegative
  ; ReturnCopy "flexmf/_base.py" "FlexMFScorerBase.__call__" true
  ; LookupUser "implicit.py" "BaseRec.__call__" PNone
  ; ReturnCopy "implicit.py" "BaseRec.__call__" true
  ; LookupItems "implicit.py" "BaseRec.__call__" SCandidates PNegative
  ; ReturnCopy "implicit.py" "BaseRec.__call__" true
  ; LookupUser "hpf.py" "HPFScorer.__call__" PNone
  ; ReturnCopy "hpf.py" "HPFScorer.__call__" true
  ; LookupItems "hpf.py" "HPFScorer.__call__" SCandidates PNegative
  ; ReturnCopy "hpf.py" "HPFScorer.__call__" true ].

(* the scorer entry points inspected (every class of the scorer files that defines __call__(…, items)) *)
Definition entry_points : list (string * string) :=
  [ ("basic/bias.py", "BiasScorer.__call__")
  ; ("basic/popularity.py", "PopScorer.__call__")
  ; ("basic/history.py", "KnownRatingScorer.__call__")
  ; ("knn/item.py", "ItemKNNScorer.__call__")
  ; ("knn/user.py", "UserKNNScorer.__call__")
  ; ("als/_common.py", "ALSBase.__call__")
  ; ("als/_common.py", "ALSBase.finalize_scores")
  ; ("als/_explicit.py", "BiasedMFScorer.finalize_scores")
  ; ("funksvd.py", "FunkSVDScorer.__call__")
  ; ("sklearn/svd.py", "BiasedSVDScorer.__call__")
  ; ("flexmf/_base.py", "FlexMFScorerBase.__call__")
  ; ("implicit.py", "BaseRec.__call__")
  ; ("hpf.py", "HPFScorer.__call__") ].

(* every integer field declared in a configuration class of the scorer files (declaring class, field): each may gate an
   internal path (blocks, batches, truncated neighbourhoods) and must be among the fields the generator sets to small values *)
Definition config_int_fields : list (string * string) :=
  [ ("ALSConfig", "embedding_size")
  ; ("ALSConfig", "epochs")
  ; ("BiasedSVDConfig", "embedding_size")
  ; ("BiasedSVDConfig", "n_iter")
  ; ("FlexMFConfigBase", "batch_size")
  ; ("FlexMFConfigBase", "embedding_size")
  ; ("FlexMFConfigBase", "epochs")
  ; ("FlexMFImplicitConfig", "negative_count")
  ; ("FunkSVDConfig", "epochs")
  ; ("FunkSVDConfig", "features")
  ; ("HPFConfig", "embedding_size")
  ; ("ItemKNNConfig", "block_size")
  ; ("ItemKNNConfig", "max_nbrs")
  ; ("ItemKNNConfig", "min_nbrs")
  ; ("ItemKNNConfig", "save_nbrs")
  ; ("UserKNNConfig", "max_nbrs")
  ; ("UserKNNConfig", "min_nbrs") ].
