(* GENERATED on every run by harness/translate/c06.py from
   src/lenskit/metrics/ranking/{_base,_hit,_pr,_recip,_rbp,_dcg,_pop}.py -- do not edit. *)
From Coq Require Import ZArith QArith Qabs List Bool.
From LK Require Import Lib.QLib Lib.RankLib Model.C06_ranking.
Import ListNotations.
Open Scope Q_scope.


Definition truncate (self_k : option nat) (v_items : ilist) : exc ilist :=
  match self_k with Some self_k_ => (if (il_ordered v_items) then (if (Nat.ltb self_k_ (il_len v_items)) then (Ret (il_slice_to v_items self_k_)) else (Ret v_items)) else (Raise EValue)) | None => (Ret v_items) end.

Definition hit_measure_list (self_k : option nat) (v_recs : ilist) (v_test : tlist) : exc res :=
  if (Nat.eqb (tl_len v_test) 0%nat) then (Ret RNone) else (match truncate self_k v_recs with Raise e => Raise e | Ret v_recs =>
  Ret (RVal (if (np_any (np_isin (il_ids v_recs) (tl_ids v_test))) then ((1 # 1)) else ((0 # 1)))) end).

Definition precision_measure_list (self_k : option nat) (v_recs : ilist) (v_test : tlist) : exc res :=
  match truncate self_k v_recs with Raise e => Raise e | Ret v_recs =>
  let v_nrecs := (il_len v_recs) in
  if (Nat.eqb v_nrecs 0%nat) then (Ret RNone) else (let v_items := (il_ids v_recs) in
  let v_ngood := (mask_count (np_isin v_items (tl_ids v_test))) in
  Ret (np_div (Qofnat v_ngood) (Qofnat v_nrecs))) end.

Definition recall_measure_list (self_k : option nat) (v_recs : ilist) (v_test : tlist) : exc res :=
  match truncate self_k v_recs with Raise e => Raise e | Ret v_recs =>
  let v_items := (il_ids v_recs) in
  let v_ngood := (mask_count (np_isin v_items (tl_ids v_test))) in
  let v_nrel := (tl_len v_test) in
  match self_k with Some self_k_ => (if (Nat.ltb self_k_ v_nrel) then (let v_nrel := self_k_ in
  Ret (np_div (Qofnat v_ngood) (Qofnat v_nrel))) else (Ret (np_div (Qofnat v_ngood) (Qofnat v_nrel)))) | None => (Ret (np_div (Qofnat v_ngood) (Qofnat v_nrel))) end end.

Definition recip_measure_list (self_k : option nat) (v_recs : ilist) (v_test : tlist) : exc res :=
  if (Nat.eqb (tl_len v_test) 0%nat) then (Ret RNone) else (match truncate self_k v_recs with Raise e => Raise e | Ret v_recs =>
  let v_items := (il_ids v_recs) in
  let v_good := (np_isin v_items (tl_ids v_test)) in
  let v_npz := (np_nonzero v_good) in
  if Nat.eqb (@length nat v_npz) 0 then (Ret (RVal (0 # 1))) else (Ret (np_div (1 # 1) (Qplus (Qofnat (nth 0 v_npz 0%nat)) (1 # 1)))) end).

Definition rbp_measure_list (self_k : option nat) (self_patience : Q) (self_normalize : bool) (v_recs : ilist) (v_test : tlist) : exc res :=
  match truncate self_k v_recs with Raise e => Raise e | Ret v_recs =>
  let v_k := (il_len v_recs) in
  let v_nrel := (tl_len v_test) in
  if (Nat.eqb v_nrel 0%nat) then (Ret RNone) else (let v_items := (il_ids v_recs) in
  let v_good := (np_isin v_items (tl_ids v_test)) in
  let v_disc := (np_power self_patience (np_arange 0 v_k)) in
  let v_rbp := (Qsum (mask_select v_disc v_good)) in
  if self_normalize then (let v_max := (Qsum (firstn (Nat.min v_nrel v_k) v_disc)) in
  Ret (np_div v_rbp v_max)) else (Ret (RVal (Qmult v_rbp (Qminus (1 # 1) self_patience))))) end.

Definition rbp_default_patience : Q := (7656119366529843 # 9007199254740992).

Definition rbp_default_normalize : bool := false.

Definition array_dcg (v_scores : list Q) (v_discount : nat -> Q) : Q :=
  let v_scores := v_scores in
  let v_ranks := (np_arange 1%nat ((@length Q v_scores) + 1%nat)%nat) in
  let v_disc := (map v_discount v_ranks) in
  let v_disc := (np_maximum v_disc (1 # 1)) in
  let v_disc := (np_reciprocal v_disc) in
  (dot v_scores v_disc).

Definition fixed_dcg (v_n : nat) (v_discount : nat -> Q) : Q :=
  let v_ranks := (np_arange 1%nat (v_n + 1%nat)%nat) in
  let v_disc := (map v_discount v_ranks) in
  let v_disc := (np_maximum v_disc (1 # 1)) in
  let v_disc := (np_reciprocal v_disc) in
  (Qsum v_disc).

Definition dcg_measure_list (self_k : option nat) (self_discount : nat -> Q) (self_gain : bool) (v_recs : ilist) (v_test : tlist) : exc res :=
  match truncate self_k v_recs with Raise e => Raise e | Ret v_recs =>
  let v_items := (il_ids v_recs) in
  if self_gain then (let v_gains := (tl_field v_test) in
  match v_gains with Some v_gains_ => (let v_scores := (ser_reindex v_gains_ v_items (0 # 1)) in
  Ret (RVal (array_dcg v_scores self_discount))) | None => (Raise EKey) end) else (let v_scores := (np_zeros (length v_items)) in
  let v_scores := mask_set v_scores (np_isin v_items (tl_ids v_test)) (1 # 1) in
  Ret (RVal (array_dcg v_scores self_discount))) end.

Definition ndcg_measure_list (self_k : option nat) (self_discount : nat -> Q) (self_gain : bool) (v_recs : ilist) (v_test : tlist) : exc res :=
  match truncate self_k v_recs with Raise e => Raise e | Ret v_recs =>
  let v_items := (il_ids v_recs) in
  if self_gain then (let v_gains := (tl_field v_test) in
  match v_gains with Some v_gains_ => (let v_scores := (ser_reindex v_gains_ v_items (0 # 1)) in
  match self_k with Some self_k_ => (if Nat.eqb self_k_ 0 then (let v_gains := (ser_sort_desc v_gains_) in
  let v_ideal := (array_dcg (ser_values v_gains) self_discount) in
  let v_realized := (array_dcg v_scores self_discount) in
  Ret (np_div v_realized v_ideal)) else (let v_gains := (ser_nlargest self_k_ v_gains_) in
  let v_ideal := (array_dcg (ser_values v_gains) self_discount) in
  let v_realized := (array_dcg v_scores self_discount) in
  Ret (np_div v_realized v_ideal))) | None => (let v_gains := (ser_sort_desc v_gains_) in
  let v_ideal := (array_dcg (ser_values v_gains) self_discount) in
  let v_realized := (array_dcg v_scores self_discount) in
  Ret (np_div v_realized v_ideal)) end) | None => (Raise EKey) end) else (let v_scores := (np_zeros (length v_items)) in
  let v_scores := mask_set v_scores (np_isin v_items (tl_ids v_test)) (1 # 1) in
  let v_n := (tl_len v_test) in
  match self_k with Some self_k_ => (if Nat.eqb self_k_ 0 then (let v_ideal := (fixed_dcg v_n self_discount) in
  let v_realized := (array_dcg v_scores self_discount) in
  Ret (np_div v_realized v_ideal)) else (if (Nat.ltb self_k_ v_n) then (let v_n := self_k_ in
  let v_ideal := (fixed_dcg v_n self_discount) in
  let v_realized := (array_dcg v_scores self_discount) in
  Ret (np_div v_realized v_ideal)) else (let v_ideal := (fixed_dcg v_n self_discount) in
  let v_realized := (array_dcg v_scores self_discount) in
  Ret (np_div v_realized v_ideal)))) | None => (let v_ideal := (fixed_dcg v_n self_discount) in
  let v_realized := (array_dcg v_scores self_discount) in
  Ret (np_div v_realized v_ideal)) end) end.

Definition pop_measure_list (self_k : option nat) (self_item_ranks : gseries) (v_recs : ilist) (v_test : tlist) : exc res :=
  match truncate self_k v_recs with Raise e => Raise e | Ret v_recs =>
  let v_nrecs := (il_len v_recs) in
  if (Nat.eqb v_nrecs 0%nat) then (Ret RNone) else (let v_items := (il_ids v_recs) in
  let v_ranks := (ser_reindex self_item_ranks v_items (0 # 1)) in
  Ret (arr_mean v_ranks)) end.

(* MeanPopRank.__init__ has the expected shape: positive counts, rank(method='average', ascending=True),
   divided by len(pos), re-indexed over all items with 0 *)
Definition pop_init_shape_checked : bool := true.
