(* GENERATED on every run by harness/translate/c03.py from
   src/lenskit/basic/topn.py (TopNRanker.__call__) and src/lenskit/stats.py (argtopn) -- do not edit. *)
From Coq Require Import ZArith Bool List.
From LK Require Import Lib.PyInt.
Import ListNotations.
Open Scope Z_scope.

Definition topn_len (n : pyv) (config_n : pyv) : res outcome :=
  bind (py_is_none (py_val n)) (fun c_ : bool => if c_
  then (bind (py_or (py_val config_n) (py_int (-1))) (fun n =>
  ret (Take n true)))
  else (ret (Take n true))).

(* argtopn(xs, n): NaN entries are masked out and argtopn re-applied with the same n to the rest
   (positions mapped back through the mask); on a NaN-free array of length N: *)
Definition argtopn_plan (n_ N_ : Z) : res plan :=
  let n : pyv := Some n_ in let N : pyv := Some N_ in
  bind (py_eq (py_val n) (py_int (0))) (fun c_ : bool => if c_ then ret PEmpty else
  bind (c_and (py_ge (py_val n) (py_int (0))) (py_lt (py_val n) (py_val N))) (fun c_ : bool => if c_ then ret PPart else ret PFull)).
