(* GENERATED on every run by harness/translate/c11.py from src/lenskit -- do not edit.
   rng_graph: every function that takes randomness, reduced to draws, calls to other such functions
   (with how their randomness argument is supplied) and uses of process-global randomness. *)
From Coq Require Import List Bool String.
From LK Require Import Model.C11_seeds.
Import ListNotations.
Local Open Scope string_scope.

Definition rng_graph : list fn := [
  {| fn_name := "set_global_rng"; fn_takes := true; fn_primitive := true;
     fn_body := [SCall "lib:default_rng" ASeeded; SGlobal "state-kept-in-module-state:_global_rng"] |};
  {| fn_name := "random_generator"; fn_takes := true; fn_primitive := true;
     fn_body := [SCall "lib:default_rng" ASeeded] |};
  {| fn_name := "FixedRNG.__init__"; fn_takes := true; fn_primitive := true;
     fn_body := [] |};
  {| fn_name := "FixedRNG.__call__"; fn_takes := true; fn_primitive := true;
     fn_body := [] |};
  {| fn_name := "FixedRNG.__str__"; fn_takes := true; fn_primitive := false;
     fn_body := [] |};
  {| fn_name := "DerivingRNG.__init__"; fn_takes := true; fn_primitive := true;
     fn_body := [] |};
  {| fn_name := "DerivingRNG.__call__"; fn_takes := true; fn_primitive := true;
     fn_body := [SCall "lib:np.random.default_rng" ASeeded; SCall "lib:default_rng" ASeeded] |};
  {| fn_name := "DerivingRNG.__str__"; fn_takes := true; fn_primitive := false;
     fn_body := [] |};
  {| fn_name := "derivable_rng"; fn_takes := true; fn_primitive := true;
     fn_body := [SCall "DerivingRNG.__init__" AUnseeded; SGlobal "SeedSequence()"; SCall "DerivingRNG.__init__" ASeeded; SCall "FixedRNG.__init__" ASeeded; SCall "lib:default_rng" ASeeded] |};
  {| fn_name := "TrainingOptions.random_generator"; fn_takes := true; fn_primitive := false;
     fn_body := [SCall "random_generator" ASeeded] |};
  {| fn_name := "IterativeTraining.train"; fn_takes := true; fn_primitive := false;
     fn_body := [SCall "training_loop" ASeeded] |};
  {| fn_name := "IterativeTraining.training_loop"; fn_takes := true; fn_primitive := false;
     fn_body := [] |};
  {| fn_name := "Pipeline.train"; fn_takes := true; fn_primitive := false;
     fn_body := [SCall "lib:SeedSequence" ASeeded; SCall "train" ASeeded] |};
  {| fn_name := "crossfold_records"; fn_takes := true; fn_primitive := false;
     fn_body := [SCall "random_generator" ASeeded; SDraw] |};
  {| fn_name := "sample_records"; fn_takes := true; fn_primitive := false;
     fn_body := [SCall "random_generator" ASeeded; SDraw; SCall "crossfold_records" ASeeded; SCall "_disjoint_samples" ASeeded; SCall "_n_samples" ASeeded] |};
  {| fn_name := "_disjoint_samples"; fn_takes := true; fn_primitive := false;
     fn_body := [SDraw] |};
  {| fn_name := "_n_samples"; fn_takes := true; fn_primitive := false;
     fn_body := [SDraw] |};
  {| fn_name := "crossfold_users"; fn_takes := true; fn_primitive := false;
     fn_body := [SCall "random_generator" ASeeded; SDraw] |};
  {| fn_name := "sample_users"; fn_takes := true; fn_primitive := false;
     fn_body := [SCall "random_generator" ASeeded; SCall "crossfold_users" ASeeded; SDraw; SDraw; SDraw] |};
  {| fn_name := "SampleN.__init__"; fn_takes := true; fn_primitive := false;
     fn_body := [SCall "random_generator" ASeeded] |};
  {| fn_name := "SampleN.__call__"; fn_takes := true; fn_primitive := false;
     fn_body := [SDraw] |};
  {| fn_name := "SampleFrac.__init__"; fn_takes := true; fn_primitive := false;
     fn_body := [SCall "random_generator" ASeeded] |};
  {| fn_name := "SampleFrac.__call__"; fn_takes := true; fn_primitive := false;
     fn_body := [SDraw] |};
  {| fn_name := "RandomSelector.__call__"; fn_takes := true; fn_primitive := false;
     fn_body := [SDraw] |};
  {| fn_name := "SoftmaxRanker.__call__"; fn_takes := true; fn_primitive := false;
     fn_body := [SDraw] |};
  {| fn_name := "StochasticTopNRanker.__call__"; fn_takes := true; fn_primitive := false;
     fn_body := [SDraw] |};
  {| fn_name := "MatrixRelationshipSet.sample_negatives"; fn_takes := true; fn_primitive := false;
     fn_body := [SCall "random_generator" ASeeded; SDraw; SDraw; SCall "MatrixRelationshipSet._check_negatives_and_resample" ASeeded; SCall "MatrixRelationshipSet._check_negatives_and_resample" ASeeded] |};
  {| fn_name := "MatrixRelationshipSet._check_negatives_and_resample"; fn_takes := true; fn_primitive := false;
     fn_body := [SCall "MatrixRelationshipSet.sample_negatives" ASeeded] |};
  {| fn_name := "ALSBase.training_loop"; fn_takes := true; fn_primitive := false;
     fn_body := [SCall "TrainingOptions.random_generator" ASeeded; SCall "ALSBase.initialize_params" ASeeded] |};
  {| fn_name := "ALSBase.initialize_params"; fn_takes := true; fn_primitive := false;
     fn_body := [SCall "initial_params" ASeeded; SCall "initial_params" ASeeded] |};
  {| fn_name := "ALSBase.initial_params"; fn_takes := true; fn_primitive := false;
     fn_body := [] |};
  {| fn_name := "ALSBase.als_half_epoch"; fn_takes := true; fn_primitive := false;
     fn_body := [] |};
  {| fn_name := "BiasedMFScorer.initial_params"; fn_takes := true; fn_primitive := false;
     fn_body := [SDraw] |};
  {| fn_name := "BiasedMFScorer.als_half_epoch"; fn_takes := true; fn_primitive := false;
     fn_body := [] |};
  {| fn_name := "ImplicitMFScorer.initial_params"; fn_takes := true; fn_primitive := false;
     fn_body := [SDraw] |};
  {| fn_name := "ImplicitMFScorer.als_half_epoch"; fn_takes := true; fn_primitive := false;
     fn_body := [] |};
  {| fn_name := "FunkSVDScorer.train"; fn_takes := true; fn_primitive := false;
     fn_body := [SCall "TrainingOptions.random_generator" ASeeded; SDraw] |};
  {| fn_name := "FlexMFScorerBase.training_loop"; fn_takes := true; fn_primitive := false;
     fn_body := [SCall "FlexMFScorerBase.prepare_context" ASeeded; SCall "prepare_data" ASeeded; SCall "create_model" ASeeded; SCall "FlexMFScorerBase._training_loop_impl" ASeeded] |};
  {| fn_name := "FlexMFScorerBase.prepare_context"; fn_takes := true; fn_primitive := false;
     fn_body := [SCall "TrainingOptions.random_generator" ASeeded; SDraw; SCall "lib:FlexMFTrainingContext" ASeeded] |};
  {| fn_name := "FlexMFScorerBase.prepare_data"; fn_takes := true; fn_primitive := false;
     fn_body := [] |};
  {| fn_name := "FlexMFScorerBase.create_model"; fn_takes := true; fn_primitive := false;
     fn_body := [] |};
  {| fn_name := "FlexMFScorerBase.create_optimizer"; fn_takes := true; fn_primitive := false;
     fn_body := [] |};
  {| fn_name := "FlexMFScorerBase._training_loop_impl"; fn_takes := true; fn_primitive := false;
     fn_body := [SCall "FlexMFScorerBase.create_optimizer" ASeeded; SCall "FlexMFTrainingData.epoch" ASeeded; SCall "train_batch" ASeeded] |};
  {| fn_name := "FlexMFScorerBase.train_batch"; fn_takes := true; fn_primitive := false;
     fn_body := [] |};
  {| fn_name := "FlexMFTrainingData.epoch"; fn_takes := true; fn_primitive := false;
     fn_body := [SDraw] |};
  {| fn_name := "FlexMFModel.__init__"; fn_takes := true; fn_primitive := false;
     fn_body := [SCall "lib:nn.init.normal_" ASeeded; SCall "lib:nn.init.normal_" ASeeded; SCall "lib:nn.init.normal_" ASeeded; SCall "lib:nn.init.normal_" ASeeded] |};
  {| fn_name := "FlexMFExplicitScorer.prepare_data"; fn_takes := true; fn_primitive := false;
     fn_body := [] |};
  {| fn_name := "FlexMFExplicitScorer.create_model"; fn_takes := true; fn_primitive := false;
     fn_body := [SCall "FlexMFModel.__init__" ASeeded] |};
  {| fn_name := "FlexMFExplicitScorer.train_batch"; fn_takes := true; fn_primitive := false;
     fn_body := [] |};
  {| fn_name := "FlexMFImplicitScorer.prepare_data"; fn_takes := true; fn_primitive := false;
     fn_body := [] |};
  {| fn_name := "FlexMFImplicitScorer.create_model"; fn_takes := true; fn_primitive := false;
     fn_body := [SCall "FlexMFModel.__init__" ASeeded] |};
  {| fn_name := "FlexMFImplicitScorer.train_batch"; fn_takes := true; fn_primitive := false;
     fn_body := [SCall "MatrixRelationshipSet.sample_negatives" ASeeded] |};
  {| fn_name := "BiasedSVDScorer.train"; fn_takes := true; fn_primitive := false;
     fn_body := [SCall "TrainingOptions.random_generator" ASeeded; SCall "lib:TruncatedSVD" ASeeded; SDraw] |};
  {| fn_name := "ItemKNNScorer.train"; fn_takes := true; fn_primitive := false;
     fn_body := [] |}
].

(* method families: a call through an object resolves to one of these, decided by the objects at hand *)
Definition families : list (string * list string) := [
  ("create_model", ["FlexMFExplicitScorer.create_model"; "FlexMFImplicitScorer.create_model"; "FlexMFScorerBase.create_model"]);
  ("initial_params", ["ALSBase.initial_params"; "BiasedMFScorer.initial_params"; "ImplicitMFScorer.initial_params"]);
  ("prepare_data", ["FlexMFExplicitScorer.prepare_data"; "FlexMFImplicitScorer.prepare_data"; "FlexMFScorerBase.prepare_data"]);
  ("train", ["BiasedSVDScorer.train"; "FunkSVDScorer.train"; "ItemKNNScorer.train"; "IterativeTraining.train"; "Pipeline.train"]);
  ("train_batch", ["FlexMFExplicitScorer.train_batch"; "FlexMFImplicitScorer.train_batch"; "FlexMFScorerBase.train_batch"]);
  ("training_loop", ["ALSBase.training_loop"; "FlexMFScorerBase.training_loop"; "IterativeTraining.training_loop"])
].

Definition random_generator_shape_ok : bool := true.
(* random_generator(seed): the global generator is used only when no seed is given AND one was installed *)
Definition random_generator_plan (seed_given global_set : bool) : rg_plan :=
  if negb seed_given && global_set then UseGlobal else FromArgument.

Definition deriving_shape_ok : bool := true.
(* DerivingRNG.__call__: anonymous -> spawn (stateful), identified -> make_seed(base, user) (stateless) *)
Definition deriving_plan (has_user : bool) : derive_plan := if has_user then DeriveFromUser else SpawnNext.

(* TrainingOptions.random_generator(): FreshPerCall = every call builds a generator from the seed alone, nothing is kept on
   the options object; Memoised = some method of TrainingOptions keeps state on the object *)
Definition training_options_plan : opt_plan := FreshPerCall.

Definition stateless_rankers : list string := ["RandomSelector"; "SoftmaxRanker"; "StochasticTopNRanker"].
Definition fanout_loops : list (string * join_kind) := [("_train_update_fanout", JScatter); ("_train_implicit_cholesky_fanout", JScatter); ("_sim_blocks", JConcat)].
