(* GENERATED on every run by harness/translate/c01.py from src/lenskit/data/schema.py (id_col_name, num_col_name),
   builder.py (DatasetBuilder.add_relationships: the columns of the stored table) and relationships.py (RelationshipSet.__init__,
   attribute_names, arrow) -- do not edit.  Column names are strings; a table is the list of its column names. *)
From Coq Require Import String List Bool.
Import ListNotations.

(* Python `x in names` *)
Definition mem_s (x : string) (l : list string) : bool := existsb (String.eqb x) l.


(* schema.py: id_col_name *)
Definition id_col_name (name : string) : string := String.append name ("_id").

(* schema.py: num_col_name *)
Definition num_col_name (name : string) : string := String.append name ("_num").

(* builder.py: DatasetBuilder.add_relationships -- the columns of the table stored for a frame with the columns
   `frame_cols`: the link columns of the entities, then each frame column that passes the test of the copy loop *)
Definition stored_cols (entities frame_cols : list string) : list string :=
  (map num_col_name entities ++ filter (fun col => (negb (mem_s col (map id_col_name entities)))) frame_cols)%list.

(* relationships.py: RelationshipSet.__init__ -- self._link_cols *)
Definition link_cols (entities : list string) : list string := map num_col_name entities.

(* relationships.py: RelationshipSet.attribute_names *)
Definition attribute_names (entities table_cols : list string) : list string :=
  filter (fun c => (negb (mem_s c (link_cols entities)))) table_cols.

(* relationships.py: RelationshipSet.arrow(ids=True) -- one id column per entity, then every column of the table
   that the copy loop does not skip *)
Definition ids_view_cols (entities table_cols : list string) : list string :=
  (map id_col_name entities ++ filter (fun col => negb (mem_s col (link_cols entities))) table_cols)%list.

(* relationships.py: RelationshipSet.arrow(attributes=...) -- None: FieldError; `cols` are the link columns, or the id
   columns when ids=True *)
Definition select_cols (cols attr_cols table_cols : list string) : option (list string) :=
  if forallb (fun ac => mem_s ac table_cols) attr_cols then Some (cols ++ attr_cols)%list else None.
