(* GENERATED on every run by harness/translate/c04.py from src/lenskit/data/items.py
   (ItemList.ids, ItemList.numbers) -- do not edit. *)
From LK Require Import Model.C04_repr.

(* ItemList.numbers(vocabulary=V) with V not the list's own vocabulary object: ids = self.ids(); mta = MTArray(vocabulary.numbers(ids, missing=missing)); return mta.to(format) *)
Definition foreign_rule_in_source : foreign_rule := ThroughIds.
