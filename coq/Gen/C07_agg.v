(* GENERATED on every run by harness/translate/c07.py from
   src/lenskit/metrics/predict.py and src/lenskit/metrics/bulk.py -- do not edit. *)
From Coq Require Import ZArith QArith Qabs List Bool.
From LK Require Import Lib.QLib.
Import ListNotations.
Open Scope Q_scope.

Definition rmse_measure_list (aligned : series * series) : res :=
  let '(ps, ts) := aligned in
  let err := (ser_sub ps ts) in
  let err := (ser_mul err err) in
  (res_sqrt_opt (ser_mean err)).

Definition rmse_compute_list_data (aligned : series * series) : (Q * Q) :=
  let '(ps, ts) := aligned in
  let err := (ser_sub ps ts) in
  let err := (ser_mul err err) in
  ((ser_sum err), (ser_count err)).

Definition rmse_extract_list_metric (metric : Q * Q) : res :=
  let '(tot, n) := metric in
  if (Qltb (0 # 1) n) then ((RSqrt (Qdiv tot n)))
  else (RNone).

Definition rmse_global_aggregate (values : list (Q * Q)) : res :=
  let tot_sqerr := (0 # 1) in
  let tot_n := (0 # 1) in
  let '(tot_sqerr, tot_n) := fold_left (fun st el => let '(tot_sqerr, tot_n) := st in let '(t, n) := el in let tot_sqerr := (Qplus tot_sqerr t) in let tot_n := (Qplus tot_n n) in (tot_sqerr, tot_n)) values (tot_sqerr, tot_n) in
  if (Qltb (0 # 1) tot_n) then ((RSqrt (Qdiv tot_sqerr tot_n)))
  else (RNone).

Definition mae_measure_list (aligned : series * series) : res :=
  let '(ps, ts) := aligned in
  let err := (ser_sub ps ts) in
  (res_of_opt (ser_mean (ser_abs err))).

Definition mae_compute_list_data (aligned : series * series) : (Q * Q) :=
  let '(ps, ts) := aligned in
  let err := (ser_sub ps ts) in
  ((ser_sum (ser_abs err)), (ser_count err)).

Definition mae_extract_list_metric (metric : Q * Q) : res :=
  let '(tot, n) := metric in
  if (Qltb (0 # 1) n) then ((RVal (Qdiv tot n)))
  else (RNone).

Definition mae_global_aggregate (values : list (Q * Q)) : res :=
  let tot_err := (0 # 1) in
  let tot_n := (0 # 1) in
  let '(tot_err, tot_n) := fold_left (fun st el => let '(tot_err, tot_n) := st in let '(t, n) := el in let tot_err := (Qplus tot_err t) in let tot_n := (Qplus tot_n n) in (tot_err, tot_n)) values (tot_err, tot_n) in
  if (Qltb (0 # 1) tot_n) then ((RVal (Qdiv tot_err tot_n)))
  else (RNone).

Section Bulk.
Context {Tbl Dfl : Type} (fill : Tbl -> Dfl -> Tbl).

Definition list_metrics (tbl : Tbl) (defaults : Dfl) (fill_missing : bool) : Tbl :=
  if fill_missing then ((fill tbl defaults))
  else (tbl).

End Bulk.

Inductive stat := SMean | SMedian | SStd.

Definition list_summary_fill : bool := true.

Definition list_summary_stats : list stat := [SMean; SMedian; SStd].
