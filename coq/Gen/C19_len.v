(* GENERATED on every run by harness/translate/c19.py from
   src/lenskit/basic/random.py, src/lenskit/stochastic/_ranker.py and src/lenskit/random.py -- do not edit. *)
From Coq Require Import ZArith Bool List.
From LK Require Import Lib.PyInt Lib.C19Rules.
Import ListNotations.
Open Scope Z_scope.

Definition random_len (n : pyv) (config_n : pyv) (len_items : Z) : res outcome :=
  bind (py_is_none (py_val n)) (fun c_ : bool => if c_
  then (bind (py_or (py_val config_n) (py_int (-1))) (fun n =>
  bind (py_lt (py_val n) (py_int (0))) (fun c_ : bool => if c_
  then (bind (py_int len_items) (fun n =>
  bind (py_gt (py_val n) (py_int (0))) (fun c_ : bool => if c_
  then (ret (Take n false))
  else (ret (EmptyList false)))))
  else (bind (py_min (py_val n) (py_int len_items)) (fun n =>
  bind (py_gt (py_val n) (py_int (0))) (fun c_ : bool => if c_
  then (ret (Take n false))
  else (ret (EmptyList false))))))))
  else (bind (py_lt (py_val n) (py_int (0))) (fun c_ : bool => if c_
  then (bind (py_int len_items) (fun n =>
  bind (py_gt (py_val n) (py_int (0))) (fun c_ : bool => if c_
  then (ret (Take n false))
  else (ret (EmptyList false)))))
  else (bind (py_min (py_val n) (py_int len_items)) (fun n =>
  bind (py_gt (py_val n) (py_int (0))) (fun c_ : bool => if c_
  then (ret (Take n false))
  else (ret (EmptyList false)))))))).
Definition random_mask : mask_kind := MAll.
Definition random_draw : draw_rule := DrawChoiceNoReplace.   (* the only use of the generator *)

Definition softmax_len (n : pyv) (config_n : pyv) (len_valid_items : Z) : res outcome :=
  bind (py_int len_valid_items) (fun N =>
  bind (py_eq (py_val N) (py_int (0))) (fun c_ : bool => if c_
  then (ret (EmptyList true))
  else (bind (c_or (py_is_none (py_val n)) (py_lt (py_val n) (py_int (0)))) (fun c_ : bool => if c_
  then (bind (py_or (py_val config_n) (py_int (-1))) (fun n =>
  bind (c_or (py_lt (py_val n) (py_int (0))) (py_gt (py_val n) (py_val N))) (fun c_ : bool => if c_
  then (bind (py_val N) (fun n =>
  ret (Take n true)))
  else (ret (Take n true)))))
  else (bind (c_or (py_lt (py_val n) (py_int (0))) (py_gt (py_val n) (py_val N))) (fun c_ : bool => if c_
  then (bind (py_val N) (fun n =>
  ret (Take n true)))
  else (ret (Take n true)))))))).
Definition softmax_mask : mask_kind := MNotNan.
Definition softmax_draw : uniform_rule := DrawUniform01PerEligible.   (* the only use of the generator *)
Definition softmax_keys : key_rule := KLogUOverW.   (* log(U) / max(weight, tiny), largest first *)

Definition stochastic_len (n : pyv) (config_n : pyv) (len_valid_items : Z) : res outcome :=
  bind (py_int len_valid_items) (fun N =>
  bind (py_eq (py_val N) (py_int (0))) (fun c_ : bool => if c_
  then (ret (EmptyList true))
  else (bind (c_or (py_is_none (py_val n)) (py_lt (py_val n) (py_int (0)))) (fun c_ : bool => if c_
  then (bind (py_or (py_val config_n) (py_int (-1))) (fun n =>
  bind (c_or (py_lt (py_val n) (py_int (0))) (py_gt (py_val n) (py_val N))) (fun c_ : bool => if c_
  then (bind (py_val N) (fun n =>
  ret (Take n true)))
  else (ret (Take n true)))))
  else (bind (c_or (py_lt (py_val n) (py_int (0))) (py_gt (py_val n) (py_val N))) (fun c_ : bool => if c_
  then (bind (py_val N) (fun n =>
  ret (Take n true)))
  else (ret (Take n true)))))))).
Definition stochastic_mask : mask_kind := MFinite.
Definition stochastic_draw : uniform_rule := DrawUniform01PerEligible.   (* the only use of the generator *)
Definition stochastic_keys : key_rule := KLogUOverW.   (* log(U) / max(weight, tiny), largest first *)
Definition stochastic_scale : scale_rule := ScaleBeforeTransform.   (* weights = transform(scale * score) *)
Definition stochastic_transforms : list transform_rule := [TrLinearMinMax; TrSoftmax; TrRawClamp].

Definition seed_digest : digest_rule := DigestMd5XorFold.   (* _bytes_seed = abs(xor-fold of md5(key) as int32 words) *)
Definition seed_words : list word_rule := [WSkipNone; WSeedSequenceEntropy; WNumpyInt; WInt; WDigestUuidBytes; WDigestUtf8; WDigestBytes; WIntSequence].
Definition seed_derivation : derive_rule := DeriveChildIfAnonymousElseBaseAndUser.
Definition seed_specs : list spec_rule := [SpecUserFreshEntropy; SpecSeedUser; SpecFixedGenerator].
