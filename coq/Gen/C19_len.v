(* GENERATED on every run by harness/translate/c19.py from
   src/lenskit/basic/random.py and src/lenskit/stochastic/_ranker.py -- do not edit. *)
From Coq Require Import ZArith Bool List.
From LK Require Import Lib.PyInt.
Import ListNotations.
Open Scope Z_scope.

Definition random_len (n : pyv) (config_n : pyv) (len_items : Z) : res outcome :=
  bind (py_is_none (py_val n)) (fun c_ : bool => if c_
  then (bind (py_or (py_val config_n) (py_int (-1))) (fun n =>
  bind (py_lt (py_val n) (py_int (0))) (fun c_ : bool => if c_
  then (bind (py_int len_items) (fun n =>
  bind (py_gt (py_val n) (py_int (0))) (fun c_ : bool => if c_
  then (ret (Take n false))
  else (ret (EmptyList false)))))
  else (bind (py_min (py_val n) (py_int len_items)) (fun n =>
  bind (py_gt (py_val n) (py_int (0))) (fun c_ : bool => if c_
  then (ret (Take n false))
  else (ret (EmptyList false))))))))
  else (bind (py_lt (py_val n) (py_int (0))) (fun c_ : bool => if c_
  then (bind (py_int len_items) (fun n =>
  bind (py_gt (py_val n) (py_int (0))) (fun c_ : bool => if c_
  then (ret (Take n false))
  else (ret (EmptyList false)))))
  else (bind (py_min (py_val n) (py_int len_items)) (fun n =>
  bind (py_gt (py_val n) (py_int (0))) (fun c_ : bool => if c_
  then (ret (Take n false))
  else (ret (EmptyList false)))))))).
Definition random_mask : mask_kind := MAll.

Definition softmax_len (n : pyv) (config_n : pyv) (len_valid_items : Z) : res outcome :=
  bind (py_int len_valid_items) (fun N =>
  bind (py_eq (py_val N) (py_int (0))) (fun c_ : bool => if c_
  then (ret (EmptyList true))
  else (bind (c_or (py_is_none (py_val n)) (py_lt (py_val n) (py_int (0)))) (fun c_ : bool => if c_
  then (bind (py_or (py_val config_n) (py_int (-1))) (fun n =>
  bind (c_or (py_lt (py_val n) (py_int (0))) (py_gt (py_val n) (py_val N))) (fun c_ : bool => if c_
  then (bind (py_val N) (fun n =>
  ret (Take n true)))
  else (ret (Take n true)))))
  else (bind (c_or (py_lt (py_val n) (py_int (0))) (py_gt (py_val n) (py_val N))) (fun c_ : bool => if c_
  then (bind (py_val N) (fun n =>
  ret (Take n true)))
  else (ret (Take n true)))))))).
Definition softmax_mask : mask_kind := MNotNan.
Definition softmax_keys : key_rule := KLogUOverW.   (* log(U) / max(weight, tiny), largest first *)

Definition stochastic_len (n : pyv) (config_n : pyv) (len_valid_items : Z) : res outcome :=
  bind (py_int len_valid_items) (fun N =>
  bind (py_eq (py_val N) (py_int (0))) (fun c_ : bool => if c_
  then (ret (EmptyList true))
  else (bind (c_or (py_is_none (py_val n)) (py_lt (py_val n) (py_int (0)))) (fun c_ : bool => if c_
  then (bind (py_or (py_val config_n) (py_int (-1))) (fun n =>
  bind (c_or (py_lt (py_val n) (py_int (0))) (py_gt (py_val n) (py_val N))) (fun c_ : bool => if c_
  then (bind (py_val N) (fun n =>
  ret (Take n true)))
  else (ret (Take n true)))))
  else (bind (c_or (py_lt (py_val n) (py_int (0))) (py_gt (py_val n) (py_val N))) (fun c_ : bool => if c_
  then (bind (py_val N) (fun n =>
  ret (Take n true)))
  else (ret (Take n true)))))))).
Definition stochastic_mask : mask_kind := MFinite.
Definition stochastic_keys : key_rule := KLogUOverW.   (* log(U) / max(weight, tiny), largest first *)
Definition stochastic_scale : scale_rule := ScaleBeforeTransform.   (* weights = transform(scale * score) *)
Definition stochastic_transforms : list transform_rule := [TrLinearMinMax; TrSoftmax; TrRawClamp].
