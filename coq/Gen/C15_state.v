(* GENERATED on every run by harness/translate/c15.py from
   src/lenskit/data/items.py -- do not edit.
   itemlist_attrs   : every attribute an ItemList object can carry (class-level declarations and every
                      attribute assigned or deleted anywhere in the class), sorted
   itemlist_dict_ops: every statement of the class that touches __dict__ / setattr / vars / __slots__
   *_shape          : the method as a list of (guards on the path, statement) *)
From Coq Require Import List String.
Import ListNotations.
Open Scope string_scope.

Definition itemlist_attrs : list string := ["_fields"; "_ids"; "_len"; "_numbers"; "_ranks"; "_vocab"; "ordered"].

Definition itemlist_dict_ops : list string := ["self.__dict__.update(source.__dict__)"].

Definition getstate_shape : list (string * string) := [
  ("", "state: dict[str, object] = {'ordered': self.ordered, 'len': self._len}");
  ("self._ids is not None", "state['ids'] = self._ids");
  ("not (self._ids is not None) && self._vocab is not None", "state['ids'] = self.ids()");
  ("self._numbers is not None", "state['numbers'] = self._numbers.numpy()");
  ("not (self._numbers is not None) && self._vocab is not None", "state['numbers'] = self.numbers(missing='negative')");
  ("self.ordered and self._ranks is not None", "ranks = self._ranks.numpy()");
  ("self.ordered and self._ranks is not None && not np.array_equal(ranks, np.arange(1, self._len + 1))", "state['ranks'] = ranks");
  ("", "state.update((('field_' + k, v.numpy()) for k, v in self._fields.items()))");
  ("", "return state")].

Definition setstate_shape : list (string * string) := [
  ("", "self.ordered = state['ordered']");
  ("", "self._len = state['len']");
  ("", "self._ids = state.get('ids', None)");
  ("'numbers' in state", "self._numbers = MTArray(state['numbers'])");
  ("'ranks' in state", "self._ranks = MTArray(state['ranks'])");
  ("", "self._fields = {k[6:]: MTArray(v) for k, v in state.items() if k.startswith('field_')}")].

Definition arrow_types_shape : list (string * string) := [
  ("", "types: dict[str, pa.DataType] = {}");
  ("len(self) == 0", "return types");
  ("ids && self._ids is not None", "types['item_id'] = _arrow_type(self._ids.dtype)");
  ("ids && not (self._ids is not None) && self._vocab is not None", "types['item_id'] = _arrow_type(self._vocab.ids().dtype)");
  ("numbers and (self._numbers is not None or self._vocab is not None)", "types['item_num'] = pa.int32()");
  ("self.ordered", "types['rank'] = pa.int32()");
  ("for (name, f) in self._fields.items()", "types[name] = _arrow_type(f.numpy().dtype)");
  ("", "return types")].

