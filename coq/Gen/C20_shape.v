(* GENERATED on every run by harness/translate/c20.py from
   src/lenskit/data/relationships.py -- do not edit. *)
From Coq Require Import ZArith Bool.
Open Scope Z_scope.

(* what a weighting draws from, and how a draw becomes a column number *)
Inductive population := PopCols | PopRecords.
Inductive colmap := ColIdentity | ColOfRecord.

(* _rc_combined_nums: (rnums << 32) + cnums on np.uint64 *)
Definition key_word_bits : Z := 64.
Definition key_shift : Z := 32.

(* _check_negatives: membership of the combined key in rc_index (built from the same key over the sorted table) *)

(* _check_negatives_and_resample: `if np.any(mask): if <budget_positive>: columns[mask] = self.sample_negatives(rows[mask], verify=True, max_attempts=<budget_next>, ...) else: <warn>` *)
Definition budget_positive (max_attempts : Z) : bool := (max_attempts >? (0)).
Definition budget_next (max_attempts : Z) : Z := (max_attempts - (1)).
Definition warn_on_exhaustion : bool := true.

(* sample_negatives: one generator `rng = random_generator(rng)`; every draw is rng.choice, and `if verify:` hands rng itself to the check of each output column *)
(* sample_negatives, `match weighting` *)
Definition uniform_population : population := PopCols.
Definition uniform_colmap : colmap := ColIdentity.
Definition popular_population : population := PopRecords.
Definition popular_colmap : colmap := ColOfRecord.
