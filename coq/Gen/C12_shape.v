(* GENERATED on every run by harness/translate/c12.py from src/lenskit/batch/*.py and
   src/lenskit/parallel/*.py -- do not edit. *)
From Coq Require Import List.
From LK Require Import Model.C12_shapes.
Import ListNotations.

Definition seq_map_shape : map_shape := MapYieldEachInOrder.
Definition pool_map_shape : map_shape := MapExecutorMap.
Definition shm_slice : slice_kind := SliceRecorded.
Definition reducer_dispatch : list reduce_rule := [RTensorCSR; RTensorCSC; RTensorTorch; RStorageTorch; ROwnReduction].
Definition run_pipeline_steps : list rp_step := [RPQueryFromUserId; RPItemsIfTestItems; RPExtraOverride; RPRunAll; RPCopyOutputs].
Definition batch_loop_shape : batch_loop := AddEachOutputUnderItsKey.
Definition helper_recommend : helper_setup := HSRecommendN.
Definition helper_score : helper_setup := HSScore.
Definition helper_predict : helper_setup := HSPredict.
Definition pool_shutdown : list shutdown_step := [ShutPool; ShutManager].
Definition worker_init_steps : list init_step := [InitDeclareGlobals; InitCurrentProcess; InitFilterWarnings; InitRebuildContext].
