(* GENERATED on every run by harness/translate/c03.py from
   src/lenskit/pipeline/common.py (RecPipelineBuilder.build, predict_pipeline; the bodies of
   RecPipelineBuilder.__init__ / scorer / ranker / predicts_ratings and of topn_pipeline are matched
   textually) -- do not edit. *)
From Coq Require Import List.
From LK Require Import Model.C03_graph.
Import ListNotations.

(* RecPipelineBuilder.build() without a prediction transform: flags = predicts_ratings() was called,
   a fallback was given.  topn_pipeline(predicts_ratings=False / "raw" / True) = (false, _) / (true, false) / (true, true
   with a BiasScorer). *)
Definition rec_wiring (is_predictor has_fallback : bool) : wiring :=
  match is_predictor, has_fallback with
  | true, true =>
    {| w_nodes :=
      [WInput Nquery;
       WInput Nitems;
       WInput Nn;
       WComp Nlookup CLookup [(Pquery, Nquery)];
       WComp Ncandsel CSelector [(Pquery, Nlookup)];
       WFirst Ncandidates Nitems Ncandsel;
       WComp Nscorer CScorer [(Pquery, Nlookup); (Pitems, Ncandidates)];
       WComp Nfallback CFallbackModel [(Pquery, Nlookup); (Pitems, Ncandidates)];
       WComp Nmerger CMerger [(Pprimary, Nscorer); (Pbackup, Nfallback)];
       WAlias Npredictor Nmerger;
       WComp Nranker CRanker [(Pitems, Nscorer); (Pn, Nn)];
       WAlias Nrecommender Nranker];
     w_default := (Some Nrecommender) |}
  | true, false =>
    {| w_nodes :=
      [WInput Nquery;
       WInput Nitems;
       WInput Nn;
       WComp Nlookup CLookup [(Pquery, Nquery)];
       WComp Ncandsel CSelector [(Pquery, Nlookup)];
       WFirst Ncandidates Nitems Ncandsel;
       WComp Nscorer CScorer [(Pquery, Nlookup); (Pitems, Ncandidates)];
       WAlias Npredictor Nscorer;
       WComp Nranker CRanker [(Pitems, Nscorer); (Pn, Nn)];
       WAlias Nrecommender Nranker];
     w_default := (Some Nrecommender) |}
  | false, true =>
    {| w_nodes :=
      [WInput Nquery;
       WInput Nitems;
       WInput Nn;
       WComp Nlookup CLookup [(Pquery, Nquery)];
       WComp Ncandsel CSelector [(Pquery, Nlookup)];
       WFirst Ncandidates Nitems Ncandsel;
       WComp Nscorer CScorer [(Pquery, Nlookup); (Pitems, Ncandidates)];
       WComp Nranker CRanker [(Pitems, Nscorer); (Pn, Nn)];
       WAlias Nrecommender Nranker];
     w_default := (Some Nrecommender) |}
  | false, false =>
    {| w_nodes :=
      [WInput Nquery;
       WInput Nitems;
       WInput Nn;
       WComp Nlookup CLookup [(Pquery, Nquery)];
       WComp Ncandsel CSelector [(Pquery, Nlookup)];
       WFirst Ncandidates Nitems Ncandsel;
       WComp Nscorer CScorer [(Pquery, Nlookup); (Pitems, Ncandidates)];
       WComp Nranker CRanker [(Pitems, Nscorer); (Pn, Nn)];
       WAlias Nrecommender Nranker];
     w_default := (Some Nrecommender) |}
  end.

(* predict_pipeline(scorer, fallback=...): fallback=True (a BiasScorer) or a component / fallback=False *)
Definition predict_wiring (has_fallback : bool) : wiring :=
  match has_fallback with
  | true =>
    {| w_nodes :=
      [WInput Nquery;
       WInput Nitems;
       WComp Nlookup CLookup [(Pquery, Nquery)];
       WComp Nscorer CScorer [(Pquery, Nlookup); (Pitems, Nitems)];
       WComp Nfallback CFallbackModel [(Pquery, Nlookup); (Pitems, Nitems)];
       WComp Npredictor CMerger [(Pprimary, Nscorer); (Pbackup, Nfallback)]];
     w_default := (Some Npredictor) |}
  | false =>
    {| w_nodes :=
      [WInput Nquery;
       WInput Nitems;
       WComp Nlookup CLookup [(Pquery, Nquery)];
       WComp Nscorer CScorer [(Pquery, Nlookup); (Pitems, Nitems)];
       WAlias Npredictor Nscorer];
     w_default := (Some Npredictor) |}
  end.
