(* GENERATED on every run by harness/translate/c15.py from
   src/lenskit/data/container.py -- do not edit. *)
From Coq Require Import List.
From LK Require Import Model.C15_steps.
Import ListNotations.

Definition save_steps : list save_step := [SRmtreeIfExists; SMkdir; SWriteSchema; SWriteTables; SWriteSummary].

Definition load_steps : list load_step := [LReadSchema; LReadTables KEntities; LReadTables KRelationships; LReturn].
