(* C14 -- executable model of the aliasing structure of pipelines / pipeline builders and datasets /
   dataset builders: an explicit heap of mutable dictionaries, objects hold references.

   dict heap   : every mutable dictionary that a builder edits in place -- a component's wiring
                 (input name -> source node), a schema's `entities` dictionary with everything below
                 it, a schema's `relationships` dictionary with everything below it.  The contents are
                 association lists of strings (the schema entries are rendered by the harness: what is
                 modelled here is WHO can write WHAT, not what the builder writes).
   inst heap   : component instances (their trained state), written only by Pipeline.train.
   Immutable values (Arrow tables, nodes, names) are plain values inside the objects.

   How a derived object obtains the mutable parts of its source comes from Gen/C14_alias.v, regenerated
   from the source on every run (Share / Shallow = the reference is copied, Copy = the contents are). *)
From Coq Require Import String List Bool Arith.
From LK Require Import Lib.StrDict Gen.C14_alias.
Import ListNotations.
Open Scope string_scope.

Definition ref := nat.
Definition heap := list (dict string).
Definition hget (h : heap) (r : ref) : option (dict string) := nth_error h r.
Fixpoint hset (h : heap) (r : ref) (c : dict string) : heap :=
  match h, r with
  | [], _ => []
  | _ :: t, O => c :: t
  | x :: t, S r' => x :: hset t r' c
  end.
Definition alloc (h : heap) (c : dict string) : heap * ref := ((h ++ [c])%list, length h).
(* in-place edit of the dictionary at r *)
Definition hedit (h : heap) (r : ref) (f : dict string -> dict string) : heap :=
  match hget h r with Some c => hset h r (f c) | None => h end.
(* a new dictionary with the same contents *)
Definition hcopy (h : heap) (r : ref) : heap * ref :=
  alloc h (match hget h r with Some c => c | None => [] end).

Definition copies (m : copy_mode) : bool := match m with Copy => true | _ => false end.
(* take a referenced dictionary according to the alias table *)
Definition take (m : copy_mode) (h : heap) (r : ref) : heap * ref := if copies m then hcopy h r else (h, r).
Fixpoint take_all (m : copy_mode) (h : heap) (rs : dict ref) : heap * dict ref :=
  match rs with
  | [] => (h, [])
  | (n, r) :: rest =>
      let (h1, r1) := take m h r in
      let (h2, rest') := take_all m h1 rest in
      (h2, (n, r1) :: rest')
  end.

(* ---- objects ---- *)
Inductive pnode :=
| PIn                                   (* input node *)
| PLit (v : string)                     (* literal node *)
| PInst (code : string) (r : ref)       (* component instance (reference into the instance heap) *)
| PCtor (code : string).                (* component class + settings, instantiated by build *)

(* a pipeline or a pipeline builder *)
Record pobj := {
  p_name : option string;
  p_nodes : dict pnode;
  p_edges : dict ref;                   (* component name -> its wiring dictionary *)
  p_aliases : dict string;
  p_default : option string }.

(* a dataset (container) or a dataset builder *)
Record dobj := {
  d_meta : dict string;                 (* name, default_interaction: plain fields of the schema object *)
  d_ents : ref;                         (* schema.entities *)
  d_rels : ref;                         (* schema.relationships *)
  d_tables : dict string }.             (* class name -> (immutable) table, by content digest *)

Record state := {
  st_heap : heap;
  st_inst : heap;
  st_pipes : list pobj;
  st_pblds : list pobj;
  st_dsets : list dobj;
  st_dblds : list dobj }.

Definition init : state :=
  {| st_heap := []; st_inst := []; st_pipes := []; st_pblds := []; st_dsets := []; st_dblds := [] |}.

Fixpoint lset {X} (l : list X) (i : nat) (x : X) : list X :=
  match l, i with
  | [], _ => []
  | _ :: t, O => x :: t
  | y :: t, S i' => y :: lset t i' x
  end.

Definition with_heap (s : state) (h : heap) : state :=
  {| st_heap := h; st_inst := st_inst s; st_pipes := st_pipes s; st_pblds := st_pblds s; st_dsets := st_dsets s; st_dblds := st_dblds s |}.
Definition with_inst (s : state) (h : heap) : state :=
  {| st_heap := st_heap s; st_inst := h; st_pipes := st_pipes s; st_pblds := st_pblds s; st_dsets := st_dsets s; st_dblds := st_dblds s |}.
Definition with_pblds (s : state) (l : list pobj) : state :=
  {| st_heap := st_heap s; st_inst := st_inst s; st_pipes := st_pipes s; st_pblds := l; st_dsets := st_dsets s; st_dblds := st_dblds s |}.
Definition with_pipes (s : state) (l : list pobj) : state :=
  {| st_heap := st_heap s; st_inst := st_inst s; st_pipes := l; st_pblds := st_pblds s; st_dsets := st_dsets s; st_dblds := st_dblds s |}.
Definition with_dblds (s : state) (l : list dobj) : state :=
  {| st_heap := st_heap s; st_inst := st_inst s; st_pipes := st_pipes s; st_pblds := st_pblds s; st_dsets := st_dsets s; st_dblds := l |}.
Definition with_dsets (s : state) (l : list dobj) : state :=
  {| st_heap := st_heap s; st_inst := st_inst s; st_pipes := st_pipes s; st_pblds := st_pblds s; st_dsets := l; st_dblds := st_dblds s |}.

Definition set_edges (p : pobj) (e : dict ref) : pobj :=
  {| p_name := p_name p; p_nodes := p_nodes p; p_edges := e; p_aliases := p_aliases p; p_default := p_default p |}.
Definition set_nodes (p : pobj) (n : dict pnode) : pobj :=
  {| p_name := p_name p; p_nodes := n; p_edges := p_edges p; p_aliases := p_aliases p; p_default := p_default p |}.

(* ---- operations ---- *)
Inductive nspec := NSIn | NSLit (v : string) | NSInst (code : string) | NSCtor (code : string).

Inductive op :=
(* pipeline side *)
| PNew (name : option string)                                      (* PipelineBuilder(name) *)
| PBNode (i : nat) (name : string) (n : nspec)                     (* create_input / literal / add_component / replace_component: (re)bind a node *)
| PBWire (i : nat) (name : string) (f : dict string -> dict string) (* connect: edit the component's wiring in place (created empty if absent);
                                                                      the component is named by its node name, a node object (= its name) or an ALIAS *)
| PBClear (i : nat) (name : string)                                (* clear_inputs: a new empty dictionary, stored under clear_key *)
| PBAlias (i : nat) (f : dict string -> dict string)               (* alias / remove_alias *)
| PBDefault (i : nat) (d : option string)                          (* default_component *)
| PBuild (i : nat)                                                 (* builder.build() *)
| PModify (j : nat)                                                (* pipeline.modify() *)
| PClone (j : nat)                                                 (* pipeline.clone() / Pipeline.from_config(p.config) *)
| PTrain (j : nat) (label : string) (codes : list string)           (* pipeline.train(data): trains the instances of trainable classes *)
| PRun (j : nat)                                                   (* pipeline.run(...) *)
(* dataset side *)
| DNew (meta ents : dict string)                                   (* DatasetBuilder(name) *)
| DFrom (j : nat)                                                  (* DatasetBuilder(dataset) *)
| DBMeta (i : nat) (f : dict string -> dict string)                (* schema.name / default_interaction = ... *)
| DBEnts (i : nat) (f : dict string -> dict string)                (* any in-place edit under schema.entities *)
| DBRels (i : nat) (f : dict string -> dict string)                (* any in-place edit under schema.relationships *)
| DBTables (i : nat) (f : dict string -> dict string)              (* tables are replaced, never edited *)
| DBuild (i : nat).                                                (* builder.build() *)

(* PipelineBuilder.node(name): the alias table is consulted first, then the node table; an alias stands for the
   node it was given to.  connect() resolves the component it is handed this way and edits the wiring dictionary
   stored under the RESOLVED node's name; whether clear_inputs() does so as well comes from the source
   (Gen/C14_alias.v: clear_inputs_resolves_alias). *)
Definition resolve (b : pobj) (name : string) : string :=
  match dget name (p_aliases b) with Some t => t | None => name end.
Definition clear_key (b : pobj) (name : string) : string :=
  if clear_inputs_resolves_alias then resolve b name else name.

Definition is_comp (n : pnode) : bool := match n with PInst _ _ | PCtor _ => true | _ => false end.

(* build(): constructor nodes are instantiated, instance nodes are kept *)
Fixpoint instantiate (ih : heap) (nodes : dict pnode) : heap * dict pnode :=
  match nodes with
  | [] => (ih, [])
  | (n, PCtor code) :: rest =>
      let (ih1, r) := alloc ih [] in
      let (ih2, rest') := instantiate ih1 rest in (ih2, (n, PInst code r) :: rest')
  | (n, k) :: rest => let (ih2, rest') := instantiate ih rest in (ih2, (n, k) :: rest')
  end.
(* clone(): every component is re-created from its class and settings *)
Fixpoint reinstantiate (ih : heap) (nodes : dict pnode) : heap * dict pnode :=
  match nodes with
  | [] => (ih, [])
  | (n, PInst code _) :: rest | (n, PCtor code) :: rest =>
      let (ih1, r) := alloc ih [] in
      let (ih2, rest') := reinstantiate ih1 rest in (ih2, (n, PInst code r) :: rest')
  | (n, k) :: rest => let (ih2, rest') := reinstantiate ih rest in (ih2, (n, k) :: rest')
  end.
(* the configuration has an entry for every component node; its wiring is written sorted *)
Fixpoint wiring_for (m : copy_mode) (h : heap) (edges : dict ref) (nodes : dict pnode) : heap * dict ref :=
  match nodes with
  | [] => (h, [])
  | (n, k) :: rest =>
      if is_comp k then
        let (h1, r1) := match dget n edges with
                        | Some r => if copies m then alloc h (sort_kv (match hget h r with Some c => c | None => [] end)) else (h, r)
                        | None => alloc h []
                        end in
        let (h2, rest') := wiring_for m h1 edges rest in (h2, (n, r1) :: rest')
      else wiring_for m h edges rest
  end.

Definition inst_refs (p : pobj) : list ref :=
  flat_map (fun nk => match snd nk with PInst _ r => [r] | _ => [] end) (p_nodes p).
Definition trainable_refs (codes : list string) (p : pobj) : list ref :=
  flat_map (fun nk => match snd nk with PInst c r => if smem c codes then [r] else [] | _ => [] end) (p_nodes p).

Definition train_all (ih : heap) (rs : list ref) (label : string) : heap :=
  fold_left (fun h r => hset h r [("trained", label)]) rs ih.

Definition step (s : state) (o : op) : state :=
  match o with
  | PNew name =>
      with_pblds s (st_pblds s ++ [{| p_name := name; p_nodes := []; p_edges := []; p_aliases := []; p_default := None |}])
  | PBNode i name ns =>
      match nth_error (st_pblds s) i with
      | None => s
      | Some b =>
          match ns with
          | NSInst code =>
              let (ih, r) := alloc (st_inst s) [] in
              with_inst (with_pblds s (lset (st_pblds s) i (set_nodes b (dset name (PInst code r) (p_nodes b))))) ih
          | NSIn => with_pblds s (lset (st_pblds s) i (set_nodes b (dset name PIn (p_nodes b))))
          | NSLit v => with_pblds s (lset (st_pblds s) i (set_nodes b (dset name (PLit v) (p_nodes b))))
          | NSCtor code => with_pblds s (lset (st_pblds s) i (set_nodes b (dset name (PCtor code) (p_nodes b))))
          end
      end
  | PBWire i name f =>
      match nth_error (st_pblds s) i with
      | None => s
      | Some b =>
          let name := resolve b name in
          match dget name (p_edges b) with
          | Some r => with_heap s (hedit (st_heap s) r f)
          | None => let (h, r) := alloc (st_heap s) (f []) in
                    with_heap (with_pblds s (lset (st_pblds s) i (set_edges b (dset name r (p_edges b))))) h
          end
      end
  | PBClear i name =>
      match nth_error (st_pblds s) i with
      | None => s
      | Some b => let name := clear_key b name in
                  let (h, r) := alloc (st_heap s) [] in
                  with_heap (with_pblds s (lset (st_pblds s) i (set_edges b (dset name r (p_edges b))))) h
      end
  | PBAlias i f =>
      match nth_error (st_pblds s) i with
      | None => s
      | Some b => with_pblds s (lset (st_pblds s) i
                    {| p_name := p_name b; p_nodes := p_nodes b; p_edges := p_edges b; p_aliases := f (p_aliases b); p_default := p_default b |})
      end
  | PBDefault i d =>
      match nth_error (st_pblds s) i with
      | None => s
      | Some b => with_pblds s (lset (st_pblds s) i
                    {| p_name := p_name b; p_nodes := p_nodes b; p_edges := p_edges b; p_aliases := p_aliases b; p_default := d |})
      end
  | PBuild i =>
      match nth_error (st_pblds s) i with
      | None => s
      | Some b =>
          let (ih, nodes) := instantiate (st_inst s) (p_nodes b) in
          let (h, edges) := wiring_for build_wiring (st_heap s) (p_edges b) (p_nodes b) in
          with_inst (with_heap (with_pipes s (st_pipes s ++
            [{| p_name := p_name b; p_nodes := nodes; p_edges := edges; p_aliases := sort_kv (p_aliases b); p_default := p_default b |}])) h) ih
      end
  | PModify j =>
      match nth_error (st_pipes s) j with
      | None => s
      | Some p =>
          let (h, edges) := take_all from_pipeline_edges (st_heap s) (p_edges p) in
          with_heap (with_pblds s (st_pblds s ++
            [{| p_name := None; p_nodes := p_nodes p; p_edges := edges; p_aliases := p_aliases p; p_default := p_default p |}])) h
      end
  | PClone j =>
      match nth_error (st_pipes s) j with
      | None => s
      | Some p =>
          let (ih, nodes) := reinstantiate (st_inst s) (p_nodes p) in
          let (h, edges) := take_all Copy (st_heap s) (p_edges p) in
          with_inst (with_heap (with_pipes s (st_pipes s ++
            [{| p_name := p_name p; p_nodes := nodes; p_edges := edges; p_aliases := p_aliases p; p_default := p_default p |}])) h) ih
      end
  | PTrain j label codes =>
      match nth_error (st_pipes s) j with
      | None => s
      | Some p => with_inst s (train_all (st_inst s) (trainable_refs codes p) label)
      end
  | PRun _ => s
  | DNew meta ents =>
      let (h1, re) := alloc (st_heap s) ents in
      let (h2, rr) := alloc h1 [] in
      with_heap (with_dblds s (st_dblds s ++ [{| d_meta := meta; d_ents := re; d_rels := rr; d_tables := [("item", "")] |}])) h2
  | DFrom j =>
      match nth_error (st_dsets s) j with
      | None => s
      | Some d =>
          let (h1, re) := take dsb_init_schema (st_heap s) (d_ents d) in
          let (h2, rr) := take dsb_init_schema h1 (d_rels d) in
          with_heap (with_dblds s (st_dblds s ++ [{| d_meta := d_meta d; d_ents := re; d_rels := rr; d_tables := d_tables d |}])) h2
      end
  | DBMeta i f =>
      match nth_error (st_dblds s) i with
      | None => s
      | Some b => with_dblds s (lset (st_dblds s) i {| d_meta := f (d_meta b); d_ents := d_ents b; d_rels := d_rels b; d_tables := d_tables b |})
      end
  | DBEnts i f =>
      match nth_error (st_dblds s) i with
      | None => s
      | Some b => with_heap s (hedit (st_heap s) (d_ents b) f)
      end
  | DBRels i f =>
      match nth_error (st_dblds s) i with
      | None => s
      | Some b => with_heap s (hedit (st_heap s) (d_rels b) f)
      end
  | DBTables i f =>
      match nth_error (st_dblds s) i with
      | None => s
      | Some b => with_dblds s (lset (st_dblds s) i {| d_meta := d_meta b; d_ents := d_ents b; d_rels := d_rels b; d_tables := f (d_tables b) |})
      end
  | DBuild i =>
      match nth_error (st_dblds s) i with
      | None => s
      | Some b =>
          let (h1, re) := take build_container_schema (st_heap s) (d_ents b) in
          let (h2, rr) := take build_container_schema h1 (d_rels b) in
          with_heap (with_dsets s (st_dsets s ++ [{| d_meta := d_meta b; d_ents := re; d_rels := rr; d_tables := d_tables b |}])) h2
      end
  end.

Definition run (s : state) (ops : list op) : state := fold_left step ops s.

(* ---- observations of built objects ---- *)
Record pobs := {
  po_name : option string;
  po_nodes : list (string * (string * option (dict string)));   (* node, kind/code, instance state *)
  po_edges : list (string * option (dict string));              (* component, wiring *)
  po_aliases : dict string;
  po_default : option string }.
Definition obs_node (ih : heap) (n : pnode) : string * option (dict string) :=
  match n with
  | PIn => ("@input", None)
  | PLit v => ("@literal", Some [("value", v)])
  | PInst code r => (code, hget ih r)
  | PCtor code => (code, None)
  end.
Definition obs_p (s : state) (p : pobj) : pobs :=
  {| po_name := p_name p;
     po_nodes := sort_kv (map (fun nk => (fst nk, obs_node (st_inst s) (snd nk))) (p_nodes p));
     po_edges := sort_kv (map (fun nr => (fst nr, hget (st_heap s) (snd nr))) (p_edges p));
     po_aliases := p_aliases p;
     po_default := p_default p |}.

Record dobs := {
  do_meta : dict string;
  do_ents : option (dict string);
  do_rels : option (dict string);
  do_tables : dict string }.
Definition obs_d (s : state) (d : dobj) : dobs :=
  {| do_meta := d_meta d; do_ents := hget (st_heap s) (d_ents d); do_rels := hget (st_heap s) (d_rels d); do_tables := d_tables d |}.

(* ---- PipelineBuilder.from_config(cfg) ----
   A builder made from a configuration DOCUMENT (here: what a built pipeline shows of itself, `obs_p`) by the builder's own calls on
   a NEW builder with handle i: create_input / literal (every literal node of the document, referenced or not) / add_component with an
   instance made for the occasion, connect for every component, the alias table, the default.  Pipeline.from_config(cfg) is this followed by build();
   clone() is Pipeline.from_config(own configuration) = PClone. *)
Definition nspec_of (kc : string * option (dict string)) : nspec :=
  if String.eqb (fst kc) "@input" then NSIn
  else if String.eqb (fst kc) "@literal" then NSLit (match snd kc with Some ((_, v) :: _) => v | _ => "" end)
  else NSInst (fst kc).
Definition wire_all (d : dict string) (w : dict string) : dict string :=
  fold_left (fun w kv => dset (fst kv) (snd kv) w) d w.
Definition from_config_ops (i : nat) (o : pobs) : list op :=
  PNew (po_name o)
  :: map (fun n => PBNode i (fst n) (nspec_of (snd n))) (po_nodes o)
  ++ map (fun e => PBWire i (fst e) (wire_all (match snd e with Some d => d | None => [] end))) (po_edges o)
  ++ [PBAlias i (fun _ => po_aliases o); PBDefault i (po_default o)].

(* ---- comparison with what the harness observed (correspondence cases) ---- *)
Fixpoint sdict_eqb (a b : dict string) : bool :=
  match a, b with
  | [], [] => true
  | (k, v) :: a', (k', v') :: b' => String.eqb k k' && String.eqb v v' && sdict_eqb a' b'
  | _, _ => false
  end.
Definition osdict_eqb (a b : option (dict string)) : bool :=
  match a, b with Some x, Some y => sdict_eqb x y | None, None => true | _, _ => false end.
Definition ostr_eqb (a b : option string) : bool :=
  match a, b with Some x, Some y => String.eqb x y | None, None => true | _, _ => false end.
Fixpoint list_eqb {X} (e : X -> X -> bool) (a b : list X) : bool :=
  match a, b with
  | [], [] => true
  | x :: a', y :: b' => e x y && list_eqb e a' b'
  | _, _ => false
  end.
Definition pobs_eqb (a b : pobs) : bool :=
  ostr_eqb (po_name a) (po_name b) &&
  list_eqb (fun x y => String.eqb (fst x) (fst y) && String.eqb (fst (snd x)) (fst (snd y)) && osdict_eqb (snd (snd x)) (snd (snd y)))
           (po_nodes a) (po_nodes b) &&
  list_eqb (fun x y => String.eqb (fst x) (fst y) && osdict_eqb (snd x) (snd y)) (po_edges a) (po_edges b) &&
  sdict_eqb (po_aliases a) (po_aliases b) && ostr_eqb (po_default a) (po_default b).
Definition dobs_eqb (a b : dobs) : bool :=
  sdict_eqb (do_meta a) (do_meta b) && osdict_eqb (do_ents a) (do_ents b) && osdict_eqb (do_rels a) (do_rels b) &&
  sdict_eqb (do_tables a) (do_tables b).

(* after every step the harness re-observes every built object *)
Definition snapshot_ok (s : state) (ps : list pobs) (ds : list dobs) : bool :=
  list_eqb pobs_eqb (map (obs_p s) (st_pipes s)) ps && list_eqb dobs_eqb (map (obs_d s) (st_dsets s)) ds.
(* one step of the real history = a few model operations, then a snapshot *)
Fixpoint trace_ok (s : state) (steps : list (list op * (list pobs * list dobs))) : bool :=
  match steps with
  | [] => true
  | (os, (ps, ds)) :: rest => let s' := run s os in snapshot_ok s' ps ds && trace_ok s' rest
  end.

(* the same comparison with the observations written as DIFFERENCES (an object that does not change is observed identically after every
   step, and the case files repeat it thousands of times otherwise): None = this object was observed exactly as after the previous step.
   A None with nothing before it is malformed and makes the trace fail. *)
Fixpoint fill {X} (prev : list X) (cur : list (option X)) : option (list X) :=
  match cur with
  | [] => Some []
  | c :: cur' =>
      match (match c with Some x => Some x | None => hd_error prev end), fill (tl prev) cur' with
      | Some x, Some r => Some (x :: r)
      | _, _ => None
      end
  end.
Fixpoint trace_ok_d (s : state) (pp : list pobs) (pd : list dobs)
    (steps : list (list op * (list (option pobs) * list (option dobs)))) : bool :=
  match steps with
  | [] => true
  | (os, (ps, ds)) :: rest =>
      match fill pp ps, fill pd ds with
      | Some ps', Some ds' => let s' := run s os in snapshot_ok s' ps' ds' && trace_ok_d s' ps' ds' rest
      | _, _ => false
      end
  end.
