(* C03 -- the wiring of the standard pipelines as DATA, and what a wiring computes.
   Definitions only.  `Gen/C03_wiring.v` (regenerated from pipeline/common.py on every run) gives the
   node lists that RecPipelineBuilder.build and predict_pipeline assemble -- which node feeds which
   parameter of which component; `eval` below interprets any such list with the component models of
   Model/C03_pipeline.v.  Proofs/C03_wiring.v shows that the generated wirings compute exactly
   rec_pipeline / pred_pipeline, so a builder that connects a component to another node no longer
   checks. *)
From Coq Require Import ZArith QArith List Bool.
From LK Require Import Lib.QLib Lib.PyInt Lib.TopN Gen.C03_len Model.C03_pipeline.
Import ListNotations.
Open Scope Z_scope.

(* node names used by the standard pipelines *)
Inductive wname :=
| Nquery | Nitems | Nn                                (* inputs "query", "items", "n" *)
| Nlookup                                             (* "history-lookup" *)
| Ncandsel                                            (* "candidate-selector" *)
| Ncandidates                                         (* "candidates" *)
| Nscorer                                             (* "scorer" *)
| Nfallback                                           (* "fallback-predictor" *)
| Nmerger                                             (* "rating-merger" *)
| Nranker                                             (* "ranker" *)
| Nrecommender                                        (* "recommender" *)
| Npredictor.                                         (* "rating-predictor" *)
(* parameter names of the components *)
Inductive wparam := Pquery | Pitems | Pn | Pprimary | Pbackup | Pfallback.
(* what is placed in a component node *)
Inductive wcomp :=
| CLookup                                             (* UserTrainingHistoryLookup() *)
| CSelector                                           (* the builder's candidate selector *)
| CScorer                                             (* the scoring model *)
| CFallbackModel                                      (* the fallback scoring model *)
| CMerger                                             (* FallbackScorer() *)
| CRanker.                                            (* the builder's ranker (TopNRanker) *)
Inductive wnode :=
| WInput (name : wname)
| WComp (name : wname) (c : wcomp) (edges : list (wparam * wname))
| WFirst (name : wname) (a b : wname)                 (* use_first_of(name, a, b) *)
| WAlias (name target : wname).
Record wiring := { w_nodes : list wnode; w_default : option wname }.

Definition wname_code (n : wname) : Z :=
  match n with
  | Nquery => 0 | Nitems => 1 | Nn => 2 | Nlookup => 3 | Ncandsel => 4 | Ncandidates => 5 | Nscorer => 6
  | Nfallback => 7 | Nmerger => 8 | Nranker => 9 | Nrecommender => 10 | Npredictor => 11
  end.
Definition wname_eqb (a b : wname) : bool := Z.eqb (wname_code a) (wname_code b).
Definition wparam_code (p : wparam) : Z :=
  match p with Pquery => 0 | Pitems => 1 | Pn => 2 | Pprimary => 3 | Pbackup => 4 | Pfallback => 5 end.
Definition wparam_eqb (a b : wparam) : bool := Z.eqb (wparam_code a) (wparam_code b).

Definition node_name (w : wnode) : wname :=
  match w with WInput n => n | WComp n _ _ => n | WFirst n _ _ => n | WAlias n _ => n end.
Definition find_node (g : list wnode) (nm : wname) : option wnode :=
  find (fun w => wname_eqb (node_name w) nm) g.
Definition arg (p : wparam) (edges : list (wparam * wname)) : option wname :=
  option_map snd (find (fun e => wparam_eqb (fst e) p) edges).

(* values flowing along the edges *)
Inductive wvalue :=
| V_In (i : qinput)                                   (* the raw query input *)
| V_Q (q : query)
| V_Absent                                            (* an input that was not supplied *)
| V_Items (l : list Z)
| V_Scored (s : scored)
| V_Pred (p : ilist)
| V_Len (n : pyv)
| V_Rec (r : result (scored * bool))
| V_Fail.                                             (* ill-formed wiring: missing node / parameter, wrong kind of value *)

(* everything a run depends on besides the wiring *)
Record wenv := {
  e_sc : scorer; e_fb : option scorer; e_ds : dataset;
  e_in : qinput; e_items : option (list Z); e_cfg : pyv; e_n : pyv
}.

Definition apply_comp (E : wenv) (c : wcomp) (get : wparam -> wvalue) : wvalue :=
  match c with
  | CLookup => match get Pquery with V_In i => V_Q (lookup_history (e_ds E) i) | _ => V_Fail end
  | CSelector => match get Pquery with V_Q q => V_Items (select_candidates (e_ds E) q) | _ => V_Fail end
  | CScorer =>
      match get Pquery, get Pitems with
      | V_Q q, V_Items l => V_Scored (score_items (e_sc E) q l)
      | _, _ => V_Fail
      end
  | CFallbackModel =>
      match e_fb E, get Pquery, get Pitems with
      | Some f, V_Q q, V_Items l => V_Scored (score_items f q l)
      | _, _, _ => V_Fail
      end
  | CMerger =>
      match get Pprimary, get Pbackup with
      | V_Scored p, V_Scored b => V_Pred (fallback_scorer (of_rows p) (of_rows b))
      | _, _ => V_Fail
      end
  | CRanker =>
      match get Pitems, get Pn with
      | V_Scored s, V_Len n => V_Rec (topn_ranker (Some s) n (e_cfg E))
      | _, _ => V_Fail
      end
  end.

Definition input_value (E : wenv) (n : wname) : wvalue :=
  match n with
  | Nquery => V_In (e_in E)
  | Nitems => match e_items E with Some l => V_Items l | None => V_Absent end
  | Nn => V_Len (e_n E)
  | _ => V_Fail
  end.

(* the value of node `nm` (fuel: longest chain of connections followed) *)
Fixpoint eval (E : wenv) (g : list wnode) (fuel : nat) (nm : wname) : wvalue :=
  match fuel with
  | O => V_Fail
  | S k =>
      match find_node g nm with
      | None => V_Fail
      | Some (WInput n) => input_value E n
      | Some (WComp _ c edges) =>
          apply_comp E c (fun p => match arg p edges with Some src => eval E g k src | None => V_Fail end)
      | Some (WFirst _ a b) =>
          match eval E g k a with V_Absent => eval E g k b | v => v end
      | Some (WAlias _ t) => eval E g k t
      end
  end.
Definition run_wiring (E : wenv) (w : wiring) (nm : wname) : wvalue :=
  eval E (w_nodes w) (S (length (w_nodes w))) nm.
Definition run_default (E : wenv) (w : wiring) : wvalue :=
  match w_default w with Some nm => run_wiring E w nm | None => V_Fail end.

(* a rating-prediction node yields either a merged list or the scorer's own output *)
Definition as_pred (v : wvalue) : option ilist :=
  match v with V_Pred p => Some p | V_Scored s => Some (of_rows s) | _ => None end.

(* ---- comparison with the connections a built pipeline object reports (node_input_connections,
   config.aliases, config.default): component nodes with their (parameter, source) pairs ---- *)
Definition oedges := list (wparam * wname).
Definition node_edges (w : wnode) : option (wname * oedges) :=
  match w with
  | WComp n _ e => Some (n, e)
  | WFirst n a b => Some (n, [(Pprimary, a); (Pfallback, b)])
  | _ => None
  end.
Definition edge_eqb (a b : wparam * wname) : bool := wparam_eqb (fst a) (fst b) && wname_eqb (snd a) (snd b).
Definition edges_eqb (a b : oedges) : bool :=
  Nat.eqb (length a) (length b) && forallb (fun e => existsb (edge_eqb e) b) a && forallb (fun e => existsb (edge_eqb e) a) b.
Fixpoint comp_nodes (g : list wnode) : list (wname * oedges) :=
  match g with
  | [] => []
  | w :: r => match node_edges w with Some x => x :: comp_nodes r | None => comp_nodes r end
  end.
Fixpoint input_nodes (g : list wnode) : list wname :=
  match g with [] => [] | WInput n :: r => n :: input_nodes r | _ :: r => input_nodes r end.
(* aliases resolved to the node they finally name *)
Fixpoint resolve_alias (g : list wnode) (fuel : nat) (nm : wname) : wname :=
  match fuel with
  | O => nm
  | S k => match find_node g nm with Some (WAlias _ t) => resolve_alias g k t | _ => nm end
  end.
Fixpoint alias_nodes (g all : list wnode) : list (wname * wname) :=
  match g with
  | [] => []
  | WAlias n _ :: r => (n, resolve_alias all (length all) n) :: alias_nodes r all
  | _ :: r => alias_nodes r all
  end.
Definition has_name (n : wname) (l : list wname) : bool := existsb (wname_eqb n) l.
Definition agree_wiring (w : wiring) (o_inputs : list wname) (o_comps : list (wname * oedges))
    (o_alias : list (wname * wname)) (o_default : option wname) : bool :=
  let g := w_nodes w in
  Nat.eqb (length (input_nodes g)) (length o_inputs) && forallb (fun n => has_name n o_inputs) (input_nodes g)
  && Nat.eqb (length (comp_nodes g)) (length o_comps)
  && forallb (fun c => existsb (fun o => wname_eqb (fst c) (fst o) && edges_eqb (snd c) (snd o)) o_comps) (comp_nodes g)
  && Nat.eqb (length (alias_nodes g g)) (length o_alias)
  && forallb (fun a => existsb (fun o => wname_eqb (fst a) (fst o) && wname_eqb (snd a) (snd o)) o_alias) (alias_nodes g g)
  && match w_default w, o_default with
     | Some a, Some b => wname_eqb (resolve_alias g (length g) a) (resolve_alias g (length g) b)
     | None, None => true
     | _, _ => false
     end.
