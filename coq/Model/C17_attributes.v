(* C17 -- executable model of entity attributes: DatasetBuilder.add_entities /
   add_scalar_attribute / add_list_attribute / add_vector_attribute (dense, both storage paths,
   and sparse), the offset surgery of _expand_and_align_list_array, and the layout-specific readers
   of lenskit.data.attributes with entity selection, drop_null and the null / omit modes.
   Definitions only; proofs are in Proofs/C17_*.v.

   Conventions
   * entity identifiers are Z (order isomorphism chosen by the harness), the entity table is the list
     of identifiers in row order (= the vocabulary), a row number is a nat;
   * an element is `option Z` (None = null / NaN): scalar values, list members and vector components
     are elements; a sparse entry is a pair (column, value);
   * what Arrow does on whole arrays (take, filter, drop_null, cast, concat_tables with null padding,
     np.argsort as "sort by key") is taken at the level of decoded arrays; what the code does by hand
     (value re-ordering, masks, sizes, cumulative offsets, the flattened value buffer, chunking of value
     buffers into fixed-size vectors, replace_with_mask) is modelled literally. *)
From Coq Require Import ZArith List Bool Arith Lia.
Import ListNotations.

Definition elem := option Z.

(* ---------------------------------------------------------------- association lists keyed by row *)
Fixpoint lookupn {A} (r : nat) (ps : list (nat * A)) : option A :=
  match ps with [] => None | (k, v) :: t => if Nat.eqb r k then Some v else lookupn r t end.
Definition memn (r : nat) (ks : list nat) : bool := existsb (Nat.eqb r) ks.

(* np.argsort(rows) followed by take(order) on the values and rows[order]: the pairs sorted by row *)
Fixpoint insert_row {A} (p : nat * A) (l : list (nat * A)) : list (nat * A) :=
  match l with
  | [] => [p]
  | q :: t => if Nat.leb (fst p) (fst q) then p :: q :: t else q :: insert_row p t
  end.
Definition sort_rows {A} (ps : list (nat * A)) : list (nat * A) := fold_right insert_row [] ps.

(* pc.replace_with_mask(nulls, mask, values): masked slots take the values in order *)
Fixpoint replace_with_mask {A} (mask : list bool) (vals : list (option A)) : list (option A) :=
  match mask with
  | [] => []
  | false :: m => None :: replace_with_mask m vals
  | true :: m => match vals with
                 | v :: vs => v :: replace_with_mask m vs
                 | [] => None :: replace_with_mask m []
                 end
  end.

(* ---------------------------------------------------------------- list arrays *)
(* offsets (one more than rows), flattened values, null mask (true = null) *)
Record listarray (A : Type) := mk_la { la_offsets : list nat; la_values : list A; la_null : list bool }.
Arguments mk_la {A}. Arguments la_offsets {A}. Arguments la_values {A}. Arguments la_null {A}.

Definition slice {A} (xs : list A) (a b : nat) : list A := firstn (b - a) (skipn a xs).
Definition la_decode {A} (la : listarray A) : list (option (list A)) :=
  map (fun r => if nth r (la_null la) true then None
                else Some (slice (la_values la) (nth r (la_offsets la) 0) (nth (S r) (la_offsets la) 0)))
      (seq 0 (length (la_null la))).

Fixpoint cumsum_from (acc : nat) (l : list nat) : list nat :=
  match l with [] => [acc] | x :: t => acc :: cumsum_from (acc + x) t end.

(* only the pairs whose list is not null *)
Definition valid_pairs {A} (rows : list nat) (lists : list (option (list A))) : list (nat * list A) :=
  flat_map (fun p => match snd p with Some l => [(fst p, l)] | None => [] end) (combine rows lists).

(* builder._expand_and_align_list_array(out_len, rows, lists) *)
Definition expand_align {A} (out_len : nat) (rows : list nat) (lists : list (option (list A))) : listarray A :=
  let ps := sort_rows (valid_pairs rows lists) in                      (* drop nulls; argsort; take *)
  let sizes := map (fun r => match lookupn r ps with Some l => length l | None => 0 end) (seq 0 out_len) in
                                                                       (* sizes[rows + 1] = value_lengths *)
  {| la_offsets := cumsum_from 0 sizes;                                (* np.cumsum *)
     la_values := concat (map snd ps);                                 (* lists.flatten() *)
     la_null := map (fun r => negb (memn r (map fst ps))) (seq 0 out_len) |}.   (* mask[rows] = False *)

(* ---------------------------------------------------------------- scalar placement *)
(* add_scalar_attribute: values re-ordered to table-row order, then replace_with_mask *)
Definition place_scalar (nrows : nat) (rows : list nat) (vals : list elem) : list elem :=
  let ps := sort_rows (combine rows vals) in
  replace_with_mask (map (fun r => memn r rows) (seq 0 nrows)) (map snd ps).

(* ---------------------------------------------------------------- columns *)
Inductive column :=
| CScalar (vals : list elem)
| CList (la : listarray elem) (pad : nat)                   (* pad: null rows appended by later add_entities *)
| CVecFixed (size : nat) (vecs : list (list elem)) (pad : nat)     (* FixedSizeList, every stored row valid *)
| CVecList (size : nat) (la : listarray elem) (pad : nat)
| CSparse (ncol : nat) (la : listarray (nat * Z)) (pad : nat).

Record attr := { a_name : nat; a_col : column; a_dims : option (list Z) }.
Record table := { t_rows : list Z; t_attrs : list attr }.

Definition pad_nulls {A} (k : nat) : list (option A) := repeat None k.

(* decoded contents, one entry per table row *)
Definition col_scalar (c : column) : list elem := match c with CScalar v => v | _ => [] end.
Definition col_lists (c : column) : list (option (list elem)) :=
  match c with
  | CList la pad => la_decode la ++ pad_nulls pad
  | CVecFixed _ vecs pad => map Some vecs ++ pad_nulls pad
  | CVecList _ la pad => la_decode la ++ pad_nulls pad
  | _ => []
  end.
Definition col_sparse (c : column) : list (option (list (nat * Z))) :=
  match c with CSparse _ la pad => la_decode la ++ pad_nulls pad | _ => [] end.

(* ---------------------------------------------------------------- builder operations *)
Inductive err := EData | EType | EKey | ENotImpl.
Inductive res (A : Type) := Ok (a : A) | Err (e : err).
Arguments Ok {A} a. Arguments Err {A} e.
Definition bind {A B} (r : res A) (f : A -> res B) : res B := match r with Ok a => f a | Err e => Err e end.
Notation "x <- r ;; k" := (bind r (fun x => k)) (at level 61, r at next level, right associativity).

Fixpoint index_of (x : Z) (l : list Z) : option nat :=
  match l with [] => None | y :: t => if Z.eqb x y then Some O else option_map S (index_of x t) end.
Fixpoint resolve (rows : list Z) (ids : list Z) : res (list nat) :=
  match ids with
  | [] => Ok []
  | i :: t => match index_of i rows with
              | Some k => ks <- resolve rows t ;; Ok (k :: ks)
              | None => Err EData                                   (* unknown entity IDs *)
              end
  end.
Definition has_attr (t : table) (name : nat) : bool := existsb (fun a => Nat.eqb (a_name a) name) (t_attrs t).

Fixpoint insertZ (x : Z) (l : list Z) : list Z :=
  match l with [] => [x] | y :: t => if Z.leb x y then x :: y :: t else y :: insertZ x t end.
Definition sortZ (l : list Z) : list Z := fold_right insertZ [] l.
Fixpoint nodupZ (l : list Z) : bool :=
  match l with [] => true | x :: t => negb (existsb (Z.eqb x) t) && nodupZ t end.

Definition pad_col (k : nat) (c : column) : column :=
  match c with
  | CScalar v => CScalar (v ++ pad_nulls k)
  | CList la p => CList la (p + k)
  | CVecFixed s v p => CVecFixed s v (p + k)
  | CVecList s la p => CVecList s la (p + k)
  | CSparse n la p => CSparse n la (p + k)
  end.

(* add_entities(cls, ids): duplicates are an error; new identifiers are appended sorted; every
   existing attribute column is padded with nulls (concat_tables, permissive) *)
Definition add_entities (t : table) (ids : list Z) : res table :=
  if negb (nodupZ ids) then Err EData
  else if existsb (fun i => existsb (Z.eqb i) (t_rows t)) ids then Err EData
  else Ok {| t_rows := t_rows t ++ sortZ ids;
             t_attrs := map (fun a => {| a_name := a_name a; a_col := pad_col (length ids) (a_col a); a_dims := a_dims a |}) (t_attrs t) |}.

Definition add_attr (t : table) (name : nat) (c : column) (dims : option (list Z)) : table :=
  {| t_rows := t_rows t; t_attrs := t_attrs t ++ [{| a_name := name; a_col := c; a_dims := dims |}] |}.

Definition add_scalar (t : table) (name : nat) (ids : list Z) (vals : list elem) : res table :=
  if has_attr t name then Err ENotImpl else
  rows <- resolve (t_rows t) ids ;;
  Ok (add_attr t name (CScalar (place_scalar (length (t_rows t)) rows vals)) None).

Definition add_list (t : table) (name : nat) (ids : list Z) (lists : list (option (list elem))) : res table :=
  if has_attr t name then Err ENotImpl else
  rows <- resolve (t_rows t) ids ;;
  Ok (add_attr t name (CList (expand_align (length (t_rows t)) rows lists) 0) None).

Definition is_some {A} (o : option A) : bool := match o with Some _ => true | None => false end.

(* add_vector_attribute with a 2-D NumPy array or a FixedSizeList array (None = null vector) *)
Definition add_vector (t : table) (name : nat) (ids : list Z) (size : nat) (vecs : list (option (list elem)))
    (dims : option (list Z)) : res table :=
  if has_attr t name then Err ENotImpl else
  rows <- resolve (t_rows t) ids ;;
  let n := length (t_rows t) in
  let all_rows := forallb (fun r => memn r rows) (seq 0 n) in
  let all_valid := forallb is_some vecs in
  if all_rows && all_valid then
    (* no nulls: the vectors themselves, re-ordered to the entity table *)
    let ps := sort_rows (valid_pairs rows vecs) in
    Ok (add_attr t name (CVecFixed size (map snd ps) 0) dims)
  else
    Ok (add_attr t name (CVecList size (expand_align n rows vecs) 0) dims).

(* add_vector_attribute with a SciPy sparse array: one CSR row (sorted column indices) per entity *)
Definition add_sparse (t : table) (name : nat) (ids : list Z) (ncol : nat) (csr : list (list (nat * Z)))
    (dims : option (list Z)) : res table :=
  if has_attr t name then Err ENotImpl else
  rows <- resolve (t_rows t) ids ;;
  Ok (add_attr t name (CSparse ncol (expand_align (length (t_rows t)) rows (map Some csr)) 0) dims).

Inductive op :=
| OEntities (ids : list Z)
| OScalar (name : nat) (ids : list Z) (vals : list elem)
| OList (name : nat) (ids : list Z) (lists : list (option (list elem)))
| OVector (name : nat) (ids : list Z) (size : nat) (vecs : list (option (list elem))) (dims : option (list Z))
| OSparse (name : nat) (ids : list Z) (ncol : nat) (csr : list (list (nat * Z))) (dims : option (list Z)).

Definition step (t : table) (o : op) : res table :=
  match o with
  | OEntities ids => add_entities t ids
  | OScalar n ids v => add_scalar t n ids v
  | OList n ids l => add_list t n ids l
  | OVector n ids s v d => add_vector t n ids s v d
  | OSparse n ids c m d => add_sparse t n ids c m d
  end.
(* a failing call leaves the builder as it was *)
Fixpoint run (t : table) (ops : list op) : table * list (option err) :=
  match ops with
  | [] => (t, [])
  | o :: r => match step t o with
              | Ok t' => let '(tf, out) := run t' r in (tf, None :: out)
              | Err e => let '(tf, out) := run t r in (tf, Some e :: out)
              end
  end.
Definition empty_table : table := {| t_rows := []; t_attrs := [] |}.

(* ---------------------------------------------------------------- readers *)
Definition find_attr (t : table) (name : nat) : option attr :=
  find (fun a => Nat.eqb (a_name a) name) (t_attrs t).

(* EntitySet.select(ids=...): KeyError for an unknown identifier; None = no selection *)
Fixpoint select_rows (rows : list Z) (ids : list Z) : res (list nat) :=
  match ids with
  | [] => Ok []
  | i :: t => match index_of i rows with
              | Some k => ks <- select_rows rows t ;; Ok (k :: ks)
              | None => Err EKey
              end
  end.
Definition selection (t : table) (sel : option (list nat)) : list nat :=
  match sel with Some s => s | None => seq 0 (length (t_rows t)) end.
Definition take {A} (d : A) (col : list A) (sel : list nat) : list A := map (fun k => nth k col d) sel.
Definition sel_ids (t : table) (sel : list nat) : list Z := take 0%Z (t_rows t) sel.

(* AttributeSet.arrow() for scalar, list and sparse layouts: the column, taken at the selection *)
Definition read_scalar (t : table) (c : column) (sel : option (list nat)) : list elem :=
  take None (col_scalar c) (selection t sel).
Definition read_lists (t : table) (c : column) (sel : option (list nat)) : list (option (list elem)) :=
  take None (col_lists c) (selection t sel).
Definition read_sparse_lists (t : table) (c : column) (sel : option (list nat)) : list (option (list (nat * Z))) :=
  take None (col_sparse c) (selection t sel).

(* FixedSizeListArray.from_arrays(values, size): cut the value buffer into vectors *)
Fixpoint chunk {A} (fuel size : nat) (xs : list A) : list (list A) :=
  match fuel with
  | O => []
  | S f => match xs with [] => [] | _ => firstn size xs :: chunk f size (skipn size xs) end
  end.
Definition flat_values {A} (l : list (option (list A))) : list A :=
  concat (map (fun o => match o with Some v => v | None => [] end) l).

(* attributes._replace_vectors(nulls, valid, fixed): the vectors of `fixed` go to the valid slots *)
Definition replace_vectors (size : nat) (valid : list bool) (fixed : list (list elem)) : list (option (list elem)) :=
  let value_mask := flat_map (fun b => repeat b size) valid in                       (* np.repeat(mask, size) *)
  let new_vals : list (option elem) := replace_with_mask value_mask (map Some (concat fixed)) in           (* on the value buffer *)
  let vecs := chunk (length valid) size (map (fun o : option elem => match o with Some e => e | None => (None : elem) end) new_vals) in
  map (fun p : bool * list elem => if fst p then Some (snd p) else None) (combine valid vecs).          (* mask = ~valid *)

(* VectorAttributeSet.arrow() *)
Definition read_vectors (t : table) (c : column) (sel : option (list nat)) : list (option (list elem)) :=
  let col := read_lists t c sel in
  match c with
  | CVecFixed _ _ _ => col                                            (* fixed-size storage: as it is *)
  | CVecList size _ _ =>
      if forallb is_some col then map Some (chunk (length col) size (flat_values col))
      else replace_vectors size (map is_some col) (chunk (length col) size (flat_values col))
  | _ => col
  end.
Definition vec_size (c : column) : option nat :=
  match c with CVecFixed s _ _ | CVecList s _ _ => Some s | CSparse n _ _ => Some n | _ => None end.

(* numpy() of a dense vector attribute: a missing vector is a row of NaN *)
Definition vec_matrix (size : nat) (l : list (option (list elem))) : list (list elem) :=
  map (fun o => match o with Some v => v | None => repeat None size end) l.
(* scipy() of a sparse attribute: row pointer from the offsets, entries from the values: a missing
   entity is an empty row *)
Definition sparse_rows (l : list (option (list (nat * Z)))) : list (list (nat * Z)) :=
  map (fun o => match o with Some v => v | None => [] end) l.

(* pandas(missing=...): scalar and list layouts drop the undefined entries in both modes as soon as
   one is undefined; the vector layout only with missing="omit" *)
Definition filter_valid {A B} (ids : list B) (vals : list (option A)) : list (B * option A) :=
  filter (fun p => is_some (snd p)) (combine ids vals).
Definition pandas_1d {A} (ids : list Z) (vals : list (option A)) : list (Z * option A) :=
  if forallb is_some vals then combine ids vals else filter_valid ids vals.
Definition pandas_vec (omit : bool) (size : nat) (ids : list Z) (vals : list (option (list elem))) : list (Z * list elem) :=
  if omit && negb (forallb is_some vals)
  then map (fun p => (fst p, match snd p with Some v => v | None => [] end)) (filter_valid ids vals)
  else combine ids (vec_matrix size vals).

(* drop_null(): the selection restricted to the rows where the attribute is defined *)
Definition col_valid (c : column) : list bool :=
  match c with
  | CScalar v => map is_some v
  | CSparse _ _ _ => map is_some (col_sparse c)
  | _ => map is_some (col_lists c)
  end.
Definition drop_null (t : table) (c : column) (sel : option (list nat)) : list nat :=
  filter (fun k => nth k (col_valid c) false) (selection t sel).

(* ---------------------------------------------------------------- observation (correspondence) *)
Inductive view :=
| VScalar (arrow : list elem) (pd_null pd_omit : list (Z * elem)) (dropped : list Z)
| VList (arrow : list (option (list elem))) (pd_null pd_omit : list (Z * option (list elem))) (dropped : list Z)
| VVector (size : nat) (dims : option (list Z)) (arrow : list (option (list elem))) (matrix : list (list elem))
          (pd_null pd_omit : list (Z * list elem)) (dropped : list Z)
| VSparse (ncol : nat) (dims : option (list Z)) (arrow : list (option (list (nat * Z)))) (rows : list (list (nat * Z)))
          (dropped : list Z)
| VNoAttr.

Definition observe (t : table) (name : nat) (sel : option (list nat)) : view :=
  match find_attr t name with
  | None => VNoAttr
  | Some a =>
      let c := a_col a in
      let s := selection t sel in
      let ids := sel_ids t s in
      let dropped := sel_ids t (drop_null t c sel) in
      match c with
      | CScalar _ => let v := read_scalar t c sel in VScalar v (pandas_1d ids v) (pandas_1d ids v) dropped
      | CList _ _ => let v := read_lists t c sel in VList v (pandas_1d ids v) (pandas_1d ids v) dropped
      | CVecFixed size _ _ | CVecList size _ _ =>
          let v := read_vectors t c sel in
          VVector size (a_dims a) v (vec_matrix size v) (pandas_vec false size ids v) (pandas_vec true size ids v) dropped
      | CSparse ncol _ _ =>
          let v := read_sparse_lists t c sel in VSparse ncol (a_dims a) v (sparse_rows v) dropped
      end
  end.

Definition elem_eq_dec : forall a b : elem, {a = b} + {a <> b}.
Proof. decide equality. apply Z.eq_dec. Defined.
Definition le_dec := list_eq_dec elem_eq_dec.
Definition opt_dec {A} (d : forall a b : A, {a = b} + {a <> b}) : forall a b : option A, {a = b} + {a <> b}.
Proof. decide equality. Defined.
Definition pair_dec {A B} (da : forall a b : A, {a = b} + {a <> b}) (db : forall a b : B, {a = b} + {a <> b})
  : forall a b : A * B, {a = b} + {a <> b}.
Proof. decide equality. Defined.
Definition lz_dec := list_eq_dec Z.eq_dec.
Definition sp_dec := list_eq_dec (pair_dec Nat.eq_dec Z.eq_dec).
Definition view_eq_dec : forall a b : view, {a = b} + {a <> b}.
Proof.
  decide equality;
    try apply lz_dec; try apply Nat.eq_dec; try apply le_dec;
    try apply (opt_dec lz_dec);
    try apply (list_eq_dec (pair_dec Z.eq_dec elem_eq_dec));
    try apply (list_eq_dec (opt_dec le_dec));
    try apply (list_eq_dec (pair_dec Z.eq_dec (opt_dec le_dec)));
    try apply (list_eq_dec le_dec);
    try apply (list_eq_dec (pair_dec Z.eq_dec le_dec));
    try apply (list_eq_dec (opt_dec sp_dec));
    try apply (list_eq_dec sp_dec).
Defined.

Definition err_eq_dec : forall a b : err, {a = b} + {a <> b}. Proof. decide equality. Defined.

(* a query: attribute name, optional selection by identifiers *)
Definition query (t : table) (name : nat) (sel : option (list Z)) : res view :=
  match sel with
  | None => Ok (observe t name None)
  | Some ids => s <- select_rows (t_rows t) ids ;; Ok (observe t name (Some s))
  end.
Definition res_view_eqb (a b : res view) : bool :=
  match a, b with
  | Ok x, Ok y => if view_eq_dec x y then true else false
  | Err e, Err f => if err_eq_dec e f then true else false
  | _, _ => false
  end.

Definition agree (ops : list op) (outcomes : list (option err)) (rows : list Z)
    (queries : list (nat * option (list Z) * res view)) : bool :=
  let '(t, out) := run empty_table ops in
  (if list_eq_dec (opt_dec err_eq_dec) out outcomes then true else false)
  && (if lz_dec (t_rows t) rows then true else false)
  && forallb (fun q => res_view_eqb (query t (fst (fst q)) (snd (fst q))) (snd q)) queries.
