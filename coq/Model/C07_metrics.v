(* C07 -- executable model of prediction metrics and run analysis.
   Hand-written part: alignment of predictions and truth (PredictMetric.align_scores), the
   measurement loop of RunAnalysis.measure (lookup by projected key, listwise / decomposed /
   global metrics, defaults) and the summary statistics.  The metric bodies themselves
   (measure_list, compute_list_data, extract_list_metric, global_aggregate of RMSE and MAE, and
   RunAnalysisResult.list_metrics / list_summary) are NOT here: they are regenerated from the
   source into Gen/C07_agg.v on every run.  Definitions only; proofs are in Proofs/C07_proofs.v. *)
From Coq Require Import ZArith QArith Qabs List Bool.
From LK Require Import Lib.QLib Gen.C07_agg.
Import ListNotations.
Open Scope Q_scope.

(* an item list restricted to what the metrics read: item id and one optional value
   (score on the output side, rating on the test side; None = NaN) *)
Definition ilist := list (Z * option Q).
Inductive disp := DError | DIgnore.
Definition is_error (d : disp) : bool := match d with DError => true | DIgnore => false end.

Definition has (i : Z) (l : ilist) : bool := existsb (fun p => Z.eqb (fst p) i) l.
Definition value_of (i : Z) (l : ilist) : option Q :=
  match find (fun p => Z.eqb (fst p) i) l with Some (_, v) => v | None => None end.

(* pandas outer join on the item index: every predicted item, then items only in the truth.
   (pandas sorts the union; everything computed downstream is order-insensitive.) *)
Definition join (preds truth : ilist) : list (option Q * option Q) :=
  map (fun p => (snd p, value_of (fst p) truth)) preds
  ++ map (fun t => (None, snd t)) (filter (fun t => negb (has (fst t) preds)) truth).

Definition missing_score (pt : option Q * option Q) : bool :=
  match pt with (None, Some _) => true | _ => false end.
Definition missing_truth (pt : option Q * option Q) : bool :=
  match pt with (Some _, None) => true | _ => false end.

(* None = ValueError *)
Definition align (ms mt : disp) (preds truth : ilist) : option (series * series) :=
  let j := join preds truth in
  if (is_error ms && existsb missing_score j) || (is_error mt && existsb missing_truth j)
  then None else Some (map fst j, map snd j).

(* ---- the definition the property refers to: pairs having both values ---- *)
Definition both (preds truth : ilist) : list (Q * Q) :=
  flat_map (fun p => match snd p, value_of (fst p) truth with
                     | Some s, Some r => [(s, r)] | _, _ => [] end) preds.
Definition sqerr (pr : Q * Q) : Q := (fst pr - snd pr) * (fst pr - snd pr).
Definition abserr (pr : Q * Q) : Q := Qabs (fst pr - snd pr).
Definition rmse_def (pairs : list (Q * Q)) : res :=
  match pairs with [] => RNone | _ => RSqrt (Qsum (map sqerr pairs) / Qofnat (length pairs)) end.
Definition mae_def (pairs : list (Q * Q)) : res :=
  match pairs with [] => RNone | _ => RVal (Qsum (map abserr pairs) / Qofnat (length pairs)) end.

(* ---- metrics as the run analysis sees them ---- *)
Record metric := {
  m_listwise : bool;
  m_decomposed : bool;
  m_global : bool;
  m_measure_list : ilist -> ilist -> option res;       (* None = raises *)
  m_compute : ilist -> ilist -> option (Q * Q);        (* per-list intermediate; None = raises *)
  m_extract : Q * Q -> option res;                     (* None = Python None (no per-list value) *)
  m_aggregate : list (Q * Q) -> res;
  m_run : list (list Z * ilist) -> list (list Z * ilist) -> res;
  m_default : option Q                                 (* after _wrap_metric's resolution *)
}.

Definition pred_metric (ml : series * series -> res) (cd : series * series -> Q * Q)
    (ex : Q * Q -> res) (ga : list (Q * Q) -> res) (ms mt : disp) (dflt : option Q) : metric :=
  {| m_listwise := true; m_decomposed := true; m_global := false;
     m_measure_list := fun o t => option_map ml (align ms mt o t);
     m_compute := fun o t => option_map cd (align ms mt o t);
     m_extract := fun d => Some (ex d);
     m_aggregate := ga;
     m_run := fun _ _ => RNone;
     m_default := dflt |}.
Definition rmse_metric := pred_metric rmse_measure_list rmse_compute_list_data rmse_extract_list_metric rmse_global_aggregate.
Definition mae_metric := pred_metric mae_measure_list mae_compute_list_data mae_extract_list_metric mae_global_aggregate.

(* test metrics defined by the harness (harness/props/c07.py has the Python twins) *)
Definition hits (o t : ilist) : Q := Qofnat (length (filter (fun p => has (fst p) t) o)).
Definition fun_metric (dflt : option Q) : metric :=          (* a plain function: listwise only *)
  {| m_listwise := true; m_decomposed := false; m_global := false;
     m_measure_list := fun o t => Some (RVal (hits o t));
     m_compute := fun _ _ => Some (0, 0); m_extract := fun _ => None; m_aggregate := fun _ => RNone;
     m_run := fun _ _ => RNone; m_default := dflt |}.
Definition deconly_metric (dflt : option Q) : metric :=      (* decomposed only, no per-list value *)
  {| m_listwise := false; m_decomposed := true; m_global := false;
     m_measure_list := fun _ _ => None;
     m_compute := fun o t => Some (hits o t, Qofnat (length o));
     m_extract := fun _ => None;
     m_aggregate := fun ds => RVal (Qsum (map fst ds) + Qsum (map snd ds));
     m_run := fun _ _ => RNone; m_default := dflt |}.
Definition global_metric (dflt : option Q) : metric :=       (* GlobalMetric only *)
  {| m_listwise := false; m_decomposed := false; m_global := true;
     m_measure_list := fun _ _ => None;
     m_compute := fun _ _ => Some (0, 0); m_extract := fun _ => None; m_aggregate := fun _ => RNone;
     m_run := fun outs tst => RVal (Qofnat (length outs) + 2 * Qofnat (length tst));
     m_default := dflt |}.

(* ---- keys and projected lookup ---- *)
Fixpoint index_of (f : nat) (fields : list nat) : option nat :=
  match fields with
  | [] => None
  | g :: r => if Nat.eqb f g then Some 0%nat else option_map S (index_of f r)
  end.
Fixpoint project (ofields tfields : list nat) (key : list Z) : option (list Z) :=
  match tfields with
  | [] => Some []
  | f :: r => match index_of f ofields, project ofields r key with
              | Some i, Some rest => option_map (fun v => v :: rest) (nth_error key i)
              | _, _ => None
              end
  end.
Definition key_eqb (a b : list Z) : bool := if list_eq_dec Z.eq_dec a b then true else false.
(* dictionary semantics: the last list stored under a key *)
Definition lookup_key (k : list Z) (coll : list (list Z * ilist)) : option ilist :=
  match find (fun e => key_eqb (fst e) k) (rev coll) with Some e => Some (snd e) | None => None end.
Definition lookup_projected (ofields tfields : list nat) (key : list Z) (test : list (list Z * ilist))
  : option (option ilist) :=    (* outer None = TypeError (missing field) *)
  option_map (fun kp => lookup_key kp test) (project ofields tfields key).

(* ---- RunAnalysis.measure ---- *)
Definition in_table (m : metric) : bool := m_listwise m || m_decomposed m.
Definition in_globals (m : metric) : bool := m_global m || m_decomposed m.

(* one cell: Some v, or None when the metric raised *)
Definition cell (m : metric) (o t : ilist) : option (res * list (Q * Q)) :=
  if m_decomposed m then
    match m_compute m o t with
    | None => None
    | Some d =>
        match m_extract m d with
        | Some v => Some (v, [d])
        | None => if m_listwise m
                  then option_map (fun v => (v, [d])) (m_measure_list m o t)
                  else Some (RNone, [d])
        end
    end
  else option_map (fun v => (v, [])) (m_measure_list m o t).

Fixpoint sequence {A} (l : list (option A)) : option (list A) :=
  match l with
  | [] => Some []
  | None :: _ => None
  | Some x :: r => option_map (cons x) (sequence r)
  end.

(* row i of the table and the intermediates it contributes, per table metric *)
Definition row (ms : list metric) (o : ilist) (t : option ilist) : option (list (res * list (Q * Q))) :=
  match t with
  | None => Some (map (fun _ => (RNone, [])) (filter in_table ms))
  | Some tl => sequence (map (fun m => cell m o tl) (filter in_table ms))
  end.

Record analysis := {
  a_table : list (list res);                 (* one row per output list, one column per table metric *)
  a_globals : list res;                      (* one per global-or-decomposed metric *)
  a_defaults : list (option Q)               (* one per table metric *)
}.

Definition nth_col {A} (d : A) (k : nat) (rows : list (list A)) : list A := map (fun r => nth k r d) rows.

Inductive outcome := OK (a : analysis) | EValue | EType.

(* global values: one per global-or-decomposed metric, in declaration order;
   `pre` = metrics already passed (gives the column of a decomposed metric in the table) *)
Fixpoint globals_of (inter : nat -> list (Q * Q)) (outputs test : list (list Z * ilist))
    (pre rest : list metric) : list res :=
  match rest with
  | [] => []
  | m :: r =>
      (if in_globals m then
         [if m_decomposed m then m_aggregate m (inter (length (filter in_table pre)))
          else m_run m outputs test]
       else []) ++ globals_of inter outputs test (pre ++ [m]) r
  end.

Definition measure (ofields tfields : list nat) (ms : list metric)
    (outputs test : list (list Z * ilist)) : outcome :=
  let tests := map (fun e => lookup_projected ofields tfields (fst e) test) outputs in
  match sequence tests with
  | None => EType
  | Some ts =>
      match sequence (map (fun ot => row ms (snd (fst ot)) (snd ot)) (combine outputs ts)) with
      | None => EValue
      | Some rows =>
          (* intermediates of the k-th table metric, in list order *)
          let inter k := flat_map (fun r => snd (nth k r (RNone, []))) rows in
          OK {| a_table := map (map fst) rows;
                a_globals := globals_of inter outputs test [] ms;
                a_defaults := map m_default (filter in_table ms) |}
      end
  end.

(* ---- defaults and summaries ---- *)
Definition fill_cell (v : res) (d : option Q) : res :=
  match v, d with RNone, Some q => RVal q | _, _ => v end.
Definition fill_table (tbl : list (list res)) (defaults : list (option Q)) : list (list res) :=
  map (fun r => map (fun vd => fill_cell (fst vd) (snd vd)) (combine r defaults)) tbl.
Definition list_metrics_of (a : analysis) (fill_missing : bool) : list (list res) :=
  list_metrics fill_table (a_table a) (a_defaults a) fill_missing.

Fixpoint insert_sorted (x : Q) (l : list Q) : list Q :=
  match l with [] => [x] | y :: r => if Qle_bool x y then x :: l else y :: insert_sorted x r end.
Definition sortq (l : list Q) : list Q := fold_right insert_sorted [] l.
Definition mean (l : list Q) : option Q :=
  match l with [] => None | _ => Some (Qsum l / Qofnat (length l)) end.
Definition median (l : list Q) : option Q :=
  let s := sortq l in let n := length l in
  match n with
  | O => None
  | _ => if Nat.even n then Some ((nth (n / 2 - 1) s 0 + nth (n / 2) s 0) / 2) else Some (nth (n / 2) s 0)
  end.
Definition variance (l : list Q) : option Q :=      (* sample variance; pandas std = its square root *)
  match mean l with
  | None => None
  | Some m => match length l with
              | O | S O => None
              | S n => Some (Qsum (map (fun x => (x - m) * (x - m)) l) / Qofnat n)
              end
  end.
Definition stat_value (s : stat) (col : list Q) : res :=
  match s with
  | SMean => res_of_opt (mean col)
  | SMedian => res_of_opt (median col)
  | SStd => res_sqrt_opt (variance col)
  end.
(* statistics of one (already filled) column, absent cells skipped as pandas does *)
Definition summary_row (col : series) : list res := map (fun s => stat_value s (ser_present col)) list_summary_stats.

(* ---- comparison with the observation (used by the generated case files) ---- *)
Definition agree_table (tol : Q) (tbl : list (list res)) (obs : list (list (option Q))) : bool :=
  all2 (all2 (agree_res tol)) tbl obs.
Definition agree_analysis (tol : Q) (o : outcome) (err : nat)
    (raw filled : list (list (option Q))) (globals : list (option Q)) : bool :=
  match o, err with
  | EValue, 1%nat => true
  | EType, 2%nat => true
  | OK a, 0%nat =>
      agree_table tol (list_metrics_of a false) raw
      && agree_table tol (list_metrics_of a true) filled
      && all2 (agree_res tol) (a_globals a) globals
  | _, _ => false
  end.
Definition agree_summary (tol : Q) (filled_cols : list series) (obs : list (list (option Q))) : bool :=
  all2 (fun col o => all2 (agree_res tol) (summary_row col) o) filled_cols obs.

(* ---- the result frame read KEY BY KEY ----
   The per-list frame carries the output keys on its index.  The observation is the frame as it is
   (index tuples and rows in frame order); it is matched against the model by key, not by position:
   every observed (key, row) consumes the first not yet consumed model row stored under that key, and
   nothing may be left over.  A frame whose rows sit under other lists' keys fails; a frame that is
   consistently re-ordered (rows moved together with their keys) passes. *)
Definition keyed_table (outputs : list (list Z * ilist)) (tbl : list (list res)) : list (list Z * list res) :=
  combine (map fst outputs) tbl.

Fixpoint take_key (k : list Z) (rows : list (list Z * list res)) : option (list res * list (list Z * list res)) :=
  match rows with
  | [] => None
  | (k', r) :: rest =>
      if key_eqb k' k then Some (r, rest)
      else match take_key k rest with
           | Some (r', rest') => Some (r', (k', r) :: rest')
           | None => None
           end
  end.

Fixpoint agree_keyed (tol : Q) (model : list (list Z * list res)) (index : list (list Z))
    (obs : list (list (option Q))) : bool :=
  match index, obs with
  | [], [] => match model with [] => true | _ => false end
  | k :: ir, o :: orest =>
      match take_key k model with
      | Some (r, rest) => all2 (agree_res tol) r o && agree_keyed tol rest ir orest
      | None => false
      end
  | _, _ => false
  end.

Definition agree_analysis_keyed (tol : Q) (outputs : list (list Z * ilist)) (o : outcome) (err : nat)
    (index : list (list Z)) (raw filled : list (list (option Q))) (globals : list (option Q)) : bool :=
  match o, err with
  | EValue, 1%nat => true
  | EType, 2%nat => true
  | OK a, 0%nat =>
      agree_keyed tol (keyed_table outputs (list_metrics_of a false)) index raw
      && agree_keyed tol (keyed_table outputs (list_metrics_of a true)) index filled
      && all2 (agree_res tol) (a_globals a) globals
  | _, _ => false
  end.
