(* C10 -- executable model of FunkSVD training (lenskit/funksvd.py: _feature_loop, _train_feature,
   train), written ONCE over an abstract arithmetic signature and instantiated with
   * binary64 floats (PrimFloat): run on the very inputs of the implementation, compared bit for bit;
   * rationals (Q): the reading in which the update rule is the documented formula.
   Definitions only; proofs are in Proofs/C10_funksvd_proofs.v. *)
From Coq Require Import ZArith QArith List Bool PrimFloat Uint63 FloatOps SpecFloat.
From LK Require Import Lib.QLib.
Import ListNotations.

Record arith := {
  T : Type;
  add : T -> T -> T;
  sub : T -> T -> T;
  mul : T -> T -> T;
  ltb : T -> T -> bool;
  of_nat : nat -> T;
  zero : T
}.

Section Generic.
Variable Ar : arith.
Notation T := (T Ar).
Notation "a +. b" := (add Ar a b) (at level 50, left associativity).
Notation "a -. b" := (sub Ar a b) (at level 50, left associativity).
Notation "a *. b" := (mul Ar a b) (at level 40, left associativity).

Record params := {
  iter_count : nat;            (* epochs per feature *)
  lrate : T;
  reg_term : T;
  rng : option (T * T);        (* rating range; None = (-inf, inf) *)
  init : T                     (* initial value of every parameter (0.1) *)
}.

(* `if pred < rmin: pred = rmin elif pred > rmax: pred = rmax` *)
Definition clamp_loop (r : option (T * T)) (p : T) : T :=
  match r with
  | None => p
  | Some (lo, hi) => if ltb Ar p lo then lo else if ltb Ar hi p then hi else p
  end.
(* `np.minimum(np.maximum(est, rmin), rmax)` *)
Definition clamp_np (r : option (T * T)) (e : T) : T :=
  match r with
  | None => e
  | Some (lo, hi) => let m := if ltb Ar e lo then lo else e in if ltb Ar hi m then hi else m
  end.

(* two-dimensional arrays, row-major: [entity][feature] *)
Definition arr2 := list (list T).
Definition get1 (l : list T) (i : nat) : T := nth i l (zero Ar).
Fixpoint set1 (l : list T) (i : nat) (v : T) : list T :=
  match l, i with
  | [], _ => []
  | _ :: r, O => v :: r
  | x :: r, S i' => x :: set1 r i' v
  end.
Definition get2 (m : arr2) (r c : nat) : T := get1 (nth r m []) c.
Fixpoint set2 (m : arr2) (r c : nat) (v : T) : arr2 :=
  match m, r with
  | [], _ => []
  | row :: rest, O => set1 row c v :: rest
  | row :: rest, S r' => row :: set2 rest r' c v
  end.

(* one training sample: user number, item number, rating, running estimate est[s] *)
Definition sample := (nat * nat * T * T)%type.

(* the body of the loop over samples in _feature_loop *)
Definition sgd_sample (p : params) (f : nat) (trail : T) (st : arr2 * arr2) (smp : sample) : arr2 * arr2 :=
  let '(user, item, rating, est) := smp in
  let umat := fst st in let imat := snd st in
  let ufv := get2 umat user f in
  let ifv := get2 imat item f in
  let pred := clamp_loop (rng p) (est +. ufv *. ifv +. trail) in
  let error := rating -. pred in
  let ufd := (error *. ifv -. reg_term p *. ufv) *. lrate p in
  let ifd := (error *. ufv -. reg_term p *. ifv) *. lrate p in
  (set2 umat user f (ufv +. ufd), set2 imat item f (ifv +. ifd)).

Definition feature_loop (p : params) (f : nat) (trail : T) (smps : list sample) (st : arr2 * arr2) : arr2 * arr2 :=
  fold_left (sgd_sample p f trail) smps st.

(* _train_feature: iter_count passes over the samples *)
Fixpoint train_feature (n : nat) (p : params) (f : nat) (trail : T) (smps : list sample) (st : arr2 * arr2) : arr2 * arr2 :=
  match n with
  | O => st
  | S n' => train_feature n' p f trail smps (feature_loop p f trail smps st)
  end.

Definition with_est (smps : list sample) (est : list T) : list sample :=
  map (fun se => let '(u, i, r, _) := fst se in (u, i, r, snd se)) (combine smps est).
Definition est_of (smps : list sample) : list T := map (fun s => snd s) smps.

(* est = clamp(est + user_features[users, f] * item_features[items, f]) *)
Definition next_est (p : params) (f : nat) (st : arr2 * arr2) (smps : list sample) : list sample :=
  map (fun s => let '(u, i, r, e) := s in
                (u, i, r, clamp_np (rng p) (e +. get2 (fst st) u f *. get2 (snd st) i f))) smps.

(* train: for f in range(feature_count): trail = init*init*(feature_count - f - 1); train the
   feature; update the running estimate.  `todo` counts the features still to train. *)
Fixpoint train_from (p : params) (nfeat : nat) (todo : nat) (smps : list sample) (st : arr2 * arr2) : arr2 * arr2 :=
  match todo with
  | O => st
  | S todo' =>
      let f := (nfeat - todo)%nat in
      let trail := init p *. init p *. of_nat Ar (nfeat - f - 1) in
      let st' := train_feature (iter_count p) p f trail smps st in
      train_from p nfeat todo' (next_est p f st' smps) st'
  end.

Definition fresh (n nfeat : nat) (v : T) : arr2 := repeat (repeat v nfeat) n.

Definition train (p : params) (nfeat nusers nitems : nat) (smps : list sample) : arr2 * arr2 :=
  train_from p nfeat nfeat smps (fresh nusers nfeat (init p), fresh nitems nfeat (init p)).
End Generic.

(* ---- binary64 instance ---- *)
Definition float_arith : arith :=
  {| T := float; add := PrimFloat.add; sub := PrimFloat.sub; mul := PrimFloat.mul;
     ltb := PrimFloat.ltb; of_nat := fun n => PrimFloat.of_uint63 (Uint63.of_Z (Z.of_nat n));
     zero := PrimFloat.zero |}.

(* bitwise comparison of floats through their specification (distinguishes -0 from 0, equates NaNs) *)
Definition spec_eqb (a b : spec_float) : bool :=
  match a, b with
  | S754_zero s, S754_zero s' => Bool.eqb s s'
  | S754_infinity s, S754_infinity s' => Bool.eqb s s'
  | S754_nan, S754_nan => true
  | S754_finite s m e, S754_finite s' m' e' => Bool.eqb s s' && Pos.eqb m m' && Z.eqb e e'
  | _, _ => false
  end.
Definition float_same (a b : float) : bool := spec_eqb (Prim2SF a) (Prim2SF b).
Definition arr2_same (a b : list (list float)) : bool := all2 (all2 float_same) a b.

(* ---- rational instance ---- *)
Definition q_arith : arith :=
  {| T := Q; add := Qplus; sub := Qminus; mul := Qmult; ltb := Qltb; of_nat := Qofnat; zero := 0%Q |}.

(* the implementation's features agree with the float run bit for bit *)
Definition fparams (iters : nat) (lr reg : float) (range : option (float * float)) (init0 : float) : params float_arith :=
  Build_params float_arith iters lr reg range init0.
Definition funksvd_agree (p : params float_arith) (nfeat nusers nitems : nat)
    (smps : list (nat * nat * float * float)) (uobs iobs : list (list float)) : bool :=
  let r := train float_arith p nfeat nusers nitems smps in
  arr2_same (fst r) uobs && arr2_same (snd r) iobs.

(* ---- the seeded sample order ----
   FunkSVDScorer.train visits the observed ratings in the order `stored[order[0]], stored[order[1]], ...`, where
   `stored` is the rating matrix in its stored (COO) order and `order` is the shuffle of 0..n-1 drawn from the
   generator the seed stands for -- whichever way the seed reaches the training: TrainingOptions(rng = integer /
   integer sequence / SeedSequence / Generator / BitGenerator), or no rng in the options and a generator installed
   with lenskit.random.set_global_rng beforehand.  The draw itself is NumPy's (trusted); the harness repeats it on a
   generator equal to the one the training is given and hands the indices over. *)
Definition in_order {A : Type} (d : A) (stored : list A) (order : list nat) : list A :=
  map (fun j => nth j stored d) order.
(* `order` has n entries and every index below n occurs in it (hence exactly once) *)
Definition is_order (n : nat) (order : list nat) : bool :=
  Nat.eqb (length order) n && forallb (fun j => existsb (Nat.eqb j) order) (seq 0 n).

(* a check `agree` made on the stored samples visited in the seeded order *)
Definition seeded_ok {A : Type} (d : A) (agree : list A -> bool) (stored : list A) (order : list nat) : bool :=
  is_order (length stored) order && agree (in_order d stored order).

Definition no_sample : nat * nat * float * float := (O, O, PrimFloat.zero, PrimFloat.zero).
(* the features are those of the float run over the stored samples visited in the seeded order *)
Definition funksvd_seeded_agree (p : params float_arith) (nfeat nusers nitems : nat)
    (stored : list (nat * nat * float * float)) (order : list nat) (uobs iobs : list (list float)) : bool :=
  seeded_ok no_sample (fun smps => funksvd_agree p nfeat nusers nitems smps uobs iobs) stored order.
(* a second training from an equal seed source gave the same features, bit for bit *)
Definition same_features (u i u' i' : list (list float)) : bool := arr2_same u u' && arr2_same i i'.
