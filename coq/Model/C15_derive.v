(* C15 (b) -- lists DERIVED from other lists, and the lazily filled state they share with them.
   Branch by branch after data/items.py:
     ItemList.__init__ with an ItemList source  (self.__dict__.update(source.__dict__), then the
       overrides: item_ids=, vocabulary=, ordered=, scores= (array / False), rank=, other fields
       (array / False); dict union source._fields | fields; the rank cache survives only for a list
       of the same length)
     ItemList.__getitem__ / clone              (a list rebuilt from the selected arrays: ranks are NOT
       passed on, the flag is)
     ids() / numbers() / ranks()               (fill _ids / _numbers / _ranks on first use; every
       converter calls some of them)
   Executable definitions only.  The record `ilist` of Model/C15_codec.v is the object's __dict__:
   il_ids / il_nums / il_ranks may be absent and computable (a cache not yet filled). *)
From Coq Require Import ZArith List Bool Arith String.
From LK Require Import Model.C15_codec.
Import ListNotations.
Open Scope string_scope.
Open Scope list_scope.

(* a keyword field of the copy constructor: an array, or False (remove the field) *)
Inductive fov := FSet (c : ncol) | FDrop.

Record overrides := mkOv {
  ov_ids : option (list Z);          (* item_ids= *)
  ov_idty : nat;                     (* dtype of that array *)
  ov_vocab : option (list Z);        (* vocabulary= (always a different object than the source's) *)
  ov_ordered : option bool;          (* ordered= *)
  ov_scores : option fov;            (* scores= array | False *)
  ov_rank : option (list Z);         (* rank= *)
  ov_fields : list (string * fov)    (* the remaining keyword fields, in call order *)
}.

(* dict union: an existing key keeps its position and takes the new value, new keys are appended *)
Fixpoint fupdate (l : list (string * fov)) (k : string) (v : fov) : list (string * fov) :=
  match l with
  | [] => [(k, v)]
  | (j, w) :: r => if String.eqb j k then (j, v) :: r else (j, w) :: fupdate r k v
  end.
Definition funion (src ov : list (string * fov)) : list (string * fov) :=
  fold_left (fun acc kv => fupdate acc (fst kv) (snd kv)) ov src.

Definition as_fov (fs : list (string * ncol)) : list (string * fov) := map (fun kc => (fst kc, FSet (snd kc))) fs.

(* the loop that fills _fields: the score first (as float32), then every effective field that is an
   array and not an identifier alias / score / rank; every array must have the list's length *)
Definition keep_fields (eff : list (string * fov)) : list (string * ncol) :=
  flat_map (fun kv => match snd kv with
                      | FSet c => if smem (fst kv) reserved then [] else [(fst kv, c)]
                      | FDrop => []
                      end) eff.
Definition mk_fields (len : nat) (score : option ncol) (eff : list (string * fov)) : option (list (string * ncol)) :=
  let fs := match score with Some c => [("score", mkCol TF32 (c_vals c))] | None => [] end ++ keep_fields eff in
  if forallb (fun kc => Nat.eqb (List.length (c_vals (snd kc))) len) fs then Some fs else None.

Definition ID32 : nat := 1.     (* an empty identifier array is always int32 *)

Definition derive (src : ilist) (ov : overrides) : option ilist :=
  let len := match ov_ids ov with Some i => List.length i | None => il_len src end in
  (* a different vocabulary with neither identifiers nor numbers given: keep the identifiers, let the
     numbers be recomputed *)
  let switch := match ov_vocab ov, il_vocab src, ov_ids ov with Some _, Some _, None => true | _, _, _ => false end in
  let ids := match ov_ids ov with Some i => Some i | None => if switch then v_ids src else il_ids src end in
  let nums := match ov_ids ov with Some _ => None | None => if switch then None else il_nums src end in
  let vocab := match ov_vocab ov with Some v => Some v | None => il_vocab src end in
  let idty := match ov_ids ov with Some i => if Nat.eqb (List.length i) 0 then ID32 else ov_idty ov | None => il_idty src end in
  let ranks0 := if Nat.eqb len (il_len src) then il_ranks src else None in
  let ord0 := match ov_ordered ov with Some b => b | None => il_ordered src end in
  let rk := match ov_rank ov with
            | None => Some (ord0, ranks0)
            | Some r => match ov_ordered ov with
                        | Some false => Some (ord0, ranks0)         (* warning, ranks dropped *)
                        | _ => if Nat.eqb (List.length r) len then Some (true, Some r) else None
                        end
            end in
  let eff := funion (as_fov (il_fields src)) (ov_fields ov) in
  let score := match ov_scores ov with
               | Some FDrop => Some None
               | Some (FSet c) => Some (Some c)
               | None => match alookup "score" eff with
                         | Some (FSet c) => Some (Some c)
                         | Some FDrop => None            (* score=False as a field: not an array *)
                         | None => Some None
                         end
               end in
  match rk, score with
  | Some (ord, ranks), Some sc =>
      match mk_fields len sc eff with
      | Some fs => Some {| il_len := len; il_idty := idty; il_ids := ids; il_nums := nums; il_vocab := vocab;
                           il_ordered := ord; il_ranks := ranks; il_fields := fs |}
      | None => None
      end
  | _, _ => None
  end.

(* ---- subsetting and clone --------------------------------------------------------------------- *)

Definition select (idx : list nat) (l : list Z) : list Z :=
  flat_map (fun i => match nth_error l i with Some x => [x] | None => [] end) idx.
Definition select_col (idx : list nat) (c : ncol) : ncol := mkCol (c_ty c) (select idx (c_vals c)).

(* _fields rebuilt by the constructor from a field dict *)
Definition norm_fields (fs : list (string * ncol)) : list (string * ncol) :=
  match alookup "score" fs with Some c => [("score", mkCol TF32 (c_vals c))] | None => [] end
  ++ filter (fun kc => negb (smem (fst kc) reserved)) fs.

(* il[sel]: sel resolved to the positions it keeps (mask, index array, slice, scalar); a position
   outside the list is an IndexError.
   il_idty of an EMPTY list carries no information: a stored empty identifier array is int32, one
   computed from the vocabulary has the vocabulary's dtype, and nothing any codec produces for an
   empty list depends on it (arrow_types is empty, observations hold no dtype of the identifiers);
   the model writes int32. *)
Definition getitem (src : ilist) (idx : list nat) : option ilist :=
  if negb (forallb (fun i => Nat.ltb i (il_len src)) idx) then None else Some
  {| il_len := List.length idx;
     il_idty := if Nat.eqb (List.length idx) 0 then ID32 else il_idty src;
     il_ids := option_map (select idx) (il_ids src);
     il_nums := option_map (select idx) (il_nums src);
     il_vocab := il_vocab src;
     il_ordered := il_ordered src;
     il_ranks := None;
     il_fields := norm_fields (map (fun kc => (fst kc, select_col idx (snd kc))) (il_fields src)) |}.

Definition clone (src : ilist) : ilist :=
  {| il_len := il_len src; il_idty := il_idty src; il_ids := il_ids src; il_nums := il_nums src;
     il_vocab := il_vocab src; il_ordered := il_ordered src; il_ranks := None;
     il_fields := norm_fields (il_fields src) |}.

(* ---- lazily filled state ---------------------------------------------------------------------- *)

Inductive warm := WIds | WNums | WRanks.

Definition warm_il (w : warm) (il : ilist) : ilist :=
  match w with
  | WIds => {| il_len := il_len il; il_idty := il_idty il; il_ids := v_ids il; il_nums := il_nums il;
               il_vocab := il_vocab il; il_ordered := il_ordered il; il_ranks := il_ranks il; il_fields := il_fields il |}
  | WNums => {| il_len := il_len il; il_idty := il_idty il; il_ids := il_ids il; il_nums := v_nums il;
                il_vocab := il_vocab il; il_ordered := il_ordered il; il_ranks := il_ranks il; il_fields := il_fields il |}
  | WRanks => if il_ordered il
              then {| il_len := il_len il; il_idty := il_idty il; il_ids := il_ids il; il_nums := il_nums il;
                      il_vocab := il_vocab il; il_ordered := il_ordered il; il_ranks := v_ranks il; il_fields := il_fields il |}
              else il
  end.

(* ---- histories: a list is built, used, derived from, used again ... ---------------------------- *)

Inductive step := SWarm (w : warm) | SDerive (ov : overrides) | SGet (idx : list nat) | SClone.

Fixpoint chain_run (il : ilist) (ss : list step) : option ilist :=
  match ss with
  | [] => Some il
  | SWarm w :: r => chain_run (warm_il w il) r
  | SDerive ov :: r => match derive il ov with Some il' => chain_run il' r | None => None end
  | SGet idx :: r => match getitem il idx with Some il' => chain_run il' r | None => None end
  | SClone :: r => chain_run (clone il) r
  end.

Definition is_warm (s : step) : bool := match s with SWarm _ => true | _ => false end.
(* the same history with every use of the intermediate lists left out *)
Definition cold (ss : list step) : list step := filter (fun s => negb (is_warm s)) ss.

Definition obind {A B} (o : option A) (f : A -> option B) : option B := match o with Some x => f x | None => None end.

(* correspondence helpers: the final list of a history through a codec *)
Definition chain_pickle il ss := obind (chain_run il ss) pickle_rt.
Definition chain_df il ss := obind (chain_run il ss) df_rt.
Definition chain_arrow il ss (numbers : bool) := obind (chain_run il ss) (fun x => arrow_rt x true numbers).

Fixpoint chain_items (items : list (list Z * (ilist * list step))) : option (list (list Z * ilist)) :=
  match items with
  | [] => Some []
  | (k, (il, ss)) :: r =>
      match chain_run il ss, chain_items r with
      | Some x, Some xs => Some ((k, x) :: xs)
      | _, _ => None
      end
  end.
Definition chain_coll (batch : nat) (kf : list string) (items : list (list Z * (ilist * list step))) : option coll :=
  obind (chain_items items) (coll_rt batch kf).
