(* C19 -- executable model of RandomSelector (basic/random.py), SoftmaxRanker (basic/random.py) and
   StochasticTopNRanker (stochastic/_ranker.py).  Definitions only; proofs are in Proofs/C19_*.v.

   The length resolution, the eligibility mask and the key rule of each component are NOT written
   here: they are regenerated from the source into Gen/C19_len.v (and argtopn's plan into
   Gen/C03_len.v) on every run.

   Randomness is explicit: the selector takes the positions `rng.choice(len, n, replace=False)`
   returned, the rankers take the sort keys `log(U)/max(w, tiny)` (one per eligible item); the
   theorems quantify over all of them. *)
From Coq Require Import ZArith QArith Qabs List Bool.
From LK Require Import Lib.QLib Lib.PyInt Lib.TopN Gen.C03_len Gen.C19_len.
Import ListNotations.
Open Scope Z_scope.

(* a score as the components see it *)
Inductive fscore := SNum (q : Q) | SNan | SPInf | SNInf.
(* an item row: identifier, score, one further field (stands for "all other fields") *)
Definition row := (Z * fscore * Z)%type.
Definition r_id (r : row) : Z := fst (fst r).
Definition r_score (r : row) : fscore := snd (fst r).

Definition eligible (m : mask_kind) (r : row) : bool :=
  match m, r_score r with
  | MAll, _ => true
  | MNotNan, SNan => false
  | MNotNan, _ => true
  | MFinite, SNum _ => true
  | MFinite, _ => false
  end.

(* ---- RandomSelector ---- *)
Definition pick (items : list row) (picked : list nat) : list row :=
  flat_map (fun p => match nth_error items p with Some r => [r] | None => [] end) picked.

(* what the generator is asked for: (population, size), None when it is not consulted *)
Definition random_request (items : list row) (n config_n : pyv) : option (option (Z * Z)) :=
  match random_len n config_n (Z.of_nat (length items)) with
  | Some (Take (Some k) _) => Some (Some (Z.of_nat (length items), k))
  | Some (EmptyList _) => Some None
  | _ => None
  end.
Definition random_select (items : list row) (n config_n : pyv) (picked : list nat) : option (list row * bool) :=
  match random_len n config_n (Z.of_nat (length items)) with
  | Some (Take (Some _) ord) => Some (pick items picked, ord)
  | Some (EmptyList ord) => Some ([], ord)
  | _ => None
  end.

(* the generator contract for choice(N, k, replace=False): k distinct positions below N *)
Fixpoint nodup_nat (l : list nat) : bool :=
  match l with [] => true | x :: r => negb (existsb (Nat.eqb x) r) && nodup_nat r end.
Definition choice_ok (N k : Z) (picked : list nat) : bool :=
  Z.eqb (Z.of_nat (length picked)) k && nodup_nat picked && forallb (fun p => Z.ltb (Z.of_nat p) N) picked.

(* ---- the rankers: top-n of the keys over the eligible rows ---- *)
Definition rank_by_keys (valid : list row) (keys : list Q) (k : Z) : option (list row) :=
  let pairs := combine valid keys in
  match argtopn_plan k (Z.of_nat (length pairs)) with
  | Some PEmpty => Some []
  | Some PPart => Some (map fst (firstn (Z.to_nat k) (sort_desc snd pairs)))
  | Some PFull => Some (map fst (sort_desc snd pairs))
  | None => None
  end.

Definition lenfun := pyv -> pyv -> Z -> res outcome.
Definition stochastic_rank (mask : mask_kind) (lenf : lenfun) (items : list row) (n config_n : pyv)
    (keys : list Q) : option (list row * bool) :=
  let valid := filter (eligible mask) items in
  match lenf n config_n (Z.of_nat (length valid)) with
  | Some (EmptyList ord) => Some ([], ord)
  | Some (Take (Some k) ord) => option_map (fun l => (l, ord)) (rank_by_keys valid keys k)
  | _ => None
  end.
Definition softmax_ranker := stochastic_rank softmax_mask softmax_len.
Definition stochastic_ranker := stochastic_rank stochastic_mask stochastic_len.

(* the length the rankers settle on (proved equal to the generated functions in Proofs/C19_main.v) *)
Definition config_default (config_n : pyv) : Z :=
  match config_n with Some c => if c =? 0 then -1 else c | None => -1 end.
Definition rank_length (n config_n : pyv) (N : Z) : Z :=
  let k := match n with Some k => if k <? 0 then config_default config_n else k | None => config_default config_n end in
  if (k <? 0) || (k >? N) then N else k.
Definition random_length (n config_n : pyv) (N : Z) : Z :=
  let k := match n with Some k => k | None => config_default config_n end in
  if k <? 0 then N else Z.min k N.

(* ---- weight transforms (rational part; softmax is symbolic, see Proofs/C19_race.v) ---- *)
Definition qmin_list (l : list Q) : Q := match l with [] => 0%Q | x :: r => fold_left Qminq r x end.
Definition qmax_list (l : list Q) : Q := match l with [] => 0%Q | x :: r => fold_left Qmaxq r x end.
Definition uniform_weights (m : nat) : list Q := repeat (1 / Qofnat m)%Q m.
Definition linear_weights (xs : list Q) : list Q :=
  let lb := qmin_list xs in
  let ub := qmax_list xs in
  let r := (ub - lb)%Q in
  let s1 := map (fun x => x - lb)%Q xs in
  if Qltb 0 r then
    let s2 := map (fun x => x / r)%Q s1 in
    let tot := Qsum s2 in
    if Qltb 0 tot then map (fun x => x / tot)%Q s2 else uniform_weights (length xs)
  else uniform_weights (length xs).
Inductive transform := TLinear | TRaw.
Definition weights (t : transform) (scaled : list Q) : list Q :=
  match t with TLinear => linear_weights scaled | TRaw => scaled end.
(* the rate of the exponential clock of an item: its weight clamped from below *)
Definition rates (tiny : Q) (ws : list Q) : list Q := map (fun w => Qmaxq w tiny) ws.
Definition scaled_scores (scale : Q) (valid : list row) : list Q :=
  map (fun r => match r_score r with SNum q => (q * scale)%Q | _ => 0%Q end) valid.

(* ---- checkers / comparison for the correspondence case files ---- *)
Definition fscore_eqb (a b : fscore) : bool :=
  match a, b with
  | SNum x, SNum y => Qeq_bool x y
  | SNan, SNan | SPInf, SPInf | SNInf, SNInf => true
  | _, _ => false
  end.
Definition row_eqb (a b : row) : bool :=
  Z.eqb (r_id a) (r_id b) && fscore_eqb (r_score a) (r_score b) && Z.eqb (snd a) (snd b).
Definition rows_eqb (a b : list row) : bool := all2 row_eqb a b.
Definition mem_row (r : row) (l : list row) : bool := existsb (row_eqb r) l.
Fixpoint nodupZ (l : list Z) : bool :=
  match l with [] => true | x :: r => negb (existsb (Z.eqb x) r) && nodupZ r end.

(* structural validity of an output against its input *)
Definition valid_selection_b (mask : mask_kind) (items out : list row) (len : Z) : bool :=
  nodupZ (map r_id out)
  && forallb (fun r => mem_row r items && eligible mask r) out
  && Z.eqb (Z.of_nat (length out)) len.

(* RandomSelector: the recorded choice() call and its result explain the output exactly *)
Definition agree_random (items : list row) (n config_n : pyv) (call : option (Z * Z)) (picked : list nat)
    (o_out : list row) (o_ordered : bool) : bool :=
  match random_request items n config_n, random_select items n config_n picked with
  | Some req, Some (out, ord) =>
      match req, call with
      | Some (N, k), Some (N', k') => Z.eqb N N' && Z.eqb k k' && choice_ok N k picked
      | None, None => true
      | _, _ => false
      end
      && rows_eqb out o_out && Bool.eqb ord o_ordered
      && valid_selection_b random_mask items o_out (random_length n config_n (Z.of_nat (length items)))
  | _, _ => false
  end.

(* rankers: the output is a top-n of the recorded keys over the eligible rows *)
Definition key_of (valid : list row) (keys : list Q) (i : Z) : option Q :=
  option_map snd (find (fun p => Z.eqb (r_id (fst p)) i) (combine valid keys)).
Definition nonincreasing_keys (l : list (option Q)) : bool :=
  (fix go (l : list (option Q)) : bool :=
     match l with
     | [] => true
     | x :: r => forallb (fun y => match x, y with Some a, Some b => Qle_bool b a | _, _ => false end) r && go r
     end) l.
Definition topn_of_keys_b (valid : list row) (keys : list Q) (out : list row) : bool :=
  let ok := map (fun r => key_of valid keys (r_id r)) out in
  nonincreasing_keys ok
  && forallb (fun p => existsb (Z.eqb (r_id (fst p))) (map r_id out)
                       || forallb (fun o => match o with Some b => Qle_bool (snd p) b | None => false end) ok)
             (combine valid keys).
Definition agree_rank (mask : mask_kind) (lenf : lenfun) (items : list row) (n config_n : pyv)
    (uniform_call : option Z) (keys : list Q) (o_out : list row) (o_ordered : bool) : bool :=
  let valid := filter (eligible mask) items in
  let N := Z.of_nat (length valid) in
  match stochastic_rank mask lenf items n config_n keys with
  | Some (out, ord) =>
      Bool.eqb ord o_ordered
      && match uniform_call with                                  (* rng.uniform(0, 1, N) *)
         | Some N' => Z.eqb N N' && Nat.eqb (length keys) (length valid) && negb (Z.eqb N 0)
         | None => Z.eqb N 0
         end
      && valid_selection_b mask items o_out (if Z.eqb N 0 then 0 else rank_length n config_n N)
      && Nat.eqb (length out) (length o_out)
      && topn_of_keys_b valid keys o_out
  | None => false
  end.

(* weights recomputed by the harness in floating point against the rational model *)
Definition agree_weights (t : transform) (scale : Q) (mask : mask_kind) (items : list row) (o_weights : list Q) : bool :=
  let valid := filter (eligible mask) items in
  all2 (fun m o => close tol64 o m) (weights t (scaled_scores scale valid)) o_weights.
(* softmax weights: only their shape is checked (non-negative, sum 1, monotone in the score) *)
Definition agree_softmax_shape (scale : Q) (mask : mask_kind) (items : list row) (o_weights : list Q) : bool :=
  let xs := scaled_scores scale (filter (eligible mask) items) in
  Nat.eqb (length xs) (length o_weights)
  && forallb (fun w => Qle_bool 0 w) o_weights
  && (match o_weights with [] => true | _ => close tol64 (Qsum o_weights) 1 end)
  && forallb (fun a => forallb (fun b => negb (Qltb (fst a) (fst b)) || Qle_bool (snd a) (snd b)) (combine xs o_weights))
             (combine xs o_weights).
