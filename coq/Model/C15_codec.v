(* C15 (b) -- item-list and collection codecs, branch by branch after
   data/items.py (__getstate__/__setstate__, to_df/from_df, to_arrow/from_arrow, arrow_types, the
   part of __init__ those use) and data/collection/{_base,_list,_keys}.py (ListILC._add,
   record_batches, save_parquet/load_parquet, create_key_type/_reduce_generic_key).
   Executable definitions only.

   Values: an array is a dtype code and the list of its elements as exact integers (the harness
   writes the bit pattern of every float, so NaN payloads and -0.0 are compared exactly);
   identifiers are integers (strings are mapped by an order isomorphism in the harness).
   Arrow arrays have optional elements (None = null). *)
From Coq Require Import ZArith List Bool Arith String Ascii.
Import ListNotations.
Open Scope string_scope.
Open Scope list_scope.

Record ncol := mkCol { c_ty : nat; c_vals : list Z }.
Record acol := mkACol { a_ty : nat; a_vals : list (option Z) }.

Definition TF32 : nat := 0.     (* float32 *)
Definition TI32 : nat := 1.     (* int32 *)

Record ilist := mkIL {
  il_len : nat;
  il_idty : nat;                      (* dtype of the identifiers (of the vocabulary's, if derived) *)
  il_ids : option (list Z);           (* _ids *)
  il_nums : option (list Z);          (* _numbers *)
  il_vocab : option (list Z);         (* _vocab: number -> identifier *)
  il_ordered : bool;
  il_ranks : option (list Z);         (* _ranks *)
  il_fields : list (string * ncol)    (* _fields, in dict order *)
}.

(* ---- small library -------------------------------------------------------------------------- *)

Fixpoint alookup {V} (k : string) (l : list (string * V)) : option V :=
  match l with [] => None | (j, v) :: r => if String.eqb j k then Some v else alookup k r end.
Definition amem {V} (k : string) (l : list (string * V)) : bool :=
  match alookup k l with Some _ => true | None => false end.
Definition smem (k : string) (l : list string) : bool := existsb (String.eqb k) l.

Fixpoint lZeqb (a b : list Z) : bool :=
  match a, b with
  | [], [] => true
  | x :: a', y :: b' => Z.eqb x y && lZeqb a' b'
  | _, _ => false
  end.

Definition iota1 (n : nat) : list Z := map Z.of_nat (seq 1 n).

Fixpoint index_of (x : Z) (v : list Z) (i : Z) : Z :=
  match v with [] => (-1)%Z | y :: r => if Z.eqb x y then i else index_of x r (i + 1)%Z end.
Definition vnumber (v : list Z) (x : Z) : Z := index_of x v 0%Z.     (* missing="negative" *)
Definition vterm (v : list Z) (n : Z) : Z := nth (Z.to_nat n) v 0%Z.

(* ---- what an item list shows: ids(), numbers(missing="negative"), ordered, ranks(), fields ---- *)

Definition v_ids (il : ilist) : option (list Z) :=
  match il_ids il with
  | Some i => Some i
  | None => match il_vocab il, il_nums il with Some v, Some n => Some (map (vterm v) n) | _, _ => None end
  end.
Definition v_nums (il : ilist) : option (list Z) :=
  match il_nums il with
  | Some n => Some n
  | None => match il_vocab il, il_ids il with Some v, Some i => Some (map (vnumber v) i) | _, _ => None end
  end.
Definition v_ranks (il : ilist) : option (list Z) :=
  if il_ordered il then Some (match il_ranks il with Some r => r | None => iota1 (il_len il) end) else None.

(* numbers() with the default missing="error": KeyError when some identifier is unknown *)
Definition nums_strict (il : ilist) : option (list Z) :=
  match v_nums il with
  | Some n => if existsb (fun z => Z.ltb z 0) n then None else Some n
  | None => None
  end.

Definition has_ids (il : ilist) : bool :=
  match il_ids il, il_vocab il with None, None => false | _, _ => true end.
Definition has_nums (il : ilist) : bool :=
  match il_nums il, il_vocab il with None, None => false | _, _ => true end.

(* ---- pickling: __getstate__ / __setstate__ --------------------------------------------------- *)

Inductive sval := SBool (b : bool) | SNat (n : nat) | SIds (t : nat) (l : list Z) | SList (l : list Z) | SCol (c : ncol).
Definition state := list (string * sval).

Definition getstate (il : ilist) : state :=
  [("ordered", SBool (il_ordered il)); ("len", SNat (il_len il))]
  ++ match v_ids il with Some i => [("ids", SIds (il_idty il) i)] | None => [] end
  ++ match v_nums il with Some n => [("numbers", SList n)] | None => [] end
  ++ (if il_ordered il then
        match il_ranks il with
        | Some r => if lZeqb r (iota1 (il_len il)) then [] else [("ranks", SList r)]
        | None => []
        end
      else [])
  ++ map (fun kc => (String.append "field_" (fst kc), SCol (snd kc))) (il_fields il).

Fixpoint sdrop (n : nat) (s : string) : string :=
  match n, s with
  | S m, String _ r => sdrop m r
  | _, _ => s
  end.

Definition state_fields (st : state) : list (string * ncol) :=
  flat_map (fun kv => if prefix "field_" (fst kv)
                      then match snd kv with SCol c => [(sdrop 6 (fst kv), c)] | _ => [] end
                      else []) st.

Definition setstate (st : state) : option ilist :=
  match alookup "ordered" st, alookup "len" st with
  | Some (SBool o), Some (SNat n) =>
      Some {| il_len := n;
              il_idty := match alookup "ids" st with Some (SIds t _) => t | _ => 0 end;
              il_ids := match alookup "ids" st with Some (SIds _ i) => Some i | _ => None end;
              il_nums := match alookup "numbers" st with Some (SList i) => Some i | _ => None end;
              il_vocab := None;
              il_ordered := o;
              il_ranks := match alookup "ranks" st with Some (SList r) => Some r | _ => None end;
              il_fields := state_fields st |}
  | _, _ => None
  end.

(* ---- the part of ItemList.__init__ used by from_df / from_arrow ------------------------------- *)
(* ItemList(item_ids=ids, item_nums=nums, vocabulary=None, **fields): lengths are checked, a "rank"
   field makes the list ordered, "score" is stored first as float32, the identifier aliases are
   not fields.  (Casts are the identity on the dtypes the converters produce.) *)

Definition reserved : list string := ["item_id"; "item_num"; "score"; "rank"].

Definition construct (idty : nat) (ids nums : option (list Z)) (fields : list (string * ncol)) : option ilist :=
  match (match ids, nums with
         | Some i, Some n => if Nat.eqb (List.length i) (List.length n) then Some (List.length i) else None
         | Some i, None => Some (List.length i)
         | None, Some n => Some (List.length n)
         | None, None => None          (* from_df / from_arrow raise TypeError before constructing *)
         end) with
  | None => None
  | Some len =>
      if forallb (fun kc => Nat.eqb (List.length (c_vals (snd kc))) len) fields then
        Some {| il_len := len; il_idty := idty; il_ids := ids; il_nums := nums; il_vocab := None;
                il_ordered := amem "rank" fields;
                il_ranks := option_map c_vals (alookup "rank" fields);
                il_fields :=
                  match alookup "score" fields with
                  | Some c => [("score", mkCol TF32 (c_vals c))]
                  | None => []
                  end ++ filter (fun kc => negb (smem (fst kc) reserved)) fields |}
      else None
  end.

(* ---- data frames: to_df / from_df ------------------------------------------------------------ *)

Definition frame := list (string * ncol).

Definition to_df (il : ilist) : option frame :=
  let c1 := if has_ids il then match v_ids il with Some i => Some [("item_id", mkCol (il_idty il) i)] | None => None end
            else Some [] in
  let c2 := if has_nums il then match nums_strict il with Some n => Some [("item_num", mkCol TI32 n)] | None => None end
            else Some [] in
  match c1, c2 with
  | Some a, Some b =>
      match a ++ b with
      | [] => None                       (* RuntimeError: no identifiers or numbers *)
      | idcols =>
          Some (idcols
                ++ match alookup "score" (il_fields il) with Some c => [("score", c)] | None => [] end
                ++ match v_ranks il with Some r => [("rank", mkCol TI32 r)] | None => [] end
                ++ filter (fun kc => negb (String.eqb (fst kc) "score")) (il_fields il))
      end
  | _, _ => None                         (* KeyError from numbers() *)
  end.

Definition from_df (df : frame) : option ilist :=
  let ids := alookup "item_id" df in
  let nums := alookup "item_num" df in
  let drop := ["item_id"; "item_num"; "user_id"; "user_num"] in
  construct (match ids with Some c => c_ty c | None => 0 end) (option_map c_vals ids) (option_map c_vals nums)
            (filter (fun kc => negb (smem (fst kc) drop)) df).

(* ---- Arrow: arrow_types / to_arrow / from_arrow ---------------------------------------------- *)

Definition atable : Type := nat * list (string * acol).     (* rows, columns *)

Definition arrow_types (il : ilist) (ids numbers : bool) : list (string * nat) :=
  if Nat.eqb (il_len il) 0 then [] else
    (if ids && has_ids il then [("item_id", il_idty il)] else [])
    ++ (if numbers && has_nums il then [("item_num", TI32)] else [])
    ++ (if il_ordered il then [("rank", TI32)] else [])
    ++ map (fun kc => (fst kc, c_ty (snd kc))) (il_fields il).

Definition a_of (t : nat) (l : list Z) : acol := mkACol t (map Some l).
Definition a_nulls (t : nat) (n : nat) : acol := mkACol t (repeat None n).

Definition arrow_col (il : ilist) (nt : string * nat) : option (string * acol) :=
  let (name, ty) := nt in
  if String.eqb name "item_id" then option_map (fun i => (name, a_of (il_idty il) i)) (v_ids il)
  else if String.eqb name "item_num" then option_map (fun n => (name, a_of TI32 n)) (nums_strict il)
  else if String.eqb name "rank" then
    Some (name, match v_ranks il with Some r => a_of TI32 r | None => a_nulls ty (il_len il) end)
  else match alookup name (il_fields il) with
       | Some c => Some (name, a_of (c_ty c) (c_vals c))
       | None => Some (name, a_nulls ty (il_len il))
       end.

Fixpoint sequence {A} (l : list (option A)) : option (list A) :=
  match l with
  | [] => Some []
  | Some x :: r => option_map (cons x) (sequence r)
  | None :: _ => None
  end.

(* to_arrow(columns=cols): an empty list gives empty arrays of the requested types *)
Definition to_arrow_cols (il : ilist) (cols : list (string * nat)) : option atable :=
  if Nat.eqb (il_len il) 0 then Some (0, map (fun nt => (fst nt, mkACol (snd nt) [])) cols)
  else option_map (fun cs => (il_len il, cs)) (sequence (map (arrow_col il) cols)).

Definition to_arrow (il : ilist) (ids numbers : bool) : option atable :=
  to_arrow_cols il (arrow_types il ids numbers).

Definition all_null (c : acol) : bool := forallb (fun o => match o with None => true | Some _ => false end) (a_vals c).
Definition a_numpy (c : acol) : ncol := mkCol (a_ty c) (map (fun o => match o with Some z => z | None => 0%Z end) (a_vals c)).

Definition from_arrow (t : atable) : option ilist :=
  let (n, cols) := t in
  let ids := alookup "item_id" cols in
  let nums := alookup "item_num" cols in
  match ids, nums with
  | None, None => None                    (* TypeError: no item_id / item_num column *)
  | _, _ =>
      let fields := filter (fun kc => negb (smem (fst kc) ["item_id"; "item_num"])) cols in
      (* an entirely null column of a non-empty table is an absent field (padding of to_arrow) *)
      let fields1 := if Nat.eqb n 0 then fields else filter (fun kc => negb (all_null (snd kc))) fields in
      (* __init__: array_is_null drops null (hence also empty) Arrow arrays other than score and rank *)
      let fields2 := filter (fun kc => smem (fst kc) ["score"; "rank"] || negb (all_null (snd kc))) fields1 in
      match construct (match ids with Some c => a_ty c | None => 0 end)
                      (option_map (fun c => c_vals (a_numpy c)) ids)
                      (option_map (fun c => c_vals (a_numpy c)) nums)
                      (map (fun kc => (fst kc, a_numpy (snd kc))) fields2) with
      | Some il => if Nat.eqb (il_len il) n then Some il else None
      | None => None
      end
  end.

(* ---- collections ------------------------------------------------------------------------------ *)

Record coll := mkColl {
  k_fields : list string;
  c_lists : list (list Z * ilist);
  c_schema : list (string * nat)          (* _list_schema, first-seen order *)
}.

Definition empty_coll (kf : list string) : coll := mkColl kf [] [].

(* ListILC._add: merge the list's Arrow types into the schema; a different type is a TypeError *)
Fixpoint merge_types (sch : list (string * nat)) (ts : list (string * nat)) : option (list (string * nat)) :=
  match ts with
  | [] => Some sch
  | (n, t) :: r =>
      match alookup n sch with
      | None => merge_types (sch ++ [(n, t)]) r
      | Some t' => if Nat.eqb t t' then merge_types sch r else None
      end
  end.

Definition add (c : coll) (key : list Z) (il : ilist) : option coll :=
  if negb (Nat.eqb (List.length key) (List.length (k_fields c))) then None
  else match merge_types (c_schema c) (arrow_types il true false) with
       | Some sch => Some (mkColl (k_fields c) (c_lists c ++ [(key, il)]) sch)
       | None => None
       end.

Fixpoint add_all (c : coll) (items : list (list Z * ilist)) : option coll :=
  match items with
  | [] => Some c
  | (k, il) :: r => match add c k il with Some c' => add_all c' r | None => None end
  end.

(* the stored table: key columns, the item struct's column types, one row per list *)
Record ptable := mkPT {
  p_keys : list string;
  p_cols : list (string * nat);
  p_rows : list (list Z * atable)
}.

Inductive saved := SErr | SNoFile | SFile (t : ptable).

Definition save_columns (c : coll) : list (string * nat) :=
  match c_schema c with [] => [("item_id", TI32)] | s => s end.

(* record_batches, batch by batch: chunks of batch_size lists, all with the same column types *)
Fixpoint chunked {A} (fuel n : nat) (l : list A) : list (list A) :=
  match fuel, l with
  | _, [] => []
  | 0, _ => [l]
  | S f, _ => firstn n l :: chunked f n (skipn n l)
  end.

Definition row_of (cols : list (string * nat)) (kil : list Z * ilist) : option (list Z * atable) :=
  option_map (fun t => (fst kil, t)) (to_arrow_cols (snd kil) cols).

Definition save_parquet (batch : nat) (c : coll) : saved :=
  let cols := save_columns c in
  match c_lists c with
  | [] => SNoFile                                   (* no batch, no writer, no file *)
  | ls => match sequence (map (fun ch => sequence (map (row_of cols) ch)) (chunked (List.length ls) batch ls)) with
          | Some rows => SFile (mkPT (k_fields c) cols (List.concat rows))
          | None => SErr
          end
  end.

Fixpoint load_rows (c : coll) (rows : list (list Z * atable)) : option coll :=
  match rows with
  | [] => Some c
  | (k, t) :: r =>
      match from_arrow t with
      | Some il => match add c k il with Some c' => load_rows c' r | None => None end
      | None => None
      end
  end.

Definition load_parquet (s : saved) : option coll :=
  match s with
  | SFile t => load_rows (empty_coll (p_keys t)) (p_rows t)
  | _ => None
  end.

(* ---- keys: create_key_type / create_key / _reduce_generic_key --------------------------------- *)

Record key := mkKey { key_ty : nat; key_names : list string; key_vals : list Z }.
Definition kcache := list (list string * nat).        (* KEY_CACHE: field names -> key type *)

Fixpoint lseqb (a b : list string) : bool :=
  match a, b with
  | [], [] => true
  | x :: a', y :: b' => String.eqb x y && lseqb a' b'
  | _, _ => false
  end.
Fixpoint cache_get (fs : list string) (c : kcache) : option nat :=
  match c with [] => None | (gs, t) :: r => if lseqb gs fs then Some t else cache_get fs r end.

(* the type's name is LKILCKeyType<len(cache)+1>; the number stands for the class object *)
Definition create_key_type (c : kcache) (fs : list string) : nat * kcache :=
  match cache_get fs c with
  | Some t => (t, c)
  | None => let t := S (List.length c) in (t, c ++ [(fs, t)])
  end.
Definition create_key (c : kcache) (fs : list string) (vals : list Z) : key * kcache :=
  let (t, c') := create_key_type c fs in (mkKey t fs vals, c').

Definition reduce_key (k : key) : list string * list Z := (key_names k, key_vals k).
Definition rebuild_key (c : kcache) (r : list string * list Z) : key * kcache := create_key c (fst r) (snd r).

(* ---- equality of what can be observed, as booleans for the correspondence cases ----------------- *)

Definition ncol_eqb (a b : ncol) : bool := Nat.eqb (c_ty a) (c_ty b) && lZeqb (c_vals a) (c_vals b).
Definition olZ_eqb (a b : option (list Z)) : bool :=
  match a, b with Some x, Some y => lZeqb x y | None, None => true | _, _ => false end.

(* fields as a map: same names, same arrays *)
Definition fields_eqb (a b : list (string * ncol)) : bool :=
  Nat.eqb (List.length a) (List.length b) &&
  forallb (fun kc => match alookup (fst kc) b with Some c => ncol_eqb (snd kc) c | None => false end) a.

(* an observation of an item list made by the harness: len, ids(), numbers, ordered, ranks(), fields *)
Record ilobs := mkObs {
  o_len : nat; o_ids : option (list Z); o_nums : option (list Z); o_ordered : bool;
  o_ranks : option (list Z); o_fields : list (string * ncol)
}.

Definition observe (il : ilist) : ilobs :=
  mkObs (il_len il) (v_ids il) (v_nums il) (il_ordered il) (v_ranks il) (il_fields il).

Definition obs_eqb (a b : ilobs) : bool :=
  Nat.eqb (o_len a) (o_len b) && olZ_eqb (o_ids a) (o_ids b) && olZ_eqb (o_nums a) (o_nums b) &&
  Bool.eqb (o_ordered a) (o_ordered b) && olZ_eqb (o_ranks a) (o_ranks b) && fields_eqb (o_fields a) (o_fields b).

Definition agree_obs (m : option ilist) (o : option ilobs) : bool :=
  match m, o with
  | Some il, Some ob => obs_eqb (observe il) ob
  | None, None => true
  | _, _ => false
  end.

Definition pickle_rt (il : ilist) : option ilist := setstate (getstate il).
Definition df_rt (il : ilist) : option ilist := match to_df il with Some df => from_df df | None => None end.
Definition arrow_rt (il : ilist) (ids numbers : bool) : option ilist :=
  match to_arrow il ids numbers with Some t => from_arrow t | None => None end.

Definition coll_rt (batch : nat) (kf : list string) (items : list (list Z * ilist)) : option coll :=
  match add_all (empty_coll kf) items with
  | Some c => load_parquet (save_parquet batch c)
  | None => None
  end.

Definition lZ_list_eqb (a b : list (list Z)) : bool :=
  Nat.eqb (List.length a) (List.length b) && forallb (fun p => lZeqb (fst p) (snd p)) (combine a b).

(* the observed reloaded collection: key fields, keys in order, one observation per list *)
Definition agree_coll (m : option coll) (o : option (list string * list (list Z * ilobs))) : bool :=
  match m, o with
  | Some c, Some (kf, ls) =>
      lseqb (k_fields c) kf &&
      lZ_list_eqb (map fst (c_lists c)) (map fst ls) &&
      forallb (fun p => obs_eqb (observe (snd (fst p))) (snd (snd p))) (combine (c_lists c) ls)
  | None, None => true
  | _, _ => false
  end.
