(* C13 -- executable model of pipeline configuration: PipelineBuilder state and its editing
   operations, build_config (default connections resolved, wiring and aliases sorted), the
   configuration document and its JSON form, hash = H o serialise, from_config (its passes in
   the order the source has them), Pipeline.from_config / clone.

   Parameters (Section variables; concrete tables in the correspondence cases):
     sig    : component code -> parameter names of the component's __call__ / function
     norm   : component code -> settings -> dumped settings after validation
              (TypeAdapter(config_class).validate_python then dump_python(mode="json"));
              None = the settings do not validate
     H      : SHA-256 hex digest of a string
     set_of : iteration order of the set built from a list of type names (any order, no duplicates)
   Shape facts (field order, which collections are sorted, order of the from_config passes) come
   from Gen/C13_shape.v, regenerated from the source on every run. *)
From Coq Require Import String Ascii List Bool Arith.
From LK Require Import Lib.StrDict Model.C13_json Gen.C13_shape.
Import ListNotations.
Open Scope string_scope.

Inductive err := EValue | EKey | EType | EPipeline | EValidation.
Inductive res (A : Type) := OK (a : A) | Err (e : err).
Arguments OK {A} a. Arguments Err {A} e.

Definition obj := list (string * json).

(* ---- the configuration document (lenskit.pipeline.config) ---- *)
Record meta := { m_name : option string; m_version : option string; m_hash : option string }.
Record pinput := { i_name : string; i_types : option (list string) }.
Record pcomp := { c_code : string; c_config : option obj; c_inputs : dict string }.
Record plit := { l_enc : string; l_value : json }.
Record config := {
  cf_meta : meta;
  cf_inputs : list pinput;
  cf_components : dict pcomp;
  cf_aliases : dict string;
  cf_default : option string;
  cf_literals : dict plit }.

Definition clear_hash (c : config) : config :=
  {| cf_meta := {| m_name := m_name (cf_meta c); m_version := m_version (cf_meta c); m_hash := None |};
     cf_inputs := cf_inputs c; cf_components := cf_components c; cf_aliases := cf_aliases c;
     cf_default := cf_default c; cf_literals := cf_literals c |}.
Definition with_hash (c : config) (h : option string) : config :=
  {| cf_meta := {| m_name := m_name (cf_meta c); m_version := m_version (cf_meta c); m_hash := h |};
     cf_inputs := cf_inputs c; cf_components := cf_components c; cf_aliases := cf_aliases c;
     cf_default := cf_default c; cf_literals := cf_literals c |}.

(* ---- JSON form: model_dump_json(exclude_none = ex) ---- *)
Definition fld (ex : bool) (v : option json) : option json :=
  match v with Some j => Some j | None => if ex then None else Some jnull end.
(* fields in declaration order; a field whose value is dropped (None) is omitted *)
Definition assemble (fields : list string) (tbl : list (string * option json)) : json :=
  JObj (flat_map (fun f => match dget f tbl with Some (Some j) => [(f, j)] | _ => [] end) fields).

Definition str_obj (d : dict string) : json := JObj (map (fun kv => (fst kv, JStr (snd kv))) d).

Definition meta_json (ex : bool) (m : meta) : json :=
  assemble meta_fields
    [("name", fld ex (option_map JStr (m_name m)));
     ("version", fld ex (option_map JStr (m_version m)));
     ("hash", fld ex (option_map JStr (m_hash m)))].
Definition types_json (ts : list string) : json :=
  JArr (map JStr (if types_serialized_sorted then sort_s ts else ts)).
Definition input_json (ex : bool) (i : pinput) : json :=
  assemble input_fields
    [("name", Some (JStr (i_name i))); ("types", fld ex (option_map types_json (i_types i)))].
Definition comp_json (ex : bool) (c : pcomp) : json :=
  assemble component_fields
    [("code", Some (JStr (c_code c))); ("config", fld ex (option_map JObj (c_config c)));
     ("inputs", Some (str_obj (c_inputs c)))].
Definition lit_json (ex : bool) (l : plit) : json :=
  assemble literal_fields
    [("encoding", Some (JStr (l_enc l)));
     ("value", fld ex (if is_null (l_value l) then None else Some (l_value l)))].
Definition config_json (ex : bool) (c : config) : json :=
  assemble config_fields
    [("meta", Some (meta_json ex (cf_meta c)));
     ("inputs", Some (JArr (map (input_json ex) (cf_inputs c))));
     ("components", Some (JObj (map (fun kv => (fst kv, comp_json ex (snd kv))) (cf_components c))));
     ("aliases", Some (str_obj (cf_aliases c)));
     ("default", fld ex (option_map JStr (cf_default c)));
     ("literals", Some (JObj (map (fun kv => (fst kv, lit_json ex (snd kv))) (cf_literals c))))].

Definition serialize (ex : bool) (c : config) : string := print_json (config_json ex c).
(* what hash_config digests: the document without its hash *)
Definition preimage (c : config) : string := serialize hash_excludes_none (clear_hash c).

(* ---- builder state ---- *)
Inductive kind :=
| KInput (types : list string)
| KLit (enc : string) (value : json)
| KComp (code : string) (settings : option obj).

Record builder := {
  b_name : option string;
  b_version : option string;
  b_nodes : dict kind;
  b_edges : dict (dict string);
  b_aliases : dict string;
  b_defaults : dict string;
  b_default : option string }.

Definition new_builder (n v : option string) : builder :=
  {| b_name := n; b_version := v; b_nodes := []; b_edges := []; b_aliases := []; b_defaults := []; b_default := None |}.
Definition set_nodes (b : builder) (x : dict kind) : builder :=
  {| b_name := b_name b; b_version := b_version b; b_nodes := x; b_edges := b_edges b;
     b_aliases := b_aliases b; b_defaults := b_defaults b; b_default := b_default b |}.
Definition set_edges (b : builder) (x : dict (dict string)) : builder :=
  {| b_name := b_name b; b_version := b_version b; b_nodes := b_nodes b; b_edges := x;
     b_aliases := b_aliases b; b_defaults := b_defaults b; b_default := b_default b |}.
Definition set_aliases (b : builder) (x : dict string) : builder :=
  {| b_name := b_name b; b_version := b_version b; b_nodes := b_nodes b; b_edges := b_edges b;
     b_aliases := x; b_defaults := b_defaults b; b_default := b_default b |}.
Definition set_defaults (b : builder) (x : dict string) : builder :=
  {| b_name := b_name b; b_version := b_version b; b_nodes := b_nodes b; b_edges := b_edges b;
     b_aliases := b_aliases b; b_defaults := x; b_default := b_default b |}.
Definition set_default (b : builder) (x : option string) : builder :=
  {| b_name := b_name b; b_version := b_version b; b_nodes := b_nodes b; b_edges := b_edges b;
     b_aliases := b_aliases b; b_defaults := b_defaults b; b_default := x |}.

(* _check_available_name *)
Definition avail (b : builder) (n : string) : bool := negb (dmem n (b_nodes b)) && negb (dmem n (b_aliases b)).
(* PipelineBuilder.node(name).name : aliases first, then nodes *)
Definition resolve (b : builder) (n : string) : option string :=
  match dget n (b_aliases b) with
  | Some t => Some t
  | None => if dmem n (b_nodes b) then Some n else None
  end.

(* a wiring target as the caller supplies it: an existing node (by name) or a literal value *)
Inductive target := TNode (name : string) | TLit (name enc : string) (value : json).

(* acyclicity of {n: set(w.values())}: TopologicalSorter.prepare raises CycleError iff there is a cycle.
   Repeatedly drop the nodes none of whose targets is still a key. *)
Definition targets_in (g : dict (dict string)) (ins : dict string) : bool :=
  existsb (fun t => dmem t g) (vals ins).
Fixpoint kahn (fuel : nat) (g : dict (dict string)) : bool :=
  match g with
  | [] => true
  | _ => match fuel with
         | O => false
         | S f => let rest := filter (fun p => targets_in g (snd p)) g in
                  if Nat.eqb (length rest) (length g) then false else kahn f rest
         end
  end.
Definition acyclic_b (g : dict (dict string)) : bool := kahn (length g) g.

Section Model.
  Variable sig : string -> list string.
  Variable norm : string -> option obj -> option (option obj).
  Variable H : string -> string.
  Variable set_of : list string -> list string.

  Definition create_input (b : builder) (name : string) (types : list string) : builder * option err :=
    if avail b name then (set_nodes b (dset name (KInput (set_of types)) (b_nodes b)), None)
    else (b, Some EValue).

  (* literal(): no availability check, the name is simply (re)bound *)
  Definition literal (b : builder) (name enc : string) (value : json) : builder :=
    set_nodes b (dset name (KLit enc value) (b_nodes b)).

  (* all node-valued arguments are looked up (builder.node) before the call is made *)
  Fixpoint resolve_targets (b : builder) (ins : list (string * target)) : option (list (string * target)) :=
    match ins with
    | [] => Some []
    | (k, TNode t) :: r =>
        match resolve b t, resolve_targets b r with
        | Some rt, Some r' => Some ((k, TNode rt) :: r')
        | _, _ => None
        end
    | (k, TLit n e v) :: r =>
        match resolve_targets b r with Some r' => Some ((k, TLit n e v) :: r') | None => None end
    end.

  Definition wire_one (st : builder * dict string) (kt : string * target) : builder * dict string :=
    let (b, e) := st in
    match snd kt with
    | TNode t => (b, dset (fst kt) t e)
    | TLit n enc v => (literal b n enc v, dset (fst kt) n e)
    end.

  (* connect(obj, **inputs) with already-resolved node targets *)
  Definition connect (b : builder) (name : string) (ins : list (string * target)) : builder * option err :=
    match resolve b name with
    | None => (b, Some EKey)
    | Some real =>
        match dget real (b_nodes b) with
        | Some (KComp _ _) =>
            let e0 := match dget real (b_edges b) with Some e => e | None => [] end in
            let (b1, e1) := fold_left wire_one ins (b, e0) in
            (set_edges b1 (dset real e1 (b_edges b1)), None)
        | _ => (b, Some EType)
        end
    end.

  Definition op_connect (b : builder) (name : string) (ins : list (string * target)) : builder * option err :=
    match resolve_targets b ins with
    | None => (b, Some EKey)
    | Some ins' => connect b name ins'
    end.

  Definition add_component (b : builder) (name code : string) (settings : option obj)
             (ins : list (string * target)) : builder * option err :=
    match resolve_targets b ins with
    | None => (b, Some EKey)
    | Some ins' =>
        if avail b name then
          match norm code settings with
          | None => (b, Some EValidation)
          | Some s => connect (set_nodes b (dset name (KComp code s) (b_nodes b))) name ins'
          end
        else (b, Some EValue)
    end.

  Definition replace_component (b : builder) (name code : string) (settings : option obj)
             (ins : list (string * target)) : builder * option err :=
    match resolve_targets b ins with
    | None => (b, Some EKey)
    | Some ins' =>
        match norm code settings with
        | None => (b, Some EValidation)
        | Some s => connect (set_nodes b (dset name (KComp code s) (b_nodes b))) name ins'
        end
    end.

  Definition alias (b : builder) (a t : string) : builder * option err :=
    match resolve b t with
    | None => (b, Some EKey)
    | Some rt => if avail b a then (set_aliases b (dset a rt (b_aliases b)), None) else (b, Some EValue)
    end.

  Definition remove_alias (b : builder) (a : string) (exist_ok : bool) : builder * option err :=
    if dmem a (b_aliases b) then (set_aliases b (ddel a (b_aliases b)), None)
    else (b, if exist_ok then None else Some EKey).

  Definition default_connection (b : builder) (pname : string) (tg : target) : builder * option err :=
    match tg with
    | TNode t => match resolve b t with
                 | None => (b, Some EKey)
                 | Some rt => (set_defaults b (dset pname rt (b_defaults b)), None)
                 end
    | TLit n enc v => let b1 := literal b n enc v in (set_defaults b1 (dset pname n (b_defaults b1)), None)
    end.

  Definition default_component (b : builder) (name : string) : builder := set_default b (Some name).
  (* builder.name = ... / builder.version = ... : public attributes *)
  Definition set_name (b : builder) (n : option string) : builder :=
    {| b_name := n; b_version := b_version b; b_nodes := b_nodes b; b_edges := b_edges b;
       b_aliases := b_aliases b; b_defaults := b_defaults b; b_default := b_default b |}.
  Definition set_version (b : builder) (v : option string) : builder :=
    {| b_name := b_name b; b_version := v; b_nodes := b_nodes b; b_edges := b_edges b;
       b_aliases := b_aliases b; b_defaults := b_defaults b; b_default := b_default b |}.
  Definition clear_inputs (b : builder) (name : string) : builder := set_edges b (dset name [] (b_edges b)).

  Inductive op :=
  | OInput (name : string) (types : list string)
  | OLiteral (name enc : string) (value : json)
  | OAdd (name code : string) (settings : option obj) (ins : list (string * target))
  | OReplace (name code : string) (settings : option obj) (ins : list (string * target))
  | OConnect (name : string) (ins : list (string * target))
  | OAlias (a t : string)
  | ORemoveAlias (a : string) (exist_ok : bool)
  | ODefaultConn (pname : string) (tg : target)
  | ODefaultComp (name : string)
  | OClear (name : string)
  | OSetName (n : option string)
  | OSetVersion (v : option string).

  Definition apply_op (b : builder) (o : op) : builder * option err :=
    match o with
    | OInput n ts => create_input b n ts
    | OLiteral n e v => (literal b n e v, None)
    | OAdd n c s ins => add_component b n c s ins
    | OReplace n c s ins => replace_component b n c s ins
    | OConnect n ins => op_connect b n ins
    | OAlias a t => alias b a t
    | ORemoveAlias a ok => remove_alias b a ok
    | ODefaultConn p tg => default_connection b p tg
    | ODefaultComp n => (default_component b n, None)
    | OClear n => (clear_inputs b n, None)
    | OSetName n => (set_name b n, None)
    | OSetVersion v => (set_version b v, None)
    end.

  Fixpoint run_ops (b : builder) (ops : list op) : builder * list (option err) :=
    match ops with
    | [] => (b, [])
    | o :: r => let (b1, e) := apply_op b o in let (b2, es) := run_ops b1 r in (b2, e :: es)
    end.

  (* ---- build_config ---- *)
  Definition resolve_one (defaults : dict string) (e : dict string) (iname : string) : dict string :=
    if negb (dmem iname e) then
      match dget iname defaults with Some t => dset iname t e | None => e end
    else e.
  Definition resolve_node (defaults : dict string) (edges : dict (dict string)) (nk : string * kind) : dict (dict string) :=
    match snd nk with
    | KComp code _ =>
        let c_ins := match dget (fst nk) edges with Some e => e | None => [] end in
        dset (fst nk) (fold_left (resolve_one defaults) (sig code) c_ins) edges
    | _ => edges
    end.
  Definition resolved_edges (b : builder) : dict (dict string) :=
    fold_left (resolve_node (b_defaults b)) (b_nodes b) (b_edges b).

  Definition node_inputs (nodes : dict kind) : list pinput :=
    flat_map (fun nk => match snd nk with KInput ts => [{| i_name := fst nk; i_types := Some ts |}] | _ => [] end) nodes.
  Definition node_literals (nodes : dict kind) : dict plit :=
    flat_map (fun nk => match snd nk with KLit e v => [(fst nk, {| l_enc := e; l_value := v |})] | _ => [] end) nodes.
  Definition node_components (edges : dict (dict string)) (nodes : dict kind) : dict pcomp :=
    flat_map (fun nk => match snd nk with
                        | KComp code s =>
                            let w := match dget (fst nk) edges with Some e => e | None => [] end in
                            [(fst nk, {| c_code := code; c_config := s;
                                         c_inputs := if wiring_sorted then sort_kv w else w |})]
                        | _ => [] end) nodes.
  Definition norm_default (d : option string) : option string :=
    match d with Some s => if String.eqb s "" then None else Some s | None => None end.

  Definition build_config (b : builder) (include_hash : bool) : res config :=
    let edges := resolved_edges b in
    if acyclic_b (if validate_after_defaults then edges else b_edges b) then
      let c := {| cf_meta := {| m_name := b_name b; m_version := b_version b; m_hash := None |};
                  cf_inputs := node_inputs (b_nodes b);
                  cf_components := node_components edges (b_nodes b);
                  cf_aliases := if aliases_sorted then sort_kv (b_aliases b) else b_aliases b;
                  cf_default := norm_default (b_default b);
                  cf_literals := if literals_sorted then sort_kv (node_literals (b_nodes b)) else node_literals (b_nodes b) |} in
      OK (if include_hash then with_hash c (Some (H (preimage c))) else c)
    else Err EPipeline.

  Definition config_hash (b : builder) : res string :=
    match build_config b false with OK c => OK (H (preimage c)) | Err e => Err e end.

  (* PipelineBuilder.build(): build_config, then Pipeline.__init__ resolves aliases and the default node *)
  Definition pipeline_resolves (c : config) : bool :=
    let names := (map i_name (cf_inputs c) ++ keys (cf_literals c) ++ keys (cf_components c))%list in
    let ok_alias := fix go (seen : list string) (al : dict string) : bool :=
        match al with
        | [] => true
        | (a, t) :: r => (smem t seen || smem t names) && go (a :: seen) r
        end in
    ok_alias [] (cf_aliases c) &&
    match cf_default c with
    | Some d => smem d (keys (cf_aliases c)) || smem d names
    | None => true
    end.
  Definition build (b : builder) : res config :=
    match build_config b true with
    | OK c => if pipeline_resolves c then OK c else Err EKey
    | Err e => Err e
    end.

  (* ---- from_config ---- *)
  Definition lift (x : builder * option err) : res builder :=
    match snd x with None => OK (fst x) | Some e => Err e end.
  Fixpoint fold_res {A : Type} (f : builder -> A -> res builder) (l : list A) (b : builder) : res builder :=
    match l with
    | [] => OK b
    | x :: r => match f b x with OK b1 => fold_res f r b1 | Err e => Err e end
    end.
  Definition at_prefixed (code : string) : bool :=
    match code with String c _ => Ascii.eqb c "@"%char | EmptyString => false end.

  Definition run_pass (c : config) (st : res (builder * bool)) (p : pass) : res (builder * bool) :=
    match st with
    | Err e => Err e
    | OK (b, w) =>
        let keep r := match r with OK b1 => OK (b1, w) | Err e => Err e end in
        match p with
        | PInputs =>
            keep (fold_res (fun b i => lift (create_input b (i_name i) (match i_types i with Some ts => ts | None => [] end)))
                           (cf_inputs c) b)
        | PLiterals =>
            keep (fold_res (fun b nl => OK (literal b (fst nl) (l_enc (snd nl)) (l_value (snd nl)))) (cf_literals c) b)
        | PComponents =>
            keep (fold_res (fun b nc => if at_prefixed (c_code (snd nc)) then OK b
                                        else lift (add_component b (fst nc) (c_code (snd nc)) (c_config (snd nc)) []))
                           (cf_components c) b)
        | PWiring =>
            keep (fold_res (fun b nc => lift (op_connect b (fst nc) (map (fun kv => (fst kv, TNode (snd kv))) (c_inputs (snd nc)))))
                           (cf_components c) b)
        | PAliases =>
            keep (fold_res (fun b at_ => lift (alias b (fst at_) (snd at_))) (cf_aliases c) b)
        | PDefault => OK (set_default b (cf_default c), w)
        | PHashCheck =>
            match m_hash (cf_meta c) with
            | None => OK (b, w)
            | Some h => match config_hash b with
                        | OK h2 => OK (b, negb (String.eqb h2 h))
                        | Err e => Err e
                        end
            end
        end
    end.

  (* PipelineBuilder.from_config: the builder and whether the hash-mismatch warning was raised *)
  Definition from_config (c : config) : res (builder * bool) :=
    let b0 := if from_config_keeps_meta then new_builder (m_name (cf_meta c)) (m_version (cf_meta c))
              else new_builder None None in
    fold_left (run_pass c) from_config_passes (OK (b0, false)).

  (* Pipeline.from_config(cfg) / Pipeline.clone(): rebuilt configuration and the warning flag *)
  Definition reload (c : config) : res (config * bool) :=
    match from_config c with
    | OK (b, w) => match build b with OK c2 => OK (c2, w) | Err e => Err e end
    | Err e => Err e
    end.
End Model.

(* ---- observation helpers for the correspondence cases ---- *)
Definition err_code (e : option err) : nat :=
  match e with None => 0 | Some EValue => 1 | Some EKey => 2 | Some EType => 3 | Some EPipeline => 4 | Some EValidation => 5 end.

Fixpoint obj_eqb (a b : obj) : bool :=
  match a, b with
  | [], [] => true
  | (k, x) :: a', (k', y) :: b' => String.eqb k k' && json_eqb x y && obj_eqb a' b'
  | _, _ => false
  end.
Definition oobj_eqb (a b : option obj) : bool :=
  match a, b with Some x, Some y => obj_eqb x y | None, None => true | _, _ => false end.

(* norm and sig as finite tables observed by the harness *)
Definition norm_tab := list (string * option obj * option (option obj)).
Fixpoint norm_of (t : norm_tab) (code : string) (s : option obj) : option (option obj) :=
  match t with
  | [] => Some s
  | (c, s0, r) :: rest => if String.eqb c code && oobj_eqb s0 s then r else norm_of rest code s
  end.
Definition sig_of (t : dict (list string)) (code : string) : list string :=
  match dget code t with Some l => l | None => [] end.
Definition hash_of (t : dict string) (s : string) : string :=
  match dget s t with Some h => h | None => "" end.

Definition nat_list_eqb (a b : list nat) : bool :=
  Nat.eqb (length a) (length b) && forallb (fun p => Nat.eqb (fst p) (snd p)) (combine a b).

(* what one process reports about a built pipeline: error code (0 = built) and three JSON strings *)
Definition agree_built (r : res config) (code : nat) (js_ex js_full pre : string) : bool :=
  match r with
  | Err e => Nat.eqb (err_code (Some e)) code && negb (Nat.eqb code 0)
  | OK c => Nat.eqb code 0 && String.eqb (serialize true c) js_ex && String.eqb (serialize false c) js_full
            && String.eqb (preimage c) pre
  end.
Definition agree_reload (r : res (config * bool)) (code : nat) (js_ex : string) (warned : bool) : bool :=
  match r with
  | Err e => Nat.eqb (err_code (Some e)) code && negb (Nat.eqb code 0)
  | OK (c, w) => Nat.eqb code 0 && String.eqb (serialize true c) js_ex && Bool.eqb w warned
  end.

(* the model instantiated with observed tables (correspondence cases) *)
Record tables := { t_sig : dict (list string); t_norm : norm_tab; t_hash : dict string }.
Definition case_run (T : tables) (name version : option string) (ops : list op) : builder * list (option err) :=
  run_ops (norm_of (t_norm T)) sdedup (new_builder name version) ops.
Definition case_build (T : tables) (b : builder) : res config :=
  build (sig_of (t_sig T)) (hash_of (t_hash T)) b.
Definition case_reload (T : tables) (c : config) : res (config * bool) :=
  reload (sig_of (t_sig T)) (norm_of (t_norm T)) (hash_of (t_hash T)) sdedup c.
(* PipelineBuilder.from_config(document), one more edit, build *)
Definition case_reload_edit (T : tables) (c : config) (o : op) : res config :=
  match from_config (sig_of (t_sig T)) (norm_of (t_norm T)) (hash_of (t_hash T)) sdedup c with
  | OK (b, _) => case_build T (fst (apply_op (norm_of (t_norm T)) sdedup b o))
  | Err e => Err e
  end.
Definition agree_ops (r : builder * list (option err)) (codes : list nat) : bool :=
  nat_list_eqb (map err_code (snd r)) codes.
Definition agree_clone (T : tables) (b : builder) (code : nat) (js_ex : string) (warned : bool) : bool :=
  match case_build T b with
  | OK c => agree_reload (case_reload T c) code js_ex warned
  | Err _ => true
  end.
