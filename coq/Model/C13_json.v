(* C13 -- JSON trees and pydantic's compact printer for the value domain used by pipeline
   configurations.  Atoms other than strings (numbers, true/false/null) are tokens rendered by
   the JSON library itself and handed over by the harness; structure, ordering and string quoting
   are the model's.  Strings are restricted to characters that need no escaping. *)
From Coq Require Import String Ascii List Bool.
From LK Require Import Lib.StrDict.
Import ListNotations.
Open Scope string_scope.

Inductive json : Type :=
| JTok (t : string)                       (* number / true / false / null, pre-rendered *)
| JStr (s : string)
| JArr (l : list json)
| JObj (kv : list (string * json)).

Definition jnull : json := JTok "null".
Definition is_null (j : json) : bool := match j with JTok t => String.eqb t "null" | _ => false end.

Fixpoint json_eqb (a b : json) {struct a} : bool :=
  match a, b with
  | JTok s, JTok t => String.eqb s t
  | JStr s, JStr t => String.eqb s t
  | JArr l, JArr m =>
      (fix go (l m : list json) : bool :=
         match l, m with
         | [], [] => true
         | x :: l', y :: m' => json_eqb x y && go l' m'
         | _, _ => false
         end) l m
  | JObj l, JObj m =>
      (fix go (l m : list (string * json)) : bool :=
         match l, m with
         | [], [] => true
         | (k, x) :: l', (k', y) :: m' => String.eqb k k' && json_eqb x y && go l' m'
         | _, _ => false
         end) l m
  | _, _ => false
  end.

(* ---- tokens ---- *)
Inductive tok := TLB | TRB | TLK | TRK | TComma | TColon | TS (s : string) | TA (t : string).

Definition sep_join (parts : list (list tok)) : list tok :=
  match parts with
  | [] => []
  | p :: r => p ++ flat_map (fun q => TComma :: q) r
  end.

Fixpoint ptoks (j : json) : list tok :=
  match j with
  | JTok t => [TA t]
  | JStr s => [TS s]
  | JArr l => TLK :: sep_join (map ptoks l) ++ [TRK]
  | JObj kv => TLB :: sep_join (map (fun p => TS (fst p) :: TColon :: ptoks (snd p)) kv) ++ [TRB]
  end.

Definition dq : string := String (ascii_of_nat 34) EmptyString.

Definition render_tok (t : tok) : string :=
  match t with
  | TLB => "{" | TRB => "}" | TLK => "[" | TRK => "]" | TComma => "," | TColon => ":"
  | TS s => dq ++ s ++ dq
  | TA t => t
  end.

Fixpoint render (ts : list tok) : string :=
  match ts with [] => "" | t :: r => render_tok t ++ render r end.

Definition print_json (j : json) : string := render (ptoks j).
