(* C10 -- executable model of alternating least squares (lenskit/als/_common.py, _explicit.py,
   _implicit.py): the per-row normal equations, the half-step over rows ("no data => keep"),
   the training loop as a chain of half-steps, the fold-in of a supplied history and scoring.
   Vectors and matrices are lists over Q; the linear solver (lenskit.math.solve.solve_cholesky)
   is NOT modelled: it is a parameter of `halfstep`, and what the implementation returned is
   checked through the residual of the system rebuilt here (`resid_ok`).
   Definitions only; proofs are in Proofs/C10_ls.v and Proofs/C10_als_proofs.v. *)
From Coq Require Import ZArith QArith Qabs List Bool.
From LK Require Import Lib.QLib.
Import ListNotations.
Open Scope Q_scope.

Definition vec := list Q.
Definition mat := list vec.                      (* list of rows *)

Fixpoint zipw {A B C} (f : A -> B -> C) (a : list A) (b : list B) : list C :=
  match a, b with x :: a', y :: b' => f x y :: zipw f a' b' | _, _ => [] end.

(* sums are kept in lowest terms (Qred) so that the exact rationals of binary64 values stay small
   when the case files are evaluated; qadd a b == a + b *)
Definition qadd (a b : Q) : Q := Qred (a + b).
Definition qsub (a b : Q) : Q := Qred (a - b).
Fixpoint dot (a b : vec) : Q :=
  match a, b with x :: a', y :: b' => qadd (x * y) (dot a' b') | _, _ => 0 end.
Definition vadd (a b : vec) : vec := zipw qadd a b.
Definition vsub (a b : vec) : vec := zipw qsub a b.
Definition vscale (c : Q) (a : vec) : vec := map (Qmult c) a.
Definition vzero (k : nat) : vec := repeat 0 k.
Definition outer (u v : vec) : mat := map (fun ui => vscale ui v) u.
Definition madd (A B : mat) : mat := zipw vadd A B.
Definition mscale (c : Q) (A : mat) : mat := map (vscale c) A.
Definition mzero (k : nat) : mat := repeat (vzero k) k.
Fixpoint mscaleI (c : Q) (k : nat) : mat :=                                          (* c * I_k *)
  match k with
  | O => []
  | S k' => (c :: vzero k') :: map (cons 0) (mscaleI c k')
  end.
Definition matvec (A : mat) (x : vec) : vec := map (fun r => dot r x) A.

(* M^T M,  (M^T * w) M  and  M^T v  for M given as its list of rows *)
Definition gram (k : nat) (M : list vec) : mat :=
  fold_right (fun m acc => madd (outer m m) acc) (mzero k) M.
Definition gram_w (k : nat) (M : list vec) (w : list Q) : mat :=
  fold_right (fun mw acc => madd (mscale (snd mw) (outer (fst mw) (fst mw))) acc) (mzero k) (combine M w).
Definition mtv (k : nat) (M : list vec) (v : list Q) : vec :=
  fold_right (fun mv acc => vadd (vscale (snd mv) (fst mv)) acc) (vzero k) (combine M v).

(* other[cols, :] *)
Definition select (k : nat) (other : mat) (cols : list nat) : list vec :=
  map (fun c => nth c other (vzero k)) cols.

(* one row of the sparse training matrix: (column number, value) *)
Definition srow := list (nat * Q).

(* ---- explicit feedback (_train_solve_row / _train_bias_row_cholesky) ----
   A = M^T M + (reg I) * nui,  V = M^T vals   with M = other[cols, :], nui = number of entries *)
Definition normal_eq_explicit (k : nat) (lam : Q) (M : list vec) (vals : list Q) : mat * vec :=
  (madd (gram k M) (mscale (Qofnat (length M)) (mscaleI lam k)), mtv k M vals).
Definition row_system_explicit (k : nat) (lam : Q) (other : mat) (row : srow) : mat * vec :=
  normal_eq_explicit k lam (select k other (map fst row)) (map snd row).

(* ---- implicit feedback (_implicit_otor / _train_implicit_cholesky_rows / _train_new_row) ----
   OtOr = O^T O + reg I (once per half-step);  A = OtOr + (M^T * vals) M;  y = M^T (vals + 1) *)
Definition otor (k : nat) (lam : Q) (other : mat) : mat := madd (gram k other) (mscaleI lam k).
Definition normal_eq_implicit (k : nat) (OtOr : mat) (M : list vec) (vals : list Q) : mat * vec :=
  (madd OtOr (gram_w k M vals), mtv k M (map (fun v => v + 1) vals)).
Definition row_system_implicit (k : nat) (OtOr : mat) (other : mat) (row : srow) : mat * vec :=
  normal_eq_implicit k OtOr (select k other (map fst row)) (map snd row).

Inductive feedback := Explicit | Implicit.
Definition row_system (fb : feedback) (k : nat) (lam : Q) (other : mat) : srow -> mat * vec :=
  match fb with
  | Explicit => row_system_explicit k lam other
  | Implicit => let o := otor k lam other in row_system_implicit k o other
  end.

(* ---- half-step: every row with data is replaced by the solution of its system; rows without
   data keep their previous values (`continue` on the cloned block).  `left` is not read. ---- *)
Definition row_update (solve : mat -> vec -> vec) (sys : srow -> mat * vec) (old : vec) (row : srow) : vec :=
  match row with
  | [] => old
  | _ => let Ay := sys row in solve (fst Ay) (snd Ay)
  end.
Definition halfstep (solve : mat -> vec -> vec) (sys : srow -> mat * vec) (left : mat) (rows : list srow) : mat :=
  zipw (row_update solve sys) left rows.

(* ---- what the solver returned, checked through the residual:
   |A x - y|_inf <= tol * (|A|_inf |x|_inf + |y|_inf + sc)   (normwise backward error);  tol = 0 is exactness.
   `sc` is the size of the DATA the right-hand side was formed from: y = M^T v is computed in floating
   point with an error proportional to |M|^T |v|, not to |y|; when the terms of y cancel (two history items
   with the same embedding and opposite normalised ratings: y = 0 exactly) the code's y, hence its x, is
   rounding noise of that size and |y| alone is no measure of it.  sc = | |M|^T |v| |_inf (`row_scale`). *)
Definition vnorm (x : vec) : Q := fold_right (fun a m => Qmaxq (Qabs a) m) 0 x.
Definition mnorm (A : mat) : Q := fold_right (fun r m => Qmaxq (Qsum (map Qabs r)) m) 0 A.
Definition resid_ok (tol sc : Q) (A : mat) (x y : vec) : bool :=
  Nat.eqb (length x) (length y) && Nat.eqb (length A) (length y) &&
  Qle_bool (vnorm (vsub (matvec A x) y)) (tol * (mnorm A * vnorm x + vnorm y + sc)).
Definition veqb (a b : vec) : bool := all2 Qeq_bool a b.
(* | |M|^T |v| |_inf (explicit: y = M^T v)  and  | |M|^T (|v| + 1) |_inf (implicit: y = M^T (v + 1)),  M = other[cols, :] *)
Definition row_scale (fb : feedback) (k : nat) (other : mat) (row : srow) : Q :=
  vnorm (mtv k (map (map Qabs) (select k other (map fst row)))
               (map (fun v => match fb with Explicit => Qabs v | Implicit => Qabs v + 1 end) (map snd row))).

Definition row_ok (tol : Q) (sys : srow -> mat * vec) (sc : srow -> Q) (old : vec) (row : srow) (new : vec) : bool :=
  match row with
  | [] => veqb new old
  | _ => let Ay := sys row in resid_ok tol (sc row) (fst Ay) new (snd Ay)
  end.
Fixpoint all3 {A B C} (f : A -> B -> C -> bool) (a : list A) (b : list B) (c : list C) : bool :=
  match a, b, c with
  | [], [], [] => true
  | x :: a', y :: b', z :: c' => f x y z && all3 f a' b' c'
  | _, _, _ => false
  end.
Definition halfstep_ok (tol : Q) (sys : srow -> mat * vec) (sc : srow -> Q) (left : mat) (rows : list srow) (left' : mat) : bool :=
  all3 (row_ok tol sys sc) left rows left'.

(* ---- the training loop: user half-step then item half-step per epoch, each reading the other
   side's current values.  A recorded run is the list of observed half-steps. ---- *)
Inductive side := SUser | SItem.
Record hstep := { hs_side : side; hs_before : mat; hs_other : mat; hs_after : mat }.
Definition meqb (A B : mat) : bool := all2 veqb A B.

(* ui / iu: the training matrix by user rows and by item rows; lam_u / lam_i per-side ridge *)
Fixpoint train_ok (tol : Q) (fb : feedback) (k : nat) (lam_u lam_i : Q) (ui iu : list srow)
    (P Qm : mat) (steps : list hstep) : option (mat * mat) :=
  match steps with
  | [] => Some (P, Qm)
  | su :: si :: rest =>
      match hs_side su, hs_side si with
      | SUser, SItem =>
          if meqb (hs_before su) P && meqb (hs_other su) Qm
             && halfstep_ok tol (row_system fb k lam_u Qm) (row_scale fb k Qm) P ui (hs_after su)
             && meqb (hs_before si) Qm && meqb (hs_other si) (hs_after su)
             && halfstep_ok tol (row_system fb k lam_i (hs_after su)) (row_scale fb k (hs_after su)) Qm iu (hs_after si)
          then train_ok tol fb k lam_u lam_i ui iu (hs_after su) (hs_after si) rest
          else None
      | _, _ => None
      end
  | _ => None
  end.
Definition trained_ok (tol : Q) (fb : feedback) (k : nat) (lam_u lam_i : Q) (ui iu : list srow)
    (P0 Q0 : mat) (steps : list hstep) (Pf Qf : mat) : bool :=
  match train_ok tol fb k lam_u lam_i ui iu P0 Q0 steps with
  | Some (P, Qm) => meqb P Pf && meqb Qm Qf
  | None => false
  end.

(* ---- vocabulary look-up (position in the training vocabulary) ---- *)
Fixpoint number_from (n : nat) (vocab : list Z) (i : Z) : option nat :=
  match vocab with [] => None | j :: r => if Z.eqb i j then Some n else number_from (S n) r i end.
Definition number := number_from 0.

(* ---- bias normalisation (BiasModel.transform_matrix): value = rating - b_g - b_i - b_u ---- *)
Record biases := { b_global : Q; b_item : list Q; b_user : list Q }.
Definition normalise (b : biases) (u i : nat) (r : Q) : Q :=
  r - b_global b - nth i (b_item b) 0 - nth u (b_user b) 0.

(* ---- fold-in of a supplied history ----
   history: (item id, rating).  Unknown items are masked out of the system. *)
Definition hist := list (Z * Q).
Definition known_rows (vocab : list Z) (h : list (Z * Q)) : srow :=
  flat_map (fun ir => match number vocab (fst ir) with Some n => [(n, snd ir)] | None => [] end) h.

(* BiasModel.compute_for_items(items, None, items): the bias of a new user from the history:
   sum (r - b_g - b_i [known items only]) / (len(history) + damping_user) *)
Definition foldin_user_bias (b : biases) (damp_u : Q) (vocab : list Z) (h : hist) : Q :=
  let uoff := map (fun ir => snd ir - b_global b -
                     match number vocab (fst ir) with Some n => nth n (b_item b) 0 | None => 0 end) h in
  let den := Qofnat (length h) + damp_u in
  if Qeq_bool den 0 then 0 else Qsum uoff / den.
(* normalised ratings of the known items: r - (b_g + b_i + b_u') *)
Definition foldin_rows_explicit (b : biases) (damp_u : Q) (vocab : list Z) (h : hist) : srow :=
  let ub := foldin_user_bias b damp_u vocab h in
  flat_map (fun ir => match number vocab (fst ir) with
                      | Some n => [(n, snd ir - (b_global b + nth n (b_item b) 0 + ub))]
                      | None => [] end) h.
(* _train_bias_row_cholesky: zeros if no known item, else A = M^T M + (reg I) * len(items), V = M^T r *)
Definition foldin_system_explicit (k : nat) (lam : Q) (items : mat) (row : srow) : mat * vec :=
  let M := select k items (map fst row) in
  (madd (gram k M) (mscale (Qofnat (length (map fst row))) (mscaleI lam k)), mtv k M (map snd row)).
Definition foldin_explicit (solve : mat -> vec -> vec) (k : nat) (lam : Q) (items : mat) (row : srow) : vec :=
  match row with
  | [] => vzero k
  | _ => let Ay := foldin_system_explicit k lam items row in solve (fst Ay) (snd Ay)
  end.
(* ImplicitMFScorer.new_user_embedding / _train_new_row: confidence weight * rating (or weight) on
   the known items; always solved (an empty history gives OtOr x = 0). *)
Definition foldin_rows_implicit (weight : Q) (use_ratings : bool) (vocab : list Z) (h : hist) : srow :=
  map (fun nr => (fst nr, if use_ratings then snd nr * weight else weight)) (known_rows vocab h).
Definition foldin_system_implicit (k : nat) (OtOr : mat) (items : mat) (row : srow) : mat * vec :=
  let M := select k items (map fst row) in
  (madd OtOr (gram_w k M (map snd row)), mtv k M (map (fun v => v + 1) (map snd row))).
Definition foldin_implicit (solve : mat -> vec -> vec) (k : nat) (OtOr : mat) (items : mat) (row : srow) : vec :=
  let Ay := foldin_system_implicit k OtOr items row in solve (fst Ay) (snd Ay).

Definition foldin_ok_explicit (tol : Q) (k : nat) (lam : Q) (items : mat) (row : srow) (x : vec) : bool :=
  match row with
  | [] => veqb x (vzero k)
  | _ => let Ay := foldin_system_explicit k lam items row in resid_ok tol (row_scale Explicit k items row) (fst Ay) x (snd Ay)
  end.
Definition foldin_ok_implicit (tol : Q) (k : nat) (OtOr : mat) (items : mat) (row : srow) (x : vec) : bool :=
  let Ay := foldin_system_implicit k OtOr items row in resid_ok tol (row_scale Implicit k items row) (fst Ay) x (snd Ay).

(* ---- scoring: dot product of the item embedding with the user embedding, plus (explicit) the
   bias terms b_g + b_i + b_u; an item unknown to the model has no score ---- *)
Definition score_item (vocab : list Z) (k : nat) (items : mat) (u : vec) (bias_of : nat -> Q) (i : Z) : option Q :=
  match number vocab i with
  | Some n => Some (dot (nth n items (vzero k)) u + bias_of n)
  | None => None
  end.
Definition explicit_bias (b : biases) (ub : Q) (n : nat) : Q := b_global b + nth n (b_item b) 0 + ub.
Definition score_explicit (vocab : list Z) (k : nat) (items : mat) (b : biases) (u : vec) (ub : Q) (cands : list Z) : list (Z * option Q) :=
  map (fun i => (i, score_item vocab k items u (explicit_bias b ub) i)) cands.
Definition score_implicit (vocab : list Z) (k : nat) (items : mat) (u : vec) (cands : list Z) : list (Z * option Q) :=
  map (fun i => (i, score_item vocab k items u (fun _ => 0) i)) cands.

(* ---- comparison of observed values with the model's ---- *)
Definition srow_close (tol : Q) (a b : srow) : bool :=
  all2 (fun x y => Nat.eqb (fst x) (fst y) && close tol (snd x) (snd y)) a b.
Definition scores_close (tol : Q) (obs : list (Z * option Q)) (model : list (Z * option Q)) : bool :=
  all2 (fun o m => Z.eqb (fst o) (fst m) && agree_opt tol (snd m) (snd o)) obs model.

(* ---- which user embedding ALSBase.__call__ uses ---- *)
Inductive upath := UFold | UTrained (n : nat) | UNone.
Definition user_path (prefer have_feats : bool) (user_num : option nat) (hist_len : nat) : upath :=
  if negb (Nat.eqb hist_len 0) && negb prefer then UFold
  else match user_num with
       | Some n => if have_feats then UTrained n else UNone
       | None => UNone
       end.
Definition is_some {A} (o : option A) : bool := match o with Some _ => true | None => false end.
Definition all_missing (cands : list Z) : list (Z * option Q) := map (fun i => (i, None)) cands.
Definition tolf32 : Q := 1 # 262144.   (* 2^-18: a few single-precision operations on values of size <= 8 *)

(* one scoring call of BiasedMFScorer, as observed: the fold-in inputs/output if one happened, the scores *)
Definition query_ok_explicit (tol tolb : Q) (k : nat) (lam : Q) (ivocab : list Z) (items : mat) (P : option mat)
    (b : biases) (damp_u : Q) (prefer : bool) (user_num : option nat) (h : option hist) (cands : list Z)
    (fold : option (srow * vec)) (obs_scores : list (Z * option Q)) : bool :=
  let hl := match h with Some l => length l | None => O end in
  let hh := match h with Some l => l | None => [] end in
  match user_path prefer (is_some P) user_num hl, fold with
  | UFold, Some (row, x) =>
      srow_close tolb row (foldin_rows_explicit b damp_u ivocab hh)
      && foldin_ok_explicit tol k lam items row x
      && scores_close tolb obs_scores (score_explicit ivocab k items b x (foldin_user_bias b damp_u ivocab hh) cands)
  | UTrained n, None =>
      scores_close tolb obs_scores
        (score_explicit ivocab k items b (nth n (match P with Some p => p | None => [] end) []) (nth n (b_user b) 0) cands)
  | UNone, None => scores_close tolb obs_scores (all_missing cands)
  | _, _ => false
  end.

Definition query_ok_implicit (tol tolb tols : Q) (k : nat) (lam : Q) (ivocab : list Z) (items : mat) (P : option mat)
    (weight : Q) (use_ratings : bool) (prefer : bool) (user_num : option nat) (h : option hist) (cands : list Z)
    (fold : option (srow * vec)) (obs_scores : list (Z * option Q)) : bool :=
  let hl := match h with Some l => length l | None => O end in
  let hh := match h with Some l => l | None => [] end in
  match user_path prefer (is_some P) user_num hl, fold with
  | UFold, Some (row, x) =>
      srow_close tolb row (foldin_rows_implicit weight use_ratings ivocab hh)
      && foldin_ok_implicit tol k (otor k lam items) items row x
      && scores_close tols obs_scores (score_implicit ivocab k items x cands)
  | UTrained n, None =>
      scores_close tols obs_scores (score_implicit ivocab k items (nth n (match P with Some p => p | None => [] end) []) cands)
  | UNone, None => scores_close tols obs_scores (all_missing cands)
  | _, _ => false
  end.

(* the training matrix handed to the half-steps: bias-normalised ratings (explicit), confidence
   weights weight * rating or weight (implicit); by item it is the transpose *)
Definition raw_row := list (nat * Q).         (* (item number, rating) of one user *)
Definition matrix_ok_explicit (tolb : Q) (b : biases) (raw : list raw_row) (ui : list srow) : bool :=
  all2 (fun ur row => srow_close tolb row (map (fun ir => (fst ir, normalise b (fst ur) (fst ir) (snd ir))) (snd ur)))
       (combine (seq 0 (length raw)) raw) ui.
Definition matrix_ok_implicit (tolb : Q) (weight : Q) (use_ratings : bool) (raw : list raw_row) (ui : list srow) : bool :=
  all2 (fun r row => srow_close tolb row (map (fun ir => (fst ir, if use_ratings then snd ir * weight else weight)) r)) raw ui.
Definition entries (rows : list srow) : list (nat * nat * Q) :=
  flat_map (fun ur => map (fun cv => (fst ur, fst cv, snd cv)) (snd ur)) (combine (seq 0 (length rows)) rows).
Definition entry_eqb (a b : nat * nat * Q) : bool :=
  Nat.eqb (fst (fst a)) (fst (fst b)) && Nat.eqb (snd (fst a)) (snd (fst b)) && Qeq_bool (snd a) (snd b).
Definition transposed_ok (ui iu : list srow) : bool :=
  let e1 := entries ui in
  let e2 := map (fun e => (snd (fst e), fst (fst e), snd e)) (entries iu) in
  Nat.eqb (length e1) (length e2)
  && forallb (fun e => existsb (entry_eqb e) e2) e1 && forallb (fun e => existsb (entry_eqb e) e1) e2.
Definition trained_ok_opt (tol : Q) (fb : feedback) (k : nat) (lam_u lam_i : Q) (ui iu : list srow)
    (P0 Q0 : mat) (steps : list hstep) (Pf : option mat) (Qf : mat) : bool :=
  match train_ok tol fb k lam_u lam_i ui iu P0 Q0 steps with
  | Some (P, Qm) => match Pf with Some p => meqb P p | None => true end && meqb Qm Qf
  | None => false
  end.

(* FunkSVDScorer.__call__: trained user embedding only; bias from the history's ratings when a
   history is supplied, else the trained user bias *)
Definition query_ok_funksvd (tolb : Q) (k : nat) (ivocab : list Z) (items P : mat) (b : biases) (damp_u : Q)
    (user_num : option nat) (h : option hist) (cands : list Z) (obs_scores : list (Z * option Q)) : bool :=
  match user_num with
  | None => scores_close tolb obs_scores (all_missing cands)
  | Some n =>
      let ub := match h with Some l => foldin_user_bias b damp_u ivocab l | None => nth n (b_user b) 0 end in
      scores_close tolb obs_scores (score_explicit ivocab k items b (nth n P []) ub cands)
  end.
