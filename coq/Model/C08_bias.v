(* C08 -- executable model of lenskit.basic.bias (BiasModel.learn, BiasModel.compute_for_items) and
   lenskit.basic.popularity (PopScorer._train_internal / __call__, TimeBoundedPopScore.train).
   Hand-written, statement by statement after the source; tied to /repo by the correspondence cases
   (harness/props/c08.py), which evaluate `agree_*` below inside Coq on exact rationals.
   Definitions only; proofs are in Proofs/C08_*.v. *)
From Coq Require Import ZArith QArith Qabs List Bool Arith.
From LK Require Import Lib.QLib Lib.SortPerm.
Import ListNotations.
Open Scope Q_scope.

(* ============================ bias model ============================ *)

(* one stored rating: (user number, item number, value) -- the COO triplets of interaction_matrix *)
Definition rat : Type := (nat * nat * Q)%type.
Definition r_user (r : rat) : nat := fst (fst r).
Definition r_item (r : rat) : nat := snd (fst r).
Definition r_val (r : rat) : Q := snd r.

(* damping after entity_damping(): one value per entity (scalar = both, missing key = 0) *)
Record damp := { d_user : Q; d_item : Q }.

(* np.add.at(arr, idx, vals): arr[idx[k]] += vals[k], one k after another *)
Fixpoint upd (l : list Q) (k : nat) (v : Q) : list Q :=
  match l, k with
  | [], _ => []
  | x :: r, O => (x + v) :: r
  | x :: r, S k' => x :: upd r k' v
  end.
Definition add_at (init : list Q) (idx : list nat) (vals : list Q) : list Q :=
  fold_left (fun acc p => upd acc (fst p) (snd p)) (combine idx vals) init.

(* np.divide(sums, counts, out=zeros, where=counts > 0) *)
Definition divide_where (sums counts : list Q) : list Q :=
  map (fun p => if Qltb 0 (snd p) then fst p / snd p else 0) (combine sums counts).

(* counts = np.full(n, damping); np.add.at(counts, idx, 1); sums = zeros; np.add.at(sums, idx, centered) *)
Definition damped_means (n : nat) (beta : Q) (idx : list nat) (centered : list Q) : list Q :=
  let counts := add_at (repeat beta n) idx (repeat 1 (length idx)) in
  let sums := add_at (repeat 0 n) idx centered in
  divide_where sums counts.

Record bmodel := {
  b_global : Q;
  b_items : option (list Q);     (* None: entity not requested (item_biases is None) *)
  b_users : option (list Q)
}.

Definition learn (nu ni : nat) (rs : list rat) (d : damp) (ent_item ent_user : bool) : bmodel :=
  let data := map r_val rs in
  let rows := map r_user rs in
  let cols := map r_item rs in
  let g := Qsum data / Qofnat (length data) in                       (* np.mean(ratings.data) *)
  let centered := map (fun x => x - g) data in                       (* ratings.data - g_bias *)
  let ib := if ent_item then Some (damped_means ni (d_item d) cols centered) else None in
  let centered2 := match ib with                                     (* centered -= i_bias[ratings.col] *)
                   | Some b => map (fun p => fst p - nth (snd p) b 0) (combine centered cols)
                   | None => centered
                   end in
  let ub := if ent_user then Some (damped_means nu (d_user d) rows centered2) else None in
  {| b_global := g; b_items := ib; b_users := ub |}.

(* ---- scoring (compute_for_items) ---- *)
(* an item / user reference after vocabulary lookup: Some number, or None = not in the vocabulary *)
Definition item_off (m : bmodel) (it : option nat) : Q :=
  match b_items m, it with Some b, Some i => nth i b 0 | _, _ => 0 end.

Record query := {
  q_user : option nat;                          (* number of the query's user id, None = no id / unknown id *)
  q_hist : option (list (option nat * Q))       (* rated history: (item reference, rating); None = no history
                                                   or a history without a rating field *)
}.

(* uoff = ratings - global; uoff[known] -= item_biases[...]; sum(uoff) / (count + damping); NaN -> 0 *)
Definition hist_bias (m : bmodel) (beta : Q) (h : list (option nat * Q)) : Q :=
  let uoff := map (fun p => snd p - b_global m - item_off m (fst p)) h in
  let den := Qofnat (length h) + beta in
  if Qeqb den 0 then 0 else Qsum uoff / den.

Definition user_off (m : bmodel) (d : damp) (q : query) : Q :=
  match b_users m with
  | None => 0
  | Some ub =>
      match q_hist q with
      | Some h => hist_bias m (d_user d) h
      | None => match q_user q with Some u => nth u ub 0 | None => 0 end
      end
  end.

Definition bias_scores (m : bmodel) (d : damp) (q : query) (items : list (option nat)) : list Q :=
  let scores := map (fun _ => b_global m) items in                              (* np.full(n, global) *)
  let scores := map (fun p => fst p + item_off m (snd p)) (combine scores items) in   (* masked += *)
  map (fun s => s + user_off m d q) scores.                                     (* scores += user_bias *)

(* ============================ popularity ============================ *)

Inductive variant := VCount | VRank | VQuantile.

Definition nsum (l : list nat) : nat := fold_right Nat.add 0%nat l.
Definition n_less (c : nat) (counts : list nat) : nat := length (filter (fun x => Nat.ltb x c) counts).
Definition n_equal (c : nat) (counts : list nat) : nat := length (filter (fun x => Nat.eqb x c) counts).

(* pandas Series.rank(): ascending, ties share the average of the (1-based) places they occupy *)
Definition rank_score (counts : list nat) (c : nat) : Q :=
  let places := seq (S (n_less c counts)) (n_equal c counts) in
  Qsum (map Qofnat places) / Qofnat (length places).

(* quantile: sort ascending by count, cumulative sum, divide by the total; the order among equal
   counts is whatever the sort gives (model: stable, i.e. by item number) *)
(* insert_by / isort: stable insertion sort, Lib/SortPerm.v *)

Fixpoint cumsum_from (acc : nat) (l : list nat) : list nat :=
  match l with [] => [] | x :: r => (acc + x)%nat :: cumsum_from (acc + x) r end.
Definition cumsum (l : list nat) : list nat := cumsum_from 0 l.

Definition lookup_nat {B} (k : nat) (tbl : list (nat * B)) : option B :=
  match find (fun p => Nat.eqb (fst p) k) tbl with Some p => Some (snd p) | None => None end.

Definition share (total : nat) (c : nat) : option Q :=
  if Nat.eqb total 0 then None else Some (Qofnat c / Qofnat total).        (* 0/0 = NaN *)

Definition quantile_scores (counts : list nat) : list (option Q) :=
  let sorted := isort (fun a b => Nat.leb (snd a) (snd b)) (combine (seq 0 (length counts)) counts) in
  let cmass := combine (map fst sorted) (cumsum (map snd sorted)) in
  map (fun i => match lookup_nat i cmass with Some c => share (nsum counts) c | None => None end)
      (seq 0 (length counts)).

Definition pop_scores (v : variant) (counts : list nat) : list (option Q) :=
  match v with
  | VCount => map (fun c => Some (Qofnat c)) counts
  | VRank => map (fun c => Some (rank_score counts c)) counts
  | VQuantile => quantile_scores counts
  end.

(* PopScorer.__call__: unknown items get NaN (None) *)
Definition pop_call (item_scores : list (option Q)) (items : list (option nat)) : list (option Q) :=
  map (fun it => match it with Some i => nth i item_scores None | None => None end) items.

(* ---- the cumulative-share variant as a checker (order among tied counts is free) ---- *)
Definition pair_leb (a b : nat * Q) : bool :=
  Nat.ltb (fst a) (fst b) || (Nat.eqb (fst a) (fst b) && Qle_bool (snd a) (snd b)).

Fixpoint sequence_q (l : list (option Q)) : option (list Q) :=
  match l with
  | [] => Some []
  | None :: _ => None
  | Some x :: r => option_map (cons x) (sequence_q r)
  end.
Definition is_none (s : option Q) : bool := match s with None => true | Some _ => false end.

(* `scores` is a valid cumulative-share assignment for `counts`: sorting the (count, score) pairs by
   count and then score must reproduce running total / total.  eqv compares a score with its
   definition (Qeq_bool in the theorems, a float32 tolerance in the case files). *)
Definition quantile_ok_b (eqv : Q -> Q -> bool) (counts : list nat) (scores : list (option Q)) : bool :=
  let total := nsum counts in
  if Nat.eqb total 0 then
    Nat.eqb (length scores) (length counts) && forallb is_none scores
  else
    match sequence_q scores with
    | None => false
    | Some ss =>
        Nat.eqb (length ss) (length counts) &&
        (let sorted := isort pair_leb (combine counts (map Qred ss)) in
         all2 (fun p c => eqv (snd p) (Qofnat c / Qofnat total)) sorted (cumsum (map fst sorted)))
    end.

(* ============================ time-bounded popularity ============================ *)

(* how the interaction log stores time: as a number of seconds (integer or float column), or date-time
   typed with some resolution (ticks per second: 1, 10^3, 10^6, 10^9 for datetime64[s/ms/us/ns]; a time
   zone attached to the column does not change the instants) *)
Inductive trep := TNum | TDate (ticks_per_s : Q).
(* one log row: (item number, raw stored time: seconds for TNum, ticks for TDate) *)
Definition logrow : Type := (nat * Q)%type.

(* log["timestamp"] > start: numbers are compared with cutoff.timestamp(); date-time values with
   pd.Timestamp(cutoff.timestamp(), unit="s", tz=...) -- pandas compares instants exactly across resolutions *)
Definition after_cutoff (rep : trep) (cutoff : Q) (t : Q) : bool :=
  match rep with
  | TNum => Qltb cutoff t
  | TDate r => Qltb (cutoff * r) t
  end.

(* the cutoff as it is given to the scorer: the reading of a clock (seconds since 1970-01-01T00:00:00 on that clock)
   and the offset of that clock from UTC (0 for an aware UTC value, for epoch seconds, and for a naive value read in
   a process whose zone is UTC; +18000 for +05:00, -28800 for -08:00, the zone's offset at that moment for a named
   zone).  cutoff.timestamp() is the instant: reading - offset. *)
Record cutoff_val := { c_wall : Q; c_off : Q }.
Definition cut_instant (c : cutoff_val) : Q := c_wall c - c_off c.

(* item_ids[mask].value_counts().reindex(items, fill_value=0) *)
Definition tb_counts (ni : nat) (rep : trep) (cutoff : Q) (log : list logrow) : list nat :=
  let kept := filter (fun e => after_cutoff rep cutoff (snd e)) log in
  map (fun i => length (filter (fun e => Nat.eqb (fst e) i) kept)) (seq 0 ni).

(* PopScorer.train: item_stats()["count"] *)
Definition all_counts (ni : nat) (items_of_log : list nat) : list nat :=
  map (fun i => length (filter (fun e => Nat.eqb e i) items_of_log)) (seq 0 ni).

(* ============================ comparison with observations ============================ *)

Definition agree_q (tol : Q) (model obs : Q) : bool := close tol obs model.
Definition agree_qs (tol : Q) (model obs : list Q) : bool := all2 (agree_q tol) model obs.
Definition agree_oqs (tol : Q) (model : option (list Q)) (obs : option (list Q)) : bool :=
  match model, obs with
  | None, None => true
  | Some a, Some b => agree_qs tol a b
  | _, _ => false
  end.
Definition agree_model (tol : Q) (m : bmodel) (g : Q) (ib ub : option (list Q)) : bool :=
  agree_q tol (b_global m) g && agree_oqs tol (b_items m) ib && agree_oqs tol (b_users m) ub.

Definition agree_pop (tol : Q) (v : variant) (counts : list nat) (obs : list (option Q)) : bool :=
  match v with
  | VQuantile => quantile_ok_b (fun o q => close tol o q) counts obs
  | _ => all2 (agree_opt tol) (pop_scores v counts) obs
  end.
