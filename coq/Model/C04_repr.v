(* C04 -- how a candidate list or a history *identifies* its items, and what a scorer resolves from it.
   An ItemList stores identifiers, item numbers, or both, and may carry the Vocabulary its numbers refer to.
   Scorers never read the stored numbers directly: they ask `items.numbers(vocabulary=self.items, missing="negative")`.
   This file models the identification state, `ItemList.ids()`, `ItemList.numbers(vocabulary=...)` with the rule of
   its foreign-vocabulary branch as a parameter (the rule in force is regenerated from the source, Gen/C04_numbers.v),
   the accessors that fill the caches, and the transports a list goes through before it reaches a scorer (pickle,
   data-frame and Arrow round trips, copies): the transports keep identifiers and numbers but not the vocabulary.
   Definitions only; proofs are in Proofs/C04_repr.v. *)
From Coq Require Import ZArith List Bool.
From LK Require Import Lib.QLib Model.C04_scatter.
Import ListNotations.

(* a Vocabulary object: `v_tag` stands for the identity of the Python object (`is`), `v_keys` for its identifiers in order *)
Record vocabulary := { v_tag : nat; v_keys : list Z }.

(* identification state of an ItemList: _ids, _numbers (a negative number = None), _vocab *)
Record ilist := { il_ids : option (list Z); il_nums : option (list (option nat)); il_vocab : option vocabulary }.

Fixpoint opt_all {A} (l : list (option A)) : option (list A) :=
  match l with
  | [] => Some []
  | None :: _ => None
  | Some x :: r => match opt_all r with Some xs => Some (x :: xs) | None => None end
  end.

(* Vocabulary.ids(numbers): an error (None) for a negative or out-of-range number *)
Definition vocab_ids (v : vocabulary) (nums : list (option nat)) : option (list Z) :=
  opt_all (map (fun o => match o with Some k => nth_error (v_keys v) k | None => None end) nums).

(* ItemList.ids(): the stored identifiers, else the stored numbers through the list's own vocabulary, else an error *)
Definition ids_of (il : ilist) : option (list Z) :=
  match il_ids il with
  | Some l => Some l
  | None => match il_vocab il, il_nums il with Some v, Some ns => vocab_ids v ns | _, _ => None end
  end.

(* ItemList.numbers() in the list's own vocabulary: the stored numbers, else the identifiers through the own vocabulary *)
Definition own_numbers (il : ilist) : option (list (option nat)) :=
  match il_nums il with
  | Some ns => Some ns
  | None => match il_vocab il, il_ids il with Some v, Some ids => Some (map (number (v_keys v)) ids) | _, _ => None end
  end.

Definition same_vocab (v : vocabulary) (o : option vocabulary) : bool :=
  match o with Some w => Nat.eqb (v_tag v) (v_tag w) | None => false end.

(* what `numbers(vocabulary=V)` does when V is not the list's own vocabulary object *)
Inductive foreign_rule :=
| ThroughIds             (* ids = self.ids(); V.numbers(ids, missing=...)  -- whatever else the list stores *)
| BareNumbersAsGiven.    (* a list without a vocabulary that stores numbers hands those numbers out as numbers in V *)

(* items.numbers(vocabulary=v, missing="negative") *)
Definition numbers_in (rule : foreign_rule) (v : vocabulary) (il : ilist) : option (list (option nat)) :=
  if same_vocab v (il_vocab il) then own_numbers il
  else match rule, il_vocab il, il_nums il with
       | BareNumbersAsGiven, None, Some ns => Some ns
       | _, _, _ => option_map (map (number (v_keys v))) (ids_of il)
       end.

(* accessors called on a list before it travels fill its caches *)
Inductive warm := WarmIds | WarmNumbers.
Definition warm1 (w : warm) (il : ilist) : ilist :=
  match w with
  | WarmIds => {| il_ids := ids_of il; il_nums := il_nums il; il_vocab := il_vocab il |}
  | WarmNumbers => {| il_ids := il_ids il; il_nums := own_numbers il; il_vocab := il_vocab il |}
  end.

(* transports: what the list is after the round trip *)
Inductive transport :=
| TPickle          (* __getstate__ / __setstate__ (also copy.deepcopy): ids and numbers, computed when a vocabulary is attached; no vocabulary *)
| TFrame           (* to_df() / from_df(): item_id and item_num columns under the same conditions; no vocabulary *)
| TArrowIds        (* to_arrow() / from_arrow(): identifiers only *)
| TArrowNums       (* to_arrow(numbers=True) / from_arrow() *)
| TCopy.           (* ItemList(list), clone(), list[:], list[arange(n)]: same identification state, same vocabulary object *)
Definition transport1 (t : transport) (il : ilist) : ilist :=
  match t with
  | TPickle | TFrame | TArrowNums => {| il_ids := ids_of il; il_nums := own_numbers il; il_vocab := None |}
  | TArrowIds => {| il_ids := ids_of il; il_nums := None; il_vocab := None |}
  | TCopy => il
  end.

Inductive step := SWarm (w : warm) | STransport (t : transport).
Definition step1 (s : step) (il : ilist) : ilist :=
  match s with SWarm w => warm1 w il | STransport t => transport1 t il end.
Definition travelled (steps : list step) (il : ilist) : ilist := fold_left (fun x s => step1 s x) steps il.

(* ---- check evaluated on an observed resolution ---- *)
Definition nums_eqb (a b : list (option nat)) : bool :=
  all2 (fun x y => match x, y with None, None => true | Some p, Some q => Nat.eqb p q | _, _ => false end) a b.
(* the numbers the implementation resolved for a list that was built as `il` and went through `steps` are the model's *)
Definition resolves_ok (rule : foreign_rule) (v : vocabulary) (il : ilist) (steps : list step) (observed : list (option nat)) : bool :=
  match numbers_in rule v (travelled steps il) with Some ns => nums_eqb ns observed | None => false end.
