(* C13 -- long texts of the correspondence cases (whole configuration documents) are written as byte
   lists: one constructor per character instead of an eight-bit record, which makes the case files
   two to three times cheaper to read and type-check.  `sb` gives the ordinary string back. *)
From Coq Require Import String List Strings.Byte.

Inductive bs := BS (l : list byte).
Definition un_bs (b : bs) : list byte := match b with BS l => l end.
Declare Scope c13bs_scope.
Delimit Scope c13bs_scope with bs.
String Notation bs BS un_bs : c13bs_scope.

Definition sb (b : bs) : string := string_of_list_byte (un_bs b).
