(* C09 -- executable model of the k-NN scorers (lenskit.knn.item, lenskit.knn.user, lenskit.math.sparse).
   (a) similarity side: mean-centring / unit normalisation / blocked similarity rows with threshold mask,
       self removal and optional truncation, carried exactly through the SIGNED SQUARED cosine
       (sign of a.b and (a.b)^2 / (|a|^2 |b|^2) are rational; the cosine itself is not);
   (b) scoring side over an arbitrary stored similarity matrix / neighbour similarity vector given as exact
       rationals (the harness exports the implementation's own float32 values): neighbour selection,
       minimum-neighbour rule, weighted average or sum; item-kNN fast and dense top-k paths; user-kNN
       "sort neighbours, drop entries past k per item".
   Definitions only; proofs are in Proofs/C09_*.v. *)
From Coq Require Import ZArith QArith Qabs List Bool Arith.
From LK Require Import Lib.QLib Lib.SortPerm.
Import ListNotations.
Open Scope Q_scope.

(* ===================================================================================== *)
(* (a) similarity side                                                                    *)
(* ===================================================================================== *)

(* one row of the (transposed) rating matrix: one optional rating per column; None = not stored *)
Definition orow := list (option Q).

(* _nsr_mean_center: stored values minus the row mean; nan_to_num(0/0) = 0 for an empty row *)
Definition row_mean (r : orow) : Q :=
  match ser_present r with [] => 0 | l => Qsum l / Qofnat (length l) end.
Definition centre (r : orow) : list Q :=
  map (fun o => match o with Some x => x - row_mean r | None => 0 end) r.
(* implicit feedback: every stored entry is 1 *)
Definition ones (r : orow) : list Q := map (fun o => match o with Some _ => 1 | None => 0 end) r.
Definition prep (explicit : bool) (R : list orow) : list (list Q) :=
  map (if explicit then centre else ones) R.

(* every rating multiplied by c (the magnitude of the rating data) *)
Definition rscale (c : Q) (R : list orow) : list orow := map (map (option_map (Qmult c))) R.

Fixpoint dot (a b : list Q) : Q :=
  match a, b with x :: a', y :: b' => x * y + dot a' b' | _, _ => 0 end.

Definition vrow (V : list (list Q)) (i : nat) : list Q := nth i V [].
Definition sdot (V : list (list Q)) (i j : nat) : Q := dot (vrow V i) (vrow V j).
Definition n2 (V : list (list Q)) (i : nat) : Q := sdot V i i.

(* cosine(i,j) >= min_sim > 0, decided exactly: a.b > 0 and (a.b)^2 >= min_sim^2 |a|^2 |b|^2.
   (_nsr_unit maps a zero row to zeros: then a.b = 0 and the pair does not qualify.)   min2 = min_sim^2 *)
Definition qualifies (V : list (list Q)) (min2 : Q) (i j : nat) : bool :=
  negb (Nat.eqb j i) && Qltb 0 (sdot V i j) && Qleb (min2 * (n2 V i * n2 V j)) (sdot V i j * sdot V i j).
(* squared cosine *)
Definition sq (V : list (list Q)) (i j : nat) : Q := sdot V i j * sdot V i j / (n2 V i * n2 V j).

(* _sim_row: sim = M row; sim[item] = 0; mask = sim >= min_sim; optional top-m truncation, columns
   re-sorted ascending *)
Definition cands (V : list (list Q)) (min2 : Q) (i : nat) : list nat :=
  filter (qualifies V min2 i) (seq 0 (length V)).
Definition desc_sq (V : list (list Q)) (i : nat) (a b : nat) : bool := Qleb (sq V i b) (sq V i a).
Definition sim_cols (V : list (list Q)) (min2 : Q) (save : option nat) (i : nat) : list nat :=
  let c := cands V min2 i in
  match save with
  | Some m => if Nat.ltb m (length c) then isort Nat.leb (firstn m (isort (desc_sq V i) c)) else c
  | None => c
  end.
Definition sim_row (V : list (list Q)) (min2 : Q) (save : option nat) (i : nat) : list (nat * Q) :=
  map (fun j => (j, sq V i j)) (sim_cols V min2 save i).

(* _sim_block / _sim_blocks: rows start..end-1 per block; blocks start at 0, bs, 2 bs, ... < n *)
Definition sim_block {A} (row : nat -> A) (c : nat * nat) : list A :=
  map row (seq (fst c) (snd c - fst c)).
Fixpoint chunks (fuel s n bs : nat) : list (nat * nat) :=
  match fuel with
  | O => []
  | S f => if Nat.ltb s n then (s, Nat.min (s + bs) n) :: chunks f (s + bs) n bs else []
  end.
Definition sim_blocks {A} (row : nat -> A) (n bs : nat) : list A :=
  concat (map (sim_block row) (chunks n 0 n bs)).

(* ---- comparison of one observed similarity row with the model (float32 values; the threshold
   decision may go either way inside a small band around min_sim) ---- *)
Fixpoint memb (x : nat) (l : list nat) : bool :=
  match l with [] => false | y :: r => Nat.eqb x y || memb x r end.
Fixpoint ascending (l : list nat) : bool :=
  match l with
  | x :: ((y :: _) as r) => Nat.ltb x y && ascending r
  | _ => true
  end.

Definition agree_sim_row (tol : Q) (V : list (list Q)) (min_sim : Q) (save : option nat) (i : nat)
    (obs : list (nat * Q)) : bool :=
  let n := length V in
  let min2 := min_sim * min_sim in
  let sure := filter (qualifies V (min2 * (1 + 4 * tol)) i) (seq 0 n) in
  let maybe := filter (qualifies V (min2 * (1 - 4 * tol)) i) (seq 0 n) in
  let cols := map fst obs in
  ascending cols
  && forallb (fun js => memb (fst js) maybe
                        && Qleb (min_sim * (1 - tol)) (snd js) && Qleb (snd js) 1
                        && Qleb (Qabs (snd js * snd js - sq V i (fst js))) (2 * tol)) obs
  && match save with
     | None => forallb (fun j => memb j cols) sure
     | Some m =>
         (if Nat.leb (length maybe) m then forallb (fun j => memb j cols) sure else true)
         && (if Nat.leb m (length sure) then Nat.eqb (length obs) m
             else Nat.leb (length sure) (length obs) && Nat.leb (length obs) (Nat.min m (length maybe)))
         && forallb (fun d => memb d cols
                              || forallb (fun k => Qleb (sq V i d) (sq V i k + 2 * tol)) cols) sure
     end.

(* a unit-normalised stored vector against the centred data, through squares *)
Definition agree_unit (tol : Q) (c : list Q) (obs : list Q) : bool :=
  let nn := dot c c in
  all2 (fun x o => Qleb 0 (x * o) && Qleb (Qabs (o * o * nn - x * x)) (tol * nn)
                   && (negb (Qeqb nn 0) || Qeqb o 0)) c obs.

(* ===================================================================================== *)
(* (b) scoring side                                                                       *)
(* ===================================================================================== *)

Definition is_some {A} (o : option A) : bool := match o with Some _ => true | None => false end.

(* ---- "the at most k most similar": a selection ks among candidate positions ---- *)
Fixpoint nodupb (l : list nat) : bool :=
  match l with [] => true | x :: r => negb (memb x r) && nodupb r end.
Definition topsel_b (k : nat) (sim : nat -> Q) (cands ks : list nat) : bool :=
  nodupb ks && forallb (fun x => memb x cands) ks && Nat.eqb (length ks) (Nat.min k (length cands))
  && forallb (fun x => forallb (fun y => memb y ks || Qleb (sim y) (sim x)) cands) ks.

(* weighted average of the selected values (explicit) or sum of the selected similarities (implicit) *)
Definition agg (explicit : bool) (sim val : nat -> Q) (ks : list nat) : Q :=
  if explicit then Qsum (map (fun p => sim p * val p) ks) / Qsum (map sim ks)
  else Qsum (map sim ks).

(* ---- item-based scorer ---- *)
Definition srow := list (nat * Q).     (* one stored CSR row: (column, similarity) *)
Definition s_get (S : list srow) (r t : nat) : option Q :=
  match find (fun p => Nat.eqb (fst p) t) (nth r S []) with Some p => Some (snd p) | None => None end.

Record iknn := {
  ik_k : nat; ik_min : nat; ik_explicit : bool;
  ik_S : list srow;
  ik_means : list Q          (* item means; used only when explicit *)
}.

(* the query's rated items known to the model, with mean-centred rating (explicit) or 1 (implicit) *)
Definition rated (m : iknn) (hist : list (option nat * Q)) : list (nat * Q) :=
  flat_map (fun h => match fst h with
                     | Some r => [(r, if ik_explicit m then snd h - nth r (ik_means m) 0 else 1)]
                     | None => []
                     end) hist.
(* column t of sim_matrix[rated, :], dense over the rated positions *)
Definition dense_col (m : iknn) (rt : list (nat * Q)) (t : nat) : list Q :=
  map (fun rv => match s_get (ik_S m) (fst rv) t with Some s => s | None => 0 end) rt.
Definition stored_pos (m : iknn) (rt : list (nat * Q)) (t : nat) : list nat :=
  filter (fun p => is_some (s_get (ik_S m) (fst (nth p rt (0%nat, 0))) t)) (seq 0 (length rt)).
(* torch.topk over a dense row: positions of the k largest values *)
Definition topk_pos (k : nat) (sims : list Q) : list nat :=
  firstn k (map fst (isort (fun a b : nat * Q => Qleb (snd b) (snd a)) (combine (seq 0 (length sims)) sims))).

Definition item_offset (m : iknn) (t : nat) : Q := if ik_explicit m then nth t (ik_means m) 0 else 0.

Definition item_score (m : iknn) (hist : list (option nat * Q)) (target : option nat) : option Q :=
  match target, hist with
  | None, _ => None                                   (* item not in the model: NaN *)
  | _, [] => None                                     (* no history: NaN *)
  | Some t, _ =>
      let rt := rated m hist in
      let sims := dense_col m rt t in
      let st := stored_pos m rt t in
      if Nat.ltb (length st) (ik_min m) then None     (* sizes >= min_nbrs fails *)
      else
        let ks := if Nat.leb (length st) (ik_k m) then st        (* fast path: whole neighbourhood *)
                  else topk_pos (ik_k m) sims in                 (* slow path: dense top-k *)
        Some (agg (ik_explicit m) (fun p => nth p sims 0) (fun p => snd (nth p rt (0%nat, 0))) ks
              + item_offset m t)
  end.

(* checker: ks is a valid choice of neighbours and the observed score is the aggregate over it *)
Definition item_score_ok_b (eqv : Q -> Q -> bool) (m : iknn) (hist : list (option nat * Q))
    (target : option nat) (ks : list nat) (obs : option Q) : bool :=
  match target, hist with
  | None, _ => negb (is_some obs)
  | _, [] => negb (is_some obs)
  | Some t, _ =>
      let rt := rated m hist in
      let sims := dense_col m rt t in
      let st := stored_pos m rt t in
      if Nat.ltb (length st) (ik_min m) then negb (is_some obs)
      else match obs with
           | None => false
           | Some q =>
               topsel_b (ik_k m) (fun p => nth p sims 0) st ks
               && eqv q (agg (ik_explicit m) (fun p => nth p sims 0) (fun p => snd (nth p rt (0%nat, 0))) ks
                         + item_offset m t)
           end
  end.

(* ---- user-based scorer ---- *)
Record uknn := {
  uk_k : nat; uk_min : nat; uk_explicit : bool;
  uk_min_sim : Q;                       (* the threshold as compared (float32 of the configured value) *)
  uk_ratings : list orow                (* user_ratings_: users x items, centred (explicit) or 1; None = not stored *)
}.

Definition zero_self (self : option nat) (sims : list Q) : list Q :=
  map (fun p => match self with
                | Some u => if Nat.eqb u (fst p) then 0 else snd p
                | None => snd p
                end) (combine (seq 0 (length sims)) sims).
(* nbr_mask = nbr_sims >= min_sim *)
Definition qualified (m : uknn) (sims : list Q) : list nat :=
  filter (fun u => Qleb (uk_min_sim m) (nth u sims 0)) (seq 0 (length sims)).
(* np.argsort(-nbr_sims): most similar first *)
Definition by_sim (sims : list Q) (us : list nat) : list nat :=
  isort (fun a b => Qleb (nth b sims 0) (nth a sims 0)) us.
Definition u_rating (m : uknn) (u i : nat) : option Q := nth i (nth u (uk_ratings m) []) None.
Definition raters (m : uknn) (i : nat) (us : list nat) : list nat :=
  filter (fun u => is_some (u_rating m u i)) us.
Definition u_val (m : uknn) (i u : nat) : Q := match u_rating m u i with Some r => r | None => 0 end.

(* sims: torch.mv(user_vectors_, query vector) as computed; self: the query user's row if known *)
Definition user_score (m : uknn) (self : option nat) (sims0 : list Q) (umean : Q) (target : option nat)
  : option Q :=
  let sims := zero_self self sims0 in
  match qualified m sims, target with
  | [], _ => None                                      (* no candidate neighbours *)
  | _, None => None                                    (* unknown item *)
  | qs, Some i =>
      let rs := raters m i (by_sim sims qs) in         (* neighbours who rated i, most similar first *)
      if Nat.ltb (length rs) (uk_min m) then None
      else Some (agg (uk_explicit m) (fun u => nth u sims 0) (u_val m i) (firstn (uk_k m) rs) + umean)
  end.

Definition user_score_ok_b (eqv : Q -> Q -> bool) (m : uknn) (self : option nat) (sims0 : list Q) (umean : Q)
    (target : option nat) (ks : list nat) (obs : option Q) : bool :=
  let sims := zero_self self sims0 in
  match qualified m sims, target with
  | [], _ => negb (is_some obs)
  | _, None => negb (is_some obs)
  | qs, Some i =>
      let rs := raters m i qs in
      if Nat.ltb (length rs) (uk_min m) then negb (is_some obs)
      else match obs with
           | None => false
           | Some q =>
               topsel_b (uk_k m) (fun u => nth u sims 0) rs ks
               && eqv q (agg (uk_explicit m) (fun u => nth u sims 0) (u_val m i) ks + umean)
           end
  end.

(* ---- comparison helpers for the case files ---- *)
Definition closeq (tol : Q) (obs model : Q) : bool := close tol obs model.
(* neighbour similarities as computed in float32 against exact dot products of the exported vectors *)
Definition agree_sims (tol : Q) (V : list (list Q)) (q : list Q) (sims : list Q) : bool :=
  all2 (fun v s => Qleb (Qabs (s - dot v q)) tol) V sims.
Definition agree_means (tol : Q) (R : list orow) (obs : list Q) : bool :=
  all2 (fun r o => close tol o (row_mean r)) R obs.
