(* C10 -- training histories on one scorer object, and the public-only view of a fold-in.
   Definitions only (used by the case files of harness/props/c10.py).

   1. A scorer object may be trained several times (train d1; queries; train d2 with retrain; queries; ...).
      Every training is checked like a single one (trained_ok_opt / funksvd_agree on what that call of
      train() did) and every query like a query after a single training, against the embeddings the
      LAST training left: query_ok_* take `items`, `P`, the biases and the vocabulary as arguments, and
      rebuild the fold-in system from them (`otor k lam items`, `foldin_system_*`); nothing cached on the
      object is an input.  A call train(d, retrain = false) on an object that is already trained must
      leave the embeddings as they were: `kept_ok`.

   2. When the private row solver of the fold-in is not observable, the driver has only the history and
      the embedding returned by the public `new_user_embedding`.  The row is then the model's own
      (`foldin_rows_*`).  The code computes the normalised ratings in single precision, so each value v'
      it used satisfies |v' - v| <= tolb * max 1 |v|; the explicit system is A x = M^T v' with A free of
      v, hence |A x - M^T v|_inf <= solver error + tolb * max_a sum_j |m_ja| max 1 |v_j|: `value_slack`. *)
From Coq Require Import ZArith QArith Qabs List Bool.
From LK Require Import Lib.QLib Model.C10_als.
Import ListNotations.
Open Scope Q_scope.

Definition kept_ok (P_before P_after : option mat) (Q_before Q_after : mat) : bool :=
  meqb Q_before Q_after &&
  match P_before, P_after with
  | Some a, Some b => meqb a b
  | None, None => true
  | _, _ => false
  end.

Definition resid_ok_slack (tol sc slack : Q) (A : mat) (x y : vec) : bool :=
  Nat.eqb (length x) (length y) && Nat.eqb (length A) (length y) &&
  Qle_bool (vnorm (vsub (matvec A x) y)) (tol * (mnorm A * vnorm x + vnorm y + sc) + slack).

Definition value_slack (tolb : Q) (k : nat) (items : mat) (row : srow) : Q :=
  tolb * vnorm (mtv k (map (map Qabs) (select k items (map fst row))) (map (fun v => Qmaxq 1 (Qabs v)) (map snd row))).

Definition foldin_ok_explicit_pub (tol tolb : Q) (k : nat) (lam : Q) (items : mat) (row : srow) (x : vec) : bool :=
  match row with
  | [] => veqb x (vzero k)
  | _ => let Ay := foldin_system_explicit k lam items row in
         resid_ok_slack tol (row_scale Explicit k items row) (value_slack tolb k items row) (fst Ay) x (snd Ay)
  end.

(* one scoring call of BiasedMFScorer that folded a history in, seen through the public interface only *)
Definition query_ok_explicit_pub (tol tolb : Q) (k : nat) (lam : Q) (ivocab : list Z) (items : mat) (P : option mat)
    (b : biases) (damp_u : Q) (prefer : bool) (user_num : option nat) (h : option hist) (cands : list Z)
    (x : vec) (obs_scores : list (Z * option Q)) : bool :=
  let hl := match h with Some l => length l | None => O end in
  let hh := match h with Some l => l | None => [] end in
  match user_path prefer (is_some P) user_num hl with
  | UFold =>
      foldin_ok_explicit_pub tol tolb k lam items (foldin_rows_explicit b damp_u ivocab hh) x
      && scores_close tolb obs_scores (score_explicit ivocab k items b x (foldin_user_bias b damp_u ivocab hh) cands)
  | _ => false
  end.

(* ImplicitMFScorer: the confidence values weight * rating (or weight) of the generated histories are exact in
   single precision (dyadic weights, half-star ratings), so the model's own row is the row the code used *)
Definition query_ok_implicit_pub (tol tolb tols : Q) (k : nat) (lam : Q) (ivocab : list Z) (items : mat) (P : option mat)
    (weight : Q) (use_ratings : bool) (prefer : bool) (user_num : option nat) (h : option hist) (cands : list Z)
    (x : vec) (obs_scores : list (Z * option Q)) : bool :=
  let hh := match h with Some l => l | None => [] end in
  query_ok_implicit tol tolb tols k lam ivocab items P weight use_ratings prefer user_num h cands
    (Some (foldin_rows_implicit weight use_ratings ivocab hh, x)) obs_scores.

(* 3. The user bias that applies to a scoring call of BiasedMFScorer.  When a history is folded in (UFold) it
      is the bias derived from THAT history, `foldin_user_bias` -- whatever its value, 0 included: a history whose
      residuals r - b_g - b_i cancel gives exactly 0, and the embedding was solved against ratings normalised
      with that 0, so the score must add that 0 and not the bias training stored for the same user id.  The
      stored bias applies only when the trained embedding is used (UTrained). *)
Definition hist_residuals (b : biases) (vocab : list Z) (h : hist) : list Q :=
  map (fun ir => snd ir - b_global b -
         match number vocab (fst ir) with Some n => nth n (b_item b) 0 | None => 0 end) h.
Definition applicable_user_bias (b : biases) (damp_u : Q) (vocab : list Z) (path : upath) (h : hist) : Q :=
  match path with
  | UFold => foldin_user_bias b damp_u vocab h
  | UTrained n => nth n (b_user b) 0
  | UNone => 0
  end.
Definition with_user_bias (b : biases) (bu : list Q) : biases :=
  {| b_global := b_global b; b_item := b_item b; b_user := bu |}.
