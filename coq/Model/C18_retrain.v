(* C18 -- model of (re)training.  Executable definitions only.

   A component is its instance dictionary: an association list attribute -> value (`store`;
   the first binding of a name is the live one).  The configuration is constant during the
   life of a component and is not part of the store.  Values are integers: small Python
   integers stand for themselves (trained_epochs), everything else for a digest of its
   canonical bytes (correspondence runs) or for anything at all (theorems: the functions
   below never inspect a value except through the already-trained guard).

   The *frame* of a class (generated from the source into Gen/C18_frames.v) says what its
   train() can touch:
     fr_guard       the already-trained test at the top of train()
     fr_wmust       attributes assigned on every path of a training that completes
     fr_wmay        attributes assigned on some path
     fr_exposed     attributes whose OLD value train() may read before assigning them
     fr_reads       attributes read by scoring (__call__ and everything it reaches)
     fr_callwrites  attributes assigned by scoring
     fr_static      class-level constants that are read

   `train` is the most general behaviour a class with that frame can have: what is learned
   (`fit`) is an arbitrary function of the data, the seed taken from the options and the old
   values of the exposed attributes; attributes in wmay \ wmust are written or not as `fit`
   decides.  A frame that passes `frame_ok` leaves `fit` nothing of the old state to look at
   and nothing optional to write -- that is the generated obligation per class. *)
From Coq Require Import ZArith List Bool.
From Coq Require String.
Import String.StringSyntax.
Import ListNotations.
Local Open Scope string_scope.

Definition attr := String.string.
Definition value := Z.
Definition store := list (attr * value).

Fixpoint lookup (a : attr) (c : store) : option value :=
  match c with
  | [] => None
  | (b, v) :: t => if String.eqb a b then Some v else lookup a t
  end.

Definition mem (a : attr) (l : list attr) : bool := existsb (String.eqb a) l.
Definition subset (l1 l2 : list attr) : bool := forallb (fun a => mem a l2) l1.
Definition is_nil {A} (l : list A) : bool := match l with [] => true | _ => false end.

Inductive guard := GHasAttr (a : attr) | GPositive (a : attr).

Record frame := mkFrame {
  fr_class : String.string;
  fr_variant : String.string;
  fr_guard : guard;
  fr_wmust : list attr;
  fr_wmay : list attr;
  fr_reads : list attr;
  fr_exposed : list attr;
  fr_callwrites : list attr;
  fr_static : list attr
}.

Definition guard_attr (g : guard) : attr := match g with GHasAttr a | GPositive a => a end.

(* hasattr(self, a)   /   self.a > 0 with the class-level default 0 *)
Definition guard_holds (g : guard) (c : store) : bool :=
  match g with
  | GHasAttr a => match lookup a c with Some _ => true | None => false end
  | GPositive a => match lookup a c with Some v => (0 <? v)%Z | None => false end
  end.

(* the generated obligation of one class/configuration variant *)
Definition frame_ok (fr : frame) : bool :=
  subset (fr_reads fr) (fr_wmust fr ++ fr_static fr)       (* scoring reads only what every training assigns *)
  && subset (fr_wmay fr) (fr_wmust fr)                     (* no attribute assigned on some paths only *)
  && is_nil (fr_exposed fr)                                (* training never looks at the old model *)
  && is_nil (fr_callwrites fr)                             (* scoring does not change the model *)
  && (is_nil (fr_wmust fr) || mem (guard_attr (fr_guard fr)) (fr_wmust fr))   (* the guard tests something training sets *)
  && negb (existsb (fun a => mem a (fr_wmust fr)) (fr_static fr)).

(* what a training run learned: a value for every attribute, and which optional ones it assigned *)
Record fitres := mkFit { fv : attr -> value; fopt : attr -> bool }.

Record opts (S : Type) := mkOpts { o_retrain : bool; o_seed : S }.
Arguments mkOpts {S}. Arguments o_retrain {S}. Arguments o_seed {S}.

(* the old state visible to fit *)
Definition view (ex : list attr) (c : store) : store := filter (fun p => mem (fst p) ex) c.

Definition written (fr : frame) (r : fitres) : list attr :=
  fr_wmust fr ++ filter (fun a => fopt r a && negb (mem a (fr_wmust fr))) (fr_wmay fr).

Definition assign_all (l : list attr) (f : attr -> value) (c : store) : store :=
  map (fun a => (a, f a)) l ++ c.

Section Train.
  Context {D S : Type}.
  Variable fit : D -> S -> store -> fitres.

  Definition train (fr : frame) (d : D) (o : opts S) (c : store) : store :=
    if guard_holds (fr_guard fr) c && negb (o_retrain o) then c
    else
      let r := fit d (o_seed o) (view (fr_exposed fr) c) in
      assign_all (written fr r) (fv r) c.

  (* a training history: datasets with the options of each call *)
  Fixpoint run (fr : frame) (h : list (D * opts S)) (c : store) : store :=
    match h with
    | [] => c
    | (d, o) :: t => run fr t (train fr d o c)
    end.

  (* all intermediate states, for the correspondence *)
  Fixpoint run_trace (fr : frame) (h : list (D * opts S)) (c : store) : list store :=
    match h with
    | [] => []
    | (d, o) :: t => let c' := train fr d o c in c' :: run_trace fr t c'
    end.

  (* the call of a history that the final state stems from: a call is skipped exactly when the
     model produced by the latest effective call satisfies the guard and retraining is off *)
  Definition marks (fr : frame) (x : D * opts S) : bool :=
    guard_holds (fr_guard fr) (train fr (fst x) (snd x) []).

  Fixpoint effective (fr : frame) (cur : option (D * opts S)) (h : list (D * opts S)) : option (D * opts S) :=
    match h with
    | [] => cur
    | (d, o) :: t =>
        let trained := match cur with None => false | Some x => marks fr x end in
        if trained && negb (o_retrain o) then effective fr cur t else effective fr (Some (d, o)) t
    end.

  Definition state_of (fr : frame) (cur : option (D * opts S)) : store :=
    match cur with None => [] | Some (d, o) => train fr d o [] end.
End Train.

(* ---- stores compared through look-ups --------------------------------------------------- *)
Definition opt_eqb (x y : option value) : bool :=
  match x, y with
  | None, None => true
  | Some a, Some b => Z.eqb a b
  | _, _ => false
  end.

Definition store_eqb (c1 c2 : store) : bool :=
  forallb (fun a => opt_eqb (lookup a c1) (lookup a c2)) (map fst c1 ++ map fst c2).

(* ---- correspondence: one observed history of one component ------------------------------ *)
(* The dataset of a step *is* what a freshly constructed component of the same class and
   configuration held after being trained on it with the step's seed (observed digests). *)
Definition fit_of_fresh (d : store) (_ : unit) (_ : store) : fitres :=
  mkFit (fun a => match lookup a d with Some v => v | None => 0%Z end) (fun _ => false).

Definition find_frame (fs : list frame) (cls variant : String.string) : option frame :=
  find (fun f => String.eqb (fr_class f) cls && String.eqb (fr_variant f) variant) fs.

(* steps: (fresh store for the step's data and seed, retrain flag); obs: store after each step.
   The fresh store must carry exactly the attributes the frame says training assigns. *)
Definition agree_history (fs : list frame) (cls variant : String.string)
           (steps : list (store * bool)) (obs : list store) : bool :=
  match find_frame fs cls variant with
  | None => false
  | Some fr =>
      frame_ok fr
      && forallb (fun s => subset (map fst (fst s)) (fr_wmust fr) && subset (fr_wmust fr) (map fst (fst s))) steps
      && (let h := map (fun s => (fst s, mkOpts (snd s) tt)) steps in
          let tr := run_trace fit_of_fresh fr h [] in
          Nat.eqb (length tr) (length obs)
          && forallb (fun p => store_eqb (fst p) (snd p)) (combine tr obs))
  end.

(* ---- pipelines ----------------------------------------------------------------------- *)
(* KSeedZero: a supplied seed that is FALSE in a truth test -- the number zero (int 0, numpy.int64(0), ...).  It is a seed
   like any other; it is a kind of its own because a test `not rng` / `if rng` cannot tell it from "no seed". *)
Inductive rng_kind := KNone | KGenerator | KBitGenerator | KSeedSequence | KSeedLike | KSeedZero.
Inductive seed_plan := PlanNoSeed | PlanUseGiven | PlanWrap.

(* what a component receives as options.rng: the caller's object itself, or child number i of
   the seed sequence of the supplied seed *)
Inductive child_rng := CSame | CSpawn (i : nat).

Record pnode := mkNode { pn_name : String.string; pn_trainable : bool }.

Record pcall := mkCall { pc_name : String.string; pc_retrain : bool; pc_rng : child_rng }.

(* Pipeline.train: nodes in order; every trainable component node gets the data, the retrain flag
   and -- when a seed was supplied -- the next child of the seed sequence.  `i` is the number of
   children the sequence has already spawned (0 for a sequence wrapped around a seed here). *)
Fixpoint ptrain_calls (plan : seed_plan) (width : nat) (retrain : bool) (i : nat) (ns : list pnode) : list pcall :=
  match ns with
  | [] => []
  | n :: t =>
      if pn_trainable n then
        match plan with
        | PlanNoSeed => mkCall (pn_name n) retrain CSame :: ptrain_calls plan width retrain i t
        | _ => mkCall (pn_name n) retrain (CSpawn i) :: ptrain_calls plan width retrain (i + width) t
        end
      else ptrain_calls plan width retrain i t
  end.

Definition child_eqb (a b : child_rng) : bool :=
  match a, b with
  | CSame, CSame => true
  | CSpawn i, CSpawn j => Nat.eqb i j
  | _, _ => false
  end.

Definition pcall_eqb (a b : pcall) : bool :=
  String.eqb (pc_name a) (pc_name b) && Bool.eqb (pc_retrain a) (pc_retrain b) && child_eqb (pc_rng a) (pc_rng b).

Fixpoint list_eqb {A} (e : A -> A -> bool) (l1 l2 : list A) : bool :=
  match l1, l2 with
  | [], [] => true
  | a :: t1, b :: t2 => e a b && list_eqb e t1 t2
  | _, _ => false
  end.

(* correspondence: the calls the instrumented components of a real pipeline recorded *)
(* a seed sequence supplied by the caller continues its own child numbering; a sequence wrapped
   around a plain seed inside Pipeline.train starts at 0 *)
Definition start_index (plan : seed_plan) (spawned_before : nat) : nat :=
  match plan with PlanUseGiven => spawned_before | _ => 0 end.

Definition agree_pipeline (plan_of : rng_kind -> seed_plan) (width : nat) (k : rng_kind) (retrain : bool)
           (spawned_before : nat) (ns : list pnode) (obs : list pcall) : bool :=
  list_eqb pcall_eqb (ptrain_calls (plan_of k) width retrain (start_index (plan_of k) spawned_before) ns) obs.

(* point of use: digests of the first draws of the generator each component obtained from its options
   (observed) against those of the positional children of the supplied seed (reference), pairwise distinct *)
Fixpoint zmem (x : Z) (l : list Z) : bool := match l with [] => false | y :: t => Z.eqb x y || zmem x t end.
Fixpoint nodupb (l : list Z) : bool := match l with [] => true | x :: t => negb (zmem x t) && nodupb t end.
Definition zlist_eqb (a b : list Z) : bool := list_eqb Z.eqb a b.
Definition agree_use (passthrough : bool) (observed reference : list Z) : bool :=
  passthrough && zlist_eqb observed reference && nodupb observed.

(* a whole pipeline as components with stores; non-trainable nodes carry no frame *)
Record pcomp := mkComp { cp_name : String.string; cp_frame : option frame; cp_store : store }.

Section PipelineState.
  Context {D B : Type}.                       (* B: the seed the caller supplied *)
  Variable fit : D -> B * child_rng -> store -> fitres.

  Definition child_of (plan : seed_plan) (i : nat) : child_rng :=
    match plan with PlanNoSeed => CSame | _ => CSpawn i end.
  Definition next_index (plan : seed_plan) (width i : nat) : nat :=
    match plan with PlanNoSeed => i | _ => i + width end.

  Fixpoint ptrain (plan : seed_plan) (width : nat) (d : D) (o : opts B) (i : nat) (cs : list pcomp) : list pcomp :=
    match cs with
    | [] => []
    | c :: t =>
        match cp_frame c with
        | None => c :: ptrain plan width d o i t
        | Some fr =>
            mkComp (cp_name c) (cp_frame c)
                   (train fit fr d (mkOpts (o_retrain o) (o_seed o, child_of plan i)) (cp_store c))
            :: ptrain plan width d o (next_index plan width i) t
        end
    end.

  (* a history of Pipeline.train calls; a seed given as a number is wrapped afresh by every call,
     so the children are numbered from 0 each time *)
  Fixpoint prun (plan : seed_plan) (width : nat) (h : list (D * opts B)) (cs : list pcomp) : list pcomp :=
    match h with
    | [] => cs
    | (d, o) :: t => prun plan width t (ptrain plan width d o 0 cs)
    end.
End PipelineState.

(* ---- pipeline shapes: the wiring around the component nodes ------------------------------ *)
(* A pipeline is more than its list of nodes: components are wired to each other (edges: consumer, source),
   one node may be the default, others are reachable under an alias.  Which nodes Pipeline.train visits is
   generated from the source (`pt_iterates_all_nodes`): every node of the graph, or only those some declared
   output (default node / alias) is computed from.  A trainable component on a side branch (run by name only,
   feeding no declared output) is visited only in the first case. *)
Record pshape := mkShape {
  sh_nodes : list pnode;
  sh_edges : list (String.string * String.string);       (* consumer node, source node *)
  sh_default : option String.string;
  sh_aliases : list (String.string * String.string)      (* alias, node *)
}.

Definition sh_outputs (sh : pshape) : list String.string :=
  (match sh_default sh with Some d => [d] | None => [] end) ++ map snd (sh_aliases sh).

(* backwards closure over the edges; `fuel` rounds, each adds the sources of everything found so far *)
Fixpoint feeds (fuel : nat) (edges : list (String.string * String.string)) (front : list String.string) : list String.string :=
  match fuel with
  | O => front
  | S k => feeds k edges (front ++ map snd (filter (fun e => mem (fst e) front) edges))
  end.

Definition on_output_path (sh : pshape) (n : String.string) : bool :=
  mem n (feeds (length (sh_nodes sh)) (sh_edges sh) (sh_outputs sh)).

Definition visited (all_nodes : bool) (sh : pshape) : list pnode :=
  if all_nodes then sh_nodes sh else filter (fun n => on_output_path sh (pn_name n)) (sh_nodes sh).

Definition shape_calls (all_nodes : bool) (plan : seed_plan) (width : nat) (retrain : bool) (i : nat) (sh : pshape) : list pcall :=
  ptrain_calls plan width retrain i (visited all_nodes sh).

Fixpoint count_name (a : String.string) (l : list String.string) : nat :=
  match l with
  | [] => 0
  | b :: t => (if String.eqb a b then 1 else 0) + count_name a t
  end.

Definition expected_count (n : pnode) : nat := if pn_trainable n then 1 else 0.

(* correspondence: the recorded calls of an instrumented pipeline of that shape, and the per-node counters *)
Definition agree_shape (all_nodes : bool) (plan_of : rng_kind -> seed_plan) (width : nat) (k : rng_kind) (retrain : bool)
           (spawned_before : nat) (sh : pshape) (obs : list pcall) : bool :=
  list_eqb pcall_eqb (shape_calls all_nodes (plan_of k) width retrain (start_index (plan_of k) spawned_before) sh) obs
  && forallb (fun n => Nat.eqb (count_name (pn_name n) (map pc_name obs)) (expected_count n)) (sh_nodes sh).

(* ---- object lifetimes: what a training can leave behind OUTSIDE the component ---------------- *)
(* A training history happens in a process where objects come and go.  A dataset OBJECT lives at an address and holds
   some content; when it is dropped its address is handed to a later object, so the same address can occur again in a
   history with other content.  `keeps` says whether training remembers anything outside the instance dictionary (it is
   generated from the source: module-level tables written on a train() path, memoising decorators, id()-keyed tables --
   `train_keeps_outside` in Gen/C18_frames.v).  The most general such memory is a table from the identity of the data
   to what was learned from it; with `keeps = false` the table is never consulted and never written. *)
Record dobj (D : Type) := mkObj { ob_addr : nat; ob_data : D }.
Arguments mkObj {D}. Arguments ob_addr {D}. Arguments ob_data {D}.

Definition memo (D : Type) := list (nat * D).

Fixpoint memo_get {D : Type} (a : nat) (m : memo D) : option D :=
  match m with
  | [] => None
  | (b, d) :: t => if Nat.eqb a b then Some d else memo_get a t
  end.

(* the data a training actually learns from, and the table afterwards *)
Definition data_seen {D : Type} (keeps : bool) (m : memo D) (x : dobj D) : D * memo D :=
  if keeps then
    match memo_get (ob_addr x) m with
    | Some d => (d, m)                                    (* "this object was learned from before" *)
    | None => (ob_data x, (ob_addr x, ob_data x) :: m)
    end
  else (ob_data x, m).

Section Lifetimes.
  Context {D S : Type}.
  Variable fit : D -> S -> store -> fitres.

  Definition train_life (keeps : bool) (fr : frame) (x : dobj D) (o : opts S) (cm : store * memo D) : store * memo D :=
    if guard_holds (fr_guard fr) (fst cm) && negb (o_retrain o) then cm
    else let dm := data_seen keeps (snd cm) x in (train fit fr (fst dm) o (fst cm), snd dm).

  Fixpoint run_life (keeps : bool) (fr : frame) (h : list (dobj D * opts S)) (cm : store * memo D) : store * memo D :=
    match h with
    | [] => cm
    | (x, o) :: t => run_life keeps fr t (train_life keeps fr x o cm)
    end.

  (* the fold loop of the lifetime cases: on every dataset object a freshly constructed component is trained first, then
     the long-lived one; both go through the same table.  Result: (fresh, long-lived) after every fold. *)
  Fixpoint life_trace (keeps : bool) (fr : frame) (h : list (dobj D * opts S)) (c : store) (m : memo D) : list (store * store) :=
    match h with
    | [] => []
    | (x, o) :: t =>
        let f1 := train_life keeps fr x o ([], m) in
        let l1 := train_life keeps fr x o (c, snd f1) in
        (fst f1, fst l1) :: life_trace keeps fr t (fst l1) (snd l1)
    end.

  Definition contents (h : list (dobj D * opts S)) : list (D * opts S) := map (fun xo => (ob_data (fst xo), snd xo)) h.
End Lifetimes.

(* correspondence: sampled folds of a lifetime loop.  steps: (address class of the fold's dataset object, store of the
   reference object of the fold); every call retrains.  obs_long / obs_fresh: what the long-lived / the freshly constructed
   object of the lifetime pass held after the fold. *)
Definition agree_life (keeps : bool) (fs : list frame) (cls variant : String.string)
           (steps : list (nat * store)) (obs_long obs_fresh : list store) : bool :=
  match find_frame fs cls variant with
  | None => false
  | Some fr =>
      frame_ok fr
      && forallb (fun s => subset (map fst (snd s)) (fr_wmust fr) && subset (fr_wmust fr) (map fst (snd s))) steps
      && (let h := map (fun s => (mkObj (fst s) (snd s), mkOpts true tt)) steps in
          let tr := life_trace fit_of_fresh keeps fr h [] [] in
          Nat.eqb (length tr) (length obs_long) && Nat.eqb (length tr) (length obs_fresh)
          && forallb (fun p => store_eqb (snd (fst p)) (snd p)) (combine tr obs_long)
          && forallb (fun p => store_eqb (fst (fst p)) (snd p)) (combine tr obs_fresh))
  end.
