(* C03 -- executable model of the standard recommendation / rating-prediction pipelines
   (pipeline/common.py wiring, basic/history.py, basic/candidates.py, basic/topn.py + stats.argtopn,
   basic/composite.py, data/query.py).  Definitions only; proofs are in Proofs/C03_*.v.

   The length resolution of TopNRanker and the plan selection of argtopn are NOT written here: they
   are regenerated from the source into Gen/C03_len.v on every run.

   Identifiers are integers (the harness maps user / item identifiers to Z order-isomorphically);
   a score is `option Q` (None = NaN = "not scored"). *)
From Coq Require Import ZArith QArith List Bool.
From LK Require Import Lib.QLib Lib.PyInt Lib.TopN Gen.C03_len.
Import ListNotations.
Open Scope Z_scope.

Definition scored := list (Z * option Q).          (* an item list with a score field *)
Definition hist := list (Z * option Q).            (* a user's history: items with optional rating *)

(* ---- data/query.py ---- *)
Record query := { q_user : option Z; q_items : option hist }.
Inductive qinput :=
| QNone                                             (* None *)
| QId (u : Z)                                       (* a bare identifier (int, str, bytes, numpy integer) *)
| QItems (h : hist)                                 (* an item list: taken as the history *)
| QQuery (q : query).                               (* already a query: returned as it is *)
Definition create (i : qinput) : query :=
  match i with
  | QNone => {| q_user := None; q_items := None |}
  | QId u => {| q_user := Some u; q_items := None |}
  | QItems h => {| q_user := None; q_items := Some h |}
  | QQuery q => q
  end.

(* ---- training data as the pipeline components see it ---- *)
Record dataset := {
  ds_items : list Z;                                (* item vocabulary, in vocabulary order *)
  ds_rows : list (Z * hist)                         (* user vocabulary with each user's training row *)
}.
Definition row_items (ds : dataset) (u : Z) : option hist :=
  option_map snd (find (fun r => Z.eqb (fst r) u) (ds_rows ds)).    (* None: unknown user *)

(* ---- basic/history.py: UserTrainingHistoryLookup.__call__ ---- *)
Definition lookup_history (ds : dataset) (i : qinput) : query :=
  let q := create i in
  match q_user q with
  | None => q
  | Some u =>
      match q_items q with
      | None => {| q_user := Some u; q_items := row_items ds u |}
      | Some _ => q
      end
  end.

(* ---- basic/candidates.py: UnratedTrainingItemsCandidateSelector.__call__ ---- *)
Definition memZ (i : Z) (l : list Z) : bool := existsb (Z.eqb i) l.
Definition history_ids (q : query) : list Z :=
  match q_items q with None => [] | Some h => map fst h end.
Definition select_candidates (ds : dataset) (q : query) : list Z :=
  match q_items q with
  | None => ds_items ds
  | Some h => filter (fun i => negb (memZ i (map fst h))) (ds_items ds)
  end.
(* pipeline node "candidates" = use_first_of(items input, candidate selector) *)
Definition candidates (ds : dataset) (q : query) (supplied : option (list Z)) : list Z :=
  match supplied with Some l => l | None => select_candidates ds q end.

(* ---- the scorer: any function of the looked-up query and the item ---- *)
Definition scorer := query -> Z -> option Q.
Definition score_items (sc : scorer) (q : query) (items : list Z) : scored :=
  map (fun i => (i, sc q i)) items.

(* ---- stats.argtopn + basic/topn.py ---- *)
Definition has_score (p : Z * option Q) : bool := match snd p with Some _ => true | None => false end.
Definition skey (p : Z * option Q) : Q := match snd p with Some q => q | None => 0%Q end.

(* argtopn on the score column, expressed on the rows: None = the comparison raised *)
Definition argtopn_rows (l : scored) (n : Z) : option scored :=
  let valid := filter has_score l in                               (* NaN mask, positions mapped back *)
  match argtopn_plan n (Z.of_nat (length valid)) with
  | Some PEmpty => Some []
  | Some PPart => Some (firstn (Z.to_nat n) (sort_desc skey valid))
  | Some PFull => Some (sort_desc skey valid)
  | None => None
  end.

Inductive err := ENoScores | EType | EPipeline.
Inductive result (A : Type) := Ok (a : A) | Err (e : err).
Arguments Ok {A} a. Arguments Err {A} e.

(* TopNRanker.__call__(items, n): result rows and the `ordered` flag *)
Definition topn_ranker (items : option scored) (n config_n : pyv) : result (scored * bool) :=
  match topn_len n config_n with
  | Some (Take (Some k) ordered) =>
      match items with
      | None => Err ENoScores                                        (* "input item list has no scores" *)
      | Some l => match argtopn_rows l k with Some r => Ok (r, ordered) | None => Err EType end
      end
  | Some (Take None _) => Err EType                                  (* `None >= 0` raises *)
  | Some (EmptyList ordered) => Ok ([], ordered)
  | None => Err EType
  end.

(* ---- the recommendation pipeline of RecPipelineBuilder.build / topn_pipeline ---- *)
Definition rec_pipeline (sc : scorer) (ds : dataset) (i : qinput) (supplied : option (list Z))
    (config_n run_n : pyv) : result (scored * bool) :=
  let q := lookup_history ds i in
  let cand := candidates ds q supplied in
  topn_ranker (Some (score_items sc q cand)) run_n config_n.

(* ---- basic/composite.py: FallbackScorer.__call__ ----
   an item list whose score field may be absent altogether *)
Definition ilist := (list Z * option (list (option Q)))%type.
Definition rows (l : ilist) : scored :=
  match snd l with Some s => combine (fst l) s | None => map (fun i => (i, None)) (fst l) end.
Definition of_rows (r : scored) : ilist := (map fst r, Some (map snd r)).
Definition is_nan (s : option Q) : bool := match s with None => true | Some _ => false end.
(* pandas `bs.reindex(ids)`: the backup's score for that identifier, NaN when it has none *)
Definition score_of (i : Z) (r : scored) : option Q :=
  match find (fun p => Z.eqb (fst p) i) r with Some (_, s) => s | None => None end.
Definition fallback_scorer (primary backup : ilist) : ilist :=
  match snd primary with
  | None => backup
  | Some s =>
      if negb (existsb is_nan s) then primary
      else match snd backup with
           | None => primary
           | Some _ =>
               (fst primary,
                Some (map (fun p => match snd p with Some v => Some v | None => score_of (fst p) (rows backup) end)
                          (combine (fst primary) s)))
           end
  end.

(* ---- rating prediction: predict_pipeline / RecPipelineBuilder.predicts_ratings ---- *)
Definition pred_pipeline (sc : scorer) (fb : option scorer) (ds : dataset) (i : qinput)
    (supplied : option (list Z)) : ilist :=
  let q := lookup_history ds i in
  let cand := candidates ds q supplied in
  let primary := of_rows (score_items sc q cand) in
  match fb with
  | None => primary
  | Some f => fallback_scorer primary (of_rows (score_items f q cand))
  end.

(* ---- the verified checker for a recommendation list ----
   cand: candidate identifiers; scores: the scorer's output; n: resolved length; out: the list *)
Definition Qc_eqb (a b : Q) : bool := Z.eqb (Qnum a) (Qnum b) && Pos.eqb (Qden a) (Qden b).
Definition oq_eqb (a b : option Q) : bool :=
  match a, b with Some x, Some y => Qc_eqb x y | None, None => true | _, _ => false end.
Definition row_eqb (p r : Z * option Q) : bool := Z.eqb (fst p) (fst r) && oq_eqb (snd p) (snd r).
Definition mem_row (p : Z * option Q) (l : scored) : bool := existsb (row_eqb p) l.
Fixpoint nodupb (l : list Z) : bool :=
  match l with [] => true | x :: r => negb (memZ x r) && nodupb r end.
Fixpoint nonincreasing_b (l : scored) : bool :=
  match l with
  | [] => true
  | x :: r => forallb (fun y => Qle_bool (skey y) (skey x)) r && nonincreasing_b r
  end.
Definition scorable (cand : list Z) (scores : scored) : scored :=
  (* `if`, not `&&`: under call-by-value evaluation the long candidate list is searched for scored rows only *)
  filter (fun p => if has_score p then memZ (fst p) cand else false) scores.
Definition want_len (n : Z) (m : nat) : nat := if n <? 0 then m else Nat.min (Z.to_nat n) m.

Definition rec_ok_b (cand : list Z) (scores : scored) (n : Z) (out : scored) : bool :=
  forallb (fun p => memZ (fst p) cand) out
  && nodupb (map fst out)
  && forallb has_score out
  && nonincreasing_b out
  && forallb (fun p => mem_row p scores) out
  && Nat.eqb (length out) (want_len n (length (scorable cand scores)))
  && forallb (fun t => memZ (fst t) (map fst out) || forallb (fun s => Qle_bool (skey t) (skey s)) out)
             (scorable cand scores).

(* ---- comparison helpers for the correspondence case files ---- *)
Fixpoint listZ_eqb (a b : list Z) : bool :=
  match a, b with
  | [], [] => true
  | x :: a', y :: b' => Z.eqb x y && listZ_eqb a' b'
  | _, _ => false
  end.
Definition rows_eqb (a b : scored) : bool := all2 row_eqb a b.
Definition ilist_eqb (a b : ilist) : bool :=
  listZ_eqb (fst a) (fst b) &&
  match snd a, snd b with
  | Some x, Some y => all2 oq_eqb x y
  | None, None => true
  | _, _ => false
  end.

Definition resolved (n config_n : pyv) : option Z :=
  match topn_len n config_n with Some (Take (Some k) _) => Some k | _ => None end.

(* one observed run: looked-up history, candidate list and the identifiers the scorer returned *)
Definition agree_front (ds : dataset) (i : qinput) (supplied : option (list Z))
    (o_hist : option (option (list Z))) (o_cand : list Z) (o_scored_ids : list Z) : bool :=
  let q := lookup_history ds i in
  match o_hist, q_items q with              (* outer None: no component asked for the history in this run *)
  | None, _ => true
  | Some None, None => true
  | Some (Some a), Some h => listZ_eqb a (map fst h)
  | _, _ => false
  end
  && listZ_eqb (candidates ds q supplied) o_cand
  && listZ_eqb o_scored_ids o_cand.

(* the "recommender" of the same run: scorer output and ranking go to the verified checker *)
Definition agree_rank (config_n run_n : pyv) (o_cand : list Z) (o_scores : scored) (o_out : scored) (o_ordered : bool) : bool :=
  match topn_ranker (Some o_scores) run_n config_n, resolved run_n config_n with
  | Ok (_, ordered), Some k => Bool.eqb ordered o_ordered && rec_ok_b o_cand o_scores k o_out
  | _, _ => false
  end.

(* an observed failure *)
Definition agree_err (items : option scored) (config_n run_n : pyv) (e : err) : bool :=
  match topn_ranker items run_n config_n with
  | Err e' => match e, e' with ENoScores, ENoScores | EType, EType | EPipeline, EPipeline => true | _, _ => false end
  | Ok _ => false
  end.

(* one observed run of the "rating-predictor": scorer output, fallback output (None when the lazy
   fallback was not run), merged output *)
Definition agree_pred (has_fallback : bool) (o_primary : ilist) (o_backup : option ilist) (o_pred : ilist) : bool :=
  if has_fallback
  then ilist_eqb (fallback_scorer o_primary (match o_backup with Some b => b | None => ([], Some []) end)) o_pred
       && match o_backup with
          | Some _ => true
          | None => match snd o_primary with Some s => negb (existsb is_nan s) | None => false end
          end
  else ilist_eqb o_primary o_pred.

(* the fallback model of the same run was asked about exactly the candidate items *)
Definition agree_backup_items (o_cand : list Z) (o_backup : option ilist) : bool :=
  match o_backup with Some b => listZ_eqb (fst b) o_cand | None => true end.

(* ---- the life of one pipeline object: train() and queries in any order ----
   Every trainable component of the standard pipelines replaces what it holds on train() (history lookup:
   the interaction matrix; candidate selector: the item vocabulary); answering a query changes nothing.
   So the object's state is the data set of the latest train(). *)
Inductive event :=
| Train (ds : dataset)
| Ask (i : qinput) (supplied : option (list Z)).
Definition pstate := option dataset.                      (* None: never trained *)
Definition step (st : pstate) (e : event) : pstate :=
  match e with Train ds => Some ds | Ask _ _ => st end.
Definition after (evs : list event) : pstate := fold_left step evs None.
Definition is_ask (e : event) : bool := match e with Ask _ _ => true | Train _ => false end.
(* what a recommendation / prediction request answers after a given life *)
Definition rec_after (sc : scorer) (evs : list event) (i : qinput) (supplied : option (list Z))
    (config_n run_n : pyv) : option (result (scored * bool)) :=
  option_map (fun ds => rec_pipeline sc ds i supplied config_n run_n) (after evs).
Definition pred_after (sc : scorer) (fb : option scorer) (evs : list event) (i : qinput)
    (supplied : option (list Z)) : option ilist :=
  option_map (fun ds => pred_pipeline sc fb ds i supplied) (after evs).
(* correspondence: the observed front of a run made after the events `evs` *)
Definition agree_front_after (evs : list event) (i : qinput) (supplied : option (list Z))
    (o_hist : option (option (list Z))) (o_cand : list Z) (o_scored_ids : list Z) : bool :=
  match after evs with
  | Some ds => agree_front ds i supplied o_hist o_cand o_scored_ids
  | None => false
  end.

(* ---- several pipeline objects alive in one process ----
   Objects are numbered; a process history says which object each event happened to (building and training
   other standard pipelines, asking them, in any interleaving).  Every component instance belongs to ONE
   pipeline object, so what an object holds is decided by its own events only. *)
Definition wevent := (nat * event)%type.
Definition own (k : nat) (w : list wevent) : list event :=
  map snd (filter (fun e => Nat.eqb (fst e) k) w).
Definition after_in (k : nat) (w : list wevent) : pstate := after (own k w).
Definition rec_in (sc : scorer) (k : nat) (w : list wevent) (i : qinput) (supplied : option (list Z))
    (config_n run_n : pyv) : option (result (scored * bool)) :=
  rec_after sc (own k w) i supplied config_n run_n.
Definition pred_in (sc : scorer) (fb : option scorer) (k : nat) (w : list wevent) (i : qinput)
    (supplied : option (list Z)) : option ilist :=
  pred_after sc fb (own k w) i supplied.
(* a train() of object k: the only kind of event of `post` that may change what object k answers *)
Definition trains (k : nat) (e : wevent) : bool := Nat.eqb (fst e) k && negb (is_ask (snd e)).
(* correspondence: the observed front of a run of object k made after the process history w *)
Definition agree_front_in (k : nat) (w : list wevent) (i : qinput) (supplied : option (list Z))
    (o_hist : option (option (list Z))) (o_cand : list Z) (o_scored_ids : list Z) : bool :=
  agree_front_after (own k w) i supplied o_hist o_cand o_scored_ids.

(* ---- compact literals for the catalogue-size correspondence cases (reading a 10^4-element list literal costs seconds) ---- *)
Fixpoint zrange_from (k : nat) (lo : Z) : list Z := match k with O => [] | S k' => lo :: zrange_from k' (lo + 1) end.
Definition zrange (lo n : Z) : list Z := zrange_from (Z.to_nat n) lo.                             (* lo, lo+1, ..., lo+n-1 *)
Definition nones (k : Z) : list (option Q) := repeat None (Z.to_nat k).                            (* k missing scores *)
