(* C20 -- executable model of MatrixRelationshipSet.sample_negatives and its helpers
   (src/lenskit/data/relationships.py: sample_negatives, _check_negatives, _rc_combined_nums,
   _check_negatives_and_resample, and the rc_index built in __init__).

   The random generator is an explicit stream of draws: every `rng.choice(N, size=k)` consumes the
   next k integers of the stream (each an arbitrary element of 0..N-1 -- the generator contract).
   The harness records the integers the implementation actually drew and hands them to this model,
   so outputs and warning counts must agree exactly and the stream must be used up exactly.

   The scalar pieces that decide the retry budget and the key layout (budget test, decrement,
   shift width, word type) are NOT written here: they are regenerated from the source into
   Gen/C20_shape.v on every run.  Definitions only; proofs are in Proofs/C20_*.v. *)
From Coq Require Import ZArith List Bool.
From LK Require Import Gen.C20_shape.
Import ListNotations.
Open Scope Z_scope.

(* ---- _rc_combined_nums: (rows.astype(uint64) << shift) + cols.astype(uint64), on 64-bit words ---- *)
Definition W64 : Z := 2 ^ key_word_bits.
Definition key (r c : Z) : Z := (((r mod W64) * 2 ^ key_shift) mod W64 + c mod W64) mod W64.

(* the sorted relationship table restricted to what sampling reads: (row number, column number),
   and the number of columns (length of the column vocabulary) *)
Record mat := { m_ncols : Z; m_pairs : list (Z * Z) }.

(* rc_index: pd.Index of the combined numbers of the table *)
Definition rc_index (m : mat) : list Z := map (fun p => key (fst p) (snd p)) (m_pairs m).
Definition mem_z (x : Z) (l : list Z) : bool := existsb (Z.eqb x) l.
(* _check_negatives: rc_index.get_indexer_for(nums) >= 0 *)
Definition check_negatives (m : mat) (rows cols : list Z) : list bool :=
  map (fun rc => mem_z (key (fst rc) (snd rc)) (rc_index m)) (combine rows cols).

Inductive weighting := Uniform | Popular.

Inductive res (A : Type) := Ok (a : A) | ErrValue | OutOfDraws.
Arguments Ok {A} a. Arguments ErrValue {A}. Arguments OutOfDraws {A}.

Fixpoint take (k : nat) (ds : list Z) : option (list Z * list Z) :=
  match k with
  | O => Some ([], ds)
  | S k' => match ds with
            | [] => None
            | d :: r => match take k' r with Some (a, b) => Some (d :: a, b) | None => None end
            end
  end.

(* rng.choice(N, size=k, replace=True): ValueError when N = 0 and samples are requested *)
Definition choice (N : Z) (k : nat) (ds : list Z) : res (list Z * list Z) :=
  if (N <=? 0) && negb (Nat.eqb k 0) then ErrValue
  else match take k ds with Some x => Ok x | None => OutOfDraws end.

Definition nnz (m : mat) : Z := Z.of_nat (length (m_pairs m)).
Definition pop_size (m : mat) (p : population) : Z := match p with PopCols => m_ncols m | PopRecords => nnz m end.
Definition apply_colmap (m : mat) (cm : colmap) (d : Z) : Z :=
  match cm with ColIdentity => d | ColOfRecord => snd (nth (Z.to_nat d) (m_pairs m) (0, 0)) end.
(* population and column map of each weighting are the generated ones (`match weighting`) *)
Definition pop_n (m : mat) (w : weighting) : Z :=
  pop_size m (match w with Uniform => uniform_population | Popular => popular_population end).
(* the column a draw stands for: itself (uniform) or the column of the drawn record (ccol[trows]) *)
Definition col_of (m : mat) (w : weighting) (d : Z) : Z :=
  apply_colmap m (match w with Uniform => uniform_colmap | Popular => popular_colmap end) d.

Definition draw_columns (m : mat) (w : weighting) (k : nat) (ds : list Z) : res (list Z * list Z) :=
  match choice (pop_n m w) k ds with
  | Ok (d, rest) => Ok (map (col_of m w) d, rest)
  | ErrValue => ErrValue
  | OutOfDraws => OutOfDraws
  end.

(* xs[mask] *)
Fixpoint select {A} (mask : list bool) (xs : list A) : list A :=
  match mask, xs with
  | b :: mk, x :: r => if b then x :: select mk r else select mk r
  | _, _ => []
  end.
(* xs[mask] = new *)
Fixpoint scatter {A} (mask : list bool) (xs new : list A) : list A :=
  match mask, xs with
  | true :: mk, x :: r => match new with
                          | y :: ns => y :: scatter mk r ns
                          | [] => x :: scatter mk r []
                          end
  | false :: mk, x :: r => x :: scatter mk r new
  | _, _ => xs
  end.
Definition count_true (l : list bool) : Z := Z.of_nat (length (filter (fun b => b) l)).

(* _check_negatives_and_resample(rows, columns, max_attempts, rng, weighting), with the recursive
   sample_negatives(rows[non_neg], verify=True, max_attempts=next) call unfolded (n=None there: one
   draw per failing row, then the same check).  `fuel` bounds the recursion depth for Coq only: it
   is consumed once per recursive call; the budget decisions are the generated ones, on Z.
   Returns (columns, warning counts in order, remaining stream). *)
Fixpoint resample (m : mat) (w : weighting) (fuel : nat) (budget : Z) (rows cols ds : list Z)
  : res (list Z * list Z * list Z) :=
  let hits := check_negatives m rows cols in
  if existsb (fun b => b) hits then
    if budget_positive budget then
      match fuel with
      | O => OutOfDraws
      | S fuel' =>
        let rows' := select hits rows in
        match draw_columns m w (length rows') ds with
        | Ok (cols', ds1) =>
          match resample m w fuel' (budget_next budget) rows' cols' ds1 with
          | Ok (new, warns, ds2) => Ok (scatter hits cols new, warns, ds2)
          | ErrValue => ErrValue
          | OutOfDraws => OutOfDraws
          end
        | ErrValue => ErrValue
        | OutOfDraws => OutOfDraws
        end
      end
    else if warn_on_exhaustion then Ok (cols, [count_true hits], ds) else Ok (cols, [], ds)
  else Ok (cols, [], ds).

(* enough fuel for every draw of the stream to be used: each level with hits consumes >= 1 draw *)
Definition fuel_for (ds : list Z) : nat := S (length ds).

Fixpoint resample_cols (m : mat) (w : weighting) (budget : Z) (rows : list Z) (cols : list (list Z)) (ds : list Z)
  : res (list (list Z) * list Z * list Z) :=
  match cols with
  | [] => Ok ([], [], ds)
  | c :: cs =>
    match resample m w (fuel_for ds) budget rows c ds with
    | Ok (c', w1, ds1) =>
      match resample_cols m w budget rows cs ds1 with
      | Ok (cs', w2, ds2) => Ok (c' :: cs', w1 ++ w2, ds2)
      | ErrValue => ErrValue
      | OutOfDraws => OutOfDraws
      end
    | ErrValue => ErrValue
    | OutOfDraws => OutOfDraws
    end
  end.

(* column j of a row-major (len x k) array *)
Definition column_of (len k j : nat) (d : list Z) : list Z :=
  map (fun i => nth (i * k + j) d 0) (seq 0 len).

(* sample_negatives(rows, weighting=w, n=n, verify=verify, max_attempts=att, rng=<stream ds>).
   The result is the list of output COLUMNS (one for n=None; n of them otherwise, each of length
   len(rows)), the warning counts in order of emission, and the unused rest of the stream. *)
Definition sample (m : mat) (w : weighting) (verify : bool) (att : Z) (n : option nat) (rows ds : list Z)
  : res (list (list Z) * list Z * list Z) :=
  let len := length rows in
  let k := match n with None => 1%nat | Some k => k end in
  match draw_columns m w (len * k) ds with
  | Ok (d, ds1) =>
    let cols := map (fun j => column_of len k j d) (seq 0 k) in
    if verify then resample_cols m w att rows cols ds1 else Ok (cols, [], ds1)
  | ErrValue => ErrValue
  | OutOfDraws => OutOfDraws
  end.

Definition shape_of (n : option nat) (rows : list Z) : list Z :=
  match n with None => [Z.of_nat (length rows)] | Some k => [Z.of_nat (length rows); Z.of_nat k] end.

(* ---- comparison with an observation of the implementation ---- *)
Fixpoint eqb_zs (a b : list Z) : bool :=
  match a, b with
  | [], [] => true
  | x :: a', y :: b' => Z.eqb x y && eqb_zs a' b'
  | _, _ => false
  end.
Fixpoint eqb_zss (a b : list (list Z)) : bool :=
  match a, b with
  | [], [] => true
  | x :: a', y :: b' => eqb_zs x y && eqb_zss a' b'
  | _, _ => false
  end.

(* oerr: 0 = returned, 1 = ValueError.  The whole recorded stream must be consumed. *)
Definition agree_sample (m : mat) (w : weighting) (verify : bool) (att : Z) (n : option nat) (rows ds : list Z)
    (oerr : nat) (oshape : list Z) (ocols : list (list Z)) (owarns : list Z) : bool :=
  match sample m w verify att n rows ds with
  | Ok (cols, warns, rest) =>
      Nat.eqb oerr 0 && eqb_zs (shape_of n rows) oshape && eqb_zss cols ocols && eqb_zs warns owarns
      && match rest with [] => true | _ => false end
  | ErrValue => Nat.eqb oerr 1
  | OutOfDraws => false
  end.
