(* C01 -- comparison of the model with observations of the implementation (used by the case files). *)
From Coq Require Import ZArith QArith List Bool Arith.
From LK Require Import Lib.QLib Model.C01_dataset.
Import ListNotations.
Open Scope Z_scope.

Fixpoint eqb_zs (a b : list Z) : bool :=
  match a, b with
  | [], [] => true
  | x :: a', y :: b' => Z.eqb x y && eqb_zs a' b'
  | _, _ => false
  end.
Definition eqb_ns (a : list nat) (b : list Z) : bool := eqb_zs (map Z.of_nat a) b.
Definition eqb_oz (a b : option Z) : bool :=
  match a, b with None, None => true | Some x, Some y => Z.eqb x y | _, _ => false end.
Fixpoint eqb_ozs (a b : list (option Z)) : bool :=
  match a, b with
  | [], [] => true
  | x :: a', y :: b' => eqb_oz x y && eqb_ozs a' b'
  | _, _ => false
  end.
Fixpoint all2 {A B} (f : A -> B -> bool) (a : list A) (b : list B) : bool :=
  match a, b with
  | [], [] => true
  | x :: a', y :: b' => f x y && all2 f a' b'
  | _, _ => false
  end.

Definition err_code (e : option err) : nat :=
  match e with None => 0 | Some EData => 1 | Some ENotImpl => 2 | Some ERuntime => 3 | Some EAssert => 4 end%nat.

(* per-operation error classes and the vocabularies after each operation *)
Definition agree_log (log : list (option err * (vocab * vocab))) (obs : list (nat * (list Z * list Z))) : bool :=
  all2 (fun l o => Nat.eqb (err_code (fst l)) (fst o) && eqb_zs (fst (snd l)) (fst (snd o)) && eqb_zs (snd (snd l)) (snd (snd o))) log obs.

Definition orow : Type := Z * Z * list (option Z).        (* None: the view shows null / NaN / NaT *)
Definition shown (d : dataset) (a : attrs) : attrs := select (d_cols d) a.   (* the columns the table carries *)

Definition eqb_rec (d : dataset) (r : rec) (o : orow) : bool :=
  Z.eqb (Z.of_nat (r_u r)) (fst (fst o)) && Z.eqb (Z.of_nat (r_i r)) (snd (fst o)) && eqb_ozs (shown d (r_a r)) (snd o).
Definition eqb_irow (d : dataset) (r : irow) (o : orow) : bool :=
  Z.eqb (fst (fst r)) (fst (fst o)) && Z.eqb (snd (fst r)) (snd (fst o)) && eqb_ozs (shown d (snd r)) (snd o).

(* one statistics row as observed: record_count, <other>_count, count, rating part, time part *)
Definition ostat : Type := Z * Z * Z * option (Z * option Q) * option (option Z * option Z).

Definition agree_stat (s : schema) (d : dataset) (m : stat_row) (o : ostat) : bool :=
  let '(recs, other, cnt, rpart, tpart) := o in
  Z.eqb (Z.of_nat (st_records m)) recs && Z.eqb (Z.of_nat (st_other m)) other && Z.eqb (Z.of_nat (st_records m)) cnt &&
  match rpart with
  | Some (rc, mean) =>
      has_rating s (d_cols d) && Z.eqb (Z.of_nat (st_ratings m)) rc &&       (* counts the ratings that exist *)
      match mean with
      | None => Nat.eqb (st_ratings m) 0
      | Some q => negb (Nat.eqb (st_ratings m) 0) &&
                  close tol64 q (inject_Z (st_rating_sum2 m) / inject_Z (2 * Z.of_nat (st_ratings m)))
      end
  | None => negb (has_rating s (d_cols d))
  end &&
  match tpart with
  | Some (f, l) => has_ts s (d_cols d) && eqb_oz (st_first m) f && eqb_oz (st_last m) l
  | None => negb (has_ts s (d_cols d))
  end.

Inductive vobs :=
  | OUsers (ids : list Z)
  | OItems (ids : list Z)
  | OTable (rows : list orow)                              (* by numbers, all attribute columns *)
  | OTableIds (rows : list orow)                           (* with original ids *)
  | OCsr (f : field) (ptrs cols : list Z) (vals : list (option Z)) (nrows ncols : Z)
  | OCoo (f : field) (rows cols : list Z) (vals : list (option Z)) (nrows ncols : Z)
  | OCooIds (f : field) (uids iids : list Z) (vals : list (option Z))   (* a table restricted to one attribute, with original ids *)
  | ONnz (n : Z)
  | OUserRow (u : Z) (row : option (list orow))            (* (item id, item number, attrs) *)
  | OUserRowNum (n : Z) (row : list orow)
  | OStats (c : cls) (rows : list ostat)
  | ONumber (c : cls) (t : Z) (r : option Z)               (* number(term, missing="none"); raised under "error" iff None *)
  | ONumbers (c : cls) (ts : list Z) (r : list Z) (raised : bool)   (* numbers(missing="negative"), and whether "error" raised *)
  | OTerms (c : cls) (nums : list Z) (r : list Z).

Definition vocab_of (d : dataset) (c : cls) : vocab := match c with User => d_users d | Item => d_items d end.
Definition num_z (v : vocab) (t : Z) : Z := match index_of t v with Some n => Z.of_nat n | None => -1 end.

Definition agree_row (d : dataset) (row : list (nat * attrs)) (o : list orow) : bool :=
  all2 (fun ia (x : orow) => Z.eqb (term (d_items d) (fst ia)) (fst (fst x)) && Z.eqb (Z.of_nat (fst ia)) (snd (fst x))
                             && eqb_ozs (shown d (snd ia)) (snd x)) row o.

Definition agree_view (s : schema) (d : dataset) (v : vobs) : bool :=
  match v with
  | OUsers ids => eqb_zs (d_users d) ids
  | OItems ids => eqb_zs (d_items d) ids
  | OTable rows => all2 (eqb_rec d) (view_table d) rows
  | OTableIds rows => all2 (eqb_irow d) (view_table_ids d) rows
  | OCsr f ptrs cols vals nr nc =>
      let '(p, c, x) := view_csr d f in
      eqb_ns p ptrs && eqb_ns c cols && eqb_ozs x vals && Z.eqb (Z.of_nat (length (d_users d))) nr && Z.eqb (Z.of_nat (length (d_items d))) nc
  | OCoo f rows cols vals nr nc =>
      let '(r, c, x) := view_coo d f in
      eqb_ns r rows && eqb_ns c cols && eqb_ozs x vals && Z.eqb (Z.of_nat (length (d_users d))) nr && Z.eqb (Z.of_nat (length (d_items d))) nc
  | OCooIds f uids iids vals =>
      let '(r, c, x) := view_coo d f in
      eqb_zs (map (term (d_users d)) r) uids && eqb_zs (map (term (d_items d)) c) iids && eqb_ozs x vals
  | ONnz n => Z.eqb (Z.of_nat (view_nnz d)) n
  | OUserRow u row =>
      match view_user_row d u, row with
      | None, None => true
      | Some r, Some o => agree_row d r o
      | _, _ => false
      end
  | OUserRowNum n row => agree_row d (row_of d (Z.to_nat n)) row
  | OStats c rows => all2 (agree_stat s d) (view_stats s c d) rows
  | ONumber c t r => eqb_oz (option_map Z.of_nat (index_of t (vocab_of d c))) r
  | ONumbers c ts r raised =>
      eqb_zs (map (num_z (vocab_of d c)) ts) r && Bool.eqb raised (existsb (fun t => negb (known (vocab_of d c) t)) ts)
  | OTerms c nums r => eqb_zs (map (fun n => term (vocab_of d c) (Z.to_nat n)) nums) r
  end.

(* the whole case: operation log, then either the build error or all views *)
Definition agree_case (s : schema) (allow_repeats : bool) (ops : list op)
    (olog : list (nat * (list Z * list Z))) (obuild : nat) (views : list vobs) : bool :=
  let '(st, log) := run s (init_state allow_repeats) ops in
  agree_log log olog &&
  match build st with
  | Ok d => Nat.eqb obuild 0 && forallb (agree_view s d) views
  | Err e => Nat.eqb obuild (err_code (Some e))
  end.

(* from_interactions_df: the documented expansion into builder operations, run in one go; the call
   raises the first error of the expansion *)
Definition agree_oneshot (s : schema) (ops : list op) (obuild : nat) (views : list vobs) : bool :=
  let '(st, log) := run s (init_state false) ops in
  match find (fun l => match fst l with Some _ => true | None => false end) log with
  | Some l => Nat.eqb obuild (err_code (fst l))
  | None =>
    match build st with
    | Ok d => Nat.eqb obuild 0 && forallb (agree_view s d) views
    | Err e => Nat.eqb obuild (err_code (Some e))
    end
  end.
